#!/bin/bash
# Run the checks against behaviour-preserving refactors (false-alarm measurement).
# Usage: tools/benign.sh <repo-copy> <patch.diff> <Cxx>...   — the repo copy is modified and restored; never /repo.
set -u
cd "$(dirname "$0")/.."
R="$1"; P="$(realpath "$2")"; shift 2
[ "$R" = "/repo" ] && { echo "refusing to run on /repo"; exit 2; }
export VERIF_REPO="$R"
git -C "$R" checkout -q -- . && git -C "$R" clean -fdq
if ! git -C "$R" apply "$P"; then echo "$P PATCH-FAILED"; exit 0; fi
for prop in "$@"; do
  out=$(./check "$prop" ${TIER:-quick} 2>&1); rc=$?
  v=$(echo "$out" | grep '^VIOLATION' | head -1)
  if [ $rc -eq 0 ]; then echo "$P $prop QUIET"
  elif echo "$v" | grep -q no-failing-input-found; then echo "$P $prop NO-INPUT :: $(echo "$out" | grep 'not re-established' | head -3 | tr '\n' ' ' | cut -c1-400)"
  else echo "$P $prop ALARM-WITH-INPUT :: $(echo "$out" | grep -A1 '^VIOLATION' | tail -1 | cut -c1-300)"; fi
done
git -C "$R" checkout -q -- . && git -C "$R" clean -fdq
