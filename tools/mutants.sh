#!/bin/bash
# Run the checks against the seeded changes (seeded/<id>/<k>/patch.diff and seeded/incoming/...).
# Usage: tools/mutants.sh <repo-copy> [ids...]   — the repo copy is modified and restored; never /repo.
# Prints one line per (mutant, property): DETECTED (with/without replay) or MISSED.
set -u
cd "$(dirname "$0")/.."
R="$1"; shift
[ "$R" = "/repo" ] && { echo "refusing to run on /repo"; exit 2; }
export VERIF_REPO="$R"
dirs="$@"
[ -z "$dirs" ] && dirs=$(ls -d seeded/C*/* seeded/incoming/C*/* 2>/dev/null)
for d in $dirs; do
  [ -f "$d/patch.diff" ] || continue
  prop=$(echo "$d" | grep -o 'C[0-9][0-9]' | head -1)
  git -C "$R" checkout -q -- . && git -C "$R" clean -fdq
  if ! git -C "$R" apply "$PWD/$d/patch.diff"; then echo "$d $prop PATCH-FAILED"; continue; fi
  out=$(./check "$prop" ${TIER:-quick} 2>&1); rc=$?
  v=$(echo "$out" | grep '^VIOLATION' | head -1)
  if [ $rc -eq 1 ] && [ -n "$v" ]; then
    if echo "$v" | grep -q no-failing-input-found; then echo "$d $prop DETECTED(no-input) :: $(echo "$out" | grep 'not re-established' | head -2 | tr '\n' ' ' | cut -c1-300)";
    else echo "$d $prop DETECTED(input) :: $(echo "$out" | grep -A1 '^VIOLATION' | tail -1 | cut -c1-300)"; fi
  else echo "$d $prop MISSED rc=$rc :: $(echo "$out" | tail -2 | tr '\n' ' ' | cut -c1-300)"; fi
  git -C "$R" checkout -q -- . && git -C "$R" clean -fdq
done
# leave the tree clean and re-extract from the pristine copy
./check C16 quick >/dev/null 2>&1
