#!/usr/bin/env python3
"""Regenerate MANIFEST.json from the table below (one entry per claimed property)."""
import json, os
V = os.path.dirname(os.path.dirname(os.path.abspath(__file__)))
props = json.load(open(V + "/props.json"))
TB = ("Trusted: Lean 4.33 kernel; axioms propext/Classical.choice/Quot.sound only (audited per theorem each run); the syntactic fact extractor "
      "go/cmd/extract with the pinned AST skeletons (expected/); the correspondence harness and driver glue; Go's math/big, strings, crypto/sha256 "
      "behave as modelled (tied by differential execution only).")
T = {
 "C01": ("Lean theorems c01_encode/c01_wordcount/c01_shape: for every digest function, every entropy of a legal size and each of the ten languages the model of NewMnemonicByEntropy (big-integer peel over the regenerated constants, switch and tables) returns exactly the bit-string BIP39 sentence over the pinned canonical list, with the right separator and word count. Tie: regenerated Gen facts + pinned skeletons of fromEntropy/NewMnemonicByEntropy, and enc correspondence on directed entropy classes (every first-SHA-byte value, position x index pairs).", "6 C01", "Lean 4 proof (induction on bit strings / base-2048 digits) + regenerated facts + differential correspondence"),
 "C02": ("c02_roundtrip/c02_complete/c02_isValid/c02_reader: every generated sentence, and every sentence of 12..24 list words with a correct checksum (either separator), is accepted by the model of CheckMnemonic/IsMnemonicValid; rests on the validator master theorem checkTokens_eq_classify (model = specification's classification for every token list) and the NFKD laws.", "6 C02", "Lean 4 proof (validator = spec classification; NFKD split laws; kernel-evaluated table facts) + correspondence"),
 "C03": ("c03_sound/c03_sound_validWs/c03_unsupported/c03_isValid_iff: an accepted string has, as whitespace-separated tokens of its NFKD form, 12..24 canonical list words with the BIP39 checksum over the ENT/8-byte entropy; unsupported language values accept nothing; IsMnemonicValid <-> nil. Correspondence sweeps all 2048 last words (accept count 2^(11-n/3)).", "6 C03", "Lean 4 proof (validator = spec classification) + exhaustive last-word sweeps in the correspondence"),
 "C05": ("c05_decode/c05_injective/c05_bitflip: the standard decoding of the returned mnemonic (plain search in the canonical list) gives back the entropy; hence injectivity, also across sizes.", "6 C05", "Lean 4 proof (bit-string round trip, Nodup from certificate tree) + correspondence with an independent decoder"),
 "C06": ("c06_ok/c06_wordcount/c06_fail/c06_eof_kinds: for EVERY reader script (any fragmentation, zero-length reads, errors with/without bytes) NewMnemonic returns the sentence of the first 4n/3 delivered bytes, or else the io.ReadFull error and no mnemonic. Correspondence enumerates every failure point x kind through the verif-tagged source swap.", "6 C06", "Lean 4 proof (induction over reader scripts) + exhaustive failure-point enumeration against the real io.ReadFull"),
 "C08": ("c08_canonical/c08_wellformed/c08_inverse: by kernel evaluation (decide +kernel) of the complete regenerated tables: each list() arm yields the pinned canonical list; 2048 distinct non-empty words without White_Space, NFKD-stable (all 20480 words against the pinned Unicode 15 tables); mapping() is the inverse. Correspondence observes all 10x2048 words through the API.", "6 C08", "Lean 4 kernel evaluation of whole tables lifted by certificate lemmas + exhaustive API sweep"),
 "C09": ("c09_entropy_gate/c09_words_gate for every Int (omega), c09_entropy/c09_words/c09_no_read: success exactly on the five sizes, otherwise the sentinel outcome, empty string and zero Read calls.", "6 C09", "Lean 4 proof (omega over all ints, regenerated gate constants) + length/count sweeps"),
 "C14": ("c14_new_by_entropy/c14_new/c14_check/c14_string: in the panic-aware model (every slice/index/make/Quo/FillBytes panic of the Go code is an explicit outcome) no exported function reaches a panic for any argument; termination by structural recursion. Run time on huge inputs is only tested.", "6 C14", "Lean 4 proof over a panic-aware model + hostile-argument correspondence under recover/watchdog"),
 "C15": ("c15_count/c15_unknown/c15_checksum/c15_nil/c15_format: which outcome (ErrWordLen / unknown-word error naming the first unknown token and position / ErrChecksumIncorrect / nil) each class of sentence gets; identifiers per return site are in the pinned skeleton; errors.Is and message text are checked by the harness.", "6 C15", "Lean 4 proof (corollaries of validator = spec classification) + errors.Is/message correspondence"),
 "C16": ("c16_all: for EVERY int the model of the generated String() (regenerated name/index tables and bounds test) returns the declared identifier of the ten constants and Language(N) otherwise, without panicking; c16_names/c16_distinct/c16_other.", "6 C16", "Lean 4 proof (decide over the ten constants + arithmetic for all other ints) + lstr sweep"),
}
man = json.load(open(V + "/MANIFEST.json"))
checks, na = [], []
for i in range(1, 18):
    pid = "C%02d" % i
    if pid in T and pid in props:
        text, ref, tech = T[pid]
        checks.append({
            "property_id": pid, "quick_cmd": "./check %s quick" % pid, "thorough_cmd": "./check %s thorough" % pid,
            "evidence_file": "evidence/%s.json" % pid, "replay_cmd_template": "./check --replay {path}", "engine": "lean4-model+correspondence",
            "level_claimed": {"category": "proof", "text": text, "design_ref": "DESIGN.md §" + ref},
            "level_note": TB, "technique": tech})
    else:
        na.append({"property_id": pid, "reason": "check not built yet (work in progress; see DESIGN.md §9)"})
man["checks"] = checks
man["not_applicable"] = na
man["engines"] = [{"name": "lean4-model+correspondence", "path": "check", "serves_properties": [c["property_id"] for c in checks],
                   "kind_free_text": "Lean 4 theorems about a hand-written model parameterised by facts regenerated from /repo (go/cmd/extract), tied to the code by pinned AST skeletons and by a differential correspondence harness (go/cmd/harness vs the native Lean executable bip39model)"}]
man["notes"] = "VERIF_SEED seeds every generator (default 1). known_findings.json lists recorded findings. See DESIGN.md."
json.dump(man, open(V + "/MANIFEST.json", "w"), indent=1, ensure_ascii=False)
print(len(checks), "checks,", len(na), "not applicable")
