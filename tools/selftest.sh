#!/bin/bash
# Self-test of the machinery (not a registered check): on a scratch worktree of /repo,
#   1. harmless edits (comments, renamed locals, an equivalent rewrite of the size gates) must stay quiet;
#   2. a panel of seeded changes must be reported.
# Usage: tools/selftest.sh    (creates and removes its own worktree under /tmp)
set -u
cd "$(dirname "$0")/.."
R=$(mktemp -d /tmp/bip39-selftest-XXXX); rmdir "$R"
git -C /repo worktree add -q --detach "$R" HEAD || exit 2
trap 'git -C /repo worktree remove --force "$R" >/dev/null 2>&1; git -C /repo worktree prune' EXIT
export VERIF_REPO="$R"
fail=0
quiet() { # name, property...
  name="$1"; shift
  for p in "$@"; do
    out=$(./check "$p" quick 2>&1); rc=$?
    if [ $rc -ne 0 ]; then echo "FALSE-ALARM $name $p: $(echo "$out" | grep -A2 '^VIOLATION' | head -3 | tr '\n' ' ' | cut -c1-300)"; fail=1; else echo "quiet $name $p"; fi
  done
  git -C "$R" checkout -q -- .
}
# 1a comments and formatting
sed -i 's|// entropy hash|// entropy hash\n\t// (SHA-256 of the raw entropy)|' "$R/entropy.go"
sed -i 's|// get checksum|// get checksum bits|' "$R/mnemonic.go"
quiet comments C01 C03
# 1b renamed locals
sed -i 's/\bcsBitLen\b/checksumBits/g; s/\bwordIdx\b/cur/g' "$R/entropy.go"
sed -i 's/\bcsBig\b/checksumInt/g; s/\bpartBig\b/part/g' "$R/mnemonic.go"
quiet renamed-locals C01 C02
# 1c equivalent gate rewrites
sed -i 's/if entLen < 16 || entLen > 32 || entLen%4 != 0 {/if entLen%4 != 0 || !(entLen >= 16 \&\& entLen <= 32) {/' "$R/bip39.go"
sed -i 's/if length < 12 || length > 24 || length%3 != 0 {/if !(length >= 12 \&\& length <= 24 \&\& length%3 == 0) {/' "$R/bip39.go"
sed -i 's/if wordCount%3 != 0 || wordCount < 12 || wordCount > 24 {/if wordCount < 12 || 24 < wordCount || wordCount%3 > 0 {/' "$R/mnemonic.go"
(cd "$R" && GOFLAGS=-mod=mod GOPROXY=off GOSUMDB=off GOTOOLCHAIN=local go build ./... ) || { echo "selftest: gate rewrite does not compile"; fail=1; }
quiet gate-rewrite C09 C15 C14
# 1d a harmless restructuring of two function bodies: extra locals, moved pure statements (the skeletons
#    no longer match; the regenerated translation is re-proved equal to the model)
python3 - "$R" <<'PY'
import sys
r = sys.argv[1]
p = r + "/entropy.go"; s = open(p).read()
s = s.replace("csBitLen := uint(len(entropy) / 4)", "entLen := len(entropy)\n\tcsBitLen := uint(entLen / 4)")
s = s.replace("\twordList := make([]string, wordLen)\n\tlgList := lg.list()\n", "\tlgList := lg.list()\n\twordList := make([]string, wordLen)\n")
open(p, "w").write(s)
p = r + "/mnemonic.go"; s = open(p).read()
s = s.replace("wordCount := len(wordList)\n", "wordCount := len(wordList)\n\tcsLen := wordCount / 3\n")
s = s.replace("var shift int64 = 1 << uint(wordCount/3)", "var shift int64 = 1 << uint(csLen)")
open(p, "w").write(s)
PY
(cd "$R" && GOFLAGS=-mod=mod GOPROXY=off GOSUMDB=off GOTOOLCHAIN=local go build ./... && go test ./... >/dev/null 2>&1) || { echo "selftest: restructuring does not build/pass"; fail=1; }
quiet restructured C01 C03 C13
# 1e magic numbers given names (new package-level integer constants used by two functions)
python3 - "$R" <<'PY'
import sys
r = sys.argv[1]
p = r + "/mnemonic.go"; s = open(p).read()
s = s.replace("// IsMnemonicValid validate menemonic", "const bitsPerWord = 11\n\n// IsMnemonicValid validate menemonic")
s = s.replace("uint(wordCount-wordIdx-1)*11", "uint(wordCount-wordIdx-1)*bitsPerWord")
open(p, "w").write(s)
p = r + "/bip39.go"; s = open(p).read()
s = s.replace("// cryptoRander is a test stub", "const seedIterations, seedLen = 2048, 64\n\n// cryptoRander is a test stub") if False else s
open(p, "w").write(s)
PY
(cd "$R" && GOFLAGS=-mod=mod GOPROXY=off GOSUMDB=off GOTOOLCHAIN=local go build ./... && go test ./... >/dev/null 2>&1) || { echo "selftest: named constants do not build/pass"; fail=1; }
quiet named-constant C03 C15
# 1f the trailing `if … { return A }; return B` of fromEntropy written as if/else
python3 - "$R" <<'PY'
import sys
p = sys.argv[1] + "/entropy.go"; s = open(p).read()
a = s.index("\tif lg == Japanese {")
s = s[:a] + '\tif lg == Japanese {\n\t\treturn strings.Join(wordList, "\\u3000")\n\t} else {\n\t\treturn strings.Join(wordList, "\\x20")\n\t}\n}\n'
open(p, "w").write(s)
PY
(cd "$R" && GOFLAGS=-mod=mod GOPROXY=off GOSUMDB=off GOTOOLCHAIN=local go build ./... && go test ./... >/dev/null 2>&1) || { echo "selftest: if/else variant does not build/pass"; fail=1; }
quiet if-else C01
# 1g the AST normalisation pass (DESIGN.md §11.15): helper gates with named constants; sha256.Sum256 with a slice;
#    and the round-2 benign refactors that are re-proved (cosmetic ones of every file, the equivalent rewrite of
#    bip39.go and of language_string.go)
patchquiet() { # patch, property...
  pf="$1"; shift
  git -C "$R" checkout -q -- . && git -C "$R" clean -fdq
  git -C "$R" apply "$PWD/$pf" || { echo "selftest: $pf does not apply"; fail=1; return; }
  quiet "$(basename $(dirname $pf))/$(basename $pf)" "$@"
  git -C "$R" clean -fdq
}
patchquiet tools/probes/helper_gates_ok.diff C09
patchquiet tools/probes/sum256_ok.diff C01 C03
patchquiet seeded/benign2/bip39/patch1.diff C09
patchquiet seeded/benign2/bip39/patch2.diff C09 C06
patchquiet seeded/benign2/entropy/patch1.diff C01
patchquiet seeded/benign2/mnemonic/patch1.diff C02
patchquiet seeded/benign2/newm/patch1.diff C02 C04
patchquiet seeded/benign2/seed/patch1.diff C04
patchquiet seeded/benign2/lang/patch1.diff C13
patchquiet seeded/benign2/langstring/patch1.diff C16
patchquiet seeded/benign2/langstring/patch2.diff C16
#    ... and the same kind of edit with a mistake in it must be reported
for bad in tools/probes/helper_gate_mod2_bad.diff tools/probes/helper_swapped_args_bad.diff; do
  git -C "$R" checkout -q -- . && git -C "$R" clean -fdq
  git -C "$R" apply "$PWD/$bad"
  out=$(./check C09 quick 2>&1); rc=$?
  if [ $rc -eq 1 ] && echo "$out" | grep -q '^VIOLATION'; then echo "reported $(basename $bad)"; else echo "MISSED $(basename $bad)"; fail=1; fi
  git -C "$R" checkout -q -- . && git -C "$R" clean -fdq
done
# 2 seeded changes
res=$(tools/mutants.sh "$R" seeded/C01/1 seeded/C03/2 seeded/C06/2 seeded/C09/2 seeded/C10/1 seeded/C13/2 seeded/C16/2 2>&1)
echo "$res" | cut -c1-160
echo "$res" | grep -q MISSED && fail=1
[ $fail -eq 0 ] && echo "SELFTEST PASSED" || echo "SELFTEST FAILED"
exit $fail
