#!/bin/bash
# Probes of the translator + refinement tie (not a registered check): small edits of the function bodies
# that the translator ACCEPTS or must REFUSE.  For each: apply to a scratch worktree, run the extractor,
# build the refinement module.  Expected: a behaviour-changing edit breaks its refinement theorem (or is
# refused); an alias-creating edit is refused.  Usage: tools/refine_probes.sh
set -u
cd "$(dirname "$0")/.."
R=$(mktemp -d /tmp/bip39-probes-XXXX); rmdir "$R"
git -C /repo worktree add -q --detach "$R" HEAD || exit 2
trap 'git -C /repo worktree remove --force "$R" >/dev/null 2>&1; git -C /repo worktree prune; bin/extract -repo /repo -out lean/Bip39V/Gen -facts lean/facts.json -expected expected/skeleton.json >/dev/null' EXIT
export GOFLAGS=-mod=mod GOPROXY=off GOSUMDB=off GOTOOLCHAIN=local
fail=0
probe() { # name file from to module expect(broken|refused|proved)
  name="$1"; file="$2"; from="$3"; to="$4"; mod="$5"; expect="$6"
  python3 - "$R/$file" "$from" "$to" <<'PY' || { echo "probe $name: pattern not found"; fail=1; return; }
import sys
p,a,b=sys.argv[1:4]; s=open(p).read()
if a not in s: sys.exit(1)
open(p,'w').write(s.replace(a,b,1))
PY
  (cd "$R" && go build ./... ) || { echo "probe $name: does not compile"; fail=1; git -C "$R" checkout -q -- .; return; }
  bin/extract -repo "$R" -out lean/Bip39V/Gen -facts /tmp/facts_probe.json -expected expected/skeleton.json >/dev/null
  refused=$(python3 -c "import json;f=json.load(open('/tmp/facts_probe.json'));print(sum(1 for v in f['translated'].values() if v))")
  errs=$(cd lean && lake build $mod 2>&1 | grep -c '^error')
  if [ "$refused" != "0" ]; then got=refused; elif [ "$errs" != "0" ]; then got=broken; else got=proved; fi
  [ "$got" = "$expect" ] && echo "probe $name: $got (as expected)" || { echo "probe $name: $got, EXPECTED $expect"; fail=1; }
  git -C "$R" checkout -q -- .
}
probe loop-bound   entropy.go "i >= 0; i--" "i >= 1; i--" Bip39V.Props.Refine.FromEntropy broken
probe lang-compare entropy.go "lg == Japanese" "lg == Korean" Bip39V.Props.Refine.FromEntropy broken
probe hash-slice   entropy.go "hash.Sum(nil)[0:1]" "hash.Sum(nil)[1:2]" Bip39V.Props.Refine.FromEntropy broken
probe shift-base   entropy.go "1<<(8-csBitLen)" "1<<(7-csBitLen)" Bip39V.Props.Refine.FromEntropy broken
probe quo-before-and mnemonic.go "	csBig := new(big.Int).And(entBig, big.NewInt(shift-1))

	// get real entropy
	entBytes := entBig.Quo(entBig, big.NewInt(shift)).FillBytes(make([]byte, wordCount/3*4))" "	entBytes := entBig.Quo(entBig, big.NewInt(shift)).FillBytes(make([]byte, wordCount/3*4))
	csBig := new(big.Int).And(entBig, big.NewInt(shift-1))" Bip39V.Props.Refine.CheckMnemonic broken
probe alias        mnemonic.go "	csBig := new(big.Int).And(entBig, big.NewInt(shift-1))" "	csBig := entBig.And(entBig, big.NewInt(shift-1))" Bip39V.Props.Refine.CheckMnemonic refused
probe cmp          mnemonic.go "sum.Cmp(csBig) != 0" "sum.Cmp(csBig) > 0" Bip39V.Props.Refine.CheckMnemonic broken
probe word-shift   mnemonic.go "uint(wordCount-wordIdx-1)*11" "uint(wordCount-wordIdx)*11" Bip39V.Props.Refine.CheckMnemonic broken
probe string-bound language_string.go "i >= Language(len(_Language_index)-1)" "i > Language(len(_Language_index)-1)" Bip39V.Props.Refine.LanguageString broken
probe string-wrap  language_string.go "i >= Language(len(_Language_index)-1)" "i+1 >= Language(len(_Language_index))" Bip39V.Props.Refine.LanguageString broken
probe buf-size     bip39.go "make([]byte, length+length/3)" "make([]byte, length+length/4)" Bip39V.Props.Refine.NewMnemonic broken
probe salt-order   bip39.go '"mnemonic" + passphrase' 'passphrase + "mnemonic"' Bip39V.Props.Refine.MnemonicToSeed broken
probe param-write  entropy.go "	wordIdx := new(big.Int)" "	wordIdx := new(big.Int)
	entropy[0] = 0" Bip39V.Props.Refine.FromEntropy refused
probe list-arm     lang.go "	case Korean:
		return wordlist.Korean" "	case Korean:
		return wordlist.Spanish" Bip39V.Props.Refine.LanguageList broken
# harmless edits: must still be proved
probe extra-local  entropy.go "csBitLen := uint(len(entropy) / 4)" "entLen := len(entropy)
	csBitLen := uint(entLen / 4)" Bip39V.Props.Refine.FromEntropy proved
probe hex-literal  entropy.go "big.NewInt(2047)" "big.NewInt(0x7ff)" Bip39V.Props.Refine.FromEntropy proved
[ $fail -eq 0 ] && echo "PROBES PASSED" || echo "PROBES FAILED"
exit $fail
