#!/bin/bash
# Confirm each seeded change independently in a scratch worktree of /repo: it applies, builds, vets,
# passes the existing 71 tests, and its demonstration fails with the change and passes without it.
# Usage: tools/confirm_seeded.sh <scratch-worktree> <dir with C*/k/{patch.diff,demo*,meta.json}> <out dir>
set -u
R="$1"; IN="$2"; OUT="$3"
export GOFLAGS=-mod=mod GOPROXY=off GOSUMDB=off GOTOOLCHAIN=local
for d in $(ls -d $IN/C*/[0-9]*); do
  id=$(basename $(dirname $d)); k=$(basename $d)
  git -C "$R" checkout -q -- . && git -C "$R" clean -fdq
  log=""
  run() { log="$log\n\$ $1\n$(cd "$R" && eval "$1" 2>&1 | tail -4)"; }
  ok=1
  git -C "$R" apply --check "$d/patch.diff" || { echo "$id/$k PATCH-DOES-NOT-APPLY"; continue; }
  git -C "$R" apply "$d/patch.diff"
  (cd "$R" && go build ./... && go vet ./... ) >/dev/null 2>&1 || { ok=0; log="$log\nbuild/vet failed"; }
  npass=$(cd "$R" && go test -count=1 -v ./... 2>&1 | grep -c -- '^ *--- PASS\|^--- PASS')
  nfail=$(cd "$R" && go test -count=1 -v ./... 2>&1 | grep -c -- '--- FAIL')
  [ "$nfail" = "0" ] || ok=0
  if [ -f "$d/demo_test.go" ]; then
    cp "$d/demo_test.go" "$R/zz_demo_test.go"
    race=""; [ "$id" = "C12" ] && race="-race"
    (cd "$R" && go test $race -count=1 -run 'Demo|demo' . ) >/tmp/demo_with.log 2>&1; with=$?
    git -C "$R" checkout -q -- . ; git -C "$R" clean -fdq -e zz_demo_test.go
    (cd "$R" && go test $race -count=1 -run 'Demo|demo' . ) >/tmp/demo_without.log 2>&1; without=$?
    rm -f "$R/zz_demo_test.go"
    demo="go test $race -count=1 -run 'Demo|demo' . (demo_test.go copied to the repo root)"
  else
    bash "$d/demo.sh" "$R" >/tmp/demo_with.log 2>&1; with=$?
    git -C "$R" checkout -q -- . ; git -C "$R" clean -fdq
    bash "$d/demo.sh" "$R" >/tmp/demo_without.log 2>&1; without=$?
    demo="bash demo.sh <repo root>"
  fi
  status="CONFIRMED"
  [ $ok = 1 ] && [ $with != 0 ] && [ $without = 0 ] || status="NOT-CONFIRMED(ok=$ok with=$with without=$without)"
  echo "$id/$k $status tests_pass=$npass fail=$nfail demo_with_change_rc=$with demo_without_rc=$without"
  if [ "$status" = "CONFIRMED" ]; then
    mkdir -p "$OUT/$id/$k"
    cp "$d/patch.diff" "$OUT/$id/$k/"; cp "$d"/demo* "$OUT/$id/$k/" 2>/dev/null
    python3 - "$d/meta.json" "$OUT/$id/$k/meta.json" "$id" "$npass" "$with" "$without" "$demo" <<'PY'
import json,sys
src,dst,pid,npass,w,wo,demo=sys.argv[1:8]
try: m=json.load(open(src))
except Exception: m={}
out={"property":pid,"summary":m.get("summary",""),"needs":m.get("needs",""),"author":"independent sub-agent (saw only the property text and a scratch worktree)",
 "confirmed_by_me":{"applies_cleanly":True,"go_build_and_vet":"ok","existing_suite":"%s PASS lines, 0 FAIL (go test -count=1 -v ./...)"%npass,
   "demonstration":demo,"demo_rc_with_change":int(w),"demo_rc_without_change":int(wo)},
 "ran_by_author":m.get("ran",[])}
json.dump(out,open(dst,"w"),indent=1,ensure_ascii=False)
PY
  fi
done
git -C "$R" checkout -q -- . && git -C "$R" clean -fdq
