import Bip39V.Props.C06
import Bip39V.Props.C09
import Bip39V.Props.C16
import Bip39V.Model.Seed
/-! # C14 — no exported function panics, whatever the arguments

The model is panic-aware: every slice, index, `make`, `Quo` and `FillBytes` of the Go code returns
`Res.panic` exactly where Go would panic.  The theorems say that outcome never occurs, for every
argument.  Termination: every model function is structurally recursive (or recursive on the
script length), accepted by Lean without `partial`. -/
namespace Bip39V
open Model Spec Unicode

theorem ofValue_some (ℓ : Int) (L : Lang) (h : Lang.ofValue ℓ = some L) : L.value = ℓ := by
  unfold Lang.ofValue at h
  have := List.find?_some h
  simpa using this

/-- `NewMnemonicByEntropy`: any byte slice (nil, short, huge), any `Language` value -/
theorem c14_new_by_entropy (D : Bytes → Bytes) (hD : ∀ x, (D x).length = 32) (e : Bytes) (ℓ : Int) :
    (newMnemonicByEntropy D e ℓ).isPanic = false := by
  by_cases hv : ValidEntLen e.length
  · obtain ⟨s, _, hs⟩ := (c09_entropy D hD e ℓ).2 hv
    rw [hs]; rfl
  · rw [(c09_entropy D hD e ℓ).1 hv]; rfl

/-- `NewMnemonic`: any `int` word count, any `Language` value, any behaviour of the source -/
theorem c14_new (D : Bytes → Bytes) (hD : ∀ x, (D x).length = 32) (n ℓ : Int) (script : Script) :
    (newMnemonic D n ℓ script).1.isPanic = false := by
  by_cases hn : n = 12 ∨ n = 15 ∨ n = 18 ∨ n = 21 ∨ n = 24
  · obtain ⟨k, rfl, hv⟩ : ∃ k : Nat, n = k ∧ ValidWordCount k := by
      refine ⟨n.toNat, by omega, ?_⟩
      unfold ValidWordCount; omega
    by_cases hd : 4 * k / 3 ≤ (delivered script).length
    · -- enough bytes: the result is `fromEntropy` of a well-sized buffer
      obtain ⟨m, rfl, hm4, hm8⟩ : ∃ m, k = 3 * m ∧ 4 ≤ m ∧ m ≤ 8 := by
        rcases hv with h | h | h | h | h <;> exact ⟨k / 3, by omega, by omega, by omega⟩
      have hneed : 4 * (3 * m) / 3 = 4 * m := by omega
      rw [hneed] at hd
      unfold newMnemonic
      simp only [wordGate_count _ hv, Bool.false_eq_true, if_false, bufSize_count]
      have hnn : ¬ ((4 * m : Nat) : Int) < 0 := by omega
      simp only [hnn, if_false, Int.toNat_natCast]
      have hr := readFull_ok (4 * m) script [] 0 hd
      cases hrf : readFull (4 * m) script [] 0 with
      | mk r calls =>
        rw [hrf] at hr
        simp only at hr
        subst hr
        simp only [List.nil_append]
        have hlen : ((delivered script).take (4 * m)).length = 4 * m := by rw [List.length_take]; omega
        have h3 : ((3 * m : Nat) : Int) = ((m * 3 : Nat) : Int) := by omega
        rw [h3, fromEntropy_eq D hD _ m hlen hm8]; rfl
    · rw [c06_fail D ℓ k hv script (by omega)]; rfl
  · rw [c09_words D n ℓ script hn]; rfl

/-- `CheckMnemonic` / `IsMnemonicValid`: any string (empty, huge, invalid UTF-8 — items of any
value), any `Language` value, any normaliser -/
theorem c14_check (X : Str → Str) (D : Bytes → Bytes) (hD : ∀ x, (D x).length = 32) (s : Str) (ℓ : Int) :
    (checkMnemonic X D s ℓ).isPanic = false ∧ (isMnemonicValid X D s ℓ).isPanic = false := by
  have key : (checkMnemonic X D s ℓ).isPanic = false := by
    cases hl : Lang.ofValue ℓ with
    | some L =>
      rw [← ofValue_some ℓ L hl, checkMnemonic_eq X D hD]
      unfold Spec.classify
      split
      · rfl
      · split
        · rfl
        · split <;> rfl
    | none =>
      unfold checkMnemonic checkMnemonicSt
      rw [splitItem_eq]
      by_cases hg : wcGate ((splitOn 0x20 (X s)).length : Int) = true
      · simp [hg, Res.isPanic]
      · simp only [hg, Bool.false_eq_true, if_false]
        have hm := mapping_other ℓ hl
        cases hmap : Model.mapping .init ℓ with
        | mk st' m =>
          rw [hmap] at hm
          simp only at hm
          subst hm
          simp only [checkTokens, hg, Bool.false_eq_true, if_false]
          match hs : splitOn 0x20 (X s) with
          | [] => exact absurd hs (splitOn_ne_nil _ _)
          | w :: ws => simp [sumWords, mapLookup, Res.isPanic]
  refine ⟨key, ?_⟩
  unfold isMnemonicValid
  cases h : checkMnemonic X D s ℓ with
  | ok u => rfl
  | err e => rfl
  | panic p => rw [h] at key; cases key

/-- `Language.String`: every `int` -/
theorem c14_string (i : Int) : (Model.langString i).isPanic = false := by rw [c16_all]; rfl

/-- `MnemonicToSeed` has no error or panic outcome in the model at all: its model is a total
function into `Bytes` (it only normalises, encodes and calls PBKDF2). -/
theorem c14_seed_total (X : Str → Str) (PB : Bytes → Bytes → Nat → Nat → Bytes) (m p : Str) :
    ∃ b : Bytes, mnemonicToSeed X PB m p = b := ⟨_, rfl⟩

#print axioms c14_new_by_entropy
#print axioms c14_new
#print axioms c14_check
#print axioms c14_string
end Bip39V
