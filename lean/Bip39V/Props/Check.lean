import Bip39V.Lemmas.Check
import Bip39V.Lemmas.Fields
import Bip39V.Props.Tables
import Bip39V.Props.Stable
/-! `CheckMnemonic` as a whole, for a supported language and for an unsupported one. -/
namespace Bip39V
open Model Spec Unicode

theorem splitItem_eq : Model.splitItem = 0x20 := rfl

/-- `CheckMnemonic(s, L)` from a fresh process is the specification's classification of the
U+0020-separated tokens of the normalised input -/
theorem checkMnemonic_eq (X : Str → Str) (D : Bytes → Bytes) (hD : ∀ x, (D x).length = 32) (L : Lang) (s : Str) :
    checkMnemonic X D s L.value = Spec.classify D L (splitOn 0x20 (X s)) := by
  unfold checkMnemonic checkMnemonicSt
  rw [splitItem_eq]
  by_cases hg : wcGate ((splitOn 0x20 (X s)).length : Int) = true
  · simp only [hg, if_true]
    unfold Spec.classify
    have : ¬ ValidWordCount (splitOn 0x20 (X s)).length := by
      intro hv; rw [(validWordCount_iff _).mp hv] at hg; cases hg
    simp [this]
  · simp only [hg, Bool.false_eq_true, if_false]
    have hm := mapping_lang L
    cases hmap : Model.mapping .init L.value with
    | mk st' m =>
      rw [hmap] at hm
      simp only at hm
      subst hm
      exact checkTokens_eq_classify D hD L L.genTable (words_eq_canon L) (words_nodup L) (words_length L) _

/-- an unsupported language value has no map: nothing is ever accepted -/
theorem checkMnemonic_unsupported (X : Str → Str) (D : Bytes → Bytes) (ℓ : Int) (h : Lang.ofValue ℓ = none) (s : Str) :
    checkMnemonic X D s ℓ ≠ .ok () := by
  unfold checkMnemonic checkMnemonicSt
  rw [splitItem_eq]
  by_cases hg : wcGate ((splitOn 0x20 (X s)).length : Int) = true
  · simp [hg]
  · simp only [hg, Bool.false_eq_true, if_false]
    have hm := mapping_other ℓ h
    cases hmap : Model.mapping .init ℓ with
    | mk st' m =>
      rw [hmap] at hm
      simp only at hm
      subst hm
      simp only [checkTokens, hg, Bool.false_eq_true, if_false]
      match hs : splitOn 0x20 (X s) with
      | [] => exact absurd hs (splitOn_ne_nil _ _)
      | w :: ws => simp [sumWords, mapLookup]

end Bip39V
