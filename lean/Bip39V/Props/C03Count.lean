import Bip39V.Lemmas.Count
import Bip39V.Props.C02
/-! # C03, the counting consequence: for any fixed first n−1 words exactly 2^(11−n/3) final words
are accepted.  Proved by the bijection `i ↦ (i / 2^cs, i % 2^cs)` on `[0, 2048)`: the high part
of the last index completes the entropy, and exactly one low part equals the checksum of that
entropy.  No enumeration of words is involved. -/
namespace Bip39V
open Model Spec Unicode

theorem list_eq_range_map (l : List Str) (n : Nat) (h : l.length = n) : l = (List.range n).map (fun i => l[i]?.getD []) := by
  apply List.ext_getElem
  · simp [h]
  · intro i h1 h2
    simp [List.getElem?_eq_getElem h1]

theorem mapM_idxOf_mem (L : Lang) (ws : List Str) (h : ∀ w ∈ ws, w ∈ L.words) :
    ∃ idxs, ws.mapM (Spec.idxOf L.words) = some idxs ∧ idxs.length = ws.length ∧ ∀ i ∈ idxs, i < 2048 := by
  induction ws with
  | nil => exact ⟨[], rfl, rfl, by simp⟩
  | cons w t ih =>
    obtain ⟨idxs, h1, h2, h3⟩ := ih (fun x hx => h x (List.mem_cons_of_mem _ hx))
    have hw := (idxOf_isSome_iff L.words w).mpr (h w List.mem_cons_self)
    obtain ⟨k, hk⟩ := Option.isSome_iff_exists.mp hw
    refine ⟨k :: idxs, by simp [List.mapM_cons, hk, h1], by simp [h2], ?_⟩
    intro i hi
    rcases List.mem_cons.mp hi with rfl | hi
    · have := idxOf_lt L.words w _ hk; rw [words_length] at this; exact this
    · exact h3 i hi

theorem mapM_idxOf_snoc (L : Lang) (pre : List Str) (P : List Nat) (hP : pre.mapM (Spec.idxOf L.words) = some P) (i : Nat) (hi : i < 2048) :
    (pre ++ [L.word i]).mapM (Spec.idxOf L.words) = some (P ++ [i]) := by
  induction pre generalizing P with
  | nil => simp at hP; subst hP; simp [List.mapM_cons, idxOf_word L i hi]
  | cons w t ih =>
    rw [List.mapM_cons] at hP
    cases hw : Spec.idxOf L.words w with
    | none => simp [hw] at hP
    | some k =>
      cases ht : t.mapM (Spec.idxOf L.words) with
      | none => simp [hw, ht] at hP
      | some ks =>
        simp [hw, ht] at hP; subst hP
        simp [List.mapM_cons, hw, ih ks ht]

/-- **C03 (count)**: for any fixed first `n−1` list words, exactly `2^(11 − n/3)` of the 2048 list
words are accepted as the final word. -/
theorem c03_lastword (D : Bytes → Bytes) (hD : ∀ x, (D x).length = 32) (L : Lang) (pre : List Str) (n : Nat)
    (hn : pre.length + 1 = n) (hv : ValidWordCount n) (hpre : ∀ w ∈ pre, w ∈ L.words) :
    L.words.countP (fun w => decide (checkMnemonic nfkd D (joinWith [0x20] (pre ++ [w])) L.value = .ok ())) = 2 ^ (11 - n / 3) := by
  obtain ⟨cs, hn3, hcs4, hcs8⟩ : ∃ cs, n = 3 * cs ∧ 4 ≤ cs ∧ cs ≤ 8 := by
    rcases hv with h | h | h | h | h <;> exact ⟨n / 3, by omega, by omega, by omega⟩
  have hdiv : n / 3 = cs := by omega
  obtain ⟨P, hP, hPl, hPlt⟩ := mapM_idxOf_mem L pre hpre
  -- step 1: the verdict on a list word is the checksum predicate
  have hverdict : ∀ w ∈ L.words, decide (checkMnemonic nfkd D (joinWith [0x20] (pre ++ [w])) L.value = .ok ()) =
      Spec.checksumOK D L (pre ++ [w]) := by
    intro w hw
    have hin : ∀ x ∈ pre ++ [w], x ∈ L.words := by
      intro x hx; rcases List.mem_append.mp hx with hx | hx
      · exact hpre x hx
      · simp at hx; subst hx; exact hw
    have hne : pre ++ [w] ≠ [] := by simp
    have hcount : ValidWordCount (pre ++ [w]).length := by simp [hn]; exact hv
    rw [checkMnemonic_eq nfkd D hD, tokens_of_sentence L 0x20 (Or.inl rfl) _ hne hin]
    apply Bool.eq_iff_iff.mpr
    simp only [decide_eq_true_eq]
    rw [classify_ok_iff]
    exact ⟨fun h => h.2.2, fun h => ⟨hcount, hin, h⟩⟩
  rw [List.countP_congr (fun w hw => by rw [hverdict w hw])]
  -- step 2: enumerate the list by index
  have hw2048 := words_length L
  have hrange : L.words = (List.range 2048).map L.word := by
    have := list_eq_range_map L.words 2048 hw2048
    exact this
  rw [hrange, List.countP_map]
  -- step 3: arithmetic form of the predicate
  let U := unpeel P
  let f : Nat → Nat := fun hi => firstByte (D (toBytesFixed (cs * 4) (U * 2 ^ (11 - cs) + hi))) / 2 ^ (8 - cs)
  have hp : 0 < 2 ^ cs := Nat.two_pow_pos cs
  have h2048 : 2 ^ (11 - cs) * 2 ^ cs = 2048 := by
    rw [← Nat.pow_add]; have : 11 - cs + cs = 11 := by omega
    rw [this]
  have harith : ∀ i ∈ List.range (2 ^ (11 - cs) * 2 ^ cs),
      ((fun w => Spec.checksumOK D L (pre ++ [w])) ∘ L.word) i = (i % 2 ^ cs == f (i / 2 ^ cs)) := by
    intro i hi
    have hi' : i < 2048 := by rw [← h2048]; exact List.mem_range.mp hi
    simp only [Function.comp]
    have hm := mapM_idxOf_snoc L pre P hP i hi'
    have hlt : ∀ j ∈ P ++ [i], j < 2048 := by
      intro j hj; rcases List.mem_append.mp hj with hj | hj
      · exact hPlt j hj
      · simp at hj; subst hj; exact hi'
    have hlen : (pre ++ [L.word i]).length = 3 * cs := by simp [hn, hn3.symm]
    rw [checksumOK_arith D hD L _ _ hm hlt cs hlen hcs4 hcs8, unpeel_append_single]
    have e1 : (unpeel P * 2048 + i) / 2 ^ cs = U * 2 ^ (11 - cs) + i / 2 ^ cs := by
      rw [← h2048, ← Nat.mul_assoc, Nat.add_comm, Nat.add_mul_div_right _ _ hp, Nat.add_comm]
    have e2 : (unpeel P * 2048 + i) % 2 ^ cs = i % 2 ^ cs := by
      rw [← h2048, ← Nat.mul_assoc, Nat.add_comm, Nat.add_mul_mod_self_right]
    rw [e1, e2]
    apply Bool.eq_iff_iff.mpr
    simp only [decide_eq_true_eq, beq_iff_eq]
    exact ⟨fun h => h.symm, fun h => h.symm⟩
  have hf : ∀ x, f x < 2 ^ cs := by
    intro x
    have hb : firstByte (D (toBytesFixed (cs * 4) (U * 2 ^ (11 - cs) + x))) < 256 := by
      unfold firstByte; split
      · decide
      · exact UInt8.toNat_lt _
    have h256 : (256 : Nat) = 2 ^ (8 - cs) * 2 ^ cs := by
      rw [← Nat.pow_add]; have : 8 - cs + cs = 8 := by omega
      rw [this]
    apply Nat.div_lt_of_lt_mul
    rw [← h256]; exact hb
  rw [← h2048, List.countP_congr (fun i hi => by rw [harith i hi]), countP_range_block (2 ^ cs) hp f hf, hdiv]

/-- non-vacuity: 11 list words and a legal count -/
example : ValidWordCount (11 + 1) ∧ (2 : Nat) ^ (11 - 12 / 3) = 128 ∧ (2 : Nat) ^ (11 - 24 / 3) = 8 := by decide

#print axioms c03_lastword
end Bip39V
