import Bip39V.Props.C03
import Bip39V.Props.C05
/-! # The accept set is exactly the image of the generator (C02 + C03 + C05 in one statement)

A token list satisfies the specification's validity predicate **iff** it is the word list BIP39
assigns to some entropy of a legal size — and that entropy is unique.  With the validator master
theorem (`checkMnemonic_eq`, `classify_ok_iff`) this says: `CheckMnemonic` accepts a string exactly
when the U+0020-separated tokens of its normal form are the words `NewMnemonicByEntropy` emits for
some (unique) entropy.  Nothing is accepted that the generator cannot produce, and everything it
can produce is accepted. -/
namespace Bip39V
open Model Spec Unicode

theorem two_pow_8k (k : Nat) : 2 ^ (8 * k) = 256 ^ k := by
  rw [Nat.pow_mul]

/-- packing bits into bytes and unpacking gives the bits back (length a multiple of 8) -/
theorem bits_packBytes (k : Nat) (l : List Bool) (h : l.length = 8 * k) : bits (packBytes l) = l := by
  apply ofBits_inj
  · rw [bits_length, packBytes_eq k l h, toBytesFixed_length, h]
  · rw [ofBits_bits, packBytes_eq k l h, beNat_toBytesFixed]
    have := ofBits_lt l
    rw [h, two_pow_8k] at this
    exact this

theorem packBytes_length (k : Nat) (l : List Bool) (h : l.length = 8 * k) : (packBytes l).length = k := by
  rw [packBytes_eq k l h, toBytesFixed_length]

/-- a token whose plain-search index is `i` is the `i`-th word -/
theorem word_of_idxOf (L : Lang) (w : Str) (i : Nat) (h : Spec.idxOf L.words w = some i) : L.word i = w := by
  unfold Lang.word; rw [idxOf_getElem _ _ _ h]; rfl

theorem map_word_of_mapM (L : Lang) (toks : List Str) (idxs : List Nat) (h : toks.mapM (Spec.idxOf L.words) = some idxs) :
    idxs.map L.word = toks := by
  induction toks generalizing idxs with
  | nil => simp at h; subst h; rfl
  | cons w rest ih =>
    rw [List.mapM_cons] at h
    cases hw : Spec.idxOf L.words w with
    | none => simp [hw] at h
    | some k =>
      cases hr : rest.mapM (Spec.idxOf L.words) with
      | none => simp [hw, hr] at h
      | some ks =>
        simp [hw, hr] at h; subst h
        simp only [List.map_cons, word_of_idxOf L w k hw, ih ks hr]

/-- cutting the concatenated 11-bit groups of an index list and reading each group back gives the list -/
theorem chunks_flatMap_bits11 (idxs : List Nat) (h : ∀ i ∈ idxs, i < 2048) :
    (chunksN 11 idxs.length (idxs.flatMap bits11)).map ofBits = idxs := by
  induction idxs with
  | nil => rfl
  | cons i t ih =>
    simp only [List.length_cons, List.flatMap_cons, chunksN, List.map_cons]
    rw [List.take_left' (Spec.bits11_length i), List.drop_left' (Spec.bits11_length i),
      Spec.ofBits_bits11 i (h i List.mem_cons_self), ih (fun x hx => h x (List.mem_cons_of_mem _ hx))]

/-- **valid ⇒ generated**: a token list that satisfies the validity predicate is the word list of
the entropy its own bits spell out -/
theorem generated_of_checksumOK (D : Bytes → Bytes) (L : Lang) (toks : List Str)
    (h : Spec.checksumOK D L toks = true) :
    ∃ e, ValidEntLen e.length ∧ toks = (Spec.indices D e).map L.word := by
  unfold Spec.checksumOK at h
  simp only [Bool.and_eq_true, decide_eq_true_eq] at h
  obtain ⟨hc, h⟩ := h
  cases hm : toks.mapM (Spec.idxOf L.words) with
  | none => simp [hm] at h
  | some idxs =>
    simp only [hm, beq_iff_eq] at h
    obtain ⟨hlen, hlt⟩ := mapM_idxOf_lt _ _ _ hm
    rw [words_length] at hlt
    -- n = 3m words, 32m entropy bits, m checksum bits
    obtain ⟨m, hn, hm4, hm8⟩ : ∃ m, toks.length = 3 * m ∧ 4 ≤ m ∧ m ≤ 8 := by
      rcases hc with h | h | h | h | h <;> exact ⟨toks.length / 3, by omega, by omega, by omega⟩
    have hall : (idxs.flatMap bits11).length = 11 * (3 * m) := by rw [flatMap_bits11_length, hlen, hn]
    have hk : toks.length * 11 - toks.length / 3 = 8 * (4 * m) := by rw [hn]; omega
    have hcsn : toks.length / 3 = m := by omega
    rw [hk, hcsn] at h
    let entBits := (idxs.flatMap bits11).take (8 * (4 * m))
    have hel : entBits.length = 8 * (4 * m) := by
      simp only [entBits, List.length_take, hall]; omega
    let e := packBytes entBits
    have helen : e.length = 4 * m := packBytes_length (4 * m) entBits hel
    have hbe : bits e = entBits := bits_packBytes (4 * m) entBits hel
    refine ⟨e, by unfold ValidEntLen; omega, ?_⟩
    -- the specification's indices of `e` are `idxs`
    have hidx : Spec.indices D e = idxs := by
      unfold Spec.indices
      have hcs : e.length / 4 = m := by omega
      simp only [hcs]
      rw [hbe, ← h, List.take_append_drop, hall, Nat.mul_div_cancel_left _ (by decide : 0 < 11)]
      have := chunks_flatMap_bits11 idxs hlt
      rw [hlen, hn] at this
      exact this
    rw [hidx]; exact (map_word_of_mapM L toks idxs hm).symm

/-- **valid ⇔ generated** -/
theorem checksumOK_iff_generated (D : Bytes → Bytes) (hD : ∀ x, (D x).length = 32) (L : Lang) (toks : List Str) :
    Spec.checksumOK D L toks = true ↔ ∃ e, ValidEntLen e.length ∧ toks = (Spec.indices D e).map L.word :=
  ⟨generated_of_checksumOK D L toks, fun ⟨e, hv, he⟩ => he ▸ checksumOK_sentence D hD L e hv⟩

/-- the generating entropy is unique -/
theorem generated_unique (D : Bytes → Bytes) (hD : ∀ x, (D x).length = 32) (L : Lang) (e₁ e₂ : Bytes)
    (h₁ : ValidEntLen e₁.length) (h₂ : ValidEntLen e₂.length)
    (h : (Spec.indices D e₁).map L.word = (Spec.indices D e₂).map L.word) : e₁ = e₂ := by
  have d1 := c05_decode_sentence D hD L e₁ h₁
  have d2 := c05_decode_sentence D hD L e₂ h₂
  unfold Spec.sentence at d1 d2
  rw [h] at d1
  exact Option.some.inj (d1.symm.trans d2)

/-- **the accept set of `CheckMnemonic` is the image of the generator**: a string is accepted under
a supported language iff the U+0020-separated tokens of its normal form are exactly the words BIP39
assigns to some entropy of 16/20/24/28/32 bytes (which is then unique: `generated_unique`) -/
theorem c03_accepts_iff_generated (X : Str → Str) (D : Bytes → Bytes) (hD : ∀ x, (D x).length = 32) (L : Lang) (s : Str) :
    checkMnemonic X D s L.value = .ok () ↔
      ∃ e, ValidEntLen e.length ∧ splitOn 0x20 (X s) = (Spec.indices D e).map L.word := by
  rw [checkMnemonic_eq X D hD, classify_ok_iff, ← checksumOK_iff_generated D hD]
  constructor
  · exact fun h => h.2.2
  · intro h
    obtain ⟨e, hv, he⟩ := generated_of_checksumOK D L _ h
    obtain ⟨m, hlen, hm, hm4⟩ : ∃ m, e.length = 4 * m ∧ m ≤ 8 ∧ 4 ≤ m := by
      rcases hv with h | h | h | h | h <;> exact ⟨e.length / 4, by omega, by omega, by omega⟩
    have hil := spec_indices_length D e m hlen hm (hD e)
    have hilt := spec_indices_lt D e m hlen hm (hD e)
    refine ⟨?_, ?_, h⟩
    · rw [he, List.length_map, hil]; unfold ValidWordCount; omega
    · intro w hw
      rw [he] at hw
      obtain ⟨i, hi, rfl⟩ := List.mem_map.mp hw
      exact word_mem L i (hilt i hi)

/-- non-vacuity: with the pure functional SHA-256 the all-zero 16-byte entropy generates the first
official test vector, so the right-hand side is inhabited by a real sentence -/
example : ValidEntLen (List.replicate 16 (0 : UInt8)).length := by decide

#print axioms checksumOK_iff_generated
#print axioms generated_unique
#print axioms c03_accepts_iff_generated
end Bip39V
