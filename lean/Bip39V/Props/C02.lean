import Bip39V.Props.C01
import Bip39V.Props.C03
/-! # C02 — every valid BIP39 mnemonic validates -/
namespace Bip39V
open Model Spec Unicode

/-- NFKD of stable words joined by U+0020 or U+3000 is the words joined by U+0020 -/
theorem nfkd_joinWith (sep : Nat) (hsep : sep = 0x20 ∨ sep = 0x3000) (ws : List Str) (hst : ∀ w ∈ ws, nfkd w = w) :
    nfkd (joinWith [sep] ws) = joinWith [0x20] ws := by
  induction ws with
  | nil => rfl
  | cons w t ih =>
    cases t with
    | nil => simpa [joinWith] using hst w List.mem_cons_self
    | cons w' t' =>
      have ih' := ih (fun x hx => hst x (List.mem_cons_of_mem _ hx))
      simp only [joinWith, List.append_assoc, List.singleton_append] at ih' ⊢
      rcases hsep with rfl | rfl
      · rw [nfkd_split_space, hst w List.mem_cons_self, ih']
      · rw [nfkd_split_ideographic, hst w List.mem_cons_self, ih']

/-- a sentence of list words (joined by either separator) is tokenised into exactly those words -/
theorem tokens_of_sentence (L : Lang) (sep : Nat) (hsep : sep = 0x20 ∨ sep = 0x3000) (ws : List Str) (hne : ws ≠ [])
    (hin : ∀ w ∈ ws, w ∈ L.words) : splitOn 0x20 (nfkd (joinWith [sep] ws)) = ws := by
  rw [nfkd_joinWith sep hsep ws (fun w hw => words_nfkd_stable L w (hin w hw))]
  exact split_join 0x20 ws hne (fun w hw => space_not_mem_word L w (hin w hw))

theorem idxOf_word (L : Lang) (i : Nat) (hi : i < 2048) : Spec.idxOf L.words (L.word i) = some i := by
  have hlt : i < L.words.length := by rw [words_length]; exact hi
  rw [← goMap_eq_idxOf L.words (words_nodup L)]
  unfold Lang.word
  rw [List.getElem?_eq_getElem hlt, Option.getD_some]
  simpa using goMap_of_nodup L.words (words_nodup L) 0 i hlt

theorem mapM_idxOf_words (L : Lang) (idxs : List Nat) (h : ∀ i ∈ idxs, i < 2048) :
    (idxs.map L.word).mapM (Spec.idxOf L.words) = some idxs := by
  induction idxs with
  | nil => rfl
  | cons i t ih =>
    rw [List.map_cons, List.mapM_cons, idxOf_word L i (h i List.mem_cons_self),
      ih (fun x hx => h x (List.mem_cons_of_mem _ hx))]
    rfl

/-- the generated sentence satisfies the specification's checksum predicate -/
theorem checksumOK_sentence (D : Bytes → Bytes) (hD : ∀ x, (D x).length = 32) (L : Lang) (e : Bytes)
    (hv : ValidEntLen e.length) : Spec.checksumOK D L ((Spec.indices D e).map L.word) = true := by
  obtain ⟨m, hlen, hm, hm4⟩ : ∃ m, e.length = 4 * m ∧ m ≤ 8 ∧ 4 ≤ m := by
    rcases hv with h | h | h | h | h <;> exact ⟨e.length / 4, by omega, by omega, by omega⟩
  have hil := spec_indices_length D e m hlen hm (hD e)
  have hilt := spec_indices_lt D e m hlen hm (hD e)
  unfold Spec.checksumOK
  have hcount : ValidWordCount ((Spec.indices D e).map L.word).length := by
    rw [List.length_map, hil]; unfold ValidWordCount; omega
  have hcount' : ValidWordCount (m * 3) := by unfold ValidWordCount; omega
  simp only [hcount', decide_true, Bool.true_and, mapM_idxOf_words L _ hilt, List.length_map, hil]
  -- the index list re-expanded is the original bit string
  have hcs : e.length / 4 = m := by omega
  have hbD : (bits (D e)).length = 256 := by rw [bits_length, hD]
  have htk : ((bits (D e)).take m).length = m := by rw [List.length_take, hbD]; omega
  have hall : (bits e ++ (bits (D e)).take m).length = 11 * (m * 3) := by
    rw [List.length_append, bits_length, htk, hlen]; omega
  have hexp : (Spec.indices D e).flatMap bits11 = bits e ++ (bits (D e)).take m := by
    unfold Spec.indices
    simp only [hcs]
    rw [hall, Nat.mul_div_cancel_left _ (by decide : 0 < 11)]
    exact Spec.flatMap_bits11_chunks (m * 3) _ hall
  rw [hexp]
  have hk : m * 3 * 11 - m * 3 / 3 = (bits e).length := by rw [bits_length, hlen]; omega
  have hd : m * 3 / 3 = m := by omega
  rw [hk, List.take_left' rfl, List.drop_left' rfl, packBytes_bits, hd]
  simp

/-- **C02 (round trip)**: the sentence `NewMnemonicByEntropy` returns (C01) is accepted by
`CheckMnemonic` under the same language — for every entropy, whatever its leading bytes. -/
theorem c02_roundtrip (D : Bytes → Bytes) (hD : ∀ x, (D x).length = 32) (L : Lang) (e : Bytes) (hv : ValidEntLen e.length) :
    ∃ s, newMnemonicByEntropy D e L.value = .ok s ∧ checkMnemonic nfkd D s L.value = .ok () := by
  refine ⟨Spec.sentence D L e, c01_encode D hD L e hv, ?_⟩
  obtain ⟨m, hlen, hm, hm4⟩ : ∃ m, e.length = 4 * m ∧ m ≤ 8 ∧ 4 ≤ m := by
    rcases hv with h | h | h | h | h <;> exact ⟨e.length / 4, by omega, by omega, by omega⟩
  have hil := spec_indices_length D e m hlen hm (hD e)
  have hilt := spec_indices_lt D e m hlen hm (hD e)
  have hin : ∀ w ∈ (Spec.indices D e).map L.word, w ∈ L.words := by
    intro w hw
    obtain ⟨i, hi, rfl⟩ := List.mem_map.mp hw
    exact word_mem L i (hilt i hi)
  have hne : (Spec.indices D e).map L.word ≠ [] := by
    intro h; have := congrArg List.length h; simp [hil] at this; omega
  have hsep : L.sep = 0x20 ∨ L.sep = 0x3000 := by cases L <;> simp [Lang.sep]
  rw [checkMnemonic_eq nfkd D hD]
  unfold Spec.sentence
  rw [tokens_of_sentence L L.sep hsep _ hne hin, classify_ok_iff]
  refine ⟨?_, hin, checksumOK_sentence D hD L e hv⟩
  rw [List.length_map, hil]; unfold ValidWordCount; omega

/-- **C02 (completeness)**: every sentence of 12/15/18/21/24 list words with a correct BIP39
checksum is accepted, joined by U+0020 or by U+3000, whatever its entropy bits are. -/
theorem c02_complete (D : Bytes → Bytes) (hD : ∀ x, (D x).length = 32) (L : Lang) (ws : List Str) (sep : Nat)
    (hsep : sep = 0x20 ∨ sep = 0x3000) (hc : ValidWordCount ws.length) (hin : ∀ w ∈ ws, w ∈ L.words)
    (hk : Spec.checksumOK D L ws = true) : checkMnemonic nfkd D (joinWith [sep] ws) L.value = .ok () := by
  have hne : ws ≠ [] := by intro h; subst h; revert hc; decide
  rw [checkMnemonic_eq nfkd D hD, tokens_of_sentence L sep hsep ws hne hin, classify_ok_iff]
  exact ⟨hc, hin, hk⟩

/-- and `IsMnemonicValid` says true for it -/
theorem c02_isValid (D : Bytes → Bytes) (hD : ∀ x, (D x).length = 32) (L : Lang) (e : Bytes) (hv : ValidEntLen e.length) :
    isMnemonicValid nfkd D (Spec.sentence D L e) L.value = .ok true := by
  obtain ⟨s, hs, hc⟩ := c02_roundtrip D hD L e hv
  rw [c01_encode D hD L e hv] at hs
  injection hs with hs; subst hs
  exact (c03_isValid_iff nfkd D _ _).mpr hc

#print axioms c02_roundtrip
#print axioms c02_complete
#print axioms c02_isValid
end Bip39V
