import Bip39V.Props.C03
import Bip39V.Model.Stringer
/-! # C15 — validation errors identify the kind of failure

`tokens s := splitOn 0x20 (X s)`; the three error outcomes of the model are the three Go return
sites (`ErrWordLen`, `fmt.Errorf(...)`, `ErrChecksumIncorrect`; which identifier each site returns
is part of the pinned skeleton of `CheckMnemonic`, and observed by `errors.Is` in the harness). -/
namespace Bip39V
open Model Spec Unicode

/-- the only defect is the word count → the `ErrWordLen` outcome -/
theorem c15_count (X : Str → Str) (D : Bytes → Bytes) (hD : ∀ x, (D x).length = 32) (L : Lang) (s : Str)
    (h : ¬ ValidWordCount (splitOn 0x20 (X s)).length) : checkMnemonic X D s L.value = .err .wordLen := by
  rw [checkMnemonic_eq X D hD]; simp [Spec.classify, h]

theorem firstUnknown_spec (ws : List Str) (toks : List Str) (p : Nat) (t : Str) (i : Nat)
    (h : Spec.firstUnknown ws toks p = some (t, i)) :
    p ≤ i ∧ toks[i - p]? = some t ∧ t ∉ ws ∧ ∀ j, j < i - p → ∀ u, toks[j]? = some u → u ∈ ws := by
  induction toks generalizing p with
  | nil => simp [Spec.firstUnknown] at h
  | cons a r ih =>
    simp only [Spec.firstUnknown] at h
    by_cases hm : (Spec.idxOf ws a).isSome = true
    · simp only [hm, if_true] at h
      obtain ⟨h1, h2, h3, h4⟩ := ih (p + 1) h
      refine ⟨by omega, ?_, h3, ?_⟩
      · have : i - p = (i - (p + 1)) + 1 := by omega
        rw [this, List.getElem?_cons_succ]; exact h2
      · intro j hj u hu
        cases j with
        | zero => simp at hu; subst hu; exact (idxOf_isSome_iff ws a).mp hm
        | succ j' => rw [List.getElem?_cons_succ] at hu; exact h4 j' (by omega) u hu
    · simp only [hm, Bool.false_eq_true, if_false] at h
      injection h with h; injection h with h1 h2; subst h1 h2
      refine ⟨Nat.le_refl _, by simp, ?_, by intro j hj; omega⟩
      intro hin; exact hm ((idxOf_isSome_iff ws a).mpr hin)

/-- acceptable count, some token not in the list → the non-sentinel error naming the *first*
unknown token and its position -/
theorem c15_unknown (X : Str → Str) (D : Bytes → Bytes) (hD : ∀ x, (D x).length = 32) (L : Lang) (s : Str)
    (hc : ValidWordCount (splitOn 0x20 (X s)).length) (hu : ∃ t ∈ splitOn 0x20 (X s), t ∉ L.words) :
    ∃ t i, checkMnemonic X D s L.value = .err (.unknownWord t i) ∧
      (splitOn 0x20 (X s))[i]? = some t ∧ t ∉ L.words ∧
      ∀ j, j < i → ∀ u, (splitOn 0x20 (X s))[j]? = some u → u ∈ L.words := by
  rw [checkMnemonic_eq X D hD]
  cases hfu : Spec.firstUnknown L.words (splitOn 0x20 (X s)) 0 with
  | none =>
    exfalso
    obtain ⟨t, ht, hn⟩ := hu
    have := (classify_ok_iff D L (splitOn 0x20 (X s)))
    have hall : ∀ t ∈ splitOn 0x20 (X s), t ∈ L.words := by
      -- firstUnknown = none means every token is a list word
      have key : ∀ (ts : List Str) (p : Nat), Spec.firstUnknown L.words ts p = none → ∀ t ∈ ts, t ∈ L.words := by
        intro ts
        induction ts with
        | nil => intro _ _ t ht; cases ht
        | cons a r ih =>
          intro p h t ht
          simp only [Spec.firstUnknown] at h
          by_cases hm : (Spec.idxOf L.words a).isSome = true
          · simp only [hm, if_true] at h
            rcases List.mem_cons.mp ht with rfl | ht
            · exact (idxOf_isSome_iff _ _).mp hm
            · exact ih (p + 1) h t ht
          · simp [hm] at h
      exact key _ 0 hfu
    exact hn (hall t ht)
  | some ti =>
    obtain ⟨t, i⟩ := ti
    obtain ⟨_, h2, h3, h4⟩ := firstUnknown_spec L.words _ 0 t i hfu
    refine ⟨t, i, ?_, by simpa using h2, h3, by simpa using h4⟩
    simp [Spec.classify, hc, hfu]

/-- the only defect is the checksum → the `ErrChecksumIncorrect` outcome -/
theorem c15_checksum (X : Str → Str) (D : Bytes → Bytes) (hD : ∀ x, (D x).length = 32) (L : Lang) (s : Str)
    (hc : ValidWordCount (splitOn 0x20 (X s)).length) (hall : ∀ t ∈ splitOn 0x20 (X s), t ∈ L.words)
    (hk : Spec.checksumOK D L (splitOn 0x20 (X s)) = false) : checkMnemonic X D s L.value = .err .checksum := by
  rw [checkMnemonic_eq X D hD]
  have hfu : Spec.firstUnknown L.words (splitOn 0x20 (X s)) 0 = none := by
    have key : ∀ (ts : List Str) (p : Nat), (∀ t ∈ ts, t ∈ L.words) → Spec.firstUnknown L.words ts p = none := by
      intro ts
      induction ts with
      | nil => intro _ _; rfl
      | cons a r ih =>
        intro p h
        simp only [Spec.firstUnknown, (idxOf_isSome_iff L.words a).mpr (h a List.mem_cons_self), if_true]
        exact ih (p + 1) (fun t ht => h t (List.mem_cons_of_mem _ ht))
    exact key _ 0 hall
  simp [Spec.classify, hc, hfu, hk]

/-- nil only for valid sentences -/
theorem c15_nil (X : Str → Str) (D : Bytes → Bytes) (hD : ∀ x, (D x).length = 32) (L : Lang) (s : Str)
    (h : checkMnemonic X D s L.value = .ok ()) :
    ValidWordCount (splitOn 0x20 (X s)).length ∧ (∀ t ∈ splitOn 0x20 (X s), t ∈ L.words) ∧
      Spec.checksumOK D L (splitOn 0x20 (X s)) = true := by
  rw [checkMnemonic_eq X D hD] at h; exact (classify_ok_iff D L _).mp h

/-- the `fmt.Errorf` format of the unknown-word error, regenerated from the source: a `%s` verb
for the token, then a `%d` verb for the position -/
theorem c15_format : Gen.CheckMnemonic.fmtStr =
    "word `".toList.map Char.toNat ++ [37, 115] ++ "` at `".toList.map Char.toNat ++ [37, 100] ++
      "` not found in mnemonic mapping".toList.map Char.toNat := by decide

/-- the message `fmt.Errorf` renders for the unknown-word outcome: the regenerated format with `%s`
replaced by the token and `%d` by the decimal position -/
def unknownMessage (tok : Str) (pos : Nat) : Str :=
  "word `".toList.map Char.toNat ++ tok ++ "` at `".toList.map Char.toNat ++ Model.natDigits pos ++
    "` not found in mnemonic mapping".toList.map Char.toNat

/-- it names the unknown token (as a contiguous substring) -/
theorem c15_message_names_token (tok : Str) (pos : Nat) : tok <:+: unknownMessage tok pos := by
  unfold unknownMessage
  exact ⟨"word `".toList.map Char.toNat, "` at `".toList.map Char.toNat ++ Model.natDigits pos ++
    "` not found in mnemonic mapping".toList.map Char.toNat, by simp [List.append_assoc]⟩

#print axioms c15_message_names_token
#print axioms c15_count
#print axioms c15_unknown
#print axioms c15_checksum
#print axioms c15_nil
#print axioms c15_format
end Bip39V
