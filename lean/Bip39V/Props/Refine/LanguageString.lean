import Bip39V.Gen.Code.Language_String
import Bip39V.Lemmas.GoSem
/-! Refinement for the stringer-generated `Language.String` (language_string.go). -/
namespace Bip39V
open Model Go

theorem string_bound_code : subI (lenInts Gen.Code.«_Language_index») 1 = (Gen.Language_index.index.length : Int) - 1 := by decide

/-- `Language.String`, for every `int` value of the receiver -/
theorem refine_Language_String (W : World) (i : Int) (st : St) :
    Gen.Code.Language_String W i st = (Model.langString i, st) := by
  by_cases hg : i < 0 ∨ i ≥ 10
  · have hc : (decide (i < (0 : Int)) || decide (i ≥ subI (lenInts Gen.Code.«_Language_index») 1)) = true := by
      rw [string_bound_code]
      have : ((Gen.Language_index.index.length : Nat) : Int) - 1 = 10 := by decide
      rw [this]; simpa using hg
    have hm : (i < Gen.Language_String.lo || i >= ((Gen.Language_index.index.length : Nat) : Int) - Gen.Language_String.lenDec) = true := by
      have : ((Gen.Language_index.index.length : Nat) : Int) - Gen.Language_String.lenDec = 10 := by decide
      rw [this]
      have : Gen.Language_String.lo = 0 := rfl
      rw [this]; simpa using hg
    unfold Gen.Code.Language_String Model.langString
    dsimp only
    rw [if_pos hc, if_pos hm]
    simp only [Go.pure, List.append_assoc]
    rfl
  · have : i = 0 ∨ i = 1 ∨ i = 2 ∨ i = 3 ∨ i = 4 ∨ i = 5 ∨ i = 6 ∨ i = 7 ∨ i = 8 ∨ i = 9 := by omega
    rcases this with h | h | h | h | h | h | h | h | h | h <;> subst h <;> rfl

end Bip39V
