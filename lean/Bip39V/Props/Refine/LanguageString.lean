import Bip39V.Gen.Code.Language_String
import Bip39V.Lemmas.GoSem
/-! Refinement for the stringer-generated `Language.String` (language_string.go). -/
set_option linter.unusedSimpArgs false
namespace Bip39V
open Model Go

theorem string_bound_code : subI (lenInts Gen.Code.«_Language_index») 1 = (Gen.Language_index.index.length : Int) - 1 := by decide

/-- `Language.String`, for every `int` value of the receiver (`hi`: the receiver is a 64-bit Go
integer — needed when the source tests the range with one unsigned comparison, `uint(i) < 10`, which
is only right because a Go `int` cannot be ≤ -2^64+9) -/
theorem refine_Language_String (W : World) (i : Int) (st : St) (hi : isInt64 i) :
    Gen.Code.Language_String W i st = (Model.langString i, st) := by
  unfold isInt64 at hi
  by_cases hg : i < 0 ∨ i ≥ 10
  · have hm : (i < Gen.Language_String.lo || i >= ((Gen.Language_index.index.length : Nat) : Int) - Gen.Language_String.lenDec) = true := by
      have : ((Gen.Language_index.index.length : Nat) : Int) - Gen.Language_String.lenDec = 10 := by decide
      rw [this]
      have : Gen.Language_String.lo = 0 := rfl
      rw [this]; simpa using hg
    have hlen : subI (lenInts Gen.Code.«_Language_index») 1 = 10 := by decide
    unfold Gen.Code.Language_String Model.langString
    dsimp only
    rw [if_pos hm]
    -- whichever way the source writes its range test: the branch that formats the number is taken,
    -- the other one contradicts `hg`
    split
    all_goals first
      | (simp only [Go.pure, List.append_assoc]; rfl)
      | (exfalso; rename_i hcnd
         simp only [Bool.and_eq_true, Bool.or_eq_true, Bool.not_eq_true', Bool.and_eq_false_iff, Bool.or_eq_false_iff,
           decide_eq_true_eq, decide_eq_false_iff_not, hlen, Int.not_lt, Int.not_le, ge_iff_le,
           toUint, toInt, wrapU, wrapI, two63, two64] at hcnd
         omega)
  · have : i = 0 ∨ i = 1 ∨ i = 2 ∨ i = 3 ∨ i = 4 ∨ i = 5 ∨ i = 6 ∨ i = 7 ∨ i = 8 ∨ i = 9 := by omega
    rcases this with h | h | h | h | h | h | h | h | h | h <;> subst h <;> rfl

end Bip39V
