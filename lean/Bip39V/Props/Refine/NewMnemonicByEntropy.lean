import Bip39V.Gen.Code.NewMnemonicByEntropy
import Bip39V.Props.Refine.FromEntropy
/-! Refinement for `NewMnemonicByEntropy` (bip39.go). -/
namespace Bip39V
open Model Go

/-- the size gate translated from the source accepts exactly the five lengths (same
shape-independent script as `entGate_iff`), hence is the model's gate -/
theorem entGate_code (n : Int) : Gen.Code.NewMnemonicByEntropy_gate n = entGate n := by
  have h2 : Gen.Code.NewMnemonicByEntropy_gate n = false ↔ n = 16 ∨ n = 20 ∨ n = 24 ∨ n = 28 ∨ n = 32 := by
    unfold Gen.Code.NewMnemonicByEntropy_gate
    (try unfold Go.remIc)
    rcases Int.le_total 0 n with hn | hn
    · (try simp only [Int.tmod_eq_emod_of_nonneg hn]); simp <;> omega
    · obtain ⟨m, rfl, hm⟩ : ∃ m : Int, n = -m ∧ 0 ≤ m := ⟨-n, by omega, by omega⟩
      (try simp only [Int.neg_tmod, Int.tmod_eq_emod_of_nonneg hm]); simp <;> omega
  have h1 := entGate_iff n
  cases h : Gen.Code.NewMnemonicByEntropy_gate n <;> cases h' : entGate n <;> simp_all

/-- `NewMnemonicByEntropy`, for every input.  The word count handed to `fromEntropy` may be computed
by any arithmetic the translator accepts (`entLen/4*3`, `entLen-entLen/4`, …): it is *evaluated* at
each of the five lengths the gate lets through and compared with the model's value there. -/
theorem refine_NewMnemonicByEntropy (W : World) (e : Bytes) (ℓ : Int) (st : St) :
    Gen.Code.NewMnemonicByEntropy W e ℓ st = (Model.newMnemonicByEntropy W.D e ℓ, st) := by
  unfold Gen.Code.NewMnemonicByEntropy newMnemonicByEntropy
  dsimp only
  (try unfold lenBytes)
  rw [entGate_code]
  cases hg : entGate (e.length : Int) with
  | true => rfl
  | false =>
    have hn := (entGate_iff _).mp hg
    simp only [Bool.false_eq_true, if_false]
    have hcongr : ∀ a b : Int, a = b →
        (Model.fromEntropy W.D e a ℓ, st) = (Model.fromEntropy W.D e b ℓ, st) := by
      intro a b h; rw [h]
    generalize hk : (e.length : Int) = k at hn ⊢
    rcases hn with rfl | rfl | rfl | rfl | rfl <;>
    · rw [bind_pure_id, refine_fromEntropy W e _ ℓ st (by omega) (by decide)]
      exact hcongr _ _ (by decide)

end Bip39V
