import Bip39V.Gen.Code.NewMnemonic
import Bip39V.Props.Refine.FromEntropy
import Bip39V.Lemmas.Reader
/-! Refinement for `NewMnemonic` (bip39.go): outcome, number of `Read` calls, consumed script. -/
namespace Bip39V
open Model Go

/-- the size gate translated from the source accepts exactly the five counts (same
shape-independent script as `wordGate_iff`), hence is the model's gate -/
theorem wordGate_code (n : Int) : Gen.Code.NewMnemonic_gate n = wordGate n := by
  have h2 : Gen.Code.NewMnemonic_gate n = false ↔ n = 12 ∨ n = 15 ∨ n = 18 ∨ n = 21 ∨ n = 24 := by
    unfold Gen.Code.NewMnemonic_gate
    (try unfold Go.remIc)
    rcases Int.le_total 0 n with hn | hn
    · (try simp only [Int.tmod_eq_emod_of_nonneg hn]); simp <;> omega
    · obtain ⟨m, rfl, hm⟩ : ∃ m : Int, n = -m ∧ 0 ≤ m := ⟨-n, by omega, by omega⟩
      (try simp only [Int.neg_tmod, Int.tmod_eq_emod_of_nonneg hm]); simp <;> omega
  have h1 := wordGate_iff n
  cases h : Gen.Code.NewMnemonic_gate n <;> cases h' : wordGate n <;> simp_all

theorem readFull_ok_length (need : Nat) (sc : Script) (buf : Bytes) (c : Nat)
    (h : Model.readFull need sc [] 0 = (.ok buf, c)) : buf.length = need := by
  by_cases hd : need ≤ (delivered sc).length
  · have := readFull_ok need sc [] 0 hd
    rw [h] at this
    injection this with this
    rw [this]; simp; omega
  · have := readFull_fail need sc [] 0 (by omega)
    rw [h] at this
    cases this

/-- the buffer size may be computed by any arithmetic the translator accepts: evaluated to a literal -/
theorem bind_makeBytes_lit {β} (a : Int) (m : Nat) (k : Bytes → M β) (st : St) (h : a = (m : Int)) :
    Go.bind (makeBytes a) k st = k (List.replicate m 0) st := by
  subst h
  rw [bind_ok (makeBytes_nonneg (by omega) st), Int.toNat_natCast]

/-- what follows the allocation of the buffer: fill it from the source, encode it -/
theorem newMnemonic_tail (W : World) (n ℓ : Int) (m : Nat) (st : St)
    (hn : n = 12 ∨ n = 15 ∨ n = 18 ∨ n = 21 ∨ n = 24) (hm : bufSize n = (m : Int)) :
    (Go.bind (Go.readFull (List.replicate m 0)) fun buf =>
      Go.bind (Gen.Code.fromEntropy W buf n ℓ) fun t => Go.pure t) st =
    ((Model.newMnemonic W.D n ℓ st.script).1, st.afterReads (Model.newMnemonic W.D n ℓ st.script).2) := by
  have hg : wordGate n = false := (wordGate_iff n).mpr hn
  have hb : bufSize n ≤ 32 := by
    have h3 : bufSize n = n + n.tdiv 3 := rfl
    rw [h3]
    rcases hn with h | h | h | h | h <;> rw [h] <;> decide
  have hnonneg : ¬ bufSize n < 0 := by omega
  have hm' : (bufSize n).toNat = m := by omega
  unfold newMnemonic
  rw [hg]
  simp only [Bool.false_eq_true, if_false, if_neg hnonneg]
  rw [hm']
  cases hr : Model.readFull m st.script [] 0 with
  | mk r calls =>
    cases r with
    | err e =>
      have hrf : Go.readFull (List.replicate m 0) st = (.err (.io e), st.afterReads calls) := by
        unfold Go.readFull
        rw [List.length_replicate, hr]
      rw [bind_err hrf]
    | ok buf =>
      have hrf : Go.readFull (List.replicate m 0) st = (.ok buf, st.afterReads calls) := by
        unfold Go.readFull
        rw [List.length_replicate, hr]
      have hl := readFull_ok_length _ _ _ _ hr
      rw [bind_ok hrf, bind_pure_id,
        refine_fromEntropy W buf n ℓ _ (by omega) (by rcases hn with h | h | h | h | h <;> rw [h] <;> decide)]

/-- `NewMnemonic`, for every count, language value and reader behaviour.  The buffer size may be
computed by any arithmetic the translator accepts (`length+length/3`, `length/3*4`, …): it is
*evaluated* at each of the five counts the gate lets through. -/
theorem refine_NewMnemonic (W : World) (n ℓ : Int) (st : St) :
    Gen.Code.NewMnemonic W n ℓ st =
      ((Model.newMnemonic W.D n ℓ st.script).1, st.afterReads (Model.newMnemonic W.D n ℓ st.script).2) := by
  unfold Gen.Code.NewMnemonic
  (try dsimp only)
  rw [wordGate_code]
  cases hg : wordGate n with
  | true =>
    unfold newMnemonic
    rw [hg]
    simp only [if_true, St.afterReads_zero]; rfl
  | false =>
    have hn := (wordGate_iff _).mp hg
    simp only [Bool.false_eq_true, if_false]
    rcases hn with rfl | rfl | rfl | rfl | rfl
    · rw [bind_makeBytes_lit (m := 16)]
      · exact newMnemonic_tail W 12 ℓ 16 st (by decide) (by decide)
      · decide
    · rw [bind_makeBytes_lit (m := 20)]
      · exact newMnemonic_tail W 15 ℓ 20 st (by decide) (by decide)
      · decide
    · rw [bind_makeBytes_lit (m := 24)]
      · exact newMnemonic_tail W 18 ℓ 24 st (by decide) (by decide)
      · decide
    · rw [bind_makeBytes_lit (m := 28)]
      · exact newMnemonic_tail W 21 ℓ 28 st (by decide) (by decide)
      · decide
    · rw [bind_makeBytes_lit (m := 32)]
      · exact newMnemonic_tail W 24 ℓ 32 st (by decide) (by decide)
      · decide

end Bip39V
