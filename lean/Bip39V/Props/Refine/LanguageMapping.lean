import Bip39V.Gen.Code.Language_mapping
import Bip39V.Lemmas.GoSem
/-! Refinement for `Language.mapping` (lang.go): the method translated from the source — switch,
`sync.Once.Do` closures, `make`, the range loop filling the map, the returned variable — run on the
concrete package state (once flags, map variables with their entries) does exactly what the abstract
state machine `Model.mapping` says, under the abstraction `Go.conc` ("built from table t" ↦ the
entries the loop leaves).  So `Go.langMapping` / `Go.mapLookup2`, which the translation of
`CheckMnemonic` calls, are a *proved* abstraction of lang.go, for every `int` value of the receiver
and every package state — not only a structural reading of it. -/
namespace Bip39V
open Model Go

theorem upd_upd {α} (f : Nat → α) (k : Nat) (a b : α) : upd (upd f k a) k b = upd f k b := by
  funext x; simp only [upd]; split <;> rfl

theorem upd_same {α} (f : Nat → α) (k : Nat) (a : α) : upd f k a k = a := by simp [upd]

/-- the loop `for idx, word := range ws { v[word] = int64(idx) }` on a non-nil map variable -/
theorem loop_assign (v : Nat) (ws : List Str) : ∀ (i : Int) (s : CPkg) (l : List (Str × Int)), s.maps v = some l →
    forRangeAuxC (fun idx word => mapAssign v word (toInt idx)) ws i s =
      (.ok (), { s with maps := upd s.maps v (some (insertAll ws i l)) }) := by
  induction ws with
  | nil =>
    intro i s l h
    simp only [forRangeAuxC, pureC, insertAll]
    congr 1
    cases s with
    | mk once maps =>
      simp only at h ⊢
      congr 1
      funext x; simp only [upd]; split
      · rename_i hx; subst hx; exact h
      · rfl
  | cons w ws ih =>
    intro i s l h
    simp only [forRangeAuxC, bindC, mapAssign, h]
    rw [ih (i + 1) _ ((w, toInt i) :: l) (by simp [upd_same])]
    simp only [insertAll, upd_upd]

/-- one arm of `mapping()` in the shape the source has today -/
def armCode (cell wvar table rvar : Nat) : MC MapVal :=
  bindC (onceDo cell (
    bindC (setMapVar wvar makeMap) fun _ =>
    bindC (forRangeC (words table) fun idx word => mapAssign wvar word (toInt idx)) fun _ =>
    pureC ())) fun _ =>
  getMapVar rvar

/-- the abstract effect of one arm (`Model.mappingArms`, one arm) -/
def armAbs (s : PkgState) (cell wvar table : Nat) : PkgState :=
  if s.onceDone cell then s
  else { onceDone := upd s.onceDone cell true, mapVar := upd s.mapVar wvar (some table) }

theorem armCode_sim (s : PkgState) (cell wvar table rvar : Nat) :
    armCode cell wvar table rvar (conc s) =
      (.ok (concMap ((armAbs s cell wvar table).mapVar rvar)), conc (armAbs s cell wvar table)) := by
  unfold armCode armAbs
  by_cases hd : s.onceDone cell = true
  · simp only [bindC, onceDo, conc, hd, if_true, getMapVar]
  · have hd' : s.onceDone cell = false := by simpa using hd
    simp only [bindC, onceDo, conc, hd', Bool.false_eq_true, if_false, setMapVar, makeMap, forRangeC]
    rw [loop_assign wvar (words table) 0 _ [] (by simp [upd_same])]
    simp only [pureC, getMapVar, upd_upd]
    have hm : (upd (fun v => concMap (s.mapVar v)) wvar (some (insertAll (words table) 0 []))) =
        (fun v => concMap (upd s.mapVar wvar (some table) v)) := by
      funext v; simp only [upd]; split <;> rfl
    rw [hm]

theorem findArm_none (arms : List Gen.MapArm) (k : Int) (h : ∀ a ∈ arms, a.value ≠ k) : findArm arms k = none := by
  induction arms with
  | nil => rfl
  | cons a r ih =>
    have h1 : a.value ≠ k := h a (List.mem_cons_self ..)
    have h2 : (a.value == k) = false := by simp [h1]
    simp only [findArm, h2, Bool.false_eq_true, if_false]
    exact ih (fun p hp => h p (List.mem_cons_of_mem _ hp))

/-- **`Language.mapping`, translated, refines the abstract state machine**: for every receiver
value and every package state -/
theorem refine_Language_mapping (s : PkgState) (ℓ : Int) :
    Gen.Code.Language_mapping ℓ (conc s) = (.ok (concMap (Model.mapping s ℓ).2), conc (Model.mapping s ℓ).1) := by
  by_cases h0 : ℓ = Gen.vChineseSimplified; · subst h0; exact armCode_sim s _ _ _ _
  by_cases h1 : ℓ = Gen.vChineseTraditional; · subst h1; exact armCode_sim s _ _ _ _
  by_cases h2 : ℓ = Gen.vEnglish; · subst h2; exact armCode_sim s _ _ _ _
  by_cases h3 : ℓ = Gen.vFrench; · subst h3; exact armCode_sim s _ _ _ _
  by_cases h4 : ℓ = Gen.vItalian; · subst h4; exact armCode_sim s _ _ _ _
  by_cases h5 : ℓ = Gen.vJapanese; · subst h5; exact armCode_sim s _ _ _ _
  by_cases h6 : ℓ = Gen.vSpanish; · subst h6; exact armCode_sim s _ _ _ _
  by_cases h7 : ℓ = Gen.vKorean; · subst h7; exact armCode_sim s _ _ _ _
  by_cases h8 : ℓ = Gen.vCzech; · subst h8; exact armCode_sim s _ _ _ _
  by_cases h9 : ℓ = Gen.vPortuguese; · subst h9; exact armCode_sim s _ _ _ _
  -- any other value: no arm, `return nil`, nothing touched
  have hnone : findArm Gen.mapArms ℓ = none := by
    apply findArm_none
    have g0 : ℓ ≠ 0 := h0
    have g1 : ℓ ≠ 1 := h1
    have g2 : ℓ ≠ 2 := h2
    have g3 : ℓ ≠ 3 := h3
    have g4 : ℓ ≠ 4 := h4
    have g5 : ℓ ≠ 5 := h5
    have g6 : ℓ ≠ 7 := h6
    have g7 : ℓ ≠ 6 := h7
    have g8 : ℓ ≠ 8 := h8
    have g9 : ℓ ≠ 9 := h9
    intro a ha
    simp only [Gen.mapArms, List.mem_cons, List.mem_nil_iff, or_false] at ha
    rcases ha with rfl | rfl | rfl | rfl | rfl | rfl | rfl | rfl | rfl | rfl <;> (dsimp only; omega)
  have hm : Model.mapping s ℓ = (s, none) := by
    unfold Model.mapping Model.mappingArms; rw [hnone]
  unfold Gen.Code.Language_mapping
  simp only [decide_eq_false h0, decide_eq_false h1, decide_eq_false h2, decide_eq_false h3, decide_eq_false h4,
    decide_eq_false h5, decide_eq_false h6, decide_eq_false h7, decide_eq_false h8, decide_eq_false h9,
    Bool.false_eq_true, if_false]
  rw [hm]; rfl

/-- reading the concrete map the loop builds = the model's `goMap` over the table -/
theorem find_insertAll (w : Str) (ws : List Str) : ∀ (i : Nat) (l : List (Str × Int)), i + ws.length < 9223372036854775808 →
    ((insertAll ws (i : Int) l).find? (fun e => e.1 == w)).map (·.2) =
      (match goMap ws i w with
       | some k => some (k : Int)
       | none => (l.find? (fun e => e.1 == w)).map (·.2)) := by
  induction ws with
  | nil => intro i l _; simp [insertAll, goMap]
  | cons x xs ih =>
    intro i l hlen
    simp only [List.length_cons] at hlen
    have hi : toInt (i : Int) = (i : Int) := wrapI_of_range _ (by omega) (by omega)
    have := ih (i + 1) ((x, toInt (i : Int)) :: l) (by omega)
    simp only [Int.natCast_add, Int.cast_ofNat_Int] at this
    simp only [insertAll, goMap]
    rw [this]
    cases hg : goMap xs (i + 1) w with
    | some k => rfl
    | none =>
      simp only [List.find?_cons]
      by_cases hx : x = w
      · subst hx; simp [hi]
      · have : (x == w) = false := by simp [hx]
        simp [this, hx]

/-- **the lookup abstraction is exact**: `m[w]` on the map the source builds is the model's lookup -/
theorem mapGet_concMap (m : Option Nat) (w : Str) (h : ∀ t, m = some t → (words t).length < 9223372036854775808) :
    mapGet (concMap m) w = (Model.mapLookup m w).map (fun (i : Nat) => (i : Int)) := by
  cases m with
  | none => rfl
  | some t =>
    have := find_insertAll w (words t) 0 [] (by have := h t rfl; omega)
    simp only [mapGet, concMap, Model.mapLookup]
    rw [show ((0 : Nat) : Int) = 0 from rfl] at this
    rw [this]
    cases goMap (words t) 0 w <;> rfl

/-- `Go.langMapping`, the vocabulary entry the translation of `CheckMnemonic` calls, is what the
translated `Language.mapping` does on the concrete state -/
theorem langMapping_refined (ℓ : Int) (st : St) :
    Gen.Code.Language_mapping ℓ (conc st.pkg) =
      (match Go.langMapping ℓ st with
       | (.ok m, st') => (.ok (concMap m), conc st'.pkg)
       | (.err e, st') => (.err e, conc st'.pkg)
       | (.panic p, st') => (.panic p, conc st'.pkg)) := by
  rw [refine_Language_mapping]; rfl

/-- no run of `mapping()` panics or returns an error, from any state the abstraction describes -/
theorem mapping_total (s : PkgState) (ℓ : Int) : ∃ m c, Gen.Code.Language_mapping ℓ (conc s) = (.ok m, c) :=
  ⟨_, _, refine_Language_mapping s ℓ⟩

#print axioms refine_Language_mapping
#print axioms mapGet_concMap
#print axioms langMapping_refined
end Bip39V
