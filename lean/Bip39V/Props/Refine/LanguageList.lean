import Bip39V.Gen.Code.Language_list
import Bip39V.Lemmas.GoSem
/-! Refinement for `Language.list` (lang.go): the switch translated from the source selects the
table that the structurally extracted arm table (`Gen.listArms`, `Model.list`) selects — two
independent readings of the same method, proved equal for every `int` value of the receiver. -/
namespace Bip39V
open Model Go

theorem assoc_none (l : List (Int × Nat)) (k : Int) (h : ∀ p ∈ l, p.1 ≠ k) : Model.assoc l k = none := by
  induction l with
  | nil => rfl
  | cons p r ih =>
    obtain ⟨a, b⟩ := p
    have h1 : a ≠ k := h (a, b) (List.mem_cons_self ..)
    have h2 : (a == k) = false := by simp [h1]
    simp only [Model.assoc, h2, Bool.false_eq_true, if_false]
    exact ih (fun p hp => h p (List.mem_cons_of_mem _ hp))

theorem refine_Language_list (W : World) (ℓ : Int) (st : St) :
    Gen.Code.Language_list W ℓ st = (.ok (Model.list ℓ), st) := by
  by_cases h0 : ℓ = Gen.vEnglish; · subst h0; rfl
  by_cases h1 : ℓ = Gen.vChineseSimplified; · subst h1; rfl
  by_cases h2 : ℓ = Gen.vChineseTraditional; · subst h2; rfl
  by_cases h3 : ℓ = Gen.vFrench; · subst h3; rfl
  by_cases h4 : ℓ = Gen.vItalian; · subst h4; rfl
  by_cases h5 : ℓ = Gen.vJapanese; · subst h5; rfl
  by_cases h6 : ℓ = Gen.vSpanish; · subst h6; rfl
  by_cases h7 : ℓ = Gen.vKorean; · subst h7; rfl
  by_cases h8 : ℓ = Gen.vCzech; · subst h8; rfl
  by_cases h9 : ℓ = Gen.vPortuguese; · subst h9; rfl
  -- any other value: the default arm
  have hnone : Model.assoc Gen.listArms ℓ = none := by
    apply assoc_none
    have g0 : ℓ ≠ 2 := h0
    have g1 : ℓ ≠ 0 := h1
    have g2 : ℓ ≠ 1 := h2
    have g3 : ℓ ≠ 3 := h3
    have g4 : ℓ ≠ 4 := h4
    have g5 : ℓ ≠ 5 := h5
    have g6 : ℓ ≠ 7 := h6
    have g7 : ℓ ≠ 6 := h7
    have g8 : ℓ ≠ 8 := h8
    have g9 : ℓ ≠ 9 := h9
    intro p hp
    simp only [Gen.listArms, List.mem_cons, List.mem_nil_iff, or_false] at hp
    rcases hp with rfl | rfl | rfl | rfl | rfl | rfl | rfl | rfl | rfl | rfl <;> (dsimp only; omega)
  have hlist : Model.list ℓ = Model.words Gen.tEnglish := by
    unfold Model.list Model.listTable
    rw [hnone]; rfl
  unfold Gen.Code.Language_list
  simp only [decide_eq_false h0, decide_eq_false h1, decide_eq_false h2, decide_eq_false h3, decide_eq_false h4,
    decide_eq_false h5, decide_eq_false h6, decide_eq_false h7, decide_eq_false h8, decide_eq_false h9,
    Bool.false_eq_true, if_false]
  rw [hlist]; rfl

/-- the same as an equation between functions: `list()` is pure (it cannot fail and touches no
state), so the call can be replaced wherever it stands in a caller -/
theorem refine_Language_list_fun (W : World) (ℓ : Int) : Gen.Code.Language_list W ℓ = Go.pure (Model.list ℓ) := by
  funext st
  exact refine_Language_list W ℓ st

end Bip39V
