import Bip39V.Gen.Code.CheckMnemonic
import Bip39V.Lemmas.GoSem
/-! Refinement for `CheckMnemonic` (mnemonic.go): outcome and the package state it leaves. -/
namespace Bip39V
open Model Go

/-- the size gate translated from the source accepts exactly the five counts (same
shape-independent script as `wcGate_iff`), hence is the model's gate -/
theorem wcGate_code (n : Int) : Gen.Code.CheckMnemonic_gate n = wcGate n := by
  have h2 : Gen.Code.CheckMnemonic_gate n = false ↔ n = 12 ∨ n = 15 ∨ n = 18 ∨ n = 21 ∨ n = 24 := by
    unfold Gen.Code.CheckMnemonic_gate
    (try unfold Go.remIc)
    rcases Int.le_total 0 n with hn | hn
    · (try simp only [Int.tmod_eq_emod_of_nonneg hn]); simp <;> omega
    · obtain ⟨m, rfl, hm⟩ : ∃ m : Int, n = -m ∧ 0 ≤ m := ⟨-n, by omega, by omega⟩
      (try simp only [Int.neg_tmod, Int.tmod_eq_emod_of_nonneg hm]); simp <;> omega
  have h1 := wcGate_iff n
  cases h : Gen.Code.CheckMnemonic_gate n <;> cases h' : wcGate n <;> simp_all

/-- the format string in the translated source is the one the model (and C15) reads from
`Gen/Consts.lean`; `body_CheckMnemonic` below mentions it literally, so a changed format breaks the
refinement even when the error value of the model does not carry it -/
theorem fmt_code : [119, 111, 114, 100, 32, 96, 37, 115, 96, 32, 97, 116, 32, 96, 37, 100, 96, 32, 110, 111, 116, 32, 102, 111, 117, 110, 100, 32, 105, 110, 32, 109, 110, 101, 109, 111, 110, 105, 99, 32, 109, 97, 112, 112, 105, 110, 103]
    = Gen.CheckMnemonic.fmtStr := by decide

/-- closes "64-bit Go arithmetic on small naturals = the natural-number value", whatever the shape -/
macro "go_arith" : tactic =>
  `(tactic| ((try simp only [Go.mulU, Go.mulI, Go.addI, Go.subI, Go.addU, Go.subU, Go.toUint, Go.toInt,
      Go.wrapU, Go.wrapI, Go.two63, Go.two64]) <;> omega))

/-- one pass through the token loop; `k` is the shift count, however the source computes it
(`(wordCount-wordIdx-1)*11`, `(wordCount-1-wordIdx)*11`, `11*(…)`, …) -/
theorem body_CheckMnemonic (m : Option Nat) (wc : Nat) (pos : Nat) (w : Str) (acc : Nat) (st : St) (k : Int)
    (hk : k = (((wc - pos - 1) * 11 : Nat) : Int)) :
    (if (!(Go.mapLookup2 m w).snd) = true then
        Go.errorfSD [119, 111, 114, 100, 32, 96, 37, 115, 96, 32, 97, 116, 32, 96, 37, 100, 96, 32, 110, 111, 116, 32, 102, 111, 117, 110, 100, 32, 105, 110, 32, 109, 110, 101, 109, 111, 110, 105, 99, 32, 109, 97, 112, 112, 105, 110, 103] w (pos : Int)
      else
        Go.pure (Go.bigAdd (acc : Int) (Go.bigLsh (Go.bigNewInt (Go.mapLookup2 m w).fst) k))) st =
    match mapLookup m w with
    | none => (.err (.unknownWord w pos), st)
    | some idx => (.ok ((acc + idx <<< ((wc - pos - 1) * 11) : Nat) : Int), st) := by
  subst hk
  unfold Go.mapLookup2
  cases mapLookup m w with
  | none => simp [Go.errorfSD, Go.fail]
  | some idx =>
    simp only [Bool.not_true, Bool.false_eq_true, if_false, Go.bigNewInt, bigLsh_nat, Go.bigAdd, Go.pure]
    have : ((acc : Int) + ((idx <<< ((wc - pos - 1) * 11) : Nat) : Int)) = ((acc + idx <<< ((wc - pos - 1) * 11) : Nat) : Int) := by omega
    rw [this]

/-- the final comparison of the checksum, whichever way round and with whichever test the source
writes it; `MASK` is `(1<<cs)-1` however the source computes it -/
theorem fin_ne1 (e c : Nat) (MASK : Int) (x : Nat) (hM : MASK = ((1 <<< c - 1 : Nat) : Int)) :
    decide (bigCmp (x : Int) (bigAnd (e : Int) MASK) ≠ 0) = decide (x ≠ e &&& (1 <<< c - 1)) := by
  subst hM; rw [bigAnd_nat, bigCmp_ne_zero]; congr 1; apply propext; constructor <;> intro h <;> omega
theorem fin_ne2 (e c : Nat) (MASK : Int) (x : Nat) (hM : MASK = ((1 <<< c - 1 : Nat) : Int)) :
    decide (bigCmp (bigAnd (e : Int) MASK) (x : Int) ≠ 0) = decide (x ≠ e &&& (1 <<< c - 1)) := by
  subst hM; rw [bigAnd_nat, bigCmp_ne_zero]; congr 1; apply propext; constructor <;> intro h <;> omega
theorem fin_eq1 (e c : Nat) (MASK : Int) (x : Nat) (hM : MASK = ((1 <<< c - 1 : Nat) : Int)) :
    decide (bigCmp (x : Int) (bigAnd (e : Int) MASK) = 0) = decide (x = e &&& (1 <<< c - 1)) := by
  subst hM; rw [bigAnd_nat, bigCmp_eq_zero]; congr 1; apply propext; constructor <;> intro h <;> omega
theorem fin_eq2 (e c : Nat) (MASK : Int) (x : Nat) (hM : MASK = ((1 <<< c - 1 : Nat) : Int)) :
    decide (bigCmp (bigAnd (e : Int) MASK) (x : Int) = 0) = decide (x = e &&& (1 <<< c - 1)) := by
  subst hM; rw [bigAnd_nat, bigCmp_eq_zero]; congr 1; apply propext; constructor <;> intro h <;> omega

/-- everything after the token loop: split the checksum bits off, rebuild the entropy bytes, hash,
compare.  `SHIFT`, `WIDTH`, `SH2` are the divisor `1<<cs`, the byte width `4·cs` and the divisor
`1<<(8-cs)` however the source computes them; `F` is the final comparison however it is written. -/
theorem checkTail (W : World) (entBig cs : Nat) (hcs8 : cs ≤ 8) (st' : St)
    (SHIFT WIDTH SH2 : Int) (F : Int → M Unit)
    (hshift : SHIFT = ((1 <<< cs : Nat) : Int)) (hwidth : WIDTH = ((cs * 4 : Nat) : Int))
    (hsh2 : SH2 = ((1 <<< (8 - cs) : Nat) : Int))
    (hF : ∀ x : Nat, F (x : Int) st' =
      if x ≠ entBig &&& (1 <<< cs - 1) then (.err .checksum, st') else (.ok (), st')) :
    (Go.bind (bigQuo (entBig : Int) (bigNewInt SHIFT)) fun q =>
     Go.bind (makeBytes WIDTH) fun buf =>
     Go.bind (bigFillBytes q buf) fun entBytes =>
     Go.bind (sliceBytes (hashSum W (hashWrite sha256New entBytes) []) 0 1) fun t5 =>
     Go.bind (bigQuo (bigSetBytes t5) (bigNewInt SH2)) F) st' =
    ((if 1 <<< cs = 0 then Res.panic Panic.divByZero
      else if byteLen (entBig / 1 <<< cs) > cs * 4 then Res.panic Panic.fillBytesOverflow
      else match goSlice (W.D (toBytesFixed (cs * 4) (entBig / 1 <<< cs))) 0 1 with
        | none => Res.panic Panic.sliceOutOfRange
        | some first =>
          if cs > 8 then Res.panic Panic.divByZero
          else if 1 <<< (8 - cs) = 0 then Res.panic Panic.divByZero
          else if beNat first / 1 <<< (8 - cs) ≠ entBig &&& (1 <<< cs - 1) then Res.err Err.checksum
          else Res.ok ()), st') := by
  subst hshift hwidth hsh2
  have hpos : 1 ≤ 1 <<< cs := by rw [Nat.shiftLeft_eq, Nat.one_mul]; exact Nat.pow_pos (by decide)
  have hsne : (1 <<< cs : Nat) ≠ 0 := by omega
  have hd2 : (1 <<< (8 - cs) : Nat) ≠ 0 := by
    rw [Nat.shiftLeft_eq, Nat.one_mul]; exact Nat.pos_iff_ne_zero.mp (Nat.pow_pos (by decide))
  simp only [bigSetBytes, sha256New, hashWrite, hashSum, List.nil_append, bigNewInt]
  rw [bind_ok (bigQuo_nat entBig _ hsne st'), if_neg hsne, bind_ok (makeBytes_nonneg (by omega) st'), Int.toNat_natCast]
  by_cases hov : byteLen (entBig / 1 <<< cs) > cs * 4
  · rw [bind_panic (bigFillBytes_overflow _ _ st' (by rw [List.length_replicate]; exact hov)), if_pos hov]
  · rw [bind_ok (bigFillBytes_ok _ _ st' (by rw [List.length_replicate]; exact hov)), if_neg hov, List.length_replicate]
    cases hs : goSlice (W.D (toBytesFixed (cs * 4) (entBig / 1 <<< cs))) 0 1 with
    | none => rw [bind_panic (sliceBytes_none hs st')]
    | some first =>
      rw [bind_ok (sliceBytes_some hs st')]
      have h8 : ¬ cs > 8 := by omega
      rw [bind_ok (bigQuo_nat _ _ hd2 st'), hF]
      simp only [h8, hd2, if_false]
      by_cases hne : beNat first / 1 <<< (8 - cs) = entBig &&& (1 <<< cs - 1)
      · simp [hne]
      · simp [hne]

/-- `CheckMnemonic`, for every string and language value, from every package state: the outcome
and the state of the lazily built maps it leaves (none are touched when the word count is wrong).
The arithmetic of the source (shift count per word, divisors, byte width) may be written in any way
the translator accepts: each expression is compared with its value by evaluation at the five legal
word counts (`go_arith`, `decide`), not by its shape. -/
theorem refine_CheckMnemonic (W : World) (s : Str) (ℓ : Int) (st : St) :
    Gen.Code.CheckMnemonic W s ℓ st =
      ((checkMnemonicSt W.X W.D st.pkg s ℓ).2, { st with pkg := (checkMnemonicSt W.X W.D st.pkg s ℓ).1 }) := by
  unfold Gen.Code.CheckMnemonic checkMnemonicSt
  dsimp only
  have hsplit : splitItem = 32 := rfl
  rw [hsplit]
  generalize splitOn 32 (W.X s) = toks
  unfold lenStrs
  rw [wcGate_code]
  cases hg : wcGate (toks.length : Int) with
  | true =>
    rfl
  | false =>
    have hn := (wcGate_iff _).mp hg
    have hwc : toks.length ≤ 24 := by omega
    simp only [Bool.false_eq_true, if_false]
    rw [bind_ok (langMapping_apply ℓ st)]
    generalize (Model.mapping st.pkg ℓ).2 = m
    generalize ({ st with pkg := (Model.mapping st.pkg ℓ).1 } : St) = st'
    rw [checkTokens_lit]
    unfold checkTokensLit
    dsimp only
    rw [hg]
    simp only [Bool.false_eq_true, if_false]
    have hloop : ∀ body, (∀ (pos : Nat) (w : Str) (acc : Nat) (st : St), pos < toks.length →
        body (pos : Int) w (acc : Int) st =
          match mapLookup m w with
          | none => (.err (.unknownWord w pos), st)
          | some idx => (.ok ((acc + idx <<< ((toks.length - pos - 1) * 11) : Nat) : Int), st)) →
        forRange toks bigZero body st' =
          match sumWords m toks.length toks 0 0 with
          | .ok a => (.ok (a : Int), st')
          | .error (w, p) => (.err (.unknownWord w p), st') :=
      fun body hb => forRange_sumWords m toks body hb st'
    cases hsw : sumWords m toks.length toks 0 0 with
    | error wp =>
      obtain ⟨w, p⟩ := wp
      rw [hsw] at hloop
      refine (bind_err (hloop _ ?_)).trans rfl
      intro pos w acc st hpos
      exact body_CheckMnemonic m toks.length pos w acc st _ (by go_arith)
    | ok entBig =>
      rw [hsw] at hloop
      refine (bind_ok (hloop _ ?_)).trans ?_
      · intro pos w acc st hpos
        exact body_CheckMnemonic m toks.length pos w acc st _ (by go_arith)
      dsimp only
      -- the five legal counts: every arithmetic expression of the source becomes a closed term
      rcases hn with hI | hI | hI | hI | hI
      · have hN : toks.length / 3 = 4 := by omega
        simp only [hI, hN]
        refine checkTail W entBig 4 (by decide) st' _ _ _ _ (by decide) (by decide) (by decide) ?_
        intro x
        dsimp only [bigNewInt]
        first
          | rw [fin_ne1 entBig 4 _ x (by decide)]
          | rw [fin_ne2 entBig 4 _ x (by decide)]
          | rw [fin_eq1 entBig 4 _ x (by decide)]
          | rw [fin_eq2 entBig 4 _ x (by decide)]
        generalize entBig &&& (1 <<< 4 - 1) = csv
        by_cases hx : x = csv <;> simp [hx, Go.pure, Go.fail]
      · have hN : toks.length / 3 = 5 := by omega
        simp only [hI, hN]
        refine checkTail W entBig 5 (by decide) st' _ _ _ _ (by decide) (by decide) (by decide) ?_
        intro x
        dsimp only [bigNewInt]
        first
          | rw [fin_ne1 entBig 5 _ x (by decide)]
          | rw [fin_ne2 entBig 5 _ x (by decide)]
          | rw [fin_eq1 entBig 5 _ x (by decide)]
          | rw [fin_eq2 entBig 5 _ x (by decide)]
        generalize entBig &&& (1 <<< 5 - 1) = csv
        by_cases hx : x = csv <;> simp [hx, Go.pure, Go.fail]
      · have hN : toks.length / 3 = 6 := by omega
        simp only [hI, hN]
        refine checkTail W entBig 6 (by decide) st' _ _ _ _ (by decide) (by decide) (by decide) ?_
        intro x
        dsimp only [bigNewInt]
        first
          | rw [fin_ne1 entBig 6 _ x (by decide)]
          | rw [fin_ne2 entBig 6 _ x (by decide)]
          | rw [fin_eq1 entBig 6 _ x (by decide)]
          | rw [fin_eq2 entBig 6 _ x (by decide)]
        generalize entBig &&& (1 <<< 6 - 1) = csv
        by_cases hx : x = csv <;> simp [hx, Go.pure, Go.fail]
      · have hN : toks.length / 3 = 7 := by omega
        simp only [hI, hN]
        refine checkTail W entBig 7 (by decide) st' _ _ _ _ (by decide) (by decide) (by decide) ?_
        intro x
        dsimp only [bigNewInt]
        first
          | rw [fin_ne1 entBig 7 _ x (by decide)]
          | rw [fin_ne2 entBig 7 _ x (by decide)]
          | rw [fin_eq1 entBig 7 _ x (by decide)]
          | rw [fin_eq2 entBig 7 _ x (by decide)]
        generalize entBig &&& (1 <<< 7 - 1) = csv
        by_cases hx : x = csv <;> simp [hx, Go.pure, Go.fail]
      · have hN : toks.length / 3 = 8 := by omega
        simp only [hI, hN]
        refine checkTail W entBig 8 (by decide) st' _ _ _ _ (by decide) (by decide) (by decide) ?_
        intro x
        dsimp only [bigNewInt]
        first
          | rw [fin_ne1 entBig 8 _ x (by decide)]
          | rw [fin_ne2 entBig 8 _ x (by decide)]
          | rw [fin_eq1 entBig 8 _ x (by decide)]
          | rw [fin_eq2 entBig 8 _ x (by decide)]
        generalize entBig &&& (1 <<< 8 - 1) = csv
        by_cases hx : x = csv <;> simp [hx, Go.pure, Go.fail]

end Bip39V
