import Bip39V.Gen.Code.CheckMnemonic
import Bip39V.Lemmas.GoSem
/-! Refinement for `CheckMnemonic` (mnemonic.go): outcome and the package state it leaves. -/
namespace Bip39V
open Model Go

/-- the size gate translated from the source accepts exactly the five counts (same
shape-independent script as `wcGate_iff`), hence is the model's gate -/
theorem wcGate_code (n : Int) : Gen.Code.CheckMnemonic_gate n = wcGate n := by
  have h2 : Gen.Code.CheckMnemonic_gate n = false ↔ n = 12 ∨ n = 15 ∨ n = 18 ∨ n = 21 ∨ n = 24 := by
    unfold Gen.Code.CheckMnemonic_gate
    (try unfold Go.remIc)
    rcases Int.le_total 0 n with hn | hn
    · (try simp only [Int.tmod_eq_emod_of_nonneg hn]); simp <;> omega
    · obtain ⟨m, rfl, hm⟩ : ∃ m : Int, n = -m ∧ 0 ≤ m := ⟨-n, by omega, by omega⟩
      (try simp only [Int.neg_tmod, Int.tmod_eq_emod_of_nonneg hm]); simp <;> omega
  have h1 := wcGate_iff n
  cases h : Gen.Code.CheckMnemonic_gate n <;> cases h' : wcGate n <;> simp_all

/-- the format string in the translated source is the one the model (and C15) reads from
`Gen/Consts.lean`; `body_CheckMnemonic` below mentions it literally, so a changed format breaks the
refinement even when the error value of the model does not carry it -/
theorem fmt_code : [119, 111, 114, 100, 32, 96, 37, 115, 96, 32, 97, 116, 32, 96, 37, 100, 96, 32, 110, 111, 116, 32, 102, 111, 117, 110, 100, 32, 105, 110, 32, 109, 110, 101, 109, 111, 110, 105, 99, 32, 109, 97, 112, 112, 105, 110, 103]
    = Gen.CheckMnemonic.fmtStr := by decide

/-- one pass through the token loop -/
theorem body_CheckMnemonic (m : Option Nat) (wc : Nat) (hwc : wc ≤ 24) (pos : Nat) (w : Str) (acc : Nat) (st : St) (hpos : pos < wc) :
    (if (!(Go.mapLookup2 m w).snd) = true then
        Go.errorfSD [119, 111, 114, 100, 32, 96, 37, 115, 96, 32, 97, 116, 32, 96, 37, 100, 96, 32, 110, 111, 116, 32, 102, 111, 117, 110, 100, 32, 105, 110, 32, 109, 110, 101, 109, 111, 110, 105, 99, 32, 109, 97, 112, 112, 105, 110, 103] w (pos : Int)
      else
        Go.pure (Go.bigAdd (acc : Int) (Go.bigLsh (Go.bigNewInt (Go.mapLookup2 m w).fst)
          (Go.mulU (Go.toUint (Go.subI (Go.subI (wc : Int) (pos : Int)) (1 : Int))) (11 : Int))))) st =
    match mapLookup m w with
    | none => (.err (.unknownWord w pos), st)
    | some idx => (.ok ((acc + idx <<< ((wc - pos - 1) * 11) : Nat) : Int), st) := by
  unfold Go.mapLookup2
  cases mapLookup m w with
  | none => simp [Go.errorfSD, Go.fail]
  | some idx =>
    have h1 : Go.subI (wc : Int) (pos : Int) = ((wc - pos : Nat) : Int) := subI_nat wc pos (by omega) (by omega)
    have h2 : Go.subI ((wc - pos : Nat) : Int) (1 : Int) = ((wc - pos - 1 : Nat) : Int) := subI_nat (wc - pos) 1 (by omega) (by omega)
    have h3 : Go.toUint ((wc - pos - 1 : Nat) : Int) = ((wc - pos - 1 : Nat) : Int) := toUint_nat _ (by omega)
    have h4 : Go.mulU ((wc - pos - 1 : Nat) : Int) (11 : Int) = (((wc - pos - 1) * 11 : Nat) : Int) := mulU_nat _ 11 (by omega)
    simp only [Bool.not_true, Bool.false_eq_true, if_false, h1, h2, h3, h4, Go.bigNewInt, bigLsh_nat, Go.bigAdd, Go.pure]
    have : ((acc : Int) + ((idx <<< ((wc - pos - 1) * 11) : Nat) : Int)) = ((acc + idx <<< ((wc - pos - 1) * 11) : Nat) : Int) := by omega
    rw [this]

/-- `CheckMnemonic`, for every string and language value, from every package state: the outcome
and the state of the lazily built maps it leaves (none are touched when the word count is wrong) -/
theorem refine_CheckMnemonic (W : World) (s : Str) (ℓ : Int) (st : St) :
    Gen.Code.CheckMnemonic W s ℓ st =
      ((checkMnemonicSt W.X W.D st.pkg s ℓ).2, { st with pkg := (checkMnemonicSt W.X W.D st.pkg s ℓ).1 }) := by
  unfold Gen.Code.CheckMnemonic checkMnemonicSt
  dsimp only
  have hsplit : splitItem = 32 := rfl
  rw [hsplit]
  generalize splitOn 32 (W.X s) = toks
  unfold lenStrs
  rw [wcGate_code]
  cases hg : wcGate (toks.length : Int) with
  | true =>
    rfl
  | false =>
    have hn := (wcGate_iff _).mp hg
    have hwc : toks.length ≤ 24 := by omega
    simp only [Bool.false_eq_true, if_false]
    rw [bind_ok (langMapping_apply ℓ st)]
    generalize (Model.mapping st.pkg ℓ).2 = m
    generalize ({ st with pkg := (Model.mapping st.pkg ℓ).1 } : St) = st'
    rw [checkTokens_lit]
    unfold checkTokensLit
    dsimp only
    rw [hg]
    simp only [Bool.false_eq_true, if_false]
    -- arithmetic, in natural-number form
    have hdiv : divIc (toks.length : Int) 3 = ((toks.length / 3 : Nat) : Int) := divIc_nat toks.length 3 (by omega)
    have hcs8 : toks.length / 3 ≤ 8 := by omega
    generalize toks.length / 3 = cs at *
    have hcs : toUint ((cs : Nat) : Int) = ((cs : Nat) : Int) := toUint_nat cs (by omega)
    have hshift : shlI 1 ((cs : Nat) : Int) = ((1 <<< cs : Nat) : Int) := shlI_one_small cs (by omega)
    have hpos : 1 ≤ 1 <<< cs := by rw [Nat.shiftLeft_eq, Nat.one_mul]; exact Nat.pow_pos (by decide)
    have hle : 1 <<< cs ≤ 256 := by
      rw [Nat.shiftLeft_eq, Nat.one_mul]
      exact Nat.le_trans (Nat.pow_le_pow_right (by decide) hcs8) (by decide)
    have hmask : subI ((1 <<< cs : Nat) : Int) 1 = ((1 <<< cs - 1 : Nat) : Int) := subI_nat _ 1 hpos (by omega)
    have hwidth : mulI ((cs : Nat) : Int) 4 = ((cs * 4 : Nat) : Int) := mulI_nat cs 4 (by omega)
    have hsub8 : subU 8 ((cs : Nat) : Int) = ((8 - cs : Nat) : Int) := subU_small 8 cs hcs8 (by decide)
    have hsh2 : shlI 1 (((8 - cs : Nat)) : Int) = ((1 <<< (8 - cs) : Nat) : Int) := shlI_one_small _ (by omega)
    have hd2 : (1 <<< (8 - cs) : Nat) ≠ 0 := by
      rw [Nat.shiftLeft_eq, Nat.one_mul]; exact Nat.pos_iff_ne_zero.mp (Nat.pow_pos (by decide))
    simp only [hdiv, hcs, hshift, hmask, hwidth, hsub8, hsh2]
    simp only [bigSetBytes, sha256New, hashWrite, hashSum, List.nil_append]
    have hloop : ∀ body, (∀ (pos : Nat) (w : Str) (acc : Nat) (st : St), pos < toks.length →
        body (pos : Int) w (acc : Int) st =
          match mapLookup m w with
          | none => (.err (.unknownWord w pos), st)
          | some idx => (.ok ((acc + idx <<< ((toks.length - pos - 1) * 11) : Nat) : Int), st)) →
        forRange toks bigZero body st' =
          match sumWords m toks.length toks 0 0 with
          | .ok a => (.ok (a : Int), st')
          | .error (w, p) => (.err (.unknownWord w p), st') :=
      fun body hb => forRange_sumWords m toks body hb st'
    cases hsw : sumWords m toks.length toks 0 0 with
    | error wp =>
      obtain ⟨w, p⟩ := wp
      rw [hsw] at hloop
      refine (bind_err (hloop _ ?_)).trans rfl
      intro pos w acc st hpos
      exact body_CheckMnemonic m toks.length hwc pos w acc st hpos
    | ok entBig =>
      rw [hsw] at hloop
      refine (bind_ok (hloop _ ?_)).trans ?_
      · intro pos w acc st hpos
        exact body_CheckMnemonic m toks.length hwc pos w acc st hpos
      dsimp only
      have hsne : (1 <<< cs : Nat) ≠ 0 := by omega
      rw [bind_ok (bigQuo_nat entBig _ hsne st'), if_neg hsne, bind_ok (makeBytes_nonneg (by omega) st'), Int.toNat_natCast]
      by_cases hov : byteLen (entBig / 1 <<< cs) > cs * 4
      · rw [bind_panic (bigFillBytes_overflow _ _ st' (by rw [List.length_replicate]; exact hov)), if_pos hov]
      · rw [bind_ok (bigFillBytes_ok _ _ st' (by rw [List.length_replicate]; exact hov)), if_neg hov, List.length_replicate]
        cases hs : goSlice (W.D (toBytesFixed (cs * 4) (entBig / 1 <<< cs))) 0 1 with
        | none => rw [bind_panic (sliceBytes_none hs st')]
        | some first =>
          rw [bind_ok (sliceBytes_some hs st')]
          dsimp only
          have h8 : ¬ cs > 8 := by omega
          rw [bind_ok (bigQuo_nat _ _ hd2 st'), if_neg h8, if_neg hd2]
          -- the final comparison, whichever way round the source writes it (`!= 0 … return err` or
          -- `== 0 … return nil`)
          rw [bigAnd_nat]
          first | rw [bigCmp_ne_zero] | rw [bigCmp_eq_zero]
          by_cases hne : beNat first / 1 <<< (8 - cs) = entBig &&& (1 <<< cs - 1)
          · have hi : ((beNat first / 1 <<< (8 - cs) : Nat) : Int) = ((entBig &&& (1 <<< cs - 1) : Nat) : Int) := by omega
            simp only [hi, hne, decide_true, decide_false, Bool.false_eq_true, if_true, if_false, ne_eq, not_true_eq_false]; rfl
          · have hi : ¬ (((beNat first / 1 <<< (8 - cs) : Nat) : Int) = ((entBig &&& (1 <<< cs - 1) : Nat) : Int)) := by omega
            simp only [hi, hne, decide_true, decide_false, Bool.false_eq_true, if_true, if_false, ne_eq, not_false_eq_true]; rfl

end Bip39V
