import Bip39V.Gen.Code.fromEntropy
import Bip39V.Lemmas.GoSem
import Bip39V.Props.Refine.LanguageList
/-! Refinement for `fromEntropy`: the function body regenerated from entropy.go
(`Gen/Code/fromEntropy.lean`) computes exactly what the hand-written model computes.  (The proofs
step through the statements with `bind_ok`/`bind_panic`; see the note in `Lemmas/GoSem.lean` on why
`Go.bind` is never unfolded wholesale.) -/
namespace Bip39V
open Model Go

/-- one pass through the word loop -/
theorem body_fromEntropy (lst : List Str) (i n : Nat) (wl : List Str) (st' : St) (hi : i < wl.length) :
    (let wordIdx := bigAnd (n : Int) Gen.Code.last11BitsMask
     Go.bind (bigQuo (n : Int) Gen.Code.first11BitsMask) fun entInt =>
     Go.bind (indexStrs lst (bigInt64 wordIdx)) fun t1 =>
     Go.bind (setStrs wl (i : Int) t1) fun wordList =>
     Go.pure (entInt, wordList, wordIdx)) st' =
    match lst[n &&& 2047]? with
    | none => (.panic .indexOutOfRange, st')
    | some w => (.ok (((n / 2048 : Nat) : Int), wl.set i w, ((n &&& 2047 : Nat) : Int)), st') := by
  have hm : (n &&& 2047) < 9223372036854775808 := Nat.lt_of_le_of_lt Nat.and_le_right (by decide)
  have hq := bigQuo_nat n 2048 (by decide) st'
  have ha : bigAnd (n : Int) Gen.Code.last11BitsMask = ((n &&& 2047 : Nat) : Int) := bigAnd_nat n 2047
  have h64 := bigInt64_nat _ hm
  have hf : Gen.Code.first11BitsMask = ((2048 : Nat) : Int) := rfl
  simp only [ha, hf, Go.bind, hq, h64, indexStrs]
  have hnn : ¬ (((n &&& 2047 : Nat) : Int) < 0) := by omega
  simp only [hnn, if_false, Int.toNat_natCast]
  cases lst[n &&& 2047]? with
  | none => simp [Go.panic]
  | some w =>
    have hset : ¬ ((i : Int) < 0 ∨ i ≥ wl.length) := by omega
    simp only [Go.pure, setStrs, Int.toNat_natCast, hset, if_false]

/-- `fromEntropy`, for every slice (`len` is an `int`) and every `int` word count -/
theorem refine_fromEntropy (W : World) (e : Bytes) (wordLen ℓ : Int) (st : St)
    (hlen : (e.length : Int) < 9223372036854775808) (hw : wordLen < 9223372036854775808) :
    Gen.Code.fromEntropy W e wordLen ℓ st = (Model.fromEntropy W.D e wordLen ℓ, st) := by
  rw [fromEntropy_lit]
  unfold Gen.Code.fromEntropy fromEntropyLit
  dsimp only
  -- `lg.list()` is pure: replace the call wherever the source places it
  simp only [refine_Language_list_fun, bind_pure_fun]
  -- the checksum width `len(entropy)/4`, converted to `uint` before or after the division
  rw [show lenBytes e = ((e.length : Nat) : Int) from rfl]
  simp only [(csWidth_forms e.length hlen).1, (csWidth_forms e.length hlen).2]
  have hcsb : e.length / 4 < 9223372036854775808 := by omega
  generalize e.length / 4 = cs at *
  simp only [sha256New, hashWrite, hashSum, List.nil_append]
  cases hs : goSlice (W.D e) 0 1 with
  | none => rw [bind_panic (sliceBytes_none hs st)]
  | some checksum =>
    rw [bind_ok (sliceBytes_some hs st)]
    dsimp only
    by_cases hbig : cs > 8
    · have h1 : subU 8 (cs : Int) ≥ 64 := subU_wrap 8 cs (by omega) (by omega)
      have hsh : shlI 1 (subU 8 (cs : Int)) = 0 := by
        unfold shlI; rw [if_pos h1]
      simp only [bigNewInt]
      rw [hsh, bind_panic (bigQuo_zero _ st), if_pos hbig]
    · have hle : cs ≤ 8 := by omega
      have hsh : shlI 1 (subU 8 (cs : Int)) = ((1 <<< (8 - cs) : Nat) : Int) := by
        rw [show (8 : Int) = ((8 : Nat) : Int) from rfl, subU_small 8 cs hle (by decide), shlI_one_small _ (by omega)]
      have hd : (1 <<< (8 - cs) : Nat) ≠ 0 := by
        rw [Nat.shiftLeft_eq, Nat.one_mul]; exact Nat.pos_iff_ne_zero.mp (Nat.pow_pos (by decide))
      simp only [bigSetBytes, bigNewInt]
      rw [hsh, bind_ok (bigQuo_nat _ _ hd st), if_neg hbig, if_neg hd]
      rw [bigLsh_nat]
      unfold bigAdd
      have hcast : ((beNat e <<< cs : Nat) : Int) + ((beNat checksum / 1 <<< (8 - cs) : Nat) : Int)
          = ((beNat e <<< cs + beNat checksum / 1 <<< (8 - cs) : Nat) : Int) := by omega
      rw [hcast]
      generalize beNat e <<< cs + beNat checksum / 1 <<< (8 - cs) = entInt
      by_cases hneg : wordLen < 0
      · rw [bind_panic (makeStrs_neg hneg st), if_pos hneg]
      · rw [bind_ok (makeStrs_nonneg hneg st), if_neg hneg]
        have h2048 : ¬ ((2048 : Nat) = 0 ∧ wordLen.toNat ≠ 0) := by omega
        rw [if_neg h2048]
        have hsub : subI wordLen 1 = ((wordLen.toNat : Nat) : Int) - 1 := by
          unfold subI; rw [wrapI_of_range _ (by omega) (by omega)]; omega
        have hfuel : (((wordLen.toNat : Nat) : Int) - 1 - 0 + 1).toNat = wordLen.toNat := by omega
        unfold forDown
        rw [hsub, hfuel]
        rw [forDownAux_peel (Model.list ℓ) _
          (by intro i n idx wl st' hi; exact body_fromEntropy (Model.list ℓ) i n wl st' hi)
          _ (by intros; rfl) wordLen.toNat entInt bigZero (List.replicate wordLen.toNat []) st (by simp)]
        cases peelWords (list ℓ) 2047 2048 wordLen.toNat entInt with
        | none => rfl
        | some ws =>
          dsimp only
          have hdrop : List.drop wordLen.toNat (List.replicate wordLen.toNat ([] : Str)) = [] := by simp
          rw [hdrop, List.append_nil]
          -- the choice of the separator, whichever way round the source tests it
          by_cases hj : ℓ = Gen.vJapanese
          · simp [hj, Go.pure]
          · simp [hj, Go.pure]

end Bip39V
