import Bip39V.Gen.Code.MnemonicToSeed
import Bip39V.Model.Seed
import Bip39V.Lemmas.GoSem
/-! Refinement for `MnemonicToSeed` (bip39.go). -/
namespace Bip39V
open Model Go

/-- `MnemonicToSeed`, for every pair of strings: it cannot fail and touches no state -/
theorem refine_MnemonicToSeed (W : World) (m p : Str) (st : St) :
    Gen.Code.MnemonicToSeed W m p st = (.ok (Model.mnemonicToSeed W.X W.PB m p), st) := rfl

end Bip39V
