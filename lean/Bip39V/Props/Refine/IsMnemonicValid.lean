import Bip39V.Gen.Code.IsMnemonicValid
import Bip39V.Props.Refine.CheckMnemonic
/-! Refinement for `IsMnemonicValid` (mnemonic.go). -/
namespace Bip39V
open Model Go

/-- `IsMnemonicValid`: `CheckMnemonic(...) == nil`, same state effect -/
theorem refine_IsMnemonicValid (W : World) (s : Str) (ℓ : Int) (st : St) :
    Gen.Code.IsMnemonicValid W s ℓ st =
      ((match (checkMnemonicSt W.X W.D st.pkg s ℓ).2 with
        | .ok () => .ok true
        | .err _ => .ok false
        | .panic p => .panic p),
       { st with pkg := (checkMnemonicSt W.X W.D st.pkg s ℓ).1 }) := by
  unfold Gen.Code.IsMnemonicValid
  rw [bind_pure_id]
  unfold errIsNil
  rw [refine_CheckMnemonic]
  cases (checkMnemonicSt W.X W.D st.pkg s ℓ).2 <;> rfl

end Bip39V
