import Bip39V.Props.Tab.ChineseSimplified
import Bip39V.Props.Tab.ChineseTraditional
import Bip39V.Props.Tab.Czech
import Bip39V.Props.Tab.English
import Bip39V.Props.Tab.French
import Bip39V.Props.Tab.Italian
import Bip39V.Props.Tab.Japanese
import Bip39V.Props.Tab.Korean
import Bip39V.Props.Tab.Portuguese
import Bip39V.Props.Tab.Spanish
import Bip39V.Spec.Bip39
import Bip39V.Lemmas.Split
/-! The regenerated tables, the `list()`/`mapping()` switches and the canonical lists: everything
the property theorems need to know about the data, each fact re-established from the regenerated
`Gen` files on every run. -/
namespace Bip39V
open Spec

/-- the ten tables the specification pairs with the ten languages -/
def knownTables : List Nat :=
  [Gen.tChineseSimplified, Gen.tChineseTraditional, Gen.tEnglish, Gen.tFrench, Gen.tItalian,
   Gen.tJapanese, Gen.tKorean, Gen.tSpanish, Gen.tCzech, Gen.tPortuguese]

theorem knownTables_eq : knownTables = Lang.all.map Lang.genTable := rfl

/-- every regenerated table passes the complete check against its certificate -/
theorem gen_tableOk (L : Lang) : tableOk (Gen.tree L.genTable) (Gen.table L.genTable).toList = true := by
  cases L
  · exact Tab.ChineseSimplified.gen_ok
  · exact Tab.ChineseTraditional.gen_ok
  · exact Tab.English.gen_ok
  · exact Tab.French.gen_ok
  · exact Tab.Italian.gen_ok
  · exact Tab.Japanese.gen_ok
  · exact Tab.Korean.gen_ok
  · exact Tab.Spanish.gen_ok
  · exact Tab.Czech.gen_ok
  · exact Tab.Portuguese.gen_ok

theorem words_eq_table (L : Lang) : Model.words L.genTable = (Gen.table L.genTable).toList.map unpack := by
  cases L <;> rfl

/-- C08 core: each regenerated table equals the pinned canonical list -/
theorem gen_eq_canon (L : Lang) : (Gen.table L.genTable).toList = L.canon.toList := by
  cases L
  · exact Tab.ChineseSimplified.gen_eq_canon
  · exact Tab.ChineseTraditional.gen_eq_canon
  · exact Tab.English.gen_eq_canon
  · exact Tab.French.gen_eq_canon
  · exact Tab.Italian.gen_eq_canon
  · exact Tab.Japanese.gen_eq_canon
  · exact Tab.Korean.gen_eq_canon
  · exact Tab.Spanish.gen_eq_canon
  · exact Tab.Czech.gen_eq_canon
  · exact Tab.Portuguese.gen_eq_canon

theorem canon_words (L : Lang) : L.words = L.canon.toList.map unpack := by cases L <;> rfl

theorem words_eq_canon (L : Lang) : Model.words L.genTable = L.words := by
  rw [words_eq_table, gen_eq_canon, canon_words]

/-- the ten constants have ten different values -/
theorem value_injective : ∀ L₁ L₂ : Lang, L₁.value = L₂.value → L₁ = L₂ := by
  intro L₁ L₂
  cases L₁ <;> cases L₂ <;> first | (intro _; rfl) | (intro h; exact absurd h (by decide))

/-- `list()` sends each language constant to the table of the same name -/
theorem listTable_lang (L : Lang) : Model.listTable L.value = L.genTable := by
  cases L <;> decide

/-- every arm of `list()`, and its default, lands in one of the ten tables -/
theorem listTable_known (ℓ : Int) : ∃ L : Lang, Model.listTable ℓ = L.genTable := by
  have harms : ∀ a ∈ Gen.listArms, a.2 ∈ knownTables := by decide
  have hdef : Gen.listDefault ∈ knownTables := by decide
  have key : Model.listTable ℓ ∈ knownTables := by
    unfold Model.listTable
    generalize Gen.listArms = arms at harms
    induction arms with
    | nil => simpa [Model.assoc] using hdef
    | cons a r ih =>
      obtain ⟨k, v⟩ := a
      simp only [Model.assoc]
      split
      · simpa using harms (k, v) List.mem_cons_self
      · exact ih (fun x hx => harms x (List.mem_cons_of_mem _ hx))
  rw [knownTables_eq, List.mem_map] at key
  obtain ⟨L, _, hL⟩ := key
  exact ⟨L, hL.symm⟩

theorem list_lang (L : Lang) : Model.list L.value = L.words := by
  unfold Model.list; rw [listTable_lang, words_eq_canon]

theorem words_length (L : Lang) : L.words.length = 2048 := by
  rw [← words_eq_canon, words_eq_table, List.length_map]; exact tableOk_length (gen_tableOk L)

theorem words_nodup (L : Lang) : L.words.Nodup := by
  rw [← words_eq_canon, words_eq_table]; exact tableOk_nodup (gen_tableOk L)

theorem words_wordOk (L : Lang) : ∀ w ∈ L.words, wordOk w = true := by
  rw [← words_eq_canon, words_eq_table]; exact tableOk_wordOk (gen_tableOk L)

/-- whatever the language value, `list()` yields a 2048-word table -/
theorem list_length (ℓ : Int) : (Model.list ℓ).length = 2048 := by
  obtain ⟨L, hL⟩ := listTable_known ℓ
  unfold Model.list; rw [hL, words_eq_canon, words_length]

/-- `mapping()` from a fresh process: each language constant gets the map of its own table; any
other value gets nil -/
theorem mapping_lang (L : Lang) : (Model.mapping .init L.value).2 = some L.genTable := by
  cases L <;> decide

theorem mapping_other (ℓ : Int) (h : Lang.ofValue ℓ = none) : (Model.mapping .init ℓ).2 = none := by
  have harms : ∀ a ∈ Gen.mapArms, (Lang.ofValue a.value).isSome = true := by decide
  unfold Model.mapping Model.mappingArms
  generalize Gen.mapArms = arms at harms
  have : Model.findArm arms ℓ = none := by
    induction arms with
    | nil => rfl
    | cons a r ih =>
      simp only [Model.findArm]
      split
      · rename_i heq
        have := harms a List.mem_cons_self
        have hv : a.value = ℓ := by simpa using heq
        rw [hv, h] at this; cases this
      · exact ih (fun x hx => harms x (List.mem_cons_of_mem _ hx))
  rw [this]


theorem space_not_mem_word (L : Lang) (w : Str) (hw : w ∈ L.words) : 0x20 ∉ w :=
  not_mem_of_noWs (wordOk_noWs (words_wordOk L w hw)) 0x20 (by decide)

theorem sep_not_mem_word (L : Lang) (w : Str) (hw : w ∈ L.words) : L.sep ∉ w :=
  not_mem_of_noWs (wordOk_noWs (words_wordOk L w hw)) L.sep (by cases L <;> decide)

theorem word_mem (L : Lang) (i : Nat) (hi : i < 2048) : L.word i ∈ L.words := by
  have hlt : i < L.words.length := by rw [words_length]; exact hi
  unfold Lang.word
  rw [List.getElem?_eq_getElem hlt, Option.getD_some]
  exact List.getElem_mem hlt

end Bip39V
