import Bip39V.Lemmas.Conc
import Bip39V.Props.C13
/-! # C12 — concurrent use from a cold start is race-free and equals sequential use

The interleaving model of `Lemmas/Conc.lean` is instantiated with the regenerated arms of
`mapping()`: thread `t` calling `mapping()` on the `l`-th arm uses once cell `(g l).cell`, its
closure writes variable `(g l).wvar`, and after `Do` returns it reads `(g l).rvar`.  Any number of
threads, any schedule.  Happens-before = program order ∪ (the closure's exit → every later return
from `Do` on the same cell), which is what the Go memory model guarantees for `sync.Once`.

Everything else in the package is call-local or read-only: for the function bodies translated
from the source this is the theorem `src_c12_footprint` (`Props/Source/C12.lean`: no exported
function changes the package state except through its one call of `mapping()`), and the translator
refuses any function that writes a package-level variable or uses the two `big.Int` masks other than
as read-only arguments; so this is the only shared mutable state.
The theorem is about this protocol model; the scheduler and the memory model are assumed, and the
race detector run by the harness only supports. -/
namespace Bip39V
open Model

/-- the guard table of the regenerated arms; values without an arm get private dummy cells (a call
on them touches nothing) -/
def guardOf (arms : List Gen.MapArm) (l : Nat) : Conc.Guard :=
  match arms[l]? with
  | some a => ⟨a.cell, a.wvar, a.rvar⟩
  | none => ⟨1000000 + l, 1000000 + l, 1000000 + l⟩

def smallIds (arms : List Gen.MapArm) : Bool := arms.all (fun a => decide (a.cell < 1000000 ∧ a.wvar < 1000000 ∧ a.rvar < 1000000))

/-- the pairing condition of C13 gives the well-guardedness the race-freedom proof needs -/
theorem wellGuarded_guardOf (arms : List Gen.MapArm) (wg : wellGuarded arms = true) (hs : smallIds arms = true) :
    Conc.WellGuarded (guardOf arms) := by
  have hsm : ∀ a ∈ arms, a.cell < 1000000 ∧ a.wvar < 1000000 ∧ a.rvar < 1000000 := by
    simpa [smallIds] using hs
  constructor
  · intro l
    unfold guardOf
    cases h : arms[l]? with
    | none => rfl
    | some a => exact wg_rw wg a (List.mem_of_getElem? h)
  · intro l₁ l₂ hv
    unfold guardOf at hv ⊢
    cases h₁ : arms[l₁]? with
    | none =>
      cases h₂ : arms[l₂]? with
      | none => simp only [h₁, h₂] at hv ⊢; exact hv
      | some b =>
        simp only [h₁, h₂] at hv
        have hb := (hsm b (List.mem_of_getElem? h₂)).2.1
        have hv' : b.wvar = 1000000 + l₁ := hv.symm
        omega
    | some a =>
      cases h₂ : arms[l₂]? with
      | none =>
        simp only [h₁, h₂] at hv
        have ha := (hsm a (List.mem_of_getElem? h₁)).2.1
        have hv' : a.wvar = 1000000 + l₂ := hv
        omega
      | some b =>
        simp only [h₁, h₂] at hv ⊢
        exact (wg_var wg a b (List.mem_of_getElem? h₁) (List.mem_of_getElem? h₂) hv).1

/-- the regenerated arms of `mapping()` are well guarded -/
theorem c12_wellguarded : Conc.WellGuarded (guardOf Gen.mapArms) :=
  wellGuarded_guardOf Gen.mapArms c13_wellguarded (by decide)

/-- **C12 (race freedom)**: in every reachable state of every schedule, with any number of
goroutines on any mix of languages from a cold start, every write of a lookup-map variable and
every read of the same variable are ordered by happens-before:
`write →po exit(once) →sync return(once) →po read`. -/
theorem c12_racefree {s : Conc.St} (r : Conc.Reach (guardOf Gen.mapArms) s) (tw tr : Conc.Tid) (lw lr : Conc.Lang)
    (hv : (guardOf Gen.mapArms lw).wvar = (guardOf Gen.mapArms lr).rvar)
    (hw : Conc.Ev.write tw lw ∈ s.trace) (hr : Conc.Ev.read tr lr ∈ s.trace) :
    Conc.Ordered s.trace tw lw tr lr :=
  Conc.race_free c12_wellguarded r tw tr lw lr hv hw hr

/-- … and all writes to one variable come from one goroutine (the unique runner of its once cell),
so they are ordered by program order: no write/write race either. -/
theorem c12_single_writer {s : Conc.St} (r : Conc.Reach (guardOf Gen.mapArms) s) (t₁ t₂ : Conc.Tid) (l₁ l₂ : Conc.Lang)
    (hv : (guardOf Gen.mapArms l₁).wvar = (guardOf Gen.mapArms l₂).wvar)
    (h₁ : Conc.Ev.write t₁ l₁ ∈ s.trace) (h₂ : Conc.Ev.write t₂ l₂ ∈ s.trace) : t₁ = t₂ :=
  Conc.single_writer c12_wellguarded (Conc.inv_reach r) t₁ t₂ l₁ l₂ hv h₁ h₂

/-- the table an arm builds its map from (arms out of range build nothing) -/
def tableOf (arms : List Gen.MapArm) (l : Nat) : Option Nat := (arms[l]?).map (·.table)

theorem guardOf_cell_table (arms : List Gen.MapArm) (wg : wellGuarded arms = true) (hs : smallIds arms = true) (l₁ l₂ : Nat)
    (h : (guardOf arms l₁).cell = (guardOf arms l₂).cell) :
    (guardOf arms l₁).wvar = (guardOf arms l₂).rvar ∧ tableOf arms l₁ = tableOf arms l₂ := by
  have hsm : ∀ a ∈ arms, a.cell < 1000000 ∧ a.wvar < 1000000 ∧ a.rvar < 1000000 := by
    simpa [smallIds] using hs
  unfold guardOf tableOf at *
  cases h₁ : arms[l₁]? with
  | none =>
    cases h₂ : arms[l₂]? with
    | none =>
      simp only [h₁, h₂] at h ⊢
      have : l₁ = l₂ := by have h' : 1000000 + l₁ = 1000000 + l₂ := h; omega
      subst this; simp
    | some b =>
      simp only [h₁, h₂] at h
      have hb := (hsm b (List.mem_of_getElem? h₂)).1
      have h' : b.cell = 1000000 + l₁ := h.symm
      omega
  | some a =>
    cases h₂ : arms[l₂]? with
    | none =>
      simp only [h₁, h₂] at h
      have ha := (hsm a (List.mem_of_getElem? h₁)).1
      have h' : a.cell = 1000000 + l₂ := h
      omega
    | some b =>
      simp only [h₁, h₂] at h ⊢
      have ha := List.mem_of_getElem? h₁
      have hb := List.mem_of_getElem? h₂
      obtain ⟨hv, ht⟩ := wg_cell wg a b ha hb h
      exact ⟨by rw [hv]; exact wg_rw wg b hb, by simp [ht]⟩

/-- **C12 (equals sequential use)**: in every reachable state of every schedule, every read of a
lookup map (a) is preceded, in happens-before order, by a write to that same variable made by an
arm that builds the map from the *same table* as the reader's own arm, and (b) every write to that
variable anywhere in the execution builds from that same table.  So the map a goroutine obtains
from `mapping()` is the one it obtains when run alone (`c13_history_free`: `some table` of its own
arm) — whatever the other goroutines do. -/
theorem c12_sequential {s : Conc.St} (r : Conc.Reach (guardOf Gen.mapArms) s) (tr : Conc.Tid) (lr : Conc.Lang)
    (hr : Conc.Ev.read tr lr ∈ s.trace) :
    (∃ tw lw, Conc.Ev.write tw lw ∈ s.trace ∧ Conc.Ordered s.trace tw lw tr lr ∧
        tableOf Gen.mapArms lw = tableOf Gen.mapArms lr) ∧
    (∀ tw lw, Conc.Ev.write tw lw ∈ s.trace → (guardOf Gen.mapArms lw).wvar = (guardOf Gen.mapArms lr).rvar →
        tableOf Gen.mapArms lw = tableOf Gen.mapArms lr) := by
  have hsmall : smallIds Gen.mapArms = true := by decide
  constructor
  · obtain ⟨tw, lw, hc, hw⟩ := Conc.read_has_write r tr lr hr
    obtain ⟨hv, ht⟩ := guardOf_cell_table Gen.mapArms c13_wellguarded hsmall lw lr hc
    exact ⟨tw, lw, hw, c12_racefree r tw tr lw lr hv hw hr, ht⟩
  · intro tw lw _ hv
    have hc : (guardOf Gen.mapArms lw).cell = (guardOf Gen.mapArms lr).cell :=
      c12_wellguarded.var_cell lw lr (by rw [hv, c12_wellguarded.rw_same lr])
    exact (guardOf_cell_table Gen.mapArms c13_wellguarded hsmall lw lr hc).2

/-- non-vacuity: a two-goroutine cold-start schedule on the same language reaches a state with a
write by one goroutine and a read by the other -/
example : ∃ s, Conc.Reach (guardOf Gen.mapArms) s ∧ Conc.Ev.write 0 2 ∈ s.trace ∧ Conc.Ev.read 1 2 ∈ s.trace := by
  let g := guardOf Gen.mapArms
  have r0 : Conc.Reach g Conc.init := .init
  have r1 := Conc.Reach.step r0 (Conc.Step.call Conc.init 0 2 rfl)
  have r2 := Conc.Reach.step r1 (Conc.Step.call _ 1 2 rfl)
  have r3 := Conc.Reach.step r2 (Conc.Step.becomeRunner _ 0 2 rfl rfl)
  have r4 := Conc.Reach.step r3 (Conc.Step.build _ 0 2 rfl)
  have r5 := Conc.Reach.step r4 (Conc.Step.finish _ 0 2 rfl)
  have r6 := Conc.Reach.step r5 (Conc.Step.observeDone _ 1 2 rfl (by simp [Conc.upd]))
  have r7 := Conc.Reach.step r6 (Conc.Step.readMap _ 1 2 (by simp [Conc.upd]))
  exact ⟨_, r7, by simp, by simp⟩

/-- with the once guard replaced by a bare nil check (every goroutine that sees the variable still
nil builds the map itself) the property is false: two goroutines both find it nil and both write —
modelled as an arm table in which the two callers do not share a cell -/
example :
    let bad : List Gen.MapArm := [⟨0, 0, 0, 0, 0⟩, ⟨0, 1, 0, 0, 0⟩]
    wellGuarded bad = false := by decide

#print axioms c12_wellguarded
#print axioms c12_racefree
#print axioms c12_single_writer
#print axioms c12_sequential
end Bip39V
