import Bip39V.Props.C01
import Bip39V.Lemmas.Split
/-! # C09 — only the five BIP39 sizes are accepted; other sizes give the sentinel errors -/
namespace Bip39V
open Model Spec

/-- the entropy-length gate, for every Go `int` (negative and extreme values included) -/
theorem c09_entropy_gate (n : Int) : entGate n = false ↔ n = 16 ∨ n = 20 ∨ n = 24 ∨ n = 28 ∨ n = 32 := entGate_iff n

/-- the word-count gate of `NewMnemonic`, for every Go `int` -/
theorem c09_words_gate (n : Int) : wordGate n = false ↔ n = 12 ∨ n = 15 ∨ n = 18 ∨ n = 21 ∨ n = 24 := wordGate_iff n

theorem validEntLen_iff (n : Nat) : ValidEntLen n ↔ entGate (n : Int) = false := by
  rw [entGate_iff]; unfold ValidEntLen; omega

theorem list_getD_ne_nil (ℓ : Int) (i : Nat) (hi : i < 2048) : (Model.list ℓ)[i]?.getD [] ≠ [] := by
  obtain ⟨L, hL⟩ := listTable_known ℓ
  have hlist : Model.list ℓ = L.words := by unfold Model.list; rw [hL, words_eq_canon]
  rw [hlist]
  have hlt : i < L.words.length := by rw [words_length]; exact hi
  rw [List.getElem?_eq_getElem hlt, Option.getD_some]
  exact wordOk_ne_nil (words_wordOk L _ (List.getElem_mem hlt))

/-- **C09 (entropy side)**: for *every* language value, `NewMnemonicByEntropy` fails with the
`ErrEntropyLen` outcome exactly when the length is not 16/20/24/28/32, and otherwise returns a
non-empty mnemonic. -/
theorem c09_entropy (D : Bytes → Bytes) (hD : ∀ x, (D x).length = 32) (e : Bytes) (ℓ : Int) :
    (¬ ValidEntLen e.length → newMnemonicByEntropy D e ℓ = .err .entropyLen) ∧
    (ValidEntLen e.length → ∃ s, s ≠ [] ∧ newMnemonicByEntropy D e ℓ = .ok s) := by
  constructor
  · intro hv
    have hg : entGate (e.length : Int) = true := by
      rw [validEntLen_iff] at hv; simpa using hv
    simp [newMnemonicByEntropy, hg]
  · intro hv
    obtain ⟨m, hlen, hm, hm4⟩ : ∃ m, e.length = 4 * m ∧ m ≤ 8 ∧ 4 ≤ m := by
      rcases hv with h | h | h | h | h <;> exact ⟨e.length / 4, by omega, by omega, by omega⟩
    have hgate : entGate (e.length : Int) = false := (validEntLen_iff _).mp hv
    have hwl : entWordLen (e.length : Int) = ((m * 3 : Nat) : Int) := by
      have hdef : entWordLen (e.length : Int) = (e.length : Int).tdiv 4 * 3 := rfl
      rw [hdef, hlen]
      have : ((4 * m : Nat) : Int).tdiv 4 = m := by
        rw [Int.tdiv_eq_ediv_of_nonneg (by omega)]; omega
      rw [this]; omega
    refine ⟨_, ?_, by
      unfold newMnemonicByEntropy
      simp only [hgate, hwl, Bool.false_eq_true, if_false]
      exact fromEntropy_eq D hD e m hlen hm ℓ⟩
    apply joinWith_ne_nil
    · have hl := spec_indices_length D e m hlen hm (hD e)
      intro hnil
      have := congrArg List.length hnil
      simp [hl] at this; omega
    · intro w hw
      obtain ⟨i, hi, rfl⟩ := List.mem_map.mp hw
      exact list_getD_ne_nil ℓ i (spec_indices_lt D e m hlen hm (hD e) i hi)

/-- **C09 (word-count side)**: a rejected count returns the `ErrWordLen` outcome … -/
theorem c09_words (D : Bytes → Bytes) (n ℓ : Int) (script : Script)
    (h : ¬ (n = 12 ∨ n = 15 ∨ n = 18 ∨ n = 21 ∨ n = 24)) :
    (newMnemonic D n ℓ script).1 = .err .wordLen := by
  have hg : wordGate n = true := by
    cases hw : wordGate n with
    | true => rfl
    | false => exact absurd ((wordGate_iff n).mp hw) h
  simp [newMnemonic, hg]

/-- … and makes no `Read` call at all on the randomness source. -/
theorem c09_no_read (D : Bytes → Bytes) (n ℓ : Int) (script : Script)
    (h : ¬ (n = 12 ∨ n = 15 ∨ n = 18 ∨ n = 21 ∨ n = 24)) :
    (newMnemonic D n ℓ script).2 = 0 := by
  have hg : wordGate n = true := by
    cases hw : wordGate n with
    | true => rfl
    | false => exact absurd ((wordGate_iff n).mp hw) h
  simp [newMnemonic, hg]

/-- non-vacuity: the hypotheses are met by real sizes, and the gate really separates -/
example : ValidEntLen 16 ∧ ValidEntLen 32 ∧ ¬ ValidEntLen 36 ∧ ¬ ValidEntLen 0 := by decide
example : entGate 36 = true ∧ entGate (-16) = true ∧ entGate 9223372036854775807 = true ∧ wordGate 27 = true ∧ wordGate (-12) = true := by decide

#print axioms c09_entropy_gate
#print axioms c09_entropy
#print axioms c09_words_gate
#print axioms c09_words
#print axioms c09_no_read
end Bip39V
