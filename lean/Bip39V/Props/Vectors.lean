import Bip39V.Props.Closed
import Bip39V.Props.Source.C01
/-! Reference vectors of the BIP39 document (English), evaluated by the kernel: an anchor that is
independent of both the implementation and this specification.  These are *tests* (seven concrete
instances), stated as such; what they add is that the bit-string specification, instantiated with
the pure functional SHA-256, reproduces the published sentences inside the kernel — and hence, by
`c01_encode` and the refinement theorems, so do the model and the code translated from the source. -/
namespace Bip39V
open Model Go Spec Unicode

def ascii (s : String) : Str := s.toList.map Char.toNat

/-- (entropy, sentence) pairs from the BIP39 reference vectors -/
def officialVectors : List (Bytes × Str) := [
  (List.replicate 16 0x00, ascii "abandon abandon abandon abandon abandon abandon abandon abandon abandon abandon abandon about"),
  (List.replicate 16 0x7f, ascii "legal winner thank year wave sausage worth useful legal winner thank yellow"),
  (List.replicate 16 0x80, ascii "letter advice cage absurd amount doctor acoustic avoid letter advice cage above"),
  (List.replicate 16 0xff, ascii "zoo zoo zoo zoo zoo zoo zoo zoo zoo zoo zoo wrong"),
  (List.replicate 24 0x00, ascii "abandon abandon abandon abandon abandon abandon abandon abandon abandon abandon abandon abandon abandon abandon abandon abandon abandon agent"),
  (List.replicate 32 0x00, ascii "abandon abandon abandon abandon abandon abandon abandon abandon abandon abandon abandon abandon abandon abandon abandon abandon abandon abandon abandon abandon abandon abandon abandon art"),
  (List.replicate 32 0xff, ascii "zoo zoo zoo zoo zoo zoo zoo zoo zoo zoo zoo zoo zoo zoo zoo zoo zoo zoo zoo zoo zoo zoo zoo vote")]

set_option maxRecDepth 100000 in
/-- the specification reproduces every reference vector (kernel evaluation, SHA-256 included) -/
theorem vectors_spec : ∀ v ∈ officialVectors, Spec.sentence SHA256 .english v.1 = v.2 := by
  decide +kernel

theorem vectors_valid_len : ∀ v ∈ officialVectors, ValidEntLen v.1.length := by decide

/-- … hence so does the model … -/
theorem vectors_model : ∀ v ∈ officialVectors, newMnemonicByEntropy SHA256 v.1 Lang.english.value = .ok v.2 := by
  intro v hv
  rw [c01_encode_sha256 .english v.1 (vectors_valid_len v hv), vectors_spec v hv]

/-- … and the code translated from the source, from any state -/
theorem vectors_source (W : World) (hD : W.D = SHA256) (st : St) :
    ∀ v ∈ officialVectors, Gen.Code.NewMnemonicByEntropy W v.1 Lang.english.value st = (.ok v.2, st) := by
  intro v hv
  rw [src_c01_encode W (by rw [hD]; exact SHA256_length) .english v.1 (vectors_valid_len v hv) st, hD, vectors_spec v hv]

end Bip39V
