import Bip39V.Model.Stringer
import Bip39V.Spec.Bip39
/-! # C16 — each supported language has its own printable name

`Model.langString` is the model of the stringer-generated method over the regenerated name table,
index table and bounds test; `Spec.langString` says: the declared identifier for the ten
supported languages, `Language(N)` for every other `N`. -/
namespace Bip39V
open Model Spec

theorem natDigitsAux_eq (f n : Nat) (acc : Str) : Model.natDigitsAux f n acc = Spec.natDigitsAux f n acc := by
  induction f generalizing n acc with
  | zero => rfl
  | succ g ih => simp only [Model.natDigitsAux, Spec.natDigitsAux, ih]

theorem formatInt_eq_decimal (i : Int) : formatInt i = decimal i := by
  unfold formatInt decimal natDigits
  simp only [natDigitsAux_eq]

/-- the generated method with the constants of `String()` written out; tied to the regenerated
constants by `rfl` -/
def langStringLit (name : Str) (idx : List Int) (i : Int) : Res Str :=
  let n : Int := idx.length
  if i < 0 || i >= n - 1 then
    .ok ([76, 97, 110, 103, 117, 97, 103, 101, 40] ++ formatInt i ++ [41])
  else
    match idx[i.toNat]?, idx[(i + 1).toNat]? with
    | some a, some b =>
      if 0 ≤ a ∧ a ≤ b ∧ b ≤ name.length then .ok ((name.drop a.toNat).take (b.toNat - a.toNat))
      else .panic .sliceOutOfRange
    | _, _ => .panic .indexOutOfRange

theorem langString_lit : Model.langString = langStringLit Gen.Language_name.name Gen.Language_index.index := rfl

/-- the ten constants are the values 0..9 (so "every other value" is `i < 0 ∨ i ≥ 10`) -/
theorem ofValue_none (i : Int) (h : i < 0 ∨ 10 ≤ i) : Lang.ofValue i = none := by
  unfold Lang.ofValue Lang.all
  simp only [List.find?, Lang.value, Gen.vChineseSimplified, Gen.vChineseTraditional, Gen.vEnglish, Gen.vFrench, Gen.vItalian,
    Gen.vJapanese, Gen.vKorean, Gen.vSpanish, Gen.vCzech, Gen.vPortuguese]
  have h0 : ((0 : Int) == i) = false := by simp; omega
  have h1 : ((1 : Int) == i) = false := by simp; omega
  have h2 : ((2 : Int) == i) = false := by simp; omega
  have h3 : ((3 : Int) == i) = false := by simp; omega
  have h4 : ((4 : Int) == i) = false := by simp; omega
  have h5 : ((5 : Int) == i) = false := by simp; omega
  have h6 : ((6 : Int) == i) = false := by simp; omega
  have h7 : ((7 : Int) == i) = false := by simp; omega
  have h8 : ((8 : Int) == i) = false := by simp; omega
  have h9 : ((9 : Int) == i) = false := by simp; omega
  simp [h0, h1, h2, h3, h4, h5, h6, h7, h8, h9]

/-- **C16**, all values at once: for *every* `int`, the generated method returns normally and
returns what the specification says. -/
theorem c16_all (i : Int) : Model.langString i = .ok (Spec.langString i) := by
  by_cases h : i < 0 ∨ 10 ≤ i
  · rw [langString_lit]
    unfold langStringLit
    have hl : (Gen.Language_index.index.length : Int) = 11 := rfl
    have hc : (decide (i < 0) || decide (i >= (Gen.Language_index.index.length : Int) - 1)) = true := by
      rw [hl]
      rcases h with h | h
      · simp [h]
      · simp; right; omega
    simp only [hc, if_true]
    rw [formatInt_eq_decimal]
    unfold Spec.langString
    rw [ofValue_none i h]
  · have hr : 0 ≤ i ∧ i < 10 := by omega
    obtain ⟨n, rfl⟩ : ∃ n : Nat, i = n := ⟨i.toNat, by omega⟩
    have hn : n < 10 := by omega
    have : ∀ n < 10, Model.langString (n : Nat) = .ok (Spec.langString (n : Nat)) := by decide
    exact this n hn

/-- the declared identifier of each supported language -/
theorem c16_names (L : Lang) : Model.langString L.value = .ok (L.name.toList.map Char.toNat) := by
  rw [c16_all]
  cases L <;> decide

/-- ten distinct, non-empty names -/
theorem c16_distinct : (Lang.all.map (fun L => Spec.langString L.value)).Nodup ∧
    ∀ L ∈ Lang.all, Spec.langString L.value ≠ [] := by decide

/-- every other value prints as `Language(N)` -/
theorem c16_other (i : Int) (h : ∀ L : Lang, L.value ≠ i) :
    Model.langString i = .ok ([76, 97, 110, 103, 117, 97, 103, 101, 40] ++ decimal i ++ [41]) := by
  rw [c16_all]
  have : Lang.ofValue i = none := by
    unfold Lang.ofValue
    rw [List.find?_eq_none]
    intro L _ hL
    exact h L (by simpa using hL)
  simp [Spec.langString, this]

/-- sanity of the decimal rendering used by the specification -/
example : decimal (-1) = [45, 49] ∧ decimal 0 = [48] ∧ decimal 10 = [49, 48] ∧ decimal (-9223372036854775808) =
    [45, 57, 50, 50, 51, 51, 55, 50, 48, 51, 54, 56, 53, 52, 55, 55, 53, 56, 48, 56] := by decide
example : Spec.langString 9 = "Portuguese".toList.map Char.toNat := by decide

#print axioms c16_all
#print axioms c16_names
#print axioms c16_distinct
#print axioms c16_other
end Bip39V
