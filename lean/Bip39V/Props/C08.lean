import Bip39V.Props.Tables
import Bip39V.Props.Stable
/-! # C08 — the ten wordlists are the canonical, well-formed BIP39 lists -/
namespace Bip39V
open Model Spec Unicode

/-- the list `Language.list()` yields for each language constant — through the regenerated switch
and the regenerated table — is the pinned canonical list, word for word, in order -/
theorem c08_canonical (L : Lang) : Model.list L.value = L.words := list_lang L

/-- 2048 pairwise distinct, non-empty words without White_Space, each unchanged by NFKD -/
theorem c08_wellformed (L : Lang) :
    (Model.list L.value).length = 2048 ∧ (Model.list L.value).Nodup ∧
    ∀ w ∈ Model.list L.value, w ≠ [] ∧ (∀ c ∈ w, isWhiteSpace c = false) ∧ nfkd w = w := by
  rw [c08_canonical]
  refine ⟨words_length L, words_nodup L, fun w hw => ?_⟩
  have hok := words_wordOk L w hw
  exact ⟨wordOk_ne_nil hok, wordOk_noWs hok, words_nfkd_stable L w hw⟩

/-- validation maps each word back to the same index: the map `mapping()` builds for the language
(from a fresh process) returns `i` for the `i`-th word of the list -/
theorem c08_inverse (L : Lang) (i : Nat) (hi : i < 2048) :
    mapLookup (Model.mapping .init L.value).2 ((Model.list L.value)[i]?.getD []) = some i := by
  rw [mapping_lang, c08_canonical]
  have hlt : i < L.words.length := by rw [words_length]; exact hi
  rw [List.getElem?_eq_getElem hlt, Option.getD_some]
  unfold mapLookup
  simp only [words_eq_canon]
  simpa using goMap_of_nodup L.words (words_nodup L) 0 i hlt

/-- non-vacuity / sanity: index 0 and 2047 of the English list -/
example : (Lang.english.words)[0]? = some ("abandon".toList.map Char.toNat) := by decide +kernel
example : (Lang.english.words)[2047]? = some ("zoo".toList.map Char.toNat) := by decide +kernel

#print axioms c08_canonical
#print axioms c08_wellformed
#print axioms c08_inverse
end Bip39V
