import Bip39V.Lemmas.Utf8Norm
/-! # The string model is faithful where the package looks at bytes

The model's strings are lists of *items* (`Basic/Str.lean`); Go's are byte sequences.  These
theorems remove the corresponding entries from the trusted glue:

* `str_every_go_string`: every byte string, valid UTF-8 or not, is the encoding of the item list it
  is decoded into — so the property theorems, quantified over all item lists, cover every Go
  `string` argument;
* `str_decoded_wf`, `str_split_bytes`: `strings.Split(s, " ")` (a byte operation) applied to the
  normalised string gives exactly the encodings of the model's item-level tokens, with UAX #15 NFKD
  and with the model of x/text's NFKD, for every Go string.

* `str_scalar_roundtrip`, `str_key_equality`: a list of Unicode scalar values is what its own
  encoding decodes to, so for every **valid UTF-8** Go string the map lookup `mapping[word]` — which
  compares byte strings — is the model's comparison of item lists (tokens of the normalised string
  against list words), with either normaliser.

Still tied by execution only: string equality for tokens containing invalid bytes (no list word
contains one; the harness's invalid-UTF-8 classes exercise it), and x/text's behaviour on bytes vs
the item-level model. -/
namespace Bip39V
open Unicode

theorem str_every_go_string (b : Bytes) : utf8 (decodeItems b) = b := utf8_decodeItems b

theorem str_decoded_wf (b : Bytes) : WF (decodeItems b) := decodeItems_wf b

theorem str_split_items (s : Str) (h : WF s) : (splitOn 0x20 s).map utf8 = splitBytes 0x20 (utf8 s) := splitOn_utf8 s h

theorem str_split_bytes (b : Bytes) :
    splitBytes 0x20 (utf8 (xnfkd (decodeItems b))) = (splitOn 0x20 (xnfkd (decodeItems b))).map utf8 ∧
    splitBytes 0x20 (utf8 (nfkd (decodeItems b))) = (splitOn 0x20 (nfkd (decodeItems b))).map utf8 :=
  split_normalised_bytes b

theorem str_scalar_roundtrip (s : Str) (hs : Scalar s) : decodeItems (utf8 s) = s := decodeItems_utf8 s hs

theorem str_key_equality (b : Bytes) (hb : Scalar (decodeItems b)) (w : Str) (hw : Scalar w) :
    (∀ t ∈ splitOn 0x20 (xnfkd (decodeItems b)), (utf8 t = utf8 w ↔ t = w)) ∧
    (∀ t ∈ splitOn 0x20 (nfkd (decodeItems b)), (utf8 t = utf8 w ↔ t = w)) := key_equality b hb w hw

/-- non-vacuity / sanity: an invalid byte, a 2-, 3- and 4-byte sequence and an overlong form -/
example : decodeItems [0x61, 0xFF, 0xC3, 0xA9, 0xE3, 0x80, 0x80, 0xF0, 0x9F, 0x98, 0x80, 0xC0, 0x80] =
    [0x61, 0x1100FF, 0xE9, 0x3000, 0x1F600, 0x1100C0, 0x110080] := by decide

#print axioms str_every_go_string
#print axioms str_decoded_wf
#print axioms str_split_items
#print axioms str_split_bytes
#print axioms str_scalar_roundtrip
#print axioms str_key_equality
end Bip39V
