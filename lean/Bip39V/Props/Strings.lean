import Bip39V.Lemmas.Utf8Norm
/-! # The string model is faithful where the package looks at bytes

The model's strings are lists of *items* (`Basic/Str.lean`); Go's are byte sequences.  These
theorems remove the corresponding entries from the trusted glue:

* `str_every_go_string`: every byte string, valid UTF-8 or not, is the encoding of the item list it
  is decoded into — so the property theorems, quantified over all item lists, cover every Go
  `string` argument;
* `str_decoded_wf`, `str_split_bytes`: `strings.Split(s, " ")` (a byte operation) applied to the
  normalised string gives exactly the encodings of the model's item-level tokens, with UAX #15 NFKD
  and with the model of x/text's NFKD, for every Go string.

Still tied by execution only: that two Go strings are equal iff their decoded item lists are (map
lookup by string key), and x/text's behaviour on bytes vs the item-level model. -/
namespace Bip39V
open Unicode

theorem str_every_go_string (b : Bytes) : utf8 (decodeItems b) = b := utf8_decodeItems b

theorem str_decoded_wf (b : Bytes) : WF (decodeItems b) := decodeItems_wf b

theorem str_split_items (s : Str) (h : WF s) : (splitOn 0x20 s).map utf8 = splitBytes 0x20 (utf8 s) := splitOn_utf8 s h

theorem str_split_bytes (b : Bytes) :
    splitBytes 0x20 (utf8 (xnfkd (decodeItems b))) = (splitOn 0x20 (xnfkd (decodeItems b))).map utf8 ∧
    splitBytes 0x20 (utf8 (nfkd (decodeItems b))) = (splitOn 0x20 (nfkd (decodeItems b))).map utf8 :=
  split_normalised_bytes b

/-- non-vacuity / sanity: an invalid byte, a 2-, 3- and 4-byte sequence and an overlong form -/
example : decodeItems [0x61, 0xFF, 0xC3, 0xA9, 0xE3, 0x80, 0x80, 0xF0, 0x9F, 0x98, 0x80, 0xC0, 0x80] =
    [0x61, 0x1100FF, 0xE9, 0x3000, 0x1F600, 0x1100C0, 0x110080] := by decide

#print axioms str_every_go_string
#print axioms str_decoded_wf
#print axioms str_split_items
#print axioms str_split_bytes
end Bip39V
