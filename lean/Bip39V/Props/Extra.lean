import Bip39V.Props.C14
import Bip39V.Props.C17
/-! Behaviour of the package beyond the seventeen listed properties — documented fall-backs and
formats — so that the model's account of the code is complete where the properties are silent. -/
namespace Bip39V
open Model Spec Unicode

/-- `list()` falls back to the English list for every value that is not one of the ten constants -/
theorem list_fallback_english (ℓ : Int) (h : Lang.ofValue ℓ = none) : Model.list ℓ = Lang.english.words := by
  have harms : ∀ a ∈ Gen.listArms, (Lang.ofValue a.1).isSome = true := by decide
  have hdef : Gen.listDefault = Lang.english.genTable := by decide
  have : Model.listTable ℓ = Gen.listDefault := by
    unfold Model.listTable
    generalize Gen.listArms = arms at harms
    induction arms with
    | nil => rfl
    | cons a r ih =>
      obtain ⟨k, v⟩ := a
      simp only [Model.assoc]
      split
      · rename_i heq
        have := harms (k, v) List.mem_cons_self
        have hk : k = ℓ := by simpa using heq
        simp only at this
        rw [hk, h] at this; cases this
      · exact ih (fun x hx => harms x (List.mem_cons_of_mem _ hx))
  unfold Model.list
  rw [this, hdef, words_eq_canon]

/-- so an unsupported language value encodes with the English list and U+0020 (documented default) -/
theorem unsupported_language_encodes_english (D : Bytes → Bytes) (hD : ∀ x, (D x).length = 32) (ℓ : Int)
    (h : Lang.ofValue ℓ = none) (e : Bytes) (hv : ValidEntLen e.length) :
    newMnemonicByEntropy D e ℓ = .ok (Spec.sentence D .english e) := by
  obtain ⟨m, hlen, hm⟩ : ∃ m, e.length = 4 * m ∧ m ≤ 8 := by
    rcases hv with h | h | h | h | h <;> exact ⟨e.length / 4, by omega, by omega⟩
  have hgate : entGate (e.length : Int) = false := (validEntLen_iff _).mp hv
  have hwl : entWordLen (e.length : Int) = ((m * 3 : Nat) : Int) := by
    have hdef : entWordLen (e.length : Int) = (e.length : Int).tdiv 4 * 3 := rfl
    rw [hdef, hlen]
    have : ((4 * m : Nat) : Int).tdiv 4 = m := by
      rw [Int.tdiv_eq_ediv_of_nonneg (by omega)]; omega
    rw [this]; omega
  have hnj : ℓ ≠ Gen.vJapanese := by
    intro hj
    have : Lang.ofValue Gen.vJapanese = some Lang.japanese := by decide
    rw [← hj, h] at this; cases this
  unfold newMnemonicByEntropy
  simp only [hgate, hwl, Bool.false_eq_true, if_false]
  rw [fromEntropy_eq D hD e m hlen hm, if_neg hnj, list_fallback_english ℓ h]
  rfl

/-- under an unsupported language value a sentence with an acceptable word count is rejected with
the unknown-word error naming its *first* token (there is no map) -/
theorem unsupported_language_check (X : Str → Str) (D : Bytes → Bytes) (ℓ : Int) (h : Lang.ofValue ℓ = none) (s : Str)
    (hc : ValidWordCount (splitOn 0x20 (X s)).length) :
    ∃ t rest, splitOn 0x20 (X s) = t :: rest ∧ checkMnemonic X D s ℓ = .err (.unknownWord t 0) := by
  match hs : splitOn 0x20 (X s) with
  | [] => exact absurd hs (splitOn_ne_nil _ _)
  | t :: rest =>
    refine ⟨t, rest, rfl, ?_⟩
    have hg : wcGate ((splitOn 0x20 (X s)).length : Int) = false := (validWordCount_iff _).mp hc
    unfold checkMnemonic checkMnemonicSt
    rw [splitItem_eq]
    simp only [hg, Bool.false_eq_true, if_false]
    have hm := mapping_other ℓ h
    cases hmap : Model.mapping .init ℓ with
    | mk st' m =>
      rw [hmap] at hm
      simp only at hm
      subst hm
      have hg' : wcGate ((t :: rest).length : Int) = false := by rw [← hs]; exact hg
      simp only [checkTokens, hs, hg', Bool.false_eq_true, if_false]
      simp [sumWords, mapLookup]

/-- where the generator fetches from and writes to (regenerated literals of update-wordlist/main.go) -/
theorem tool_paths :
    Gen.Tool_url.url = str "https://raw.githubusercontent.com/bitcoin/bips/master/bip-0039/" ∧
    Gen.Tool_dirName.dirName = str "internal/wordlist" ∧
    Gen.Tool_updateWordlist.urlFmt = str "%s%s.txt" ∧ Gen.Tool_updateWordlist.pathFmt = str "%s/%s.go" := by decide +kernel

/-- the three sentinel messages (regenerated) are pairwise different and non-empty -/
theorem sentinel_messages :
    Gen.ErrWordLen.msg ≠ Gen.ErrEntropyLen.msg ∧ Gen.ErrWordLen.msg ≠ Gen.ErrChecksumIncorrect.msg ∧
    Gen.ErrEntropyLen.msg ≠ Gen.ErrChecksumIncorrect.msg ∧ Gen.ErrWordLen.msg ≠ [] ∧ Gen.ErrEntropyLen.msg ≠ [] ∧
    Gen.ErrChecksumIncorrect.msg ≠ [] := by decide

#print axioms list_fallback_english
#print axioms unsupported_language_encodes_english
#print axioms unsupported_language_check
#print axioms tool_paths
#print axioms sentinel_messages
end Bip39V
