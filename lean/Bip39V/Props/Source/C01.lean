import Bip39V.Props.Refine.NewMnemonicByEntropy
import Bip39V.Props.C01
import Bip39V.Props.Source.Basic
/-! C01, stated directly about the code regenerated from the Go source (`Gen/Code/*.lean`): the model
theorem carried over by the refinement theorems of `Props/Refine`.  `st` is an arbitrary state of the
package's lazily built maps and of the randomness source; `fresh` is a process that has made no call yet. -/
namespace Bip39V
open Model Go Spec Unicode

/-- C01 on the source: `NewMnemonicByEntropy` returns the BIP39 sentence and leaves the state alone -/
theorem src_c01_encode (W : World) (hD : ∀ x, (W.D x).length = 32) (L : Lang) (e : Bytes) (hv : ValidEntLen e.length) (st : St) :
    Gen.Code.NewMnemonicByEntropy W e L.value st = (.ok (Spec.sentence W.D L e), st) := by
  rw [refine_NewMnemonicByEntropy, c01_encode W.D hD L e hv]

end Bip39V
