import Bip39V.Props.Refine.MnemonicToSeed
import Bip39V.Props.C04
import Bip39V.Props.Source.Basic
/-! C04, stated directly about the code regenerated from the Go source (`Gen/Code/*.lean`): the model
theorem carried over by the refinement theorems of `Props/Refine`.  `st` is an arbitrary state of the
package's lazily built maps and of the randomness source; `fresh` is a process that has made no call yet. -/
namespace Bip39V
open Model Go Spec Unicode

/-- C04 on the source -/
theorem src_c04_seed (W : World) (m p : Str) (st : St)
    (hm : W.X m = nfkd m) (hp : W.X ([109, 110, 101, 109, 111, 110, 105, 99] ++ p) = nfkd ([109, 110, 101, 109, 111, 110, 105, 99] ++ p)) :
    Gen.Code.MnemonicToSeed W m p st = (.ok (Spec.seed W.PB m p), st) := by
  rw [refine_MnemonicToSeed, c04_seed_partial W.X W.PB m p hm hp]

end Bip39V
