import Bip39V.Props.Refine.MnemonicToSeed
import Bip39V.Props.C11
import Bip39V.Props.Source.Basic
/-! C11, stated directly about the code regenerated from the Go source. -/
namespace Bip39V
open Model Go Spec Unicode

/-- C11 on the source (partial, as the model theorem: stream-safe inputs) -/
theorem src_c11_partial (N : Normaliser) (W : World) (hX : W.X = N.X) (m₁ m₂ p₁ p₂ : Str) (st : St)
    (hm : nfkd m₁ = nfkd m₂) (hp : nfkd p₁ = nfkd p₂)
    (hs₁ : streamSafe m₁ = true) (hs₂ : streamSafe ([109, 110, 101, 109, 111, 110, 105, 99] ++ p₁) = true) :
    Gen.Code.MnemonicToSeed W m₁ p₁ st = Gen.Code.MnemonicToSeed W m₂ p₂ st := by
  rw [refine_MnemonicToSeed, refine_MnemonicToSeed, hX, c11_partial N W.PB m₁ m₂ p₁ p₂ hm hp hs₁ hs₂]

end Bip39V
