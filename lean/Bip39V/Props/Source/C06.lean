import Bip39V.Props.Refine.NewMnemonic
import Bip39V.Props.C06
import Bip39V.Props.Source.Basic
/-! C06, stated directly about the code regenerated from the Go source (`Gen/Code/*.lean`): the model
theorem carried over by the refinement theorems of `Props/Refine`.  `st` is an arbitrary state of the
package's lazily built maps and of the randomness source; `fresh` is a process that has made no call yet. -/
namespace Bip39V
open Model Go Spec Unicode

/-- C06 on the source: with enough bytes delivered, the sentence of exactly those bytes -/
theorem src_c06_ok (W : World) (hD : ∀ x, (W.D x).length = 32) (L : Lang) (n : Nat) (hv : ValidWordCount n) (st : St)
    (h : 4 * n / 3 ≤ (delivered st.script).length) :
    (Gen.Code.NewMnemonic W n L.value st).1 = .ok (Spec.sentence W.D L ((delivered st.script).take (4 * n / 3))) := by
  rw [refine_NewMnemonic]; exact c06_ok W.D hD L n hv st.script h

/-- C06 on the source: a short read returns the reader's error and no mnemonic -/
theorem src_c06_fail (W : World) (ℓ : Int) (n : Nat) (hv : ValidWordCount n) (st : St)
    (h : (delivered st.script).length < 4 * n / 3) :
    (Gen.Code.NewMnemonic W n ℓ st).1 = .err (.io (expectedErr st.script [])) := by
  rw [refine_NewMnemonic]; exact c06_fail W.D ℓ n hv st.script h

end Bip39V
