import Bip39V.Props.Refine.NewMnemonicByEntropy
import Bip39V.Props.C05
import Bip39V.Props.Source.Basic
/-! C05, stated directly about the code regenerated from the Go source. -/
namespace Bip39V
open Model Go Spec Unicode

/-- C05 on the source: distinct entropies never share a mnemonic -/
theorem src_c05_injective (W : World) (hD : ∀ x, (W.D x).length = 32) (L : Lang) (e₁ e₂ : Bytes) (st₁ st₂ : St)
    (h₁ : ValidEntLen e₁.length) (h₂ : ValidEntLen e₂.length)
    (h : (Gen.Code.NewMnemonicByEntropy W e₁ L.value st₁).1 = (Gen.Code.NewMnemonicByEntropy W e₂ L.value st₂).1) : e₁ = e₂ := by
  rw [refine_NewMnemonicByEntropy, refine_NewMnemonicByEntropy] at h
  exact c05_injective W.D hD L e₁ e₂ h₁ h₂ h

/-- C05 on the source: the returned sentence decodes back to the entropy -/
theorem src_c05_decode (W : World) (hD : ∀ x, (W.D x).length = 32) (L : Lang) (e : Bytes) (hv : ValidEntLen e.length) (st : St) :
    ∃ s, Gen.Code.NewMnemonicByEntropy W e L.value st = (.ok s, st) ∧ Spec.decode L s = some e := by
  obtain ⟨s, hs, hd⟩ := c05_decode W.D hD L e hv
  exact ⟨s, by rw [refine_NewMnemonicByEntropy, hs], hd⟩

end Bip39V
