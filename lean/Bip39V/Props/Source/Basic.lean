import Bip39V.Lemmas.GoSem
/-! Shared by the `Props/Source/*` files: a process that has made no call yet. -/
namespace Bip39V
open Model Go

def fresh (script : Script) : St := { pkg := .init, script := script, reads := 0 }

end Bip39V
