import Bip39V.Props.Refine
import Bip39V.Props.C13
import Bip39V.Props.Source.Basic
/-! C13, stated directly about the code regenerated from the Go source (`Gen/Code/*.lean`): the model
theorem carried over by the refinement theorems of `Props/Refine`.  `st` is an arbitrary state of the
package's lazily built maps and of the randomness source; `fresh` is a process that has made no call yet. -/
namespace Bip39V
open Model Go Spec Unicode

/-- C13 on the source: after any history of calls, a call answers as in a fresh process -/
theorem src_c13_history_free (E : Env) (ops : List Op) (op : Op) (hop : op.isSwap = false)
    (hr : op.inRange) (hrs : ∀ o ∈ ops, o.inRange) :
    (Code.step E (Code.run E .init ops) op).2 = (Code.step E .init op).2 := by
  rw [refine_run E _ ops hrs, refine_step E _ op hr, refine_step E _ op hr]; exact c13_history_free E ops op hop

end Bip39V
