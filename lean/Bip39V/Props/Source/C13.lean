import Bip39V.Props.Refine
import Bip39V.Props.C13
import Bip39V.Props.Source.Basic
import Bip39V.Gen.Code.Writes
/-! C13, stated directly about the code regenerated from the Go source (`Gen/Code/*.lean`): the model
theorem carried over by the refinement theorems of `Props/Refine`.  `st` is an arbitrary state of the
package's lazily built maps and of the randomness source; `fresh` is a process that has made no call yet. -/
namespace Bip39V
open Model Go Spec Unicode

/-- C13 on the source: after any history of calls, a call answers as in a fresh process -/
theorem src_c13_history_free (E : Env) (ops : List Op) (op : Op) (hop : op.isSwap = false)
    (hr : op.inRange) (hrs : ∀ o ∈ ops, o.inRange) :
    (Code.step E (Code.run E .init ops) op).2 = (Code.step E .init op).2 := by
  rw [refine_run E _ ops hrs, refine_step E _ op hr, refine_step E _ op hr]; exact c13_history_free E ops op hop

/-- C13, the part about mutation: **every statement of the translated functions that writes through a
slice writes into a buffer the function allocated itself** (`make` in the same function, or a
`make(…)` written in place as the argument) — never into a parameter, so the caller's entropy slice
is not modified, and never into something reachable from an earlier result.  `Gen.Code.sliceWrites` is
regenerated from the source on every run by the translator, which classifies every element
assignment, every `io.ReadFull` buffer, every `FillBytes` argument and every `hash.Sum(b)` with a
non-nil `b` (appending may write into `b`'s spare capacity); the other mutable values of the package
(`*big.Int`, `hash.Hash`) are only ever created inside the function that mutates them (the translator
refuses anything else, §11.8).  Strings are immutable in Go, and the only `[]byte` the package returns
is the one `pbkdf2.Key` allocates. -/
theorem src_c13_own_buffers :
    ∀ w ∈ Gen.Code.sliceWrites, w.2.2 = "make" ∨ w.2.2 = "fresh" := by decide

/-- non-vacuity: the package does write through slices, and some functions take a slice -/
example : Gen.Code.sliceWrites ≠ [] ∧ Gen.Code.sliceParams ≠ [] := by decide

end Bip39V
