import Bip39V.Props.Refine.CheckMnemonic
import Bip39V.Props.C15
import Bip39V.Props.Source.Basic
/-! C15, stated directly about the code regenerated from the Go source. -/
namespace Bip39V
open Model Go Spec Unicode

/-- C15 on the source: the error identifies the kind of failure -/
theorem src_c15_kinds (W : World) (hD : ∀ x, (W.D x).length = 32) (L : Lang) (s : Str) (script : Script) :
    (¬ ValidWordCount (splitOn 0x20 (W.X s)).length →
      (Gen.Code.CheckMnemonic W s L.value (fresh script)).1 = .err .wordLen) ∧
    (ValidWordCount (splitOn 0x20 (W.X s)).length → (∀ t ∈ splitOn 0x20 (W.X s), t ∈ L.words) →
      Spec.checksumOK W.D L (splitOn 0x20 (W.X s)) = false →
      (Gen.Code.CheckMnemonic W s L.value (fresh script)).1 = .err .checksum) ∧
    (ValidWordCount (splitOn 0x20 (W.X s)).length → (∃ t ∈ splitOn 0x20 (W.X s), t ∉ L.words) →
      ∃ t i, (Gen.Code.CheckMnemonic W s L.value (fresh script)).1 = .err (.unknownWord t i) ∧
        (splitOn 0x20 (W.X s))[i]? = some t ∧ t ∉ L.words) := by
  rw [refine_CheckMnemonic]
  refine ⟨fun h => c15_count W.X W.D hD L s h, fun hc hall hk => c15_checksum W.X W.D hD L s hc hall hk, fun hc hu => ?_⟩
  obtain ⟨t, i, h1, h2, h3, _⟩ := c15_unknown W.X W.D hD L s hc hu
  exact ⟨t, i, h1, h2, h3⟩

end Bip39V
