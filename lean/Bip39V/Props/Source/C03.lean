import Bip39V.Props.Refine.CheckMnemonic
import Bip39V.Props.C03
import Bip39V.Props.Source.Basic
/-! C03, stated directly about the code regenerated from the Go source (`Gen/Code/*.lean`): the model
theorem carried over by the refinement theorems of `Props/Refine`.  `st` is an arbitrary state of the
package's lazily built maps and of the randomness source; `fresh` is a process that has made no call yet. -/
namespace Bip39V
open Model Go Spec Unicode

/-- C03 on the source: what `CheckMnemonic` accepts in a fresh process is well-formed -/
theorem src_c03_sound (W : World) (hD : ∀ x, (W.D x).length = 32) (L : Lang) (s : Str) (script : Script)
    (hX : W.X s = nfkd s) (h : (Gen.Code.CheckMnemonic W s L.value (fresh script)).1 = .ok ()) :
    ValidWordCount (Spec.fields (nfkd s)).length ∧ (∀ t ∈ Spec.fields (nfkd s), t ∈ L.words) ∧
      Spec.checksumOK W.D L (Spec.fields (nfkd s)) = true := by
  rw [refine_CheckMnemonic] at h
  exact c03_sound W.X W.D hD L s hX h

end Bip39V
