import Bip39V.Props.Refine.CheckMnemonic
import Bip39V.Props.C10
import Bip39V.Props.Source.Basic
/-! C10, stated directly about the code regenerated from the Go source. -/
namespace Bip39V
open Model Go Spec Unicode

/-- C10 on the source: canonically/compatibility-equivalent spellings get the same verdict -/
theorem src_c10_same (N : Normaliser) (W : World) (hX : W.X = N.X) (a b : Str) (ℓ : Int) (script : Script)
    (h : nfkd a = nfkd b) (hs : streamSafe a = true) :
    (Gen.Code.CheckMnemonic W a ℓ (fresh script)).1 = (Gen.Code.CheckMnemonic W b ℓ (fresh script)).1 := by
  rw [refine_CheckMnemonic, refine_CheckMnemonic, hX]
  exact c10_same N W.D a b ℓ h hs

end Bip39V
