import Bip39V.Props.Refine.LanguageString
import Bip39V.Props.C16
import Bip39V.Props.Source.Basic
/-! C16, stated directly about the code regenerated from the Go source (`Gen/Code/*.lean`): the model
theorem carried over by the refinement theorems of `Props/Refine`.  `st` is an arbitrary state of the
package's lazily built maps and of the randomness source; `fresh` is a process that has made no call yet. -/
namespace Bip39V
open Model Go Spec Unicode

/-- C16 on the source -/
theorem src_c16_names (W : World) (L : Lang) (st : St) :
    Gen.Code.Language_String W L.value st = (.ok (L.name.toList.map Char.toNat), st) := by
  rw [refine_Language_String W L.value st (by cases L <;> decide), c16_names]

end Bip39V
