import Bip39V.Props.Refine.CheckMnemonic
import Bip39V.Props.C02
import Bip39V.Props.Source.Basic
/-! C02, stated directly about the code regenerated from the Go source (`Gen/Code/*.lean`): the model
theorem carried over by the refinement theorems of `Props/Refine`.  `st` is an arbitrary state of the
package's lazily built maps and of the randomness source; `fresh` is a process that has made no call yet. -/
namespace Bip39V
open Model Go Spec Unicode

/-- C02 on the source: every well-formed sentence is accepted -/
theorem src_c02_complete (W : World) (hX : W.X = nfkd) (hD : ∀ x, (W.D x).length = 32) (L : Lang) (ws : List Str) (sep : Nat)
    (hsep : sep = 0x20 ∨ sep = 0x3000) (hc : ValidWordCount ws.length) (hin : ∀ w ∈ ws, w ∈ L.words)
    (hk : Spec.checksumOK W.D L ws = true) (script : Script) :
    (Gen.Code.CheckMnemonic W (joinWith [sep] ws) L.value (fresh script)).1 = .ok () := by
  rw [refine_CheckMnemonic, hX]
  exact c02_complete W.D hD L ws sep hsep hc hin hk

end Bip39V
