import Bip39V.Props.Refine.NewMnemonicByEntropy
import Bip39V.Props.Refine.NewMnemonic
import Bip39V.Props.C09
import Bip39V.Props.Source.Basic
/-! C09, stated directly about the code regenerated from the Go source (`Gen/Code/*.lean`): the model
theorem carried over by the refinement theorems of `Props/Refine`.  `st` is an arbitrary state of the
package's lazily built maps and of the randomness source; `fresh` is a process that has made no call yet. -/
namespace Bip39V
open Model Go Spec Unicode

/-- C09 on the source: any other length is refused with `ErrEntropyLen` -/
theorem src_c09_entropy (W : World) (hD : ∀ x, (W.D x).length = 32) (e : Bytes) (ℓ : Int) (hv : ¬ ValidEntLen e.length) (st : St) :
    Gen.Code.NewMnemonicByEntropy W e ℓ st = (.err .entropyLen, st) := by
  rw [refine_NewMnemonicByEntropy, (c09_entropy W.D hD e ℓ).1 hv]

/-- C09 on the source: any other word count is refused with `ErrWordLen` and the source is not read -/
theorem src_c09_words (W : World) (n ℓ : Int) (h : ¬ (n = 12 ∨ n = 15 ∨ n = 18 ∨ n = 21 ∨ n = 24)) (st : St) :
    (Gen.Code.NewMnemonic W n ℓ st).1 = .err .wordLen := by
  rw [refine_NewMnemonic]; exact c09_words W.D n ℓ st.script h

end Bip39V
