import Bip39V.Props.Refine
import Bip39V.Props.C07
import Bip39V.Props.Source.Basic
/-! C07, stated directly about the code regenerated from the Go source. -/
namespace Bip39V
open Model Go Spec Unicode

/-- C07 on the source: what `NewMnemonic` returns depends on nothing but the bytes its source
delivers during the call — not on the package state, not on anything read earlier -/
theorem src_c07_only_source (W : World) (n ℓ : Int) (st₁ st₂ : St) (h : st₁.script = st₂.script) :
    (Gen.Code.NewMnemonic W n ℓ st₁).1 = (Gen.Code.NewMnemonic W n ℓ st₂).1 := by
  rw [refine_NewMnemonic, refine_NewMnemonic, h]

/-- … and the translated function reads the source through `io.ReadFull(cryptoRander, ·)` only:
the number of `Read` calls it makes is the model's -/
theorem src_c07_reads (W : World) (n ℓ : Int) (st : St) :
    (Gen.Code.NewMnemonic W n ℓ st).2.reads = st.reads + (Model.newMnemonic W.D n ℓ st.script).2 := by
  rw [refine_NewMnemonic]; rfl

end Bip39V
