import Bip39V.Props.Refine
import Bip39V.Props.C12
import Bip39V.Props.Source.Basic
/-! C12, the part that concerns the function bodies: the interleaving model of `Props/C12.lean`
treats `mapping()` as the only place where shared mutable state is touched.  For the code
regenerated from the source this is a theorem: every exported function leaves the package state
exactly as it found it, except `CheckMnemonic`/`IsMnemonicValid`, whose only effect on it is the
one call of `mapping()` (and none at all when the word count is wrong). -/
namespace Bip39V
open Model Go Spec Unicode

theorem src_c12_footprint (W : World) :
    (∀ e ℓ st, (Gen.Code.NewMnemonicByEntropy W e ℓ st).2 = st) ∧
    (∀ n ℓ st, (Gen.Code.NewMnemonic W n ℓ st).2.pkg = st.pkg) ∧
    (∀ m p st, (Gen.Code.MnemonicToSeed W m p st).2 = st) ∧
    (∀ i st, isInt64 i → (Gen.Code.Language_String W i st).2 = st) ∧
    (∀ s ℓ st, (Gen.Code.CheckMnemonic W s ℓ st).2 = st ∨
      (Gen.Code.CheckMnemonic W s ℓ st).2 = { st with pkg := (Model.mapping st.pkg ℓ).1 }) ∧
    (∀ s ℓ st, (Gen.Code.IsMnemonicValid W s ℓ st).2 = st ∨
      (Gen.Code.IsMnemonicValid W s ℓ st).2 = { st with pkg := (Model.mapping st.pkg ℓ).1 }) := by
  have hchk : ∀ s ℓ (st : St), (checkMnemonicSt W.X W.D st.pkg s ℓ).1 = st.pkg ∨
      (checkMnemonicSt W.X W.D st.pkg s ℓ).1 = (Model.mapping st.pkg ℓ).1 := by
    intro s ℓ st
    unfold checkMnemonicSt
    dsimp only
    split
    · exact Or.inl rfl
    · exact Or.inr rfl
  refine ⟨?_, ?_, ?_, ?_, ?_, ?_⟩
  · intro e ℓ st; rw [refine_NewMnemonicByEntropy]
  · intro n ℓ st; rw [refine_NewMnemonic]; rfl
  · intro m p st; rw [refine_MnemonicToSeed]
  · intro i st hi; rw [refine_Language_String W i st hi]
  · intro s ℓ st
    rw [refine_CheckMnemonic]
    rcases hchk s ℓ st with h | h
    · left; rw [h]
    · right; rw [h]
  · intro s ℓ st
    rw [refine_IsMnemonicValid]
    rcases hchk s ℓ st with h | h
    · left; rw [h]
    · right; rw [h]

end Bip39V
