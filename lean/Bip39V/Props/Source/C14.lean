import Bip39V.Props.Refine
import Bip39V.Props.C14
import Bip39V.Props.Source.Basic
/-! C14, stated directly about the code regenerated from the Go source (`Gen/Code/*.lean`): the model
theorem carried over by the refinement theorems of `Props/Refine`.  `st` is an arbitrary state of the
package's lazily built maps and of the randomness source; `fresh` is a process that has made no call yet. -/
namespace Bip39V
open Model Go Spec Unicode

/-- C14 on the source: no exported function panics, from a fresh process -/
theorem src_c14_no_panic (W : World) (hD : ∀ x, (W.D x).length = 32) (script : Script) :
    (∀ e ℓ, (Gen.Code.NewMnemonicByEntropy W e ℓ (fresh script)).1.isPanic = false) ∧
    (∀ n ℓ, (Gen.Code.NewMnemonic W n ℓ (fresh script)).1.isPanic = false) ∧
    (∀ s ℓ, (Gen.Code.CheckMnemonic W s ℓ (fresh script)).1.isPanic = false) ∧
    (∀ s ℓ, (Gen.Code.IsMnemonicValid W s ℓ (fresh script)).1.isPanic = false) ∧
    (∀ m p, (Gen.Code.MnemonicToSeed W m p (fresh script)).1.isPanic = false) ∧
    (∀ i, isInt64 i → (Gen.Code.Language_String W i (fresh script)).1.isPanic = false) := by
  refine ⟨?_, ?_, ?_, ?_, ?_, ?_⟩
  · intro e ℓ; rw [refine_NewMnemonicByEntropy]; exact c14_new_by_entropy W.D hD e ℓ
  · intro n ℓ; rw [refine_NewMnemonic]; exact c14_new W.D hD n ℓ script
  · intro s ℓ; rw [refine_CheckMnemonic]; exact (c14_check W.X W.D hD s ℓ).1
  · intro s ℓ; rw [refine_IsMnemonicValid]; exact (c14_check W.X W.D hD s ℓ).2
  · intro m p; rw [refine_MnemonicToSeed]; rfl
  · intro i hi; rw [refine_Language_String W i _ hi]; exact c14_string i

end Bip39V
