import Bip39V.Model.Seed
import Bip39V.Crypto.Pbkdf2Spec
import Bip39V.Props.Norm
import Bip39V.Spec.Bip39
/-! # C04 — seed derivation equals BIP39 PBKDF2-HMAC-SHA512 for every input

`PB` is PBKDF2-HMAC-SHA512 (`password salt iterations keyLen`); the theorems hold for every
function `PB`, so they say where each argument goes, how it is normalised and encoded, and with
which iteration count and length — not that Go's SHA-512 is SHA-512 (tied by the harness against
the Lean transcription of RFC 8018 / RFC 2104 / FIPS 180-4). -/
namespace Bip39V
open Model Spec Unicode

theorem utf8_append (a b : Str) : utf8 (a ++ b) = utf8 a ++ utf8 b := by simp [utf8]

/-- the regenerated constants of `MnemonicToSeed` -/
theorem c04_constants :
    Gen.MnemonicToSeed.saltPrefix = [109, 110, 101, 109, 111, 110, 105, 99] ∧
    Gen.MnemonicToSeed.iter = 2048 ∧ Gen.MnemonicToSeed.keyLen = 64 := by decide

/-- `"mnemonic"` is ASCII, so normalising `"mnemonic" + passphrase` is `"mnemonic"` followed by
the normalised passphrase — for every passphrase, including one that begins with combining marks -/
theorem nfkd_salt (p : Str) :
    nfkd ([109, 110, 101, 109, 111, 110, 105, 99] ++ p) = [109, 110, 101, 109, 111, 110, 105, 99] ++ nfkd p :=
  nfkd_ascii_prefix _ p (by decide)

/-- **C04 (partial: the stream-safe class)**: whenever the normaliser computes NFKD on the two
strings it is applied to, the model of `MnemonicToSeed` is
`PBKDF2(utf8 NFKD(m), "mnemonic" ‖ utf8 NFKD(p), 2048, 64)`.  No property of `m` is used: it is
never validated. -/
theorem c04_seed_partial (X : Str → Str) (PB : Bytes → Bytes → Nat → Nat → Bytes) (m p : Str)
    (hm : X m = nfkd m) (hp : X ([109, 110, 101, 109, 111, 110, 105, 99] ++ p) = nfkd ([109, 110, 101, 109, 111, 110, 105, 99] ++ p)) :
    mnemonicToSeed X PB m p = Spec.seed PB m p := by
  have hdef : mnemonicToSeed X PB m p =
      PB (utf8 (X m)) (utf8 (X ([109, 110, 101, 109, 111, 110, 105, 99] ++ p))) 2048 64 := rfl
  rw [hdef, hm, hp, nfkd_salt, utf8_append]
  rfl

/-- the same for a normaliser satisfying the recorded assumption about x/text -/
theorem c04_seed_streamSafe (N : Normaliser) (PB : Bytes → Bytes → Nat → Nat → Bytes) (m p : Str)
    (hm : streamSafe m = true) (hp : streamSafe ([109, 110, 101, 109, 111, 110, 105, 99] ++ p) = true) :
    mnemonicToSeed N.X PB m p = Spec.seed PB m p :=
  c04_seed_partial N.X PB m p (N.agrees m hm) (N.agrees _ hp)

/-- the full statement (every valid-UTF-8 `m`, `p`) fails for x/text outside the stream-safe
class: the witness of known finding D4 is not stream-safe, so x/text's output differs from NFKD
there (observed on the implementation by the harness; recorded in known_findings.json) -/
theorem c04_full_witness_not_streamSafe :
    streamSafe ([109, 110, 101, 109, 111, 110, 105, 99] ++ (97 :: List.replicate 31 0x301)) = false := by decide +kernel

/-- non-vacuity: ordinary passphrases are stream-safe -/
example : streamSafe ([109, 110, 101, 109, 111, 110, 105, 99] ++ "TREZOR".toList.map Char.toNat) = true := by decide +kernel
example : streamSafe (97 :: List.replicate 30 0x301) = true := by decide +kernel

/-- PBKDF2-HMAC-SHA512 of RFC 8018 / RFC 2104 / FIPS 180-4 as a pure function (`Crypto/Pbkdf2Spec.lean`) -/
def PBKDF2 : Bytes → Bytes → Nat → Nat → Bytes := Crypto.S512.pbkdf2

/-- **C04 (length)**: with that PBKDF2, `MnemonicToSeed` returns exactly 64 bytes for every pair of
strings and every normaliser -/
theorem c04_len (X : Str → Str) (m p : Str) : (mnemonicToSeed X PBKDF2 m p).length = 64 := by
  have hdef : mnemonicToSeed X PBKDF2 m p =
      PBKDF2 (utf8 (X m)) (utf8 (X ([109, 110, 101, 109, 111, 110, 105, 99] ++ p))) 2048 64 := rfl
  rw [hdef]; exact Crypto.S512.pbkdf2_length _ _ _ _

#print axioms c04_len
#print axioms c04_seed_partial
#print axioms c04_seed_streamSafe
#print axioms c04_constants
#print axioms nfkd_salt
end Bip39V
