import Bip39V.Lemmas.Reader
import Bip39V.Props.C02
/-! # C06 — NewMnemonic is fail-closed and uses exactly the bytes its source delivers

The randomness source is a script: one element per `Read` call (bytes offered, error returned
with them), `(0, EOF)` forever after the script.  Every theorem is for *every* script. -/
namespace Bip39V
open Model Spec Unicode

theorem wordGate_count (n : Nat) (hv : ValidWordCount n) : wordGate (n : Int) = false := by
  rw [wordGate_iff]; unfold ValidWordCount at hv; omega

theorem bufSize_count (m : Nat) : bufSize ((3 * m : Nat) : Int) = ((4 * m : Nat) : Int) := by
  have hdef : bufSize ((3 * m : Nat) : Int) = ((3 * m : Nat) : Int) + ((3 * m : Nat) : Int).tdiv 3 := rfl
  rw [hdef, Int.tdiv_eq_ediv_of_nonneg (by omega)]; omega

/-- **C06 (success)**: if the source delivers at least `4n/3` bytes before failing — however
fragmented, with zero-length reads, even with an error returned alongside the last bytes — the
result is the BIP39 sentence of exactly the first `4n/3` delivered bytes. -/
theorem c06_ok (D : Bytes → Bytes) (hD : ∀ x, (D x).length = 32) (L : Lang) (n : Nat) (hv : ValidWordCount n)
    (script : Script) (h : 4 * n / 3 ≤ (delivered script).length) :
    (newMnemonic D n L.value script).1 = .ok (Spec.sentence D L ((delivered script).take (4 * n / 3))) := by
  obtain ⟨m, rfl, hm4, hm8⟩ : ∃ m, n = 3 * m ∧ 4 ≤ m ∧ m ≤ 8 := by
    rcases hv with h | h | h | h | h <;> exact ⟨n / 3, by omega, by omega, by omega⟩
  have hneed : 4 * (3 * m) / 3 = 4 * m := by omega
  rw [hneed] at h ⊢
  unfold newMnemonic
  simp only [wordGate_count _ hv, Bool.false_eq_true, if_false, bufSize_count]
  have hnn : ¬ ((4 * m : Nat) : Int) < 0 := by omega
  simp only [hnn, if_false, Int.toNat_natCast]
  have hr := readFull_ok (4 * m) script [] 0 h
  cases hrf : readFull (4 * m) script [] 0 with
  | mk r calls =>
    rw [hrf] at hr
    simp only at hr
    subst hr
    simp only [List.nil_append]
    have hlen : ((delivered script).take (4 * m)).length = 4 * m := by
      rw [List.length_take]; omega
    have h3 : ((3 * m : Nat) : Int) = ((m * 3 : Nat) : Int) := by omega
    rw [h3, fromEntropy_eq D hD _ m hlen hm8, sep_lang, list_lang]
    rfl

/-- … and it has `n` words. -/
theorem c06_wordcount (D : Bytes → Bytes) (hD : ∀ x, (D x).length = 32) (L : Lang) (n : Nat) (hv : ValidWordCount n)
    (script : Script) (h : 4 * n / 3 ≤ (delivered script).length) :
    (splitOn L.sep (Spec.sentence D L ((delivered script).take (4 * n / 3)))).length = n := by
  have hlen : ((delivered script).take (4 * n / 3)).length = 4 * n / 3 := by rw [List.length_take]; omega
  have hve : ValidEntLen ((delivered script).take (4 * n / 3)).length := by
    rw [hlen]; unfold ValidEntLen; unfold ValidWordCount at hv; omega
  rw [(c01_shape D hD L _ hve).2.1, hlen]
  unfold ValidWordCount at hv; omega

/-- **C06 (fail-closed)**: if the source fails or ends before `4n/3` bytes have been delivered,
the outcome is an error — never a mnemonic built from a partially filled buffer — and it is the
error `io.ReadFull` reports (`EOF` if nothing arrived, `ErrUnexpectedEOF` after a partial read
that ended in EOF, the source's own error otherwise). -/
theorem c06_fail (D : Bytes → Bytes) (ℓ : Int) (n : Nat) (hv : ValidWordCount n)
    (script : Script) (h : (delivered script).length < 4 * n / 3) :
    (newMnemonic D n ℓ script).1 = .err (.io (expectedErr script [])) := by
  obtain ⟨m, rfl, hm4, hm8⟩ : ∃ m, n = 3 * m ∧ 4 ≤ m ∧ m ≤ 8 := by
    rcases hv with h | h | h | h | h <;> exact ⟨n / 3, by omega, by omega, by omega⟩
  have hneed : 4 * (3 * m) / 3 = 4 * m := by omega
  rw [hneed] at h
  unfold newMnemonic
  simp only [wordGate_count _ hv, Bool.false_eq_true, if_false, bufSize_count]
  have hnn : ¬ ((4 * m : Nat) : Int) < 0 := by omega
  simp only [hnn, if_false, Int.toNat_natCast]
  have hr := readFull_fail (4 * m) script [] 0 h
  cases hrf : readFull (4 * m) script [] 0 with
  | mk r calls =>
    rw [hrf] at hr
    simp only at hr
    subst hr
    rfl

/-- the three error kinds, spelled out -/
theorem c06_eof_kinds :
    expectedErr [] [] = .eof ∧
    (∀ bs : Bytes, bs ≠ [] → expectedErr [(bs, none)] [] = .unexpectedEof) ∧
    (∀ bs : Bytes, bs ≠ [] → expectedErr [(bs, some .eof)] [] = .unexpectedEof) ∧
    expectedErr [([], some .eof)] [] = .eof ∧
    (∀ (bs : Bytes) (c : Nat) (rest : Script), expectedErr ((bs, some (.other c)) :: rest) [] = .other c) := by
  refine ⟨rfl, ?_, ?_, rfl, fun _ _ _ => rfl⟩
  · intro bs h; simp [expectedErr, firstErr, delivered, h]
  · intro bs h; simp [expectedErr, firstErr, delivered, h]

/-- C02 through `NewMnemonic`: whatever a working source delivers, the result validates -/
theorem c02_reader (D : Bytes → Bytes) (hD : ∀ x, (D x).length = 32) (L : Lang) (n : Nat) (hv : ValidWordCount n)
    (script : Script) (h : 4 * n / 3 ≤ (delivered script).length) :
    ∃ s, (newMnemonic D n L.value script).1 = .ok s ∧ checkMnemonic nfkd D s L.value = .ok () := by
  refine ⟨_, c06_ok D hD L n hv script h, ?_⟩
  have hlen : ((delivered script).take (4 * n / 3)).length = 4 * n / 3 := by rw [List.length_take]; omega
  have hve : ValidEntLen ((delivered script).take (4 * n / 3)).length := by
    rw [hlen]; unfold ValidEntLen; unfold ValidWordCount at hv; omega
  obtain ⟨s, hs, hc⟩ := c02_roundtrip D hD L _ hve
  rw [c01_encode D hD L _ hve] at hs
  injection hs with hs; subst hs; exact hc

/-- non-vacuity: a fragmented script with a zero-length read and a late error meets the
hypothesis of `c06_ok` for 12 words; a short one meets that of `c06_fail` -/
example : 4 * 12 / 3 ≤ (delivered [([1,2,3], none), ([], none), (List.replicate 12 7, none), ([9], some (.other 5))]).length := by decide
example : (delivered [([1,2,3], none), ([4], some .eof)]).length < 4 * 12 / 3 := by decide

#print axioms c06_ok
#print axioms c06_wordcount
#print axioms c06_fail
#print axioms c06_eof_kinds
#print axioms c02_reader
end Bip39V
