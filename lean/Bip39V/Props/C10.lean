import Bip39V.Lemmas.Runs
import Bip39V.Lemmas.NfkdIdem
import Bip39V.Props.Norm
import Bip39V.Props.C02
import Bip39V.Props.C14
/-! # C10 — validation is invariant under Unicode-equivalent spellings

`N : Normaliser` is `norm.NFKD.String` with the two facts the proofs use (`Props/Norm.lean`); both are
proved for the executable model of x/text's algorithm (`Props/XText.lean`: `c10_verdict_xtext`, …).
NFC, NFD, NFKC, NFKD and full-width spellings of a string, and U+3000 for U+0020, all have the
same NFKD form; that the concrete re-spellings x/text produces have equal NFKD forms is checked
by the harness for all 20 480 list words. -/
namespace Bip39V
open Model Spec Unicode

/-- `CheckMnemonic` looks at its string argument only through the normaliser -/
theorem checkMnemonic_congr (X : Str → Str) (D : Bytes → Bytes) (a b : Str) (ℓ : Int) (h : X a = X b) :
    checkMnemonic X D a ℓ = checkMnemonic X D b ℓ := by
  simp only [checkMnemonic, checkMnemonicSt, h]

/-- **C10 (same result)**: two spellings with the same NFKD form, in the stream-safe class, get
the identical result — verdict, error kind and the token named in the error — under every
language value -/
theorem c10_same (N : Normaliser) (D : Bytes → Bytes) (a b : Str) (ℓ : Int) (h : nfkd a = nfkd b) (hs : streamSafe a = true) :
    checkMnemonic N.X D a ℓ = checkMnemonic N.X D b ℓ := by
  apply checkMnemonic_congr
  rw [N.agrees a hs, N.agrees b (by rw [← streamSafe_congr a b h]; exact hs), h]

/-- a token longer than any list word makes the specification reject -/
theorem classify_long_token (D : Bytes → Bytes) (L : Lang) (toks : List Str) (h : ∃ t ∈ toks, 12 < t.length) :
    Spec.classify D L toks ≠ .ok () := by
  intro hok
  obtain ⟨_, hin, _⟩ := (classify_ok_iff D L toks).mp hok
  obtain ⟨t, ht, hl⟩ := h
  have := wordOk_length (words_wordOk L t (hin t ht))
  omega

/-- outside the stream-safe class nothing is accepted: 28 consecutive K-items lie inside one token
(U+0020 is not a K-item) and no list word is that long -/
theorem reject_not_streamSafe (N : Normaliser) (D : Bytes → Bytes) (hD : ∀ x, (D x).length = 32) (s : Str) (ℓ : Int)
    (hs : streamSafe s = false) : checkMnemonic N.X D s ℓ ≠ .ok () := by
  cases hl : Lang.ofValue ℓ with
  | none => exact checkMnemonic_unsupported N.X D ℓ hl s
  | some L =>
    rw [← ofValue_some ℓ L hl, checkMnemonic_eq N.X D hD]
    obtain ⟨a, r, b, hx, hr, hk⟩ := N.overflow s hs
    apply classify_long_token
    have hsep : 0x20 ∉ r := by
      intro hm; have := hk _ hm; rw [kItem_space] at this; cases this
    obtain ⟨t, ht, hl'⟩ := token_contains_run 0x20 a r b hsep
    exact ⟨t, by rw [hx]; exact ht, by omega⟩

/-- **C10 (same verdict, all strings)**: two strings with the same NFKD form are both accepted or
both rejected, under every language value -/
theorem c10_verdict (N : Normaliser) (D : Bytes → Bytes) (hD : ∀ x, (D x).length = 32) (a b : Str) (ℓ : Int) (h : nfkd a = nfkd b) :
    checkMnemonic N.X D a ℓ = .ok () ↔ checkMnemonic N.X D b ℓ = .ok () := by
  cases hs : streamSafe a with
  | true => rw [c10_same N D a b ℓ h hs]
  | false =>
    have hb : streamSafe b = false := by rw [← streamSafe_congr a b h]; exact hs
    constructor
    · intro ha; exact absurd ha (reject_not_streamSafe N D hD a ℓ hs)
    · intro hb'; exact absurd hb' (reject_not_streamSafe N D hD b ℓ hb)

/-- a sentence of list words is stream-safe -/
theorem streamSafe_of_sentence (L : Lang) (ws : List Str) (hne : ws ≠ []) (hin : ∀ w ∈ ws, w ∈ L.words) (s : Str)
    (hs : nfkd s = joinWith [0x20] ws) : streamSafe s = true := by
  unfold streamSafe
  rw [hs]
  have hsplit : splitOn 0x20 (joinWith [0x20] ws) = ws :=
    split_join 0x20 ws hne (fun w hw => space_not_mem_word L w (hin w hw))
  have : maxKRun (joinWith [0x20] ws) ≤ 12 := by
    apply maxKRun_le_of_tokens
    rw [hsplit]
    exact fun t ht => wordOk_length (words_wordOk L t (hin t ht))
  simp; omega

/-- **C10 (every spelling of a valid mnemonic is accepted)**: if `ws` is a valid sentence
(12/15/18/21/24 words of the list with the BIP39 checksum) then *every* string with the same NFKD
form as `ws` joined by single spaces — typed NFC, NFD, NFKC, NFKD, full-width, with U+3000 … — is
accepted. -/
theorem c10_spellings (N : Normaliser) (D : Bytes → Bytes) (hD : ∀ x, (D x).length = 32) (L : Lang) (ws : List Str)
    (hc : ValidWordCount ws.length) (hin : ∀ w ∈ ws, w ∈ L.words) (hk : Spec.checksumOK D L ws = true)
    (s : Str) (hs : nfkd s = nfkd (joinWith [0x20] ws)) : checkMnemonic N.X D s L.value = .ok () := by
  have hne : ws ≠ [] := by intro h; subst h; revert hc; decide
  have hj : nfkd (joinWith [0x20] ws) = joinWith [0x20] ws :=
    nfkd_joinWith 0x20 (Or.inl rfl) ws (fun w hw => words_nfkd_stable L w (hin w hw))
  have hsafe := streamSafe_of_sentence L ws hne hin s (hs.trans hj)
  rw [checkMnemonic_eq N.X D hD, N.agrees s hsafe, hs, hj,
    split_join 0x20 ws hne (fun w hw => space_not_mem_word L w (hin w hw)), classify_ok_iff]
  exact ⟨hc, hin, hk⟩

/-- UAX #15 NFKD itself satisfies the first assumption and — trivially, on the strings where it
matters — shows the structure is inhabited when restricted to stream-safe inputs: the two
assumptions are not contradictory (`agrees` and `overflow` talk about disjoint classes). -/
example (s : Str) (h : streamSafe s = true) : (fun t => nfkd t) s = nfkd s ∧ ¬ streamSafe s = false := ⟨rfl, by simp [h]⟩

/-- the NFKD spelling of any string has the same NFKD form as the string (`nfkd_idempotent`), so it
gets the same verdict: typing a mnemonic fully decomposed changes nothing -/
theorem c10_nfkd_spelling (N : Normaliser) (D : Bytes → Bytes) (hD : ∀ x, (D x).length = 32) (s : Str) (ℓ : Int) :
    checkMnemonic N.X D (nfkd s) ℓ = .ok () ↔ checkMnemonic N.X D s ℓ = .ok () :=
  c10_verdict N D hD (nfkd s) s ℓ (nfkd_idempotent s)

#print axioms c10_nfkd_spelling
#print axioms c10_same
#print axioms c10_verdict
#print axioms c10_spellings
end Bip39V
