import Bip39V.Lemmas.Encode
import Bip39V.Props.Tables
/-! # C01 — mnemonic encoding conforms to BIP39 for every entropy and language

`D` is the SHA-256 digest function: the theorems hold for every function returning 32 bytes. -/
namespace Bip39V
open Model Spec

/-- separator chosen by the tail of `fromEntropy` -/
theorem sep_lang (L : Lang) : (if L.value = Gen.vJapanese then [12288] else [32]) = [L.sep] := by
  cases L <;> decide

/-- `fromEntropy` for a well-sized entropy, in terms of the spec's index list -/
theorem fromEntropy_eq (D : Bytes → Bytes) (hD : ∀ x, (D x).length = 32) (e : Bytes) (m : Nat)
    (hlen : e.length = 4 * m) (hm : m ≤ 8) (ℓ : Int) :
    fromEntropy D e ((m * 3 : Nat) : Int) ℓ =
      .ok (joinWith (if ℓ = Gen.vJapanese then [12288] else [32])
            ((Spec.indices D e).map (fun i => (Model.list ℓ)[i]?.getD []))) := by
  match h : D e with
  | [] => have := hD e; rw [h] at this; cases this
  | b :: rest =>
    have hcs : e.length / 4 = m := by omega
    have hslice : goSlice (D e) 0 1 = some [b] := by
      rw [h]; simp [goSlice]; omega
    have hshl : (1 : Nat) <<< (8 - m) = 2 ^ (8 - m) := by rw [Nat.shiftLeft_eq]; simp
    have hpos : 2 ^ (8 - m) ≠ 0 := Nat.pos_iff_ne_zero.mp (Nat.two_pow_pos _)
    rw [fromEntropy_lit]
    unfold fromEntropyLit
    rw [hslice]
    simp only [hcs, hshl]
    have hnot : ¬ m > 8 := by omega
    rw [if_neg hnot, if_neg hpos]
    have hneg : ¬ ((m * 3 : Nat) : Int) < 0 := by omega
    rw [if_neg hneg]
    have hdiv : ¬ ((2048 : Nat) = 0 ∧ ((m * 3 : Nat) : Int).toNat ≠ 0) := by omega
    rw [if_neg hdiv]
    rw [Int.toNat_natCast, peelWords_eq _ (list_length ℓ)]
    rw [spec_indices_eq D e m hlen hm b rest h, beNat_single, Nat.shiftLeft_eq]

/-- **C01**: for every entropy of a legal size and each of the ten languages `NewMnemonicByEntropy`
returns exactly the BIP39 sentence over the canonical list. -/
theorem c01_encode (D : Bytes → Bytes) (hD : ∀ x, (D x).length = 32) (L : Lang) (e : Bytes)
    (hv : ValidEntLen e.length) :
    newMnemonicByEntropy D e L.value = .ok (Spec.sentence D L e) := by
  obtain ⟨m, hlen, hm⟩ : ∃ m, e.length = 4 * m ∧ m ≤ 8 := by
    rcases hv with h | h | h | h | h <;> exact ⟨e.length / 4, by omega, by omega⟩
  have hgate : entGate (e.length : Int) = false := (entGate_iff _).mpr (by
    rcases hv with h | h | h | h | h <;> simp [h])
  have hwl : entWordLen (e.length : Int) = ((m * 3 : Nat) : Int) := by
    have hdef : entWordLen (e.length : Int) = (e.length : Int).tdiv 4 * 3 := rfl
    rw [hdef, hlen]
    have : ((4 * m : Nat) : Int).tdiv 4 = m := by
      rw [Int.tdiv_eq_ediv_of_nonneg (by omega)]; omega
    rw [this]; omega
  unfold newMnemonicByEntropy
  simp only [hgate, hwl, Bool.false_eq_true, if_false]
  rw [fromEntropy_eq D hD e m hlen hm, sep_lang, list_lang]
  rfl

/-- the sentence has `3·len/4` words, each index below 2048 -/
theorem c01_wordcount (D : Bytes → Bytes) (hD : ∀ x, (D x).length = 32) (e : Bytes) (hv : ValidEntLen e.length) :
    (Spec.indices D e).length = 3 * e.length / 4 ∧ ∀ i ∈ Spec.indices D e, i < 2048 := by
  obtain ⟨m, hlen, hm⟩ : ∃ m, e.length = 4 * m ∧ m ≤ 8 := by
    rcases hv with h | h | h | h | h <;> exact ⟨e.length / 4, by omega, by omega⟩
  refine ⟨?_, spec_indices_lt D e m hlen hm (hD e)⟩
  rw [spec_indices_length D e m hlen hm (hD e)]; omega

/-- the words are joined by exactly one separator (U+3000 for Japanese, U+0020 otherwise), with
no leading, trailing or doubled separator: splitting the sentence at the separator gives back
exactly the `3·len/4` words, none of them empty -/
theorem c01_shape (D : Bytes → Bytes) (hD : ∀ x, (D x).length = 32) (L : Lang) (e : Bytes) (hv : ValidEntLen e.length) :
    splitOn L.sep (Spec.sentence D L e) = (Spec.indices D e).map L.word ∧
    (splitOn L.sep (Spec.sentence D L e)).length = 3 * e.length / 4 ∧
    ∀ w ∈ splitOn L.sep (Spec.sentence D L e), w ≠ [] ∧ w ∈ L.words := by
  obtain ⟨hl, hlt⟩ := c01_wordcount D hD e hv
  have hin : ∀ w ∈ (Spec.indices D e).map L.word, w ∈ L.words := by
    intro w hw
    obtain ⟨i, hi, rfl⟩ := List.mem_map.mp hw
    exact word_mem L i (hlt i hi)
  have hne : (Spec.indices D e).map L.word ≠ [] := by
    intro h; have := congrArg List.length h
    rw [List.length_map, hl] at this
    rcases hv with h | h | h | h | h <;> rw [h] at this <;> simp at this
  have hs : splitOn L.sep (Spec.sentence D L e) = (Spec.indices D e).map L.word :=
    split_join L.sep _ hne (fun w hw => sep_not_mem_word L w (hin w hw))
  refine ⟨hs, by rw [hs, List.length_map, hl], ?_⟩
  rw [hs]
  exact fun w hw => ⟨wordOk_ne_nil (words_wordOk L w (hin w hw)), hin w hw⟩

/-- non-vacuity: the hypotheses are satisfiable -/
example : ValidEntLen (List.replicate 16 (0 : UInt8)).length ∧ ValidEntLen (List.replicate 32 (255 : UInt8)).length := by decide

#print axioms c01_encode
#print axioms c01_shape
#print axioms c01_wordcount
end Bip39V
