import Bip39V.Crypto.Sha256Spec
import Bip39V.Props.C02
import Bip39V.Props.C03Count
import Bip39V.Props.C05
import Bip39V.Props.C06
import Bip39V.Props.C14
/-! The main theorems instantiated with the concrete SHA-256 of `Crypto/Sha256Spec.lean` (the digest
function the driver runs): the hypothesis "the digest has 32 bytes" is discharged by
`sha256_length`, so these statements have no hypothesis about the hash left. -/
namespace Bip39V
open Model Spec Unicode Crypto

def SHA256 : Bytes → Bytes := S256.sha256
theorem SHA256_length : ∀ x, (SHA256 x).length = 32 := S256.sha256_length

theorem c01_encode_sha256 (L : Lang) (e : Bytes) (hv : ValidEntLen e.length) :
    newMnemonicByEntropy SHA256 e L.value = .ok (Spec.sentence SHA256 L e) := c01_encode SHA256 SHA256_length L e hv

theorem c02_roundtrip_sha256 (L : Lang) (e : Bytes) (hv : ValidEntLen e.length) :
    ∃ s, newMnemonicByEntropy SHA256 e L.value = .ok s ∧ checkMnemonic nfkd SHA256 s L.value = .ok () :=
  c02_roundtrip SHA256 SHA256_length L e hv

theorem c03_lastword_sha256 (L : Lang) (pre : List Str) (n : Nat) (hn : pre.length + 1 = n) (hv : ValidWordCount n)
    (hpre : ∀ w ∈ pre, w ∈ L.words) :
    L.words.countP (fun w => decide (checkMnemonic nfkd SHA256 (joinWith [0x20] (pre ++ [w])) L.value = .ok ())) = 2 ^ (11 - n / 3) :=
  c03_lastword SHA256 SHA256_length L pre n hn hv hpre

theorem c05_injective_sha256 (L : Lang) (e₁ e₂ : Bytes) (h₁ : ValidEntLen e₁.length) (h₂ : ValidEntLen e₂.length)
    (h : newMnemonicByEntropy SHA256 e₁ L.value = newMnemonicByEntropy SHA256 e₂ L.value) : e₁ = e₂ :=
  c05_injective SHA256 SHA256_length L e₁ e₂ h₁ h₂ h

theorem c06_ok_sha256 (L : Lang) (n : Nat) (hv : ValidWordCount n) (script : Script) (h : 4 * n / 3 ≤ (delivered script).length) :
    (newMnemonic SHA256 n L.value script).1 = .ok (Spec.sentence SHA256 L ((delivered script).take (4 * n / 3))) :=
  c06_ok SHA256 SHA256_length L n hv script h

theorem c14_all_sha256 (e : Bytes) (ℓ n : Int) (script : Script) (s : Str) (X : Str → Str) :
    (newMnemonicByEntropy SHA256 e ℓ).isPanic = false ∧ (newMnemonic SHA256 n ℓ script).1.isPanic = false ∧
    (checkMnemonic X SHA256 s ℓ).isPanic = false :=
  ⟨c14_new_by_entropy SHA256 SHA256_length e ℓ, c14_new SHA256 SHA256_length n ℓ script, (c14_check X SHA256 SHA256_length s ℓ).1⟩

#print axioms c01_encode_sha256
#print axioms c03_lastword_sha256
#print axioms c14_all_sha256
end Bip39V
