import Bip39V.Lemmas.XText
import Bip39V.Props.C10
import Bip39V.Props.C11
/-! # The normaliser, closed: x/text's stream-safe NFKD as an executable model

`Unicode.xnfkd` (`Unicode/XText.lean`) models what `norm.NFKD.String` of golang.org/x/text v0.14.0
computes, U+034F insertion included.  It *is* a `Normaliser`: both recorded facts are theorems
(`xnfkd_agrees`, `xnfkd_overflow`).  So the C04/C10/C11 theorems have closed instances with no
hypothesis about the normaliser left; and the full statements of C04 and C11 are *refuted* for this
model at the witnesses of known finding D4 (the arguments handed to PBKDF2 differ), which is what
the harness observes on the implementation. -/
namespace Bip39V
open Model Spec Unicode

/-- x/text's `norm.NFKD.String`, modelled -/
def xtext : Normaliser where
  X := xnfkd
  agrees := xnfkd_agrees
  overflow := xnfkd_overflow

/-- **C10, closed**: two strings with the same NFKD form get the same verdict from the model of
`CheckMnemonic` running x/text's normaliser — all strings, all language values -/
theorem c10_verdict_xtext (D : Bytes → Bytes) (hD : ∀ x, (D x).length = 32) (a b : Str) (ℓ : Int) (h : nfkd a = nfkd b) :
    checkMnemonic xnfkd D a ℓ = .ok () ↔ checkMnemonic xnfkd D b ℓ = .ok () :=
  c10_verdict xtext D hD a b ℓ h

theorem c10_same_xtext (D : Bytes → Bytes) (a b : Str) (ℓ : Int) (h : nfkd a = nfkd b) (hs : streamSafe a = true) :
    checkMnemonic xnfkd D a ℓ = checkMnemonic xnfkd D b ℓ :=
  c10_same xtext D a b ℓ h hs

theorem c10_spellings_xtext (D : Bytes → Bytes) (hD : ∀ x, (D x).length = 32) (L : Lang) (ws : List Str)
    (hc : ValidWordCount ws.length) (hin : ∀ w ∈ ws, w ∈ L.words) (hk : Spec.checksumOK D L ws = true)
    (s : Str) (hs : nfkd s = nfkd (joinWith [0x20] ws)) : checkMnemonic xnfkd D s L.value = .ok () :=
  c10_spellings xtext D hD L ws hc hin hk s hs

/-- **C04, closed (stream-safe class)** -/
theorem c04_seed_xtext (PB : Bytes → Bytes → Nat → Nat → Bytes) (m p : Str)
    (hm : streamSafe m = true) (hp : streamSafe ([109, 110, 101, 109, 111, 110, 105, 99] ++ p) = true) :
    mnemonicToSeed xnfkd PB m p = Spec.seed PB m p :=
  c04_seed_streamSafe xtext PB m p hm hp

/-- **C11, closed (stream-safe class)** -/
theorem c11_partial_xtext (PB : Bytes → Bytes → Nat → Nat → Bytes) (m₁ m₂ p₁ p₂ : Str)
    (hm : nfkd m₁ = nfkd m₂) (hp : nfkd p₁ = nfkd p₂)
    (hs₁ : streamSafe m₁ = true) (hs₂ : streamSafe ([109, 110, 101, 109, 111, 110, 105, 99] ++ p₁) = true) :
    mnemonicToSeed xnfkd PB m₁ p₁ = mnemonicToSeed xnfkd PB m₂ p₂ :=
  c11_partial xtext PB m₁ m₂ p₁ p₂ hm hp hs₁ hs₂

/-! ### known finding D4, as theorems about the model -/

/-- the salt `MnemonicToSeed("x", "a" + 31×U+0301)` hands to PBKDF2 is not the BIP39 salt: x/text
inserts U+034F after the thirtieth accent (**C04's full statement is false of x/text**) -/
theorem d4_c04_salt_differs :
    utf8 (xnfkd ([109, 110, 101, 109, 111, 110, 105, 99] ++ (97 :: List.replicate 31 0x301))) ≠
    utf8 ([109, 110, 101, 109, 111, 110, 105, 99] ++ nfkd (97 :: List.replicate 31 0x301)) := by decide +kernel

/-- what x/text produces there: 30 accents, U+034F, the last accent -/
theorem d4_c04_salt_form :
    xnfkd ([109, 110, 101, 109, 111, 110, 105, 99] ++ (97 :: List.replicate 31 0x301)) =
    [109, 110, 101, 109, 111, 110, 105, 99] ++ (97 :: (List.replicate 30 0x301 ++ [0x34F, 0x301])) := by decide +kernel

/-- two canonically equivalent passphrases (equal NFKD forms) for which x/text hands different salts
to PBKDF2 (**C11's full statement is false of x/text**) -/
theorem d4_c11_pair :
    nfkd (97 :: (List.replicate 31 0x301 ++ [0x316])) = nfkd (97 :: 0x316 :: List.replicate 31 0x301) ∧
    utf8 (xnfkd ([109, 110, 101, 109, 111, 110, 105, 99] ++ (97 :: (List.replicate 31 0x301 ++ [0x316])))) ≠
    utf8 (xnfkd ([109, 110, 101, 109, 111, 110, 105, 99] ++ (97 :: 0x316 :: List.replicate 31 0x301))) := by decide +kernel

/-- the insertion can come after fewer than 30 K-items (why `Normaliser.overflow` says 28):
`a` + 29×U+0301 + U+0344 → 29 accents, U+034F, U+0308 U+0301 -/
theorem xnfkd_run_of_29 :
    xnfkd (97 :: (List.replicate 29 0x301 ++ [0x344])) = 97 :: (List.replicate 29 0x301 ++ [0x34F, 0x308, 0x301]) := by
  decide +kernel

/-- non-vacuity: on an ordinary string the model is plain NFKD, e.g. é → e U+0301 -/
example : xnfkd [0xE9, 0x20, 0x3000, 0xAC01] = [0x65, 0x301, 0x20, 0x20, 0x1100, 0x1161, 0x11A8] := by decide +kernel

#print axioms xtext
#print axioms c10_verdict_xtext
#print axioms c10_same_xtext
#print axioms c10_spellings_xtext
#print axioms c04_seed_xtext
#print axioms c11_partial_xtext
#print axioms d4_c04_salt_differs
#print axioms d4_c04_salt_form
#print axioms d4_c11_pair
#print axioms xnfkd_run_of_29
end Bip39V
