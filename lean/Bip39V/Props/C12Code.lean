import Bip39V.Lemmas.ConcCode
import Bip39V.Gen.Code.Language_mapping
/-! # C12 at code level: the interleaving semantics of the *translated* `Language.mapping`

`Gen.Code.Language_mapping_prog` is `Language.mapping` as a deep-embedded program, regenerated from
lang.go on every run together with the shallow translation `Gen.Code.Language_mapping`.

* `prog_run`: the program's sequential meaning *is* the translated function (hence, by
  `refine_Language_mapping`, the abstract state machine of C13);
* `prog_guarded`: the program obeys the guard discipline — every closure statement writes a variable
  guarded by its own `sync.Once` cell, every returned variable is read after `Do` on its cell —
  established by evaluation for each of the ten arms and the fall-through;
* `c12_code_racefree`: therefore, in **every** reachable configuration of the interleaving semantics
  (`Lemmas/ConcCode.lean`: any number of goroutines, any receiver values, repeated calls, any
  schedule), each occurrence of a read of a map variable is preceded by `exit tw o … ret tr o` on
  the variable's cell, and every write to that variable anywhere in the execution lies before that
  exit and was made by the one goroutine `tw`: write →po exit →sync ret →po read.  No data race on
  the lazily built maps, for the code as translated today.

What remains assumed: that `sync.Once` behaves as the semantics says (its documented contract and
the Go memory model's happens-before edge), and that the other exported functions touch the package
state only through `mapping()` (`src_c12_footprint`). -/
namespace Bip39V
open Go Model

/-- the deep-embedded program denotes the translated function -/
theorem prog_run (ℓ : Int) : (Gen.Code.Language_mapping_prog ℓ).run = Gen.Code.Language_mapping ℓ := by
  by_cases h0 : ℓ = Gen.vChineseSimplified; · subst h0; rfl
  by_cases h1 : ℓ = Gen.vChineseTraditional; · subst h1; rfl
  by_cases h2 : ℓ = Gen.vEnglish; · subst h2; rfl
  by_cases h3 : ℓ = Gen.vFrench; · subst h3; rfl
  by_cases h4 : ℓ = Gen.vItalian; · subst h4; rfl
  by_cases h5 : ℓ = Gen.vJapanese; · subst h5; rfl
  by_cases h6 : ℓ = Gen.vSpanish; · subst h6; rfl
  by_cases h7 : ℓ = Gen.vKorean; · subst h7; rfl
  by_cases h8 : ℓ = Gen.vCzech; · subst h8; rfl
  by_cases h9 : ℓ = Gen.vPortuguese; · subst h9; rfl
  unfold Gen.Code.Language_mapping_prog Gen.Code.Language_mapping
  simp only [decide_eq_false h0, decide_eq_false h1, decide_eq_false h2, decide_eq_false h3, decide_eq_false h4,
    decide_eq_false h5, decide_eq_false h6, decide_eq_false h7, decide_eq_false h8, decide_eq_false h9,
    Bool.false_eq_true, if_false]
  rfl

/-- the `sync.Once` cell that guards a map variable, read off the regenerated arms -/
def cellOfVar (v : Nat) : Nat :=
  match Gen.mapArms.find? (fun a => a.wvar == v) with
  | some a => a.cell
  | none => 1000000 + v

theorem guarded_arm (c w t r : Nat) (hw : cellOfVar w = c) (hr : cellOfVar r = c) :
    CC.GuardedAfter cellOfVar (fun _ => False) (.onceDo c [.makeMap w, .fill w t] (.retVar r)) := by
  refine ⟨?_, Or.inl hr⟩
  intro st hst
  simp only [List.mem_cons, List.mem_nil_iff, or_false] at hst
  rcases hst with rfl | rfl <;> exact hw

/-- the regenerated program obeys the guard discipline, for every receiver value -/
theorem prog_guarded (ℓ : Int) : CC.GuardedAfter cellOfVar (fun _ => False) (Gen.Code.Language_mapping_prog ℓ) := by
  by_cases h0 : ℓ = Gen.vChineseSimplified; · subst h0; exact guarded_arm _ _ _ _ rfl rfl
  by_cases h1 : ℓ = Gen.vChineseTraditional; · subst h1; exact guarded_arm _ _ _ _ rfl rfl
  by_cases h2 : ℓ = Gen.vEnglish; · subst h2; exact guarded_arm _ _ _ _ rfl rfl
  by_cases h3 : ℓ = Gen.vFrench; · subst h3; exact guarded_arm _ _ _ _ rfl rfl
  by_cases h4 : ℓ = Gen.vItalian; · subst h4; exact guarded_arm _ _ _ _ rfl rfl
  by_cases h5 : ℓ = Gen.vJapanese; · subst h5; exact guarded_arm _ _ _ _ rfl rfl
  by_cases h6 : ℓ = Gen.vSpanish; · subst h6; exact guarded_arm _ _ _ _ rfl rfl
  by_cases h7 : ℓ = Gen.vKorean; · subst h7; exact guarded_arm _ _ _ _ rfl rfl
  by_cases h8 : ℓ = Gen.vCzech; · subst h8; exact guarded_arm _ _ _ _ rfl rfl
  by_cases h9 : ℓ = Gen.vPortuguese; · subst h9; exact guarded_arm _ _ _ _ rfl rfl
  unfold Gen.Code.Language_mapping_prog
  simp only [decide_eq_false h0, decide_eq_false h1, decide_eq_false h2, decide_eq_false h3, decide_eq_false h4,
    decide_eq_false h5, decide_eq_false h6, decide_eq_false h7, decide_eq_false h8, decide_eq_false h9,
    Bool.false_eq_true, if_false]
  trivial

/-- **C12 (race freedom, code level)** -/
theorem c12_code_racefree {s : CC.Cfg} (r : CC.Reach Gen.Code.Language_mapping_prog s)
    (pre post : List CC.Ev) (tr : CC.Tid) (v : Nat) (h : s.trace = pre ++ CC.Ev.read tr v :: post) :
    ∃ tw p1 p2 p3, pre = p1 ++ CC.Ev.exit tw (cellOfVar v) :: p2 ++ CC.Ev.ret tr (cellOfVar v) :: p3 ∧
      (∀ t, CC.Ev.write t v ∉ p2 ++ CC.Ev.ret tr (cellOfVar v) :: p3 ++ CC.Ev.read tr v :: post) ∧
      (∀ t, CC.Ev.write t v ∈ p1 → t = tw) :=
  CC.racefree prog_guarded r pre post tr v h

/-- non-vacuity: two goroutines validating English from a cold start — goroutine 0 builds the map
(two writes), goroutine 1 finds the cell done and reads; the trace has writes by 0 and a read by 1 -/
example : ∃ s, CC.Reach Gen.Code.Language_mapping_prog s ∧
    s.trace = [.enter 0 3, .write 0 3, .write 0 3, .exit 0 3, .ret 0 3, .ret 1 3, .read 1 3] := by
  have r0 : CC.Reach Gen.Code.Language_mapping_prog CC.init := .init
  have r1 := CC.Reach.step r0 (CC.Step.call CC.init 0 Gen.vEnglish rfl)
  have r2 := CC.Reach.step r1 (CC.Step.call _ 1 Gen.vEnglish rfl)
  have r3 := CC.Reach.step r2 (CC.Step.enter _ 0 3 [.makeMap 3, .fill 3 3] (.retVar 3) rfl rfl)
  have r4 := CC.Reach.step r3 (CC.Step.stmt _ 0 3 (.makeMap 3) [.fill 3 3] (.retVar 3) rfl)
  have r5 := CC.Reach.step r4 (CC.Step.stmt _ 0 3 (.fill 3 3) [] (.retVar 3) rfl)
  have r6 := CC.Reach.step r5 (CC.Step.exit _ 0 3 (.retVar 3) rfl)
  have r7 := CC.Reach.step r6 (CC.Step.observe _ 1 3 [.makeMap 3, .fill 3 3] (.retVar 3) rfl rfl)
  have r8 := CC.Reach.step r7 (CC.Step.retVar _ 1 3 rfl)
  exact ⟨_, r8, rfl⟩

/-- … and a program that returns a variable without `Do` on its cell is *not* guarded: the
discipline is not vacuous (this is the shape of the round-6 change `return englishMapping` at the
fall-through) -/
example : ¬ CC.GuardedAfter cellOfVar (fun _ => False) (.retVar 3) := fun h => h

#print axioms prog_run
#print axioms prog_guarded
#print axioms c12_code_racefree
end Bip39V
