import Bip39V.Lemmas.ConcCodeMem
import Bip39V.Props.Refine.LanguageMapping
/-! # C12 at code level: the interleaving semantics of the *translated* `Language.mapping`

`Gen.Code.Language_mapping_prog` is `Language.mapping` as a deep-embedded program, regenerated from
lang.go on every run together with the shallow translation `Gen.Code.Language_mapping`.

* `prog_run`: the program's sequential meaning *is* the translated function (hence, by
  `refine_Language_mapping`, the abstract state machine of C13);
* `prog_guarded`: the program obeys the guard discipline — every closure statement writes a variable
  guarded by its own `sync.Once` cell, every returned variable is read after `Do` on its cell —
  established by evaluation for each of the ten arms and the fall-through;
* `c12_code_racefree`: therefore, in **every** reachable configuration of the interleaving semantics
  (`Lemmas/ConcCode.lean`: any number of goroutines, any receiver values, repeated calls, any
  schedule), each occurrence of a read of a map variable is preceded by `exit tw o … ret tr o` on
  the variable's cell, and every write to that variable anywhere in the execution lies before that
  exit and was made by the one goroutine `tw`: write →po exit →sync ret →po read.  No data race on
  the lazily built maps, for the code as translated today.

What remains assumed: that `sync.Once` behaves as the semantics says (its documented contract and
the Go memory model's happens-before edge), and that the other exported functions touch the package
state only through `mapping()` (`src_c12_footprint`). -/
namespace Bip39V
open Go Model

/-- the deep-embedded program denotes the translated function -/
theorem prog_run (ℓ : Int) : (Gen.Code.Language_mapping_prog ℓ).run = Gen.Code.Language_mapping ℓ := by
  by_cases h0 : ℓ = Gen.vChineseSimplified; · subst h0; rfl
  by_cases h1 : ℓ = Gen.vChineseTraditional; · subst h1; rfl
  by_cases h2 : ℓ = Gen.vEnglish; · subst h2; rfl
  by_cases h3 : ℓ = Gen.vFrench; · subst h3; rfl
  by_cases h4 : ℓ = Gen.vItalian; · subst h4; rfl
  by_cases h5 : ℓ = Gen.vJapanese; · subst h5; rfl
  by_cases h6 : ℓ = Gen.vSpanish; · subst h6; rfl
  by_cases h7 : ℓ = Gen.vKorean; · subst h7; rfl
  by_cases h8 : ℓ = Gen.vCzech; · subst h8; rfl
  by_cases h9 : ℓ = Gen.vPortuguese; · subst h9; rfl
  unfold Gen.Code.Language_mapping_prog Gen.Code.Language_mapping
  simp only [decide_eq_false h0, decide_eq_false h1, decide_eq_false h2, decide_eq_false h3, decide_eq_false h4,
    decide_eq_false h5, decide_eq_false h6, decide_eq_false h7, decide_eq_false h8, decide_eq_false h9,
    Bool.false_eq_true, if_false]
  rfl

/-- the `sync.Once` cell that guards a map variable, read off the regenerated arms -/
def cellOfVar (v : Nat) : Nat :=
  match Gen.mapArms.find? (fun a => a.wvar == v) with
  | some a => a.cell
  | none => 1000000 + v

theorem guarded_arm (c w t r : Nat) (hw : cellOfVar w = c) (hr : cellOfVar r = c) :
    CC.GuardedAfter cellOfVar (fun _ => False) (.onceDo c [.makeMap w, .fill w t] (.retVar r)) := by
  refine ⟨?_, Or.inl hr⟩
  intro st hst
  simp only [List.mem_cons, List.mem_nil_iff, or_false] at hst
  rcases hst with rfl | rfl <;> exact hw

/-- the regenerated program obeys the guard discipline, for every receiver value -/
theorem prog_guarded (ℓ : Int) : CC.GuardedAfter cellOfVar (fun _ => False) (Gen.Code.Language_mapping_prog ℓ) := by
  by_cases h0 : ℓ = Gen.vChineseSimplified; · subst h0; exact guarded_arm _ _ _ _ rfl rfl
  by_cases h1 : ℓ = Gen.vChineseTraditional; · subst h1; exact guarded_arm _ _ _ _ rfl rfl
  by_cases h2 : ℓ = Gen.vEnglish; · subst h2; exact guarded_arm _ _ _ _ rfl rfl
  by_cases h3 : ℓ = Gen.vFrench; · subst h3; exact guarded_arm _ _ _ _ rfl rfl
  by_cases h4 : ℓ = Gen.vItalian; · subst h4; exact guarded_arm _ _ _ _ rfl rfl
  by_cases h5 : ℓ = Gen.vJapanese; · subst h5; exact guarded_arm _ _ _ _ rfl rfl
  by_cases h6 : ℓ = Gen.vSpanish; · subst h6; exact guarded_arm _ _ _ _ rfl rfl
  by_cases h7 : ℓ = Gen.vKorean; · subst h7; exact guarded_arm _ _ _ _ rfl rfl
  by_cases h8 : ℓ = Gen.vCzech; · subst h8; exact guarded_arm _ _ _ _ rfl rfl
  by_cases h9 : ℓ = Gen.vPortuguese; · subst h9; exact guarded_arm _ _ _ _ rfl rfl
  unfold Gen.Code.Language_mapping_prog
  simp only [decide_eq_false h0, decide_eq_false h1, decide_eq_false h2, decide_eq_false h3, decide_eq_false h4,
    decide_eq_false h5, decide_eq_false h6, decide_eq_false h7, decide_eq_false h8, decide_eq_false h9,
    Bool.false_eq_true, if_false]
  trivial

/-- **C12 (race freedom, code level)** -/
theorem c12_code_racefree {s : CC.Cfg} (r : CC.Reach Gen.Code.Language_mapping_prog s)
    (pre post : List CC.Ev) (tr : CC.Tid) (v : Nat) (h : s.trace = pre ++ CC.Ev.read tr v :: post) :
    ∃ tw p1 p2 p3, pre = p1 ++ CC.Ev.exit tw (cellOfVar v) :: p2 ++ CC.Ev.ret tr (cellOfVar v) :: p3 ∧
      (∀ t st, cellOfVar st.var = cellOfVar v → CC.Ev.write t st ∉ p2 ++ CC.Ev.ret tr (cellOfVar v) :: p3 ++ CC.Ev.read tr v :: post) ∧
      (∀ t st, cellOfVar st.var = cellOfVar v → CC.Ev.write t st ∈ p1 → t = tw) :=
  CC.racefree prog_guarded r pre post tr v h

/-- non-vacuity: two goroutines validating English from a cold start — goroutine 0 builds the map
(two writes), goroutine 1 finds the cell done and reads; the trace has writes by 0 and a read by 1 -/
example : ∃ s, CC.Reach Gen.Code.Language_mapping_prog s ∧
    s.trace = [.enter 0 3, .write 0 (.makeMap 3), .write 0 (.fill 3 3), .exit 0 3, .ret 0 3, .ret 1 3, .read 1 3] := by
  have r0 : CC.Reach Gen.Code.Language_mapping_prog CC.init := .init
  have r1 := CC.Reach.step r0 (CC.Step.call CC.init 0 Gen.vEnglish rfl)
  have r2 := CC.Reach.step r1 (CC.Step.call _ 1 Gen.vEnglish rfl)
  have r3 := CC.Reach.step r2 (CC.Step.enter _ 0 3 [.makeMap 3, .fill 3 3] (.retVar 3) rfl rfl)
  have r4 := CC.Reach.step r3 (CC.Step.stmt _ 0 3 (.makeMap 3) [.fill 3 3] (.retVar 3) rfl)
  have r5 := CC.Reach.step r4 (CC.Step.stmt _ 0 3 (.fill 3 3) [] (.retVar 3) rfl)
  have r6 := CC.Reach.step r5 (CC.Step.exit _ 0 3 (.retVar 3) rfl)
  have r7 := CC.Reach.step r6 (CC.Step.observe _ 1 3 [.makeMap 3, .fill 3 3] (.retVar 3) rfl rfl)
  have r8 := CC.Reach.step r7 (CC.Step.retVar _ 1 3 rfl)
  exact ⟨_, r8, rfl⟩

/-- … and a program that returns a variable without `Do` on its cell is *not* guarded: the
discipline is not vacuous (this is the shape of the round-6 change `return englishMapping` at the
fall-through) -/
example : ¬ CC.GuardedAfter cellOfVar (fun _ => False) (.retVar 3) := fun h => h

/-! ### equals sequential use -/

/-- the closure body of a cell, read off the regenerated arms -/
def bodyOfCell (c : Nat) : List CStmt :=
  match Gen.mapArms.find? (fun a => a.cell == c) with
  | some a => [.makeMap a.wvar, .fill a.wvar a.table]
  | none => []

theorem arms_cell : ∀ a ∈ Gen.mapArms, cellOfVar a.wvar = a.cell := by decide

theorem bodyOfCell_cell (c : Nat) : ∀ st ∈ bodyOfCell c, cellOfVar st.var = c := by
  unfold bodyOfCell
  cases h : Gen.mapArms.find? (fun a => a.cell == c) with
  | none => simp
  | some a =>
    have hm := List.mem_of_find?_eq_some h
    have hc : a.cell = c := by simpa using List.find?_some h
    intro st hst
    simp only [List.mem_cons, List.mem_nil_iff, or_false] at hst
    rcases hst with rfl | rfl <;> (simp only [CStmt.var]; rw [arms_cell a hm, hc])

/-- the regenerated program has the arm shape: nil, or `Do` with *the* body of the cell and then a
variable of that cell -/
theorem prog_armOK : CC.ArmOK cellOfVar bodyOfCell Gen.Code.Language_mapping_prog := by
  refine ⟨?_, bodyOfCell_cell⟩
  intro ℓ
  by_cases h0 : ℓ = Gen.vChineseSimplified; · subst h0; exact Or.inr ⟨_, _, rfl, rfl⟩
  by_cases h1 : ℓ = Gen.vChineseTraditional; · subst h1; exact Or.inr ⟨_, _, rfl, rfl⟩
  by_cases h2 : ℓ = Gen.vEnglish; · subst h2; exact Or.inr ⟨_, _, rfl, rfl⟩
  by_cases h3 : ℓ = Gen.vFrench; · subst h3; exact Or.inr ⟨_, _, rfl, rfl⟩
  by_cases h4 : ℓ = Gen.vItalian; · subst h4; exact Or.inr ⟨_, _, rfl, rfl⟩
  by_cases h5 : ℓ = Gen.vJapanese; · subst h5; exact Or.inr ⟨_, _, rfl, rfl⟩
  by_cases h6 : ℓ = Gen.vSpanish; · subst h6; exact Or.inr ⟨_, _, rfl, rfl⟩
  by_cases h7 : ℓ = Gen.vKorean; · subst h7; exact Or.inr ⟨_, _, rfl, rfl⟩
  by_cases h8 : ℓ = Gen.vCzech; · subst h8; exact Or.inr ⟨_, _, rfl, rfl⟩
  by_cases h9 : ℓ = Gen.vPortuguese; · subst h9; exact Or.inr ⟨_, _, rfl, rfl⟩
  left
  unfold Gen.Code.Language_mapping_prog
  simp only [decide_eq_false h0, decide_eq_false h1, decide_eq_false h2, decide_eq_false h3, decide_eq_false h4,
    decide_eq_false h5, decide_eq_false h6, decide_eq_false h7, decide_eq_false h8, decide_eq_false h9,
    Bool.false_eq_true, if_false]

/-- what one run of an arm's closure leaves in its variable: the map built from the arm's table -/
theorem apply_arm (w t : Nat) : CC.applyAll [.makeMap w, .fill w t] CC.cold w = Go.concMap (some t) := by
  simp [CC.applyAll, CC.applyStmt, CC.cold, upd, Go.makeMap, Go.concMap]

/-- the value a cold *sequential* call of the translated `mapping()` returns -/
def coldResult (ℓ : Int) : MapVal := Go.concMap (Model.mapping PkgState.init ℓ).2

theorem coldResult_spec (ℓ : Int) :
    (Gen.Code.Language_mapping ℓ (Go.conc PkgState.init)).1 = .ok (coldResult ℓ) := by
  rw [refine_Language_mapping]; rfl

/-- **C12 (equals sequential use, code level)**: in every reachable configuration of the
interleaving semantics, at every occurrence of a read of the variable that `mapping()` returns for
receiver value `ℓ`, the shared memory holds there exactly the value a cold sequential call
`Language_mapping ℓ` returns (`coldResult_spec`) — the map built from `ℓ`'s own table. -/
theorem c12_code_sequential {s : CC.Cfg} (r : CC.Reach Gen.Code.Language_mapping_prog s)
    (pre post : List CC.Ev) (tr : CC.Tid) (v : Nat) (h : s.trace = pre ++ CC.Ev.read tr v :: post)
    (ℓ : Int) (hret : ∃ c body, Gen.Code.Language_mapping_prog ℓ = .onceDo c body (.retVar v)) :
    CC.memOf pre v = coldResult ℓ := by
  have hseq := CC.sequential prog_armOK r pre post tr v h
  obtain ⟨c, body, hprog⟩ := hret
  have key : ∀ (a : Gen.MapArm), Gen.Code.Language_mapping_prog a.value =
        .onceDo a.cell [.makeMap a.wvar, .fill a.wvar a.table] (.retVar a.rvar) →
      bodyOfCell (cellOfVar a.rvar) = [.makeMap a.rvar, .fill a.rvar a.table] →
      coldResult a.value = Go.concMap (some a.table) → ℓ = a.value → CC.memOf pre v = coldResult ℓ := by
    intro a hp hb hc hℓ
    subst hℓ
    rw [hp] at hprog
    injection hprog with _ _ e3
    injection e3 with e3
    subst e3
    rw [hseq, hb, apply_arm, hc]
  by_cases h0 : ℓ = Gen.vChineseSimplified; · exact key ⟨0, 0, 0, 0, 0⟩ rfl rfl rfl h0
  by_cases h1 : ℓ = Gen.vChineseTraditional; · exact key ⟨1, 1, 1, 1, 1⟩ rfl rfl rfl h1
  by_cases h2 : ℓ = Gen.vEnglish; · exact key ⟨2, 3, 3, 3, 3⟩ rfl rfl rfl h2
  by_cases h3 : ℓ = Gen.vFrench; · exact key ⟨3, 4, 4, 4, 4⟩ rfl rfl rfl h3
  by_cases h4 : ℓ = Gen.vItalian; · exact key ⟨4, 5, 5, 5, 5⟩ rfl rfl rfl h4
  by_cases h5 : ℓ = Gen.vJapanese; · exact key ⟨5, 6, 6, 6, 6⟩ rfl rfl rfl h5
  by_cases h6 : ℓ = Gen.vSpanish; · exact key ⟨7, 9, 9, 9, 9⟩ rfl rfl rfl h6
  by_cases h7 : ℓ = Gen.vKorean; · exact key ⟨6, 7, 7, 7, 7⟩ rfl rfl rfl h7
  by_cases h8 : ℓ = Gen.vCzech; · exact key ⟨8, 2, 2, 2, 2⟩ rfl rfl rfl h8
  by_cases h9 : ℓ = Gen.vPortuguese; · exact key ⟨9, 8, 8, 8, 8⟩ rfl rfl rfl h9
  -- any other receiver value returns nil: it has no returned variable
  exfalso
  rcases prog_armOK.shape ℓ with hn | ⟨c', r', hp', _⟩
  · rw [hn] at hprog; cases hprog
  · unfold Gen.Code.Language_mapping_prog at hp'
    simp only [decide_eq_false h0, decide_eq_false h1, decide_eq_false h2, decide_eq_false h3, decide_eq_false h4,
      decide_eq_false h5, decide_eq_false h6, decide_eq_false h7, decide_eq_false h8, decide_eq_false h9,
      Bool.false_eq_true, if_false] at hp'
    cases hp'

/-- the memory transformer of the interleaving semantics is the meaning `Model/GoMap.lean` gives the
statement (`CStmt.run`), whenever the statement does not panic (a `fill` needs a non-nil map) -/
theorem applyStmt_run (st : CStmt) (o : Nat → Bool) (m : Nat → MapVal) (h : ∀ v t, st = .fill v t → m v ≠ none) :
    st.run ⟨o, m⟩ = (.ok (), ⟨o, CC.applyStmt st m⟩) := by
  cases st with
  | makeMap v => rfl
  | fill v t =>
    have hv := h v t rfl
    cases hm : m v with
    | none => exact absurd hm hv
    | some l =>
      simp only [CStmt.run, forRangeC, CC.applyStmt, hm]
      rw [loop_assign v (words t) 0 ⟨o, m⟩ l hm]

#print axioms applyStmt_run
#print axioms prog_armOK
#print axioms c12_code_sequential
#print axioms prog_run
#print axioms prog_guarded
#print axioms c12_code_racefree
end Bip39V
