import Bip39V.Lemmas.Nfkd
/-! The normaliser `norm.NFKD.String` of golang.org/x/text as a parameter with two recorded
facts.  x/text produces *stream-safe* text: it agrees with UAX #15 NFKD exactly when the NFKD
form has no run of more than 30 "K-items" (non-zero combining class, or one of the 72 starters
x/text treats as combining backwards); otherwise it inserts U+034F wherever its counter of pending
non-starters would pass 30.  Because a single rune can contribute up to three leading K-items, the
insertion can come after as few as 28 of them (`a` + 29×U+0301 + U+0344 gives 29, U+034F, 2 —
observed on x/text; an earlier version of this file claimed 30, which is false for that input), so
what is recorded is a run of **28** consecutive K-items in the output.

Both facts are *theorems* about the executable model `Unicode.xnfkd` of x/text's algorithm
(`Lemmas/XText.lean`, instance `xtext` in `Props/XText.lean`); the model is compared with the real
`norm.NFKD.String` by the harness (op `xnfkd`).  The structure is kept so that the property theorems
say exactly which two facts about the normaliser they use. -/
namespace Bip39V
open Unicode

structure Normaliser where
  X : Str → Str
  agrees : ∀ s, streamSafe s = true → X s = nfkd s
  overflow : ∀ s, streamSafe s = false → ∃ a r b, X s = a ++ r ++ b ∧ r.length = 28 ∧ ∀ c ∈ r, kItem c = true

/-- stream-safety depends only on the NFKD form -/
theorem streamSafe_congr (a b : Str) (h : nfkd a = nfkd b) : streamSafe a = streamSafe b := by
  unfold streamSafe; rw [h]


/-- the two assumptions are consistent: here is a normaliser satisfying both (UAX #15 NFKD on the
stream-safe class, twenty-eight combining acute accents elsewhere), so no theorem about a `Normaliser` is
vacuous -/
def exampleNormaliser : Normaliser where
  X s := if streamSafe s = true then nfkd s else List.replicate 28 0x301
  agrees s h := by simp [h]
  overflow s h := by
    refine ⟨[], List.replicate 28 0x301, [], by simp [h], by simp, ?_⟩
    intro c hc
    have : c = 0x301 := List.eq_of_mem_replicate hc
    subst this
    decide +kernel

end Bip39V
