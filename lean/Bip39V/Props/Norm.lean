import Bip39V.Lemmas.Nfkd
/-! The normaliser `norm.NFKD.String` of golang.org/x/text as a parameter with two recorded
assumptions.  x/text produces *stream-safe* text: it agrees with UAX #15 NFKD exactly when the NFKD
form has no run of more than 30 "K-items" (non-zero combining class, or one of the 72 starters
x/text treats as combining backwards); otherwise it inserts U+034F after 30 of them, so its output
contains 30 consecutive K-items.  Both assumptions are exercised by the harness (all scalar values,
random sequences, the 25…35 boundary). -/
namespace Bip39V
open Unicode

structure Normaliser where
  X : Str → Str
  agrees : ∀ s, streamSafe s = true → X s = nfkd s
  overflow : ∀ s, streamSafe s = false → ∃ a r b, X s = a ++ r ++ b ∧ r.length = 30 ∧ ∀ c ∈ r, kItem c = true

/-- stream-safety depends only on the NFKD form -/
theorem streamSafe_congr (a b : Str) (h : nfkd a = nfkd b) : streamSafe a = streamSafe b := by
  unfold streamSafe; rw [h]


/-- the two assumptions are consistent: here is a normaliser satisfying both (UAX #15 NFKD on the
stream-safe class, thirty combining acute accents elsewhere), so no theorem about a `Normaliser` is
vacuous -/
def exampleNormaliser : Normaliser where
  X s := if streamSafe s = true then nfkd s else List.replicate 30 0x301
  agrees s h := by simp [h]
  overflow s h := by
    refine ⟨[], List.replicate 30 0x301, [], by simp [h], by simp, ?_⟩
    intro c hc
    have : c = 0x301 := List.eq_of_mem_replicate hc
    subst this
    decide +kernel

end Bip39V
