import Bip39V.Props.C04
import Bip39V.Lemmas.NfkdIdem
import Bip39V.Props.C02
/-! # C11 — the seed is invariant under Unicode-equivalent spellings -/
namespace Bip39V
open Model Spec Unicode

/-- the specification's seed depends on its arguments only through their NFKD forms -/
theorem seed_congr (PB : Bytes → Bytes → Nat → Nat → Bytes) (m₁ m₂ p₁ p₂ : Str)
    (hm : nfkd m₁ = nfkd m₂) (hp : nfkd p₁ = nfkd p₂) : Spec.seed PB m₁ p₁ = Spec.seed PB m₂ p₂ := by
  unfold Spec.seed; rw [hm, hp]

/-- stream-safety of the salt depends only on the NFKD form of the passphrase -/
theorem salt_streamSafe_congr (p₁ p₂ : Str) (hp : nfkd p₁ = nfkd p₂) :
    streamSafe ([109, 110, 101, 109, 111, 110, 105, 99] ++ p₁) = streamSafe ([109, 110, 101, 109, 111, 110, 105, 99] ++ p₂) := by
  apply streamSafe_congr; rw [nfkd_salt, nfkd_salt, hp]

/-- **C11 (partial: the stream-safe class)**: two (mnemonic, passphrase) pairs whose components
have equal NFKD forms give the same seed.  Equality of the *passphrase* forms suffices although
the source normalises `"mnemonic" + passphrase`. -/
theorem c11_partial (N : Normaliser) (PB : Bytes → Bytes → Nat → Nat → Bytes) (m₁ m₂ p₁ p₂ : Str)
    (hm : nfkd m₁ = nfkd m₂) (hp : nfkd p₁ = nfkd p₂)
    (hs₁ : streamSafe m₁ = true) (hs₂ : streamSafe ([109, 110, 101, 109, 111, 110, 105, 99] ++ p₁) = true) :
    mnemonicToSeed N.X PB m₁ p₁ = mnemonicToSeed N.X PB m₂ p₂ := by
  rw [c04_seed_streamSafe N PB m₁ p₁ hs₁ hs₂,
    c04_seed_streamSafe N PB m₂ p₂ (by rw [← streamSafe_congr m₁ m₂ hm]; exact hs₁)
      (by rw [← salt_streamSafe_congr p₁ p₂ hp]; exact hs₂)]
  exact seed_congr PB _ _ _ _ hm hp

/-- a sentence of list words joined by U+3000 and the same words joined by U+0020 have the same
NFKD form (hence the same seed) -/
theorem c11_separator (L : Lang) (ws : List Str) (hin : ∀ w ∈ ws, w ∈ L.words) :
    nfkd (joinWith [0x3000] ws) = nfkd (joinWith [0x20] ws) := by
  have hst : ∀ w ∈ ws, nfkd w = w := fun w hw => words_nfkd_stable L w (hin w hw)
  rw [nfkd_joinWith 0x3000 (Or.inr rfl) ws hst, nfkd_joinWith 0x20 (Or.inl rfl) ws hst]

/-- the full statement fails for x/text on the D4 pair: the two passphrases `a + 31×U+0301 + U+0316`
and `a + U+0316 + 31×U+0301` are canonically equivalent (equal NFKD forms) but not stream-safe -/
theorem c11_full_witness :
    nfkd (97 :: (List.replicate 31 0x301 ++ [0x316])) = nfkd (97 :: 0x316 :: List.replicate 31 0x301) ∧
    streamSafe (97 :: (List.replicate 31 0x301 ++ [0x316])) = false := by decide +kernel

/-- a mnemonic and passphrase typed fully decomposed (NFKD) give the seed of the original spelling -/
theorem c11_nfkd_spelling (N : Normaliser) (PB : Bytes → Bytes → Nat → Nat → Bytes) (m p : Str)
    (hs₁ : streamSafe m = true) (hs₂ : streamSafe ([109, 110, 101, 109, 111, 110, 105, 99] ++ p) = true) :
    mnemonicToSeed N.X PB (nfkd m) (nfkd p) = mnemonicToSeed N.X PB m p :=
  (c11_partial N PB m (nfkd m) p (nfkd p) (nfkd_idempotent m).symm (nfkd_idempotent p).symm hs₁ hs₂).symm

#print axioms c11_nfkd_spelling
#print axioms c11_partial
#print axioms c11_separator
#print axioms c11_full_witness
end Bip39V
