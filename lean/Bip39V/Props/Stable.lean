import Bip39V.Props.Tab.ChineseSimplifiedCanon
import Bip39V.Props.Tab.ChineseTraditionalCanon
import Bip39V.Props.Tab.CzechCanon
import Bip39V.Props.Tab.EnglishCanon
import Bip39V.Props.Tab.FrenchCanon
import Bip39V.Props.Tab.ItalianCanon
import Bip39V.Props.Tab.JapaneseCanon
import Bip39V.Props.Tab.KoreanCanon
import Bip39V.Props.Tab.PortugueseCanon
import Bip39V.Props.Tab.SpanishCanon
import Bip39V.Lemmas.Nfkd
import Bip39V.Spec.Lang
/-! Every word of every canonical list is unchanged by NFKD (kernel evaluation of all 20 480 words
against the pinned Unicode 15 tables, lifted by `nfkd_of_stableWord`). -/
namespace Bip39V
open Spec Unicode

theorem canon_stable (L : Lang) : (L.canon.toList.all fun n => stableWord (unpack n)) = true := by
  cases L
  · exact Tab.ChineseSimplified.canon_stable
  · exact Tab.ChineseTraditional.canon_stable
  · exact Tab.English.canon_stable
  · exact Tab.French.canon_stable
  · exact Tab.Italian.canon_stable
  · exact Tab.Japanese.canon_stable
  · exact Tab.Korean.canon_stable
  · exact Tab.Spanish.canon_stable
  · exact Tab.Czech.canon_stable
  · exact Tab.Portuguese.canon_stable

theorem words_nfkd_stable (L : Lang) : ∀ w ∈ L.words, nfkd w = w := by
  intro w hw
  have hc : L.words = L.canon.toList.map unpack := by cases L <;> rfl
  rw [hc] at hw
  obtain ⟨n, hn, rfl⟩ := List.mem_map.mp hw
  have := canon_stable L
  rw [List.all_eq_true] at this
  exact nfkd_of_stableWord _ (this n hn)

end Bip39V
