import Bip39V.Lemmas.TableFacts
import Bip39V.Gen.Words.Portuguese
import Bip39V.Canonical.Portuguese
/-! Kernel evaluation of the complete regenerated Portuguese table. -/
namespace Bip39V.Tab.Portuguese
theorem gen_eq_canon : Gen.Words.Portuguese.toList = Canonical.Portuguese.toList := by decide +kernel
theorem gen_ok : tableOk Gen.Words.PortugueseTree Gen.Words.Portuguese.toList = true := by decide +kernel
end Bip39V.Tab.Portuguese
