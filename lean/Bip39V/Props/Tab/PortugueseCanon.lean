import Bip39V.Lemmas.TableFacts
import Bip39V.Canonical.Portuguese
/-! Kernel evaluation of NFKD stability over the complete pinned Portuguese list (pinned inputs only:
checked once and cached). -/
namespace Bip39V.Tab.Portuguese
theorem canon_stable : (Canonical.Portuguese.toList.all fun n => stableWord (unpack n)) = true := by decide +kernel
end Bip39V.Tab.Portuguese
