import Bip39V.Lemmas.TableFacts
import Bip39V.Basic.SafeItem
import Bip39V.Canonical.English
/-! Kernel evaluation of NFKD stability over the complete pinned English list (pinned inputs only:
checked once and cached). -/
namespace Bip39V.Tab.English
theorem canon_stable : (Canonical.English.toList.all fun n => stableWord (unpack n)) = true := by decide +kernel
/-- no word of the pinned list contains a character the generator tool would escape (C17) -/
theorem canon_safe : (Canonical.English.toList.all fun n => (unpack n).all safeItem) = true := by decide +kernel
end Bip39V.Tab.English
