import Bip39V.Lemmas.TableFacts
import Bip39V.Gen.Words.Spanish
import Bip39V.Canonical.Spanish
/-! Kernel evaluation of the complete regenerated Spanish table. -/
namespace Bip39V.Tab.Spanish
theorem gen_eq_canon : Gen.Words.Spanish.toList = Canonical.Spanish.toList := by decide +kernel
theorem gen_ok : tableOk Gen.Words.SpanishTree Gen.Words.Spanish.toList = true := by decide +kernel
end Bip39V.Tab.Spanish
