import Bip39V.Lemmas.TableFacts
import Bip39V.Gen.Words.Italian
import Bip39V.Canonical.Italian
/-! Kernel evaluation of the complete regenerated Italian table. -/
namespace Bip39V.Tab.Italian
theorem gen_eq_canon : Gen.Words.Italian.toList = Canonical.Italian.toList := by decide +kernel
theorem gen_ok : tableOk Gen.Words.ItalianTree Gen.Words.Italian.toList = true := by decide +kernel
end Bip39V.Tab.Italian
