import Bip39V.Lemmas.TableFacts
import Bip39V.Canonical.ChineseTraditional
/-! Kernel evaluation of NFKD stability over the complete pinned ChineseTraditional list (pinned inputs only:
checked once and cached). -/
namespace Bip39V.Tab.ChineseTraditional
theorem canon_stable : (Canonical.ChineseTraditional.toList.all fun n => stableWord (unpack n)) = true := by decide +kernel
end Bip39V.Tab.ChineseTraditional
