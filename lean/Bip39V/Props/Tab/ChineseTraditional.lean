import Bip39V.Lemmas.TableFacts
import Bip39V.Gen.Words.ChineseTraditional
import Bip39V.Canonical.ChineseTraditional
/-! Kernel evaluation of the complete regenerated ChineseTraditional table. -/
namespace Bip39V.Tab.ChineseTraditional
theorem gen_eq_canon : Gen.Words.ChineseTraditional.toList = Canonical.ChineseTraditional.toList := by decide +kernel
theorem gen_ok : tableOk Gen.Words.ChineseTraditionalTree Gen.Words.ChineseTraditional.toList = true := by decide +kernel
end Bip39V.Tab.ChineseTraditional
