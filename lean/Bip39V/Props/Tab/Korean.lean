import Bip39V.Lemmas.TableFacts
import Bip39V.Gen.Words.Korean
import Bip39V.Canonical.Korean
/-! Kernel evaluation of the complete regenerated Korean table. -/
namespace Bip39V.Tab.Korean
theorem gen_eq_canon : Gen.Words.Korean.toList = Canonical.Korean.toList := by decide +kernel
theorem gen_ok : tableOk Gen.Words.KoreanTree Gen.Words.Korean.toList = true := by decide +kernel
end Bip39V.Tab.Korean
