import Bip39V.Lemmas.TableFacts
import Bip39V.Canonical.Spanish
/-! Kernel evaluation of NFKD stability over the complete pinned Spanish list (pinned inputs only:
checked once and cached). -/
namespace Bip39V.Tab.Spanish
theorem canon_stable : (Canonical.Spanish.toList.all fun n => stableWord (unpack n)) = true := by decide +kernel
end Bip39V.Tab.Spanish
