import Bip39V.Lemmas.TableFacts
import Bip39V.Canonical.Korean
/-! Kernel evaluation of NFKD stability over the complete pinned Korean list (pinned inputs only:
checked once and cached). -/
namespace Bip39V.Tab.Korean
theorem canon_stable : (Canonical.Korean.toList.all fun n => stableWord (unpack n)) = true := by decide +kernel
end Bip39V.Tab.Korean
