import Bip39V.Lemmas.TableFacts
import Bip39V.Gen.Words.English
import Bip39V.Canonical.English
/-! Kernel evaluation of the complete regenerated English table. -/
namespace Bip39V.Tab.English
theorem gen_eq_canon : Gen.Words.English.toList = Canonical.English.toList := by decide +kernel
theorem gen_ok : tableOk Gen.Words.EnglishTree Gen.Words.English.toList = true := by decide +kernel
end Bip39V.Tab.English
