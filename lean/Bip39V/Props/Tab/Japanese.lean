import Bip39V.Lemmas.TableFacts
import Bip39V.Gen.Words.Japanese
import Bip39V.Canonical.Japanese
/-! Kernel evaluation of the complete regenerated Japanese table. -/
namespace Bip39V.Tab.Japanese
theorem gen_eq_canon : Gen.Words.Japanese.toList = Canonical.Japanese.toList := by decide +kernel
theorem gen_ok : tableOk Gen.Words.JapaneseTree Gen.Words.Japanese.toList = true := by decide +kernel
end Bip39V.Tab.Japanese
