import Bip39V.Lemmas.TableFacts
import Bip39V.Gen.Words.Czech
import Bip39V.Canonical.Czech
/-! Kernel evaluation of the complete regenerated Czech table. -/
namespace Bip39V.Tab.Czech
theorem gen_eq_canon : Gen.Words.Czech.toList = Canonical.Czech.toList := by decide +kernel
theorem gen_ok : tableOk Gen.Words.CzechTree Gen.Words.Czech.toList = true := by decide +kernel
end Bip39V.Tab.Czech
