import Bip39V.Lemmas.TableFacts
import Bip39V.Gen.Words.French
import Bip39V.Canonical.French
/-! Kernel evaluation of the complete regenerated French table. -/
namespace Bip39V.Tab.French
theorem gen_eq_canon : Gen.Words.French.toList = Canonical.French.toList := by decide +kernel
theorem gen_ok : tableOk Gen.Words.FrenchTree Gen.Words.French.toList = true := by decide +kernel
end Bip39V.Tab.French
