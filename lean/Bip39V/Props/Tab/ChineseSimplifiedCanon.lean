import Bip39V.Lemmas.TableFacts
import Bip39V.Canonical.ChineseSimplified
/-! Kernel evaluation of NFKD stability over the complete pinned ChineseSimplified list (pinned inputs only:
checked once and cached). -/
namespace Bip39V.Tab.ChineseSimplified
theorem canon_stable : (Canonical.ChineseSimplified.toList.all fun n => stableWord (unpack n)) = true := by decide +kernel
end Bip39V.Tab.ChineseSimplified
