import Bip39V.Lemmas.TableFacts
import Bip39V.Gen.Words.ChineseSimplified
import Bip39V.Canonical.ChineseSimplified
/-! Kernel evaluation of the complete regenerated ChineseSimplified table. -/
namespace Bip39V.Tab.ChineseSimplified
theorem gen_eq_canon : Gen.Words.ChineseSimplified.toList = Canonical.ChineseSimplified.toList := by decide +kernel
theorem gen_ok : tableOk Gen.Words.ChineseSimplifiedTree Gen.Words.ChineseSimplified.toList = true := by decide +kernel
end Bip39V.Tab.ChineseSimplified
