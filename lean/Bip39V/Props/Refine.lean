import Bip39V.Props.Refine.FromEntropy
import Bip39V.Props.Refine.NewMnemonicByEntropy
import Bip39V.Props.Refine.NewMnemonic
import Bip39V.Props.Refine.CheckMnemonic
import Bip39V.Props.Refine.IsMnemonicValid
import Bip39V.Props.Refine.MnemonicToSeed
import Bip39V.Props.Refine.LanguageString
import Bip39V.Model.Api
/-! Refinement of the whole package: one step of the state machine run on the code regenerated
from the source (`Gen/Code/*.lean`) is one step of the hand-written model (`Model.step`), for every
state and every call; hence every history.  Every property theorem about `Model.step`/`Model.run`
(C12, C13, C14) therefore holds of the translated source. -/
namespace Bip39V
open Model Go

def worldOf (E : Env) : World := { X := E.X, D := E.D, PB := E.PB }

/-- run a translated function from the package state `s`, with `script` as the behaviour of the
randomness source during the call -/
def runCode {α} (s : State) (script : Script) (f : M α) : Res α × State × Nat :=
  let r := f { pkg := s.pkg, script := script, reads := 0 }
  (r.1, { s with pkg := r.2.pkg }, r.2.reads)

/-- the package as a state machine, over the regenerated code -/
def Code.step (E : Env) (s : State) : Op → State × Out
  | .newByEntropy e ℓ => let r := runCode s [] (Gen.Code.NewMnemonicByEntropy (worldOf E) e ℓ); (r.2.1, .str r.1)
  | .newMnemonic n ℓ script => let r := runCode s script (Gen.Code.NewMnemonic (worldOf E) n ℓ); (r.2.1, .strReads r.1 r.2.2)
  | .check str ℓ => let r := runCode s [] (Gen.Code.CheckMnemonic (worldOf E) str ℓ); (r.2.1, .unit r.1)
  | .isValid str ℓ => let r := runCode s [] (Gen.Code.IsMnemonicValid (worldOf E) str ℓ); (r.2.1, .bool r.1)
  | .seed m p =>
    let r := runCode s [] (Gen.Code.MnemonicToSeed (worldOf E) m p)
    (r.2.1, match r.1 with | .ok b => .bytes b | _ => .bytes [])
  | .langString i => let r := runCode s [] (Gen.Code.Language_String (worldOf E) i); (r.2.1, .str r.1)
  | .swapSource id => ({ s with source := id }, .source s.source)

def Code.run (E : Env) (s : State) : List Op → State
  | [] => s
  | op :: ops => Code.run E (Code.step E s op).1 ops

/-- the integer arguments of a call are Go integers (only `Language.String`'s receiver needs it:
every other function is proved equal to the model for unbounded integers) -/
def Model.Op.inRange : Op → Prop
  | .langString i => isInt64 i
  | _ => True

/-- one call on the translated source = one step of the model -/
theorem refine_step (E : Env) (s : State) (op : Op) (hop : op.inRange) : Code.step E s op = Model.step E s op := by
  cases op with
  | newByEntropy e ℓ =>
    simp only [Code.step, runCode, refine_NewMnemonicByEntropy, Model.step]; rfl
  | newMnemonic n ℓ script =>
    simp only [Code.step, runCode, refine_NewMnemonic, Model.step, St.afterReads, Nat.zero_add]; rfl
  | check str ℓ =>
    simp only [Code.step, runCode, refine_CheckMnemonic, Model.step]; rfl
  | isValid str ℓ =>
    simp only [Code.step, runCode, refine_IsMnemonicValid, Model.step]; rfl
  | seed m p =>
    simp only [Code.step, runCode, refine_MnemonicToSeed, Model.step]; rfl
  | langString i =>
    simp only [Code.step, runCode, refine_Language_String _ i _ hop, Model.step]
  | swapSource id => rfl

/-- every history -/
theorem refine_run (E : Env) (s : State) (ops : List Op) (hops : ∀ op ∈ ops, op.inRange) :
    Code.run E s ops = Model.run E s ops := by
  induction ops generalizing s with
  | nil => rfl
  | cons op ops ih =>
    simp only [Code.run, Model.run, refine_step E s op (hops op List.mem_cons_self)]
    exact ih _ (fun o ho => hops o (List.mem_cons_of_mem _ ho))

end Bip39V
