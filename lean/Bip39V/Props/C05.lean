import Bip39V.Props.C02
/-! # C05 — the mnemonic is a lossless encoding of the entropy -/
namespace Bip39V
open Model Spec Unicode

/-- **C05**: the standard decoding (split on the separator, word → index by plain search in the
canonical list, concatenate the 11-bit groups, drop the checksum bits) of the sentence gives back
exactly the entropy bytes. -/
theorem c05_decode_sentence (D : Bytes → Bytes) (hD : ∀ x, (D x).length = 32) (L : Lang) (e : Bytes) (hv : ValidEntLen e.length) :
    Spec.decode L (Spec.sentence D L e) = some e := by
  obtain ⟨m, hlen, hm, hm4⟩ : ∃ m, e.length = 4 * m ∧ m ≤ 8 ∧ 4 ≤ m := by
    rcases hv with h | h | h | h | h <;> exact ⟨e.length / 4, by omega, by omega, by omega⟩
  have hil := spec_indices_length D e m hlen hm (hD e)
  have hilt := spec_indices_lt D e m hlen hm (hD e)
  have hin : ∀ w ∈ (Spec.indices D e).map L.word, w ∈ L.words := by
    intro w hw
    obtain ⟨i, hi, rfl⟩ := List.mem_map.mp hw
    exact word_mem L i (hilt i hi)
  have hne : (Spec.indices D e).map L.word ≠ [] := by
    intro h; have := congrArg List.length h; simp [hil] at this; omega
  unfold Spec.decode Spec.sentence
  rw [split_join L.sep _ hne (fun w hw => sep_not_mem_word L w (hin w hw))]
  simp only [mapM_idxOf_words L _ hilt, List.length_map, hil]
  have hcs : e.length / 4 = m := by omega
  have hbD : (bits (D e)).length = 256 := by rw [bits_length, hD]
  have htk : ((bits (D e)).take m).length = m := by rw [List.length_take, hbD]; omega
  have hall : (bits e ++ (bits (D e)).take m).length = 11 * (m * 3) := by
    rw [List.length_append, bits_length, htk, hlen]; omega
  have hexp : (Spec.indices D e).flatMap bits11 = bits e ++ (bits (D e)).take m := by
    unfold Spec.indices
    simp only [hcs]
    rw [hall, Nat.mul_div_cancel_left _ (by decide : 0 < 11)]
    exact Spec.flatMap_bits11_chunks (m * 3) _ hall
  have hk : m * 3 * 11 - m * 3 * 11 / 33 = (bits e).length := by rw [bits_length, hlen]; omega
  rw [hexp, hk, List.take_left' rfl, packBytes_bits]

/-- the same for what `NewMnemonicByEntropy` returns -/
theorem c05_decode (D : Bytes → Bytes) (hD : ∀ x, (D x).length = 32) (L : Lang) (e : Bytes) (hv : ValidEntLen e.length) :
    ∃ s, newMnemonicByEntropy D e L.value = .ok s ∧ Spec.decode L s = some e :=
  ⟨_, c01_encode D hD L e hv, c05_decode_sentence D hD L e hv⟩

/-- distinct entropies (of equal or different legal sizes) never share a mnemonic -/
theorem c05_injective (D : Bytes → Bytes) (hD : ∀ x, (D x).length = 32) (L : Lang) (e₁ e₂ : Bytes)
    (h₁ : ValidEntLen e₁.length) (h₂ : ValidEntLen e₂.length)
    (h : newMnemonicByEntropy D e₁ L.value = newMnemonicByEntropy D e₂ L.value) : e₁ = e₂ := by
  rw [c01_encode D hD L e₁ h₁, c01_encode D hD L e₂ h₂] at h
  injection h with h
  have d₁ := c05_decode_sentence D hD L e₁ h₁
  rw [h, c05_decode_sentence D hD L e₂ h₂] at d₁
  injection d₁ with d₁; exact d₁.symm

/-- no entropy bit is ignored: changing the entropy (e.g. flipping any single bit) changes the mnemonic -/
theorem c05_bitflip (D : Bytes → Bytes) (hD : ∀ x, (D x).length = 32) (L : Lang) (e₁ e₂ : Bytes)
    (h₁ : ValidEntLen e₁.length) (h₂ : ValidEntLen e₂.length) (hne : e₁ ≠ e₂) :
    newMnemonicByEntropy D e₁ L.value ≠ newMnemonicByEntropy D e₂ L.value :=
  fun h => hne (c05_injective D hD L e₁ e₂ h₁ h₂ h)

#print axioms c05_decode
#print axioms c05_injective
#print axioms c05_bitflip
end Bip39V
