import Bip39V.Model.Api
/-! # C13 — results depend only on the arguments: no history dependence

The retained state of the package is the once cells and the map variables of `mapping()`
(`Gen.mapArms`, regenerated).  Under the pairing condition `wellGuarded` — re-checked on the
regenerated arms on every run — every call returns what it returns from a fresh process.
(That the entropy slice is not modified and earlier results are not altered is aliasing, outside a
value-semantics model: covered by the extractor's skeletons and by the harness.) -/
namespace Bip39V
open Model

/-- the regenerated arms are consistently paired -/
theorem c13_wellguarded : wellGuarded Gen.mapArms = true := by decide

/-- once a cell has fired, the variable of every arm using that cell holds that arm's table -/
def PkgInv (arms : List Gen.MapArm) (p : PkgState) : Prop :=
  ∀ a ∈ arms, p.onceDone a.cell = true → p.mapVar a.wvar = some a.table

theorem pkgInv_init (arms : List Gen.MapArm) : PkgInv arms .init := by
  intro a _ h; simp [PkgState.init] at h

theorem findArm_mem (arms : List Gen.MapArm) (ℓ : Int) (a : Gen.MapArm) (h : findArm arms ℓ = some a) : a ∈ arms := by
  induction arms with
  | nil => simp [findArm] at h
  | cons b r ih =>
    simp only [findArm] at h
    split at h
    · injection h with h; subst h; exact List.mem_cons_self
    · exact List.mem_cons_of_mem _ (ih h)

theorem wg_rw {arms : List Gen.MapArm} (wg : wellGuarded arms = true) (a : Gen.MapArm) (ha : a ∈ arms) : a.wvar = a.rvar := by
  simp only [wellGuarded, Bool.and_eq_true, List.all_eq_true, beq_iff_eq] at wg
  exact wg.1 a ha

theorem wg_cell {arms : List Gen.MapArm} (wg : wellGuarded arms = true) (a b : Gen.MapArm) (ha : a ∈ arms) (hb : b ∈ arms)
    (h : a.cell = b.cell) : a.wvar = b.wvar ∧ a.table = b.table := by
  simp only [wellGuarded, Bool.and_eq_true, List.all_eq_true, beq_iff_eq, Bool.or_eq_true, bne_iff_ne, ne_eq] at wg
  rcases (wg.2 a ha b hb).1 with h1 | h1
  · exact absurd h h1
  · exact h1

theorem wg_var {arms : List Gen.MapArm} (wg : wellGuarded arms = true) (a b : Gen.MapArm) (ha : a ∈ arms) (hb : b ∈ arms)
    (h : a.wvar = b.wvar) : a.cell = b.cell ∧ a.table = b.table := by
  simp only [wellGuarded, Bool.and_eq_true, List.all_eq_true, beq_iff_eq, Bool.or_eq_true, bne_iff_ne, ne_eq] at wg
  rcases (wg.2 a ha b hb).2 with h1 | h1
  · exact absurd h h1
  · exact h1

/-- one call of `mapping()`: same result as from a fresh process, and the invariant is kept -/
theorem mapping_step (arms : List Gen.MapArm) (wg : wellGuarded arms = true) (p : PkgState) (inv : PkgInv arms p) (ℓ : Int) :
    (mappingArms arms p ℓ).2 = (mappingArms arms .init ℓ).2 ∧ PkgInv arms (mappingArms arms p ℓ).1 := by
  unfold mappingArms
  cases hf : findArm arms ℓ with
  | none => exact ⟨rfl, inv⟩
  | some a =>
    have ha := findArm_mem arms ℓ a hf
    have hrw := wg_rw wg a ha
    have hinit : ((if PkgState.init.onceDone a.cell = true then PkgState.init
        else { onceDone := upd PkgState.init.onceDone a.cell true, mapVar := upd PkgState.init.mapVar a.wvar (some a.table) }).mapVar a.rvar)
        = some a.table := by
      simp [PkgState.init, upd, hrw]
    by_cases hd : p.onceDone a.cell = true
    · simp only [hd, if_true]
      refine ⟨?_, inv⟩
      rw [hinit, ← hrw]; exact inv a ha hd
    · simp only [hd, Bool.false_eq_true, if_false]
      refine ⟨?_, ?_⟩
      · rw [hinit]; simp [upd, hrw]
      · intro b hb hdone
        simp only [upd] at hdone ⊢
        by_cases hc : b.cell = a.cell
        · obtain ⟨h1, h2⟩ := wg_cell wg b a hb ha hc
          simp [h1, h2]
        · simp only [hc, if_false] at hdone
          have hv : b.wvar ≠ a.wvar := fun h => hc (wg_var wg b a hb ha h).1
          simp only [hv, if_false]
          exact inv b hb hdone

/-- every reachable package state satisfies the invariant -/
theorem c13_inv (E : Env) (ops : List Op) : PkgInv Gen.mapArms (run E .init ops).pkg := by
  suffices h : ∀ s : State, PkgInv Gen.mapArms s.pkg → PkgInv Gen.mapArms (run E s ops).pkg from
    h .init (pkgInv_init _)
  induction ops with
  | nil => intro s h; exact h
  | cons op rest ih =>
    intro s h
    apply ih
    cases op with
    | check str ℓ =>
      simp only [step, checkMnemonicSt]
      split
      · exact h
      · exact (mapping_step Gen.mapArms c13_wellguarded s.pkg h ℓ).2
    | isValid str ℓ =>
      simp only [step, checkMnemonicSt]
      split
      · exact h
      · exact (mapping_step Gen.mapArms c13_wellguarded s.pkg h ℓ).2
    | _ => exact h

/-- `CheckMnemonic` answers the same from any reachable package state as from a fresh one -/
theorem check_result_history_free (X : Str → Str) (D : Bytes → Bytes) (p : PkgState) (inv : PkgInv Gen.mapArms p) (str : Str) (ℓ : Int) :
    (checkMnemonicSt X D p str ℓ).2 = (checkMnemonicSt X D .init str ℓ).2 := by
  unfold checkMnemonicSt
  by_cases hg : wcGate ((splitOn splitItem (X str)).length : Int) = true
  · simp [hg]
  · simp only [hg, Bool.false_eq_true, if_false]
    have := (mapping_step Gen.mapArms c13_wellguarded p inv ℓ).1
    simp only [mapping]
    rw [this]

/-- **C13**: after *any* finite history of calls (all languages, unsupported values, failing
calls, source swaps included), every exported call returns exactly what it returns as the first
call of a fresh process. -/
theorem c13_history_free (E : Env) (ops : List Op) (op : Op) (hop : op.isSwap = false) :
    (step E (run E .init ops) op).2 = (step E .init op).2 := by
  have inv := c13_inv E ops
  generalize run E State.init ops = s at inv
  cases op with
  | swapSource id => cases hop
  | check str ℓ =>
    simp only [step]
    rw [check_result_history_free E.X E.D s.pkg inv str ℓ]; rfl
  | isValid str ℓ =>
    simp only [step]
    rw [check_result_history_free E.X E.D s.pkg inv str ℓ]; rfl
  | _ => rfl

/-- with a mis-paired guard (language B's arm guarded by language A's cell) the statement is
false: the concrete history `[check A; check B]` differs from `check B` alone -/
example :
    let bad : List Gen.MapArm := [⟨0, 0, 0, 0, 0⟩, ⟨1, 0, 1, 1, 1⟩]
    wellGuarded bad = false ∧
    (mappingArms bad (mappingArms bad .init 0).1 1).2 ≠ (mappingArms bad .init 1).2 := by decide

#print axioms c13_wellguarded
#print axioms c13_inv
#print axioms c13_history_free
end Bip39V
