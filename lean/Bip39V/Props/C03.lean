import Bip39V.Props.Check
/-! # C03 — validation never accepts an ill-formed or wrong-checksum mnemonic

`X` is the normaliser; the statements here take `X = nfkd` on the input at hand (x/text agrees
with UAX #15 NFKD on stream-safe input; the other inputs are handled in `Props/C10.lean`,
where the two recorded assumptions about x/text are stated). -/
namespace Bip39V
open Model Spec Unicode

theorem classify_ok_iff (D : Bytes → Bytes) (L : Lang) (toks : List Str) :
    Spec.classify D L toks = .ok () ↔
      ValidWordCount toks.length ∧ (∀ t ∈ toks, t ∈ L.words) ∧ Spec.checksumOK D L toks = true := by
  unfold Spec.classify
  have hfu : ∀ (ts : List Str) (i : Nat), Spec.firstUnknown L.words ts i = none ↔ ∀ t ∈ ts, t ∈ L.words := by
    intro ts
    induction ts with
    | nil => intro i; simp [Spec.firstUnknown]
    | cons t r ih =>
      intro i
      simp only [Spec.firstUnknown, List.mem_cons, forall_eq_or_imp]
      by_cases hm : t ∈ L.words
      · simp [(idxOf_isSome_iff L.words t).mpr hm, ih, hm]
      · have : (Spec.idxOf L.words t).isSome = false := by
          cases h : (Spec.idxOf L.words t).isSome with
          | false => rfl
          | true => exact absurd ((idxOf_isSome_iff L.words t).mp h) hm
        simp [this, hm]
  by_cases hv : ValidWordCount toks.length
  · simp only [hv, not_true_eq_false, if_false, true_and]
    cases h : Spec.firstUnknown L.words toks 0 with
    | some ui =>
      have : ¬ ∀ t ∈ toks, t ∈ L.words := fun hall => by rw [(hfu toks 0).mpr hall] at h; cases h
      simp [this]
    | none =>
      have := (hfu toks 0).mp h
      by_cases hc : Spec.checksumOK D L toks = true
      · rw [if_pos hc]; exact ⟨fun _ => ⟨this, hc⟩, fun _ => rfl⟩
      · simp [hc]
  · simp [hv]

/-- **C03 (soundness)**: if `CheckMnemonic` returns nil under a supported language, the
whitespace-separated tokens of the NFKD form are 12/15/18/21/24 words of that language's canonical
list whose trailing checksum bits equal the leading bits of the digest of the ENT/8-byte entropy
they encode. -/
theorem c03_sound (X : Str → Str) (D : Bytes → Bytes) (hD : ∀ x, (D x).length = 32) (L : Lang) (s : Str)
    (hX : X s = nfkd s) (h : checkMnemonic X D s L.value = .ok ()) :
    ValidWordCount (Spec.fields (nfkd s)).length ∧ (∀ t ∈ Spec.fields (nfkd s), t ∈ L.words) ∧
      Spec.checksumOK D L (Spec.fields (nfkd s)) = true := by
  rw [checkMnemonic_eq X D hD, hX, classify_ok_iff] at h
  obtain ⟨h1, h2, h3⟩ := h
  have hf : Spec.fields (nfkd s) = splitOn 0x20 (nfkd s) := by
    conv => lhs; rw [← joinWith_splitOn 0x20 (nfkd s)]
    exact Spec.fields_join _ (fun w hw => wordOk_ne_nil (words_wordOk L w (h2 w hw)))
      (fun w hw => wordOk_noWs (words_wordOk L w (h2 w hw)))
  rw [hf]; exact ⟨h1, h2, h3⟩

/-- the same, packaged as the specification's predicate -/
theorem c03_sound_validWs (X : Str → Str) (D : Bytes → Bytes) (hD : ∀ x, (D x).length = 32) (L : Lang) (s : Str)
    (hX : X s = nfkd s) (h : checkMnemonic X D s L.value = .ok ()) : Spec.validWs D L s = true :=
  (c03_sound X D hD L s hX h).2.2

/-- under a value that is none of the ten constants nothing is accepted -/
theorem c03_unsupported (X : Str → Str) (D : Bytes → Bytes) (ℓ : Int) (h : ∀ L : Lang, L.value ≠ ℓ) (s : Str) :
    checkMnemonic X D s ℓ ≠ .ok () := by
  apply checkMnemonic_unsupported
  unfold Lang.ofValue
  rw [List.find?_eq_none]
  intro L _ hL
  exact h L (by simpa using hL)

/-- `IsMnemonicValid` is true exactly when `CheckMnemonic` returns nil -/
theorem c03_isValid_iff (X : Str → Str) (D : Bytes → Bytes) (s : Str) (ℓ : Int) :
    isMnemonicValid X D s ℓ = .ok true ↔ checkMnemonic X D s ℓ = .ok () := by
  unfold isMnemonicValid
  cases checkMnemonic X D s ℓ <;> simp

#print axioms c03_sound
#print axioms c03_unsupported
#print axioms c03_isValid_iff
end Bip39V
