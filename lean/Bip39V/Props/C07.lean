import Bip39V.Props.C13
import Bip39V.Props.C06
import Bip39V.Props.C05
/-! # C07 — by default fresh mnemonics draw on crypto/rand.Reader and nothing else

What a model can say: the source variable is initialised to `crypto/rand.Reader` (regenerated
fact, resolved through the file's imports), no non-test code reassigns it or takes its address,
`NewMnemonic` reads through it, and `NewMnemonic`'s result is a function of the bytes that source
delivers.  That `crypto/rand.Reader` is the operating system's CSPRNG is outside any model. -/
namespace Bip39V
open Model Spec Unicode

/-- the regenerated facts about the source variable -/
theorem c07_source_facts :
    Gen.Source.initIsCryptoRand = true ∧ Gen.Source.assignments = 0 ∧ Gen.Source.foreignMentions = 0 ∧
    Gen.Source.readFullArgIsSource = true := by decide

/-- at process start the source is `crypto/rand.Reader` -/
theorem c07_initial : State.init.source = .cryptoRand := by decide

/-- and it stays so over every history of API calls (only the verif-tagged hook changes it) -/
theorem c07_invariant (E : Env) (ops : List Op) (h : ∀ op ∈ ops, op.isSwap = false) :
    (run E .init ops).source = .cryptoRand := by
  suffices hs : ∀ s : State, s.source = .cryptoRand → (run E s ops).source = .cryptoRand from hs _ c07_initial
  induction ops with
  | nil => intro s hs; exact hs
  | cons op rest ih =>
    intro s hs
    apply ih (fun o ho => h o (List.mem_cons_of_mem _ ho))
    have hop := h op List.mem_cons_self
    cases op <;> first | exact hs | cases hop

/-- `NewMnemonic`'s result does not depend on the package state or history at all: it is a
function of the word count, the language and the bytes the source delivers … -/
theorem c07_only_source (E : Env) (s₁ s₂ : State) (n ℓ : Int) (script : Script) :
    (step E s₁ (.newMnemonic n ℓ script)).2 = (step E s₂ (.newMnemonic n ℓ script)).2 := rfl

/-- … namely the BIP39 encoding of exactly the first `4n/3` of them (nothing else is mixed in) -/
theorem c07_encoding (E : Env) (hD : ∀ x, (E.D x).length = 32) (s : State) (L : Lang) (n : Nat) (hv : ValidWordCount n)
    (script : Script) (h : 4 * n / 3 ≤ (delivered script).length) :
    ∃ reads, (step E s (.newMnemonic n L.value script)).2 =
      .strReads (.ok (Spec.sentence E.D L ((delivered script).take (4 * n / 3)))) reads := by
  refine ⟨(newMnemonic E.D n L.value script).2, ?_⟩
  simp only [step]
  rw [c06_ok E.D hD L n hv script h]

/-- … and an injective one: two sources that deliver different first `4n/3` bytes give different
mnemonics — no delivered bit is dropped (with C05) -/
theorem c07_injective_in_source (D : Bytes → Bytes) (hD : ∀ x, (D x).length = 32) (L : Lang) (n : Nat) (hv : ValidWordCount n)
    (s₁ s₂ : Script) (h₁ : 4 * n / 3 ≤ (delivered s₁).length) (h₂ : 4 * n / 3 ≤ (delivered s₂).length)
    (h : (newMnemonic D n L.value s₁).1 = (newMnemonic D n L.value s₂).1) :
    (delivered s₁).take (4 * n / 3) = (delivered s₂).take (4 * n / 3) := by
  rw [c06_ok D hD L n hv s₁ h₁, c06_ok D hD L n hv s₂ h₂] at h
  have l₁ : ((delivered s₁).take (4 * n / 3)).length = 4 * n / 3 := by rw [List.length_take]; omega
  have l₂ : ((delivered s₂).take (4 * n / 3)).length = 4 * n / 3 := by rw [List.length_take]; omega
  have v₁ : ValidEntLen ((delivered s₁).take (4 * n / 3)).length := by
    rw [l₁]; unfold ValidEntLen; unfold ValidWordCount at hv; omega
  have v₂ : ValidEntLen ((delivered s₂).take (4 * n / 3)).length := by
    rw [l₂]; unfold ValidEntLen; unfold ValidWordCount at hv; omega
  apply c05_injective D hD L _ _ v₁ v₂
  rw [c01_encode D hD L _ v₁, c01_encode D hD L _ v₂]
  exact h

#print axioms c07_injective_in_source
#print axioms c07_source_facts
#print axioms c07_initial
#print axioms c07_invariant
#print axioms c07_only_source
#print axioms c07_encoding
end Bip39V
