import Bip39V.Model.Check
import Bip39V.Model.Reader
import Bip39V.Model.Seed
import Bip39V.Model.Stringer
import Bip39V.Gen.Source
/-! The package as a state machine: the only state is the once-guarded lookup maps and the
randomness source variable; one `Op` per exported call (plus the verif-only source swap). -/
namespace Bip39V.Model
open Bip39V

inductive SourceId | cryptoRand | other (n : Nat)
deriving DecidableEq, Repr

structure State where
  pkg : PkgState
  source : SourceId

/-- a fresh process: nothing built; the source variable holds its initialiser -/
def State.init : State :=
  { pkg := .init, source := if Gen.Source.initIsCryptoRand then .cryptoRand else .other 0 }

inductive Op
  | newByEntropy (e : Bytes) (ℓ : Int)
  | newMnemonic (n : Int) (ℓ : Int) (script : Script)   -- `script`: what the current source delivers during the call
  | check (s : Str) (ℓ : Int)
  | isValid (s : Str) (ℓ : Int)
  | seed (m p : Str)
  | langString (i : Int)
  | swapSource (id : SourceId)                            -- the verif-tagged hook; not part of the API

inductive Out
  | str (r : Res Str)
  | strReads (r : Res Str) (reads : Nat)
  | unit (r : Res Unit)
  | bool (r : Res Bool)
  | bytes (b : Bytes)
  | source (id : SourceId)

structure Env where
  X : Str → Str
  D : Bytes → Bytes
  PB : Bytes → Bytes → Nat → Nat → Bytes

def step (E : Env) (s : State) : Op → State × Out
  | .newByEntropy e ℓ => (s, .str (newMnemonicByEntropy E.D e ℓ))
  | .newMnemonic n ℓ script => let r := newMnemonic E.D n ℓ script; (s, .strReads r.1 r.2)
  | .check str ℓ => let r := checkMnemonicSt E.X E.D s.pkg str ℓ; ({ s with pkg := r.1 }, .unit r.2)
  | .isValid str ℓ =>
    let r := checkMnemonicSt E.X E.D s.pkg str ℓ
    ({ s with pkg := r.1 }, .bool (match r.2 with | .ok () => .ok true | .err _ => .ok false | .panic p => .panic p))
  | .seed m p => (s, .bytes (mnemonicToSeed E.X E.PB m p))
  | .langString i => (s, .str (langString i))
  | .swapSource id => ({ s with source := id }, .source s.source)

def run (E : Env) (s : State) : List Op → State
  | [] => s
  | op :: ops => run E (step E s op).1 ops

def Op.isSwap : Op → Bool
  | .swapSource _ => true
  | _ => false

/-- the arms of `mapping()` are paired consistently: each arm reads the variable it writes; arms
sharing a once cell write the same variable from the same table; arms writing one variable use one
cell and one table -/
def wellGuarded (arms : List Gen.MapArm) : Bool :=
  arms.all (fun a => a.wvar == a.rvar) &&
  arms.all (fun a => arms.all (fun b =>
    (a.cell != b.cell || (a.wvar == b.wvar && a.table == b.table)) &&
    (a.wvar != b.wvar || (a.cell == b.cell && a.table == b.table))))

end Bip39V.Model
