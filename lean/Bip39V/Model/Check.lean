import Bip39V.Model.Encode
/-! Model of mnemonic.go: `CheckMnemonic`, `IsMnemonicValid`.  `X` is the normaliser
(`norm.NFKD.String`), `D` the SHA-256 digest function. -/
namespace Bip39V.Model
open Bip39V

def wcGate (n : Int) : Bool := Gen.Gates.wcGate n

/-- the word loop: look every token up, add `idx << ((wc - pos - 1) * 11)`; the first unknown token stops it -/
def sumWords (m : Option Nat) (wc : Nat) : List Str → Nat → Nat → Except (Str × Nat) Nat
  | [], _, acc => .ok acc
  | w :: ws, pos, acc =>
    match mapLookup m w with
    | none => .error (w, pos)
    | some idx => sumWords m wc ws (pos + 1) (acc + (idx <<< ((wc - pos - 1) * Gen.CheckMnemonic.bitsPerWord.toNat)))

/-- everything after normalisation and splitting; `m` is the map returned by `lg.mapping()` -/
def checkTokens (D : Bytes → Bytes) (m : Option Nat) (toks : List Str) : Res Unit :=
  let wc := toks.length
  if wcGate wc then .err .wordLen
  else
    match sumWords m wc toks 0 0 with
    | .error (w, pos) => .err (.unknownWord w pos)
    | .ok entBig =>
      let cs := wc / Gen.CheckMnemonic.csDiv.toNat
      let shift := Gen.CheckMnemonic.shOne.toNat <<< cs
      let csBig := entBig &&& (shift - Gen.CheckMnemonic.maskDec.toNat)
      if shift = 0 then .panic .divByZero
      else
        let ent := entBig / shift
        let width := wc / Gen.CheckMnemonic.entDiv.toNat * Gen.CheckMnemonic.entMul.toNat
        if byteLen ent > width then .panic .fillBytesOverflow
        else
          let entBytes := toBytesFixed width ent
          match goSlice (D entBytes) Gen.CheckMnemonic.hashLo Gen.CheckMnemonic.hashHi with
          | none => .panic .sliceOutOfRange
          | some first =>
            let cs2 := wc / Gen.CheckMnemonic.cs2Div.toNat
            if cs2 > Gen.CheckMnemonic.sh2Base.toNat then .panic .divByZero
            else
              let d := Gen.CheckMnemonic.sh2One.toNat <<< (Gen.CheckMnemonic.sh2Base.toNat - cs2)
              if d = 0 then .panic .divByZero
              else if beNat first / d ≠ csBig then .err .checksum
              else .ok ()

def splitItem : Nat := Gen.CheckMnemonic.splitSep.headD 0

/-- `CheckMnemonic` on the package state (the only state it touches is `mapping()`'s) -/
def checkMnemonicSt (X : Str → Str) (D : Bytes → Bytes) (st : PkgState) (s : Str) (ℓ : Int) : PkgState × Res Unit :=
  let toks := splitOn splitItem (X s)
  if wcGate toks.length then (st, .err .wordLen)          -- returns before `lg.mapping()` is called
  else
    let (st', m) := mapping st ℓ
    (st', checkTokens D m toks)

/-- `CheckMnemonic` from a fresh process -/
def checkMnemonic (X : Str → Str) (D : Bytes → Bytes) (s : Str) (ℓ : Int) : Res Unit :=
  (checkMnemonicSt X D .init s ℓ).2

def isMnemonicValid (X : Str → Str) (D : Bytes → Bytes) (s : Str) (ℓ : Int) : Res Bool :=
  match checkMnemonic X D s ℓ with
  | .ok () => .ok true
  | .err _ => .ok false
  | .panic p => .panic p

end Bip39V.Model
