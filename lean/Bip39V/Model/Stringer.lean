import Bip39V.Basic.Res
import Bip39V.Gen.Consts
/-! Model of the stringer-generated `Language.String`. -/
namespace Bip39V.Model
open Bip39V

/-- decimal digits of a natural number as items, with fuel -/
def natDigitsAux : Nat → Nat → Str → Str
  | 0, _, acc => acc
  | f + 1, n, acc => if n < 10 then (48 + n) :: acc else natDigitsAux f (n / 10) ((48 + n % 10) :: acc)
def natDigits (n : Nat) : Str := natDigitsAux (n + 1) n []

/-- `strconv.FormatInt(i, 10)` -/
def formatInt (i : Int) : Str := if i < 0 then 45 :: natDigits (-i).toNat else natDigits i.toNat

def langString (i : Int) : Res Str :=
  let idx := Gen.Language_index.index
  let n : Int := idx.length
  if i < Gen.Language_String.lo || i >= n - Gen.Language_String.lenDec then
    .ok (Gen.Language_String.pfx ++ formatInt i ++ Gen.Language_String.suffix)
  else
    -- _Language_index[i], _Language_index[i+1]: array index panics
    match idx[i.toNat]?, idx[(i + Gen.Language_String.next).toNat]? with
    | some a, some b =>
      -- _Language_name[a:b]: string slice panics
      if 0 ≤ a ∧ a ≤ b ∧ b ≤ Gen.Language_name.name.length then
        .ok ((Gen.Language_name.name.drop a.toNat).take (b.toNat - a.toNat))
      else .panic .sliceOutOfRange
    | _, _ => .panic .indexOutOfRange

end Bip39V.Model
