import Bip39V.Model.Lang
import Bip39V.Model.Reader
import Bip39V.Model.Stringer
/-! The meaning of every Go construct the translator (`go/cmd/extract/translate.go`) emits.
`Gen/Code.lean` — the function bodies of the package, regenerated from the source on every run —
is written in this vocabulary only.  This file is hand-written and part of the trusted base: it
says what `int` arithmetic, `*big.Int` methods, slices, `make`, `io.ReadFull`, … do.

Conventions.  Go `int`, `int64`, `uint` (64-bit platform) are Lean `Int`s kept in range by the
wrap functions; the translator knows the static type of every expression and picks the operation.
`*big.Int` values are `Int`s (the translator rejects any code in which two variables could point to
the same `big.Int`, so a pointer is its value).  `[]byte` is `Bytes`, `[]string` is `List Str`, a Go
`string` is `Str`; a `hash.Hash` is the bytes written so far.  Everything runs in `Go.M`: a state
(the package's lazily built maps, the script of the randomness source, the number of `Read` calls
made) and an outcome `Res` (value, returned error, or run-time panic). -/
namespace Bip39V.Go
open Bip39V Model

/-- the three library functions the package calls and the model treats as parameters -/
structure World where
  X : Str → Str                              -- norm.NFKD.String
  D : Bytes → Bytes                          -- SHA-256 digest
  PB : Bytes → Bytes → Nat → Nat → Bytes     -- pbkdf2.Key(·, ·, iter, keyLen, sha512.New)

structure St where
  pkg : PkgState
  script : Script
  reads : Nat

/-- the state after a call that made `calls` reads on the randomness source -/
def St.afterReads (st : St) (calls : Nat) : St := { st with script := st.script.drop calls, reads := st.reads + calls }

abbrev M (α : Type) := St → Res α × St

@[inline] def pure {α} (a : α) : M α := fun s => (.ok a, s)
@[inline] def bind {α β} (x : M α) (f : α → M β) : M β := fun s =>
  match x s with
  | (.ok a, s') => f a s'
  | (.err e, s') => (.err e, s')
  | (.panic p, s') => (.panic p, s')
instance : Monad M where
  pure := Go.pure
  bind := Go.bind

def fail {α} (e : Err) : M α := fun s => (.err e, s)
def panic {α} (p : Panic) : M α := fun s => (.panic p, s)

/-! ### fixed-width integers -/
def two63 : Int := 9223372036854775808
def two64 : Int := 18446744073709551616
/-- the values a Go `int` / `int64` / `Language` argument can have (64-bit platform) -/
def isInt64 (x : Int) : Prop := -9223372036854775808 ≤ x ∧ x < 9223372036854775808
instance (x : Int) : Decidable (isInt64 x) := by unfold isInt64; exact inferInstance
/-- two's-complement wrap into `int`/`int64` -/
def wrapI (x : Int) : Int := (x + two63) % two64 - two63
/-- wrap into `uint` -/
def wrapU (x : Int) : Int := x % two64

def addI (a b : Int) : Int := wrapI (a + b)
def subI (a b : Int) : Int := wrapI (a - b)
def mulI (a b : Int) : Int := wrapI (a * b)
def addU (a b : Int) : Int := wrapU (a + b)
def subU (a b : Int) : Int := wrapU (a - b)
def mulU (a b : Int) : Int := wrapU (a * b)
/-- signed `/` and `%` truncate towards zero; a zero divisor panics -/
def divI (a b : Int) : M Int := if b = 0 then panic .divByZero else pure (wrapI (a.tdiv b))
def remI (a b : Int) : M Int := if b = 0 then panic .divByZero else pure (a.tmod b)
def divU (a b : Int) : M Int := if b = 0 then panic .divByZero else pure (a.tdiv b)
def remU (a b : Int) : M Int := if b = 0 then panic .divByZero else pure (a.tmod b)
/-- the same with a divisor that is a non-zero constant in the source (checked by the translator) -/
def divIc (a c : Int) : Int := wrapI (a.tdiv c)
def remIc (a c : Int) : Int := a.tmod c
def divUc (a c : Int) : Int := a.tdiv c
def remUc (a c : Int) : Int := a.tmod c
/-- `a << k` for a signed 64-bit `a` and an unsigned (or constant non-negative) count -/
def shlI (a k : Int) : Int := if k ≥ 64 then 0 else wrapI (a * 2 ^ k.toNat)
def shlU (a k : Int) : Int := if k ≥ 64 then 0 else wrapU (a * 2 ^ k.toNat)
/-- conversions between the integer types -/
def toUint (x : Int) : Int := wrapU x
def toInt (x : Int) : Int := wrapI x

/-! ### slices, strings -/
def lenBytes (b : Bytes) : Int := b.length
def lenStrs (l : List Str) : Int := l.length
/-- `len(s)` of a string is its length in bytes -/
def lenStr (s : Str) : Int := (utf8 s).length

def lenInts (l : List Int) : Int := l.length

def makeBytes (n : Int) : M Bytes := if n < 0 then panic .makeNegative else pure (List.replicate n.toNat 0)
def makeStrs (n : Int) : M (List Str) := if n < 0 then panic .makeNegative else pure (List.replicate n.toNat [])

def sliceBytes (b : Bytes) (lo hi : Int) : M Bytes :=
  match goSlice b lo hi with
  | some r => pure r
  | none => panic .sliceOutOfRange

def indexStrs (l : List Str) (i : Int) : M Str :=
  if i < 0 then panic .indexOutOfRange
  else match l[i.toNat]? with
    | some w => pure w
    | none => panic .indexOutOfRange

def setStrs (l : List Str) (i : Int) (v : Str) : M (List Str) :=
  if i < 0 ∨ i.toNat ≥ l.length then panic .indexOutOfRange else pure (l.set i.toNat v)

def indexInts (l : List Int) (i : Int) : M Int :=
  if i < 0 then panic .indexOutOfRange
  else match l[i.toNat]? with
    | some w => pure w
    | none => panic .indexOutOfRange

/-- `s[lo:hi]` on a string slices its bytes -/
def sliceStr (s : Str) (lo hi : Int) : M Str :=
  match goSlice (utf8 s) lo hi with
  | some r => pure (decodeItems r)
  | none => panic .sliceOutOfRange

/-! ### math/big -/
def bigSetBytes (b : Bytes) : Int := beNat b
abbrev bigNewInt (x : Int) : Int := x
def bigZero : Int := 0
def bigQuo (a b : Int) : M Int := if b = 0 then panic .divByZero else pure (a.tdiv b)
def bigLsh (a : Int) (k : Int) : Int := a * 2 ^ k.toNat
def bigAdd (a b : Int) : Int := a + b
/-- `z.And(x, y)`: two's-complement semantics on the infinite sign extension (`-(n+1) = ~n`) -/
def bigAnd : Int → Int → Int
  | .ofNat m, .ofNat n => ((m &&& n : Nat) : Int)
  | .ofNat m, .negSucc n => ((m - (m &&& n) : Nat) : Int)
  | .negSucc m, .ofNat n => ((n - (n &&& m) : Nat) : Int)
  | .negSucc m, .negSucc n => .negSucc (m ||| n)
def bigCmp (a b : Int) : Int := if a < b then -1 else if a = b then 0 else 1
/-- `x.Int64()`: the low 64 bits of the magnitude, with the sign -/
def bigInt64 (a : Int) : Int := wrapI (a.sign * (a.natAbs % 18446744073709551616 : Nat))
/-- `x.FillBytes(buf)`: big-endian magnitude into the whole buffer; panics if it does not fit -/
def bigFillBytes (a : Int) (buf : Bytes) : M Bytes :=
  if byteLen a.natAbs > buf.length then panic .fillBytesOverflow else pure (toBytesFixed buf.length a.natAbs)

/-! ### crypto/sha256 (`hash.Hash` = the bytes written so far) -/
def sha256New : Bytes := []
def hashWrite (h : Bytes) (b : Bytes) : Bytes := h ++ b
def hashSum (W : World) (h : Bytes) (pre : Bytes) : Bytes := pre ++ W.D h

/-! ### the rest of the package (`Language.list` is translated like any other function;
`Language.mapping`, with its `sync.Once` closures, is read structurally: `Gen/Lang.lean`, `Model/Lang.lean`) -/
def langMapping (lg : Int) : M (Option Nat) := fun s =>
  let r := Model.mapping s.pkg lg
  (.ok r.2, { s with pkg := r.1 })
/-- `v, ok := m[k]` -/
def mapLookup2 (m : Option Nat) (w : Str) : Int × Bool :=
  match Model.mapLookup m w with
  | some i => ((i : Int), true)
  | none => (0, false)

/-- `fmt.Errorf(format, word, position)`: the error value carries the two arguments; the format
string itself is tied through `Gen.CheckMnemonic.fmtStr` -/
def errorfSD {α} (_format : Str) (w : Str) (i : Int) : M α := fail (.unknownWord w i.toNat)

/-- `io.ReadFull(cryptoRander, buf)` followed by `if err != nil { return …, err }`: the filled
buffer, or the reader's error returned as is -/
def readFull (buf : Bytes) : M Bytes := fun s =>
  match Model.readFull buf.length s.script [] 0 with
  | (.ok b, calls) => (.ok b, s.afterReads calls)
  | (.err e, calls) => (.err (.io e), s.afterReads calls)

/-- `f(…) == nil` for an error-returning function of the package -/
def errIsNil (x : M Unit) : M Bool := fun s =>
  match x s with
  | (.ok _, s') => (.ok true, s')
  | (.err _, s') => (.ok false, s')
  | (.panic p, s') => (.panic p, s')

/-! ### loops -/
/-- `for i := hi; i >= lo; i-- { body }` where the body does not assign `i` -/
def forDownAux {σ} (lo : Int) (body : Int → σ → M σ) : Nat → Int → σ → M σ
  | 0, _, s => pure s
  | n + 1, i, s => if i ≥ lo then bind (body i s) (forDownAux lo body n (i - 1)) else pure s
def forDown {σ} (hi lo : Int) (s : σ) (body : Int → σ → M σ) : M σ :=
  forDownAux lo body (hi - lo + 1).toNat hi s

/-- `for i, x := range l { body }` over a slice that the body does not modify -/
def forRangeAux {α σ} (body : Int → α → σ → M σ) : List α → Int → σ → M σ
  | [], _, s => pure s
  | x :: xs, i, s => bind (body i x s) (forRangeAux body xs (i + 1))
def forRange {α σ} (l : List α) (s : σ) (body : Int → α → σ → M σ) : M σ := forRangeAux body l 0 s

end Bip39V.Go
