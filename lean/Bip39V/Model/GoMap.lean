import Bip39V.Model.GoSem
/-! The part of the Go vocabulary that speaks about the package's *concrete* mutable state: the
`sync.Once` cells (a done flag each) and the `map[string]int64` variables (nil, or their entries).
`Gen/Code/Language_mapping.lean` — `Language.mapping` translated from lang.go on every run by
`go/cmd/extract/mapping.go` — is written in this vocabulary.  `Props/Refine/LanguageMapping.lean`
proves that the abstract state machine `Model.mapping` / `Go.langMapping` (which the other
translated functions call, and which records only *which table* a map was built from) is a correct
abstraction of it.  Hand-written, trusted like `GoSem.lean`.

Sequential semantics only: `o.Do(f)` runs `f` iff the cell has not fired and marks the cell when `f`
returns (or panics).  What `sync.Once` guarantees under concurrency is the subject of the separate
interleaving model of C12 (`Lemmas/Conc.lean`). -/
namespace Bip39V.Go
open Bip39V Model

/-- a `map[string]int64` value: `none` is the nil map, otherwise the entries, most recent first -/
abbrev MapVal := Option (List (Str × Int))

/-- concrete package state -/
structure CPkg where
  once : Nat → Bool
  maps : Nat → MapVal

abbrev MC (α : Type) := CPkg → Res α × CPkg

@[inline] def pureC {α} (a : α) : MC α := fun s => (.ok a, s)
@[inline] def bindC {α β} (x : MC α) (f : α → MC β) : MC β := fun s =>
  match x s with
  | (.ok a, s') => f a s'
  | (.err e, s') => (.err e, s')
  | (.panic p, s') => (.panic p, s')

/-- `cell.Do(f)` -/
def onceDo (cell : Nat) (f : MC Unit) : MC Unit := fun s =>
  if s.once cell then (.ok (), s)
  else
    let r := f s
    (r.1, { r.2 with once := upd r.2.once cell true })

/-- `make(map[string]int64, n)`: an empty, non-nil map -/
def makeMap : MapVal := some []

/-- `v = m` for a package-level map variable -/
def setMapVar (v : Nat) (m : MapVal) : MC Unit := fun s => (.ok (), { s with maps := upd s.maps v m })
/-- reading a package-level map variable -/
def getMapVar (v : Nat) : MC MapVal := fun s => (.ok (s.maps v), s)
/-- `v[k] = x` for a package-level map variable; assignment to an entry of a nil map panics -/
def mapAssign (v : Nat) (k : Str) (x : Int) : MC Unit := fun s =>
  match s.maps v with
  | none => (.panic .nilMapWrite, s)
  | some l => (.ok (), { s with maps := upd s.maps v (some ((k, x) :: l)) })

/-- `m[k]` / `x, ok := m[k]`: the most recent entry for `k`; a nil map has none -/
def mapGet (m : MapVal) (k : Str) : Option Int :=
  match m with
  | none => none
  | some l => (l.find? (fun e => e.1 == k)).map (·.2)

/-- `for i, x := range l { body }` with a body that has no loop-carried local state -/
def forRangeAuxC {α} (body : Int → α → MC Unit) : List α → Int → MC Unit
  | [], _ => pureC ()
  | x :: xs, i => bindC (body i x) fun _ => forRangeAuxC body xs (i + 1)
def forRangeC {α} (l : List α) (body : Int → α → MC Unit) : MC Unit := forRangeAuxC body l 0

/-! ### the same method as a *program* (deep embedding), for the interleaving semantics of C12

`Gen/Code/Language_mapping.lean` also contains `Language_mapping_prog`, the method as a value of
`Prog`; `Prog.run` is its sequential meaning in the vocabulary above (`prog_run`: it is the
translated function), and `Lemmas/ConcCode.lean` gives the same programs an interleaving semantics. -/

/-- a statement of a `Do` closure -/
inductive CStmt
  | makeMap (v : Nat)                 -- v = make(map[string]int64, n)
  | fill (v : Nat) (table : Nat)      -- for idx, word := range wordlist.T { v[word] = int64(idx) }
deriving DecidableEq, Repr

/-- the package-level variable a closure statement writes -/
def CStmt.var : CStmt → Nat
  | .makeMap v => v
  | .fill v _ => v

/-- `mapping()` for one receiver value: once-guarded closures, then the returned variable (or nil) -/
inductive Prog
  | onceDo (cell : Nat) (body : List CStmt) (k : Prog)
  | retVar (v : Nat)
  | retNil
deriving DecidableEq, Repr

def CStmt.run : CStmt → MC Unit
  | .makeMap v => setMapVar v Go.makeMap
  | .fill v t => forRangeC (words t) fun idx word => mapAssign v word (toInt idx)

def CStmt.runAll : List CStmt → MC Unit
  | [] => pureC ()
  | st :: r => bindC st.run fun _ => CStmt.runAll r

def Prog.run : Prog → MC MapVal
  | .onceDo c body k => bindC (Go.onceDo c (CStmt.runAll body)) fun _ => k.run
  | .retVar v => getMapVar v
  | .retNil => pureC none

/-! ### the abstraction: which concrete state an abstract `PkgState` stands for -/

/-- the entries after `for i, w := range ws { m[w] = int64(i) }` (from index `i`, on top of `l`) -/
def insertAll : List Str → Int → List (Str × Int) → List (Str × Int)
  | [], _, l => l
  | w :: ws, i, l => insertAll ws (i + 1) ((w, toInt i) :: l)

/-- "built from table `t`" as a concrete map value -/
def concMap : Option Nat → MapVal
  | none => none
  | some t => some (insertAll (words t) 0 [])

def conc (s : PkgState) : CPkg := { once := s.onceDone, maps := fun v => concMap (s.mapVar v) }

end Bip39V.Go
