import Bip39V.Basic.Str
import Bip39V.Gen.Consts
/-! Model of the wordlist generator (update-wordlist/main.go): split the fetched text at LF, render
the `html/template` over (variable, lines), write the file.  The template text, the file→variable
table and the split separator are regenerated from the source; the interpreter below covers the
subset of template syntax the tool uses, and `parseFile` models how the Go lexer/parser reads the
generated file back. -/
namespace Bip39V.Model.Tool
open Bip39V

inductive Node
  | text (s : Str)
  | variable                 -- {{.Variable}}
  | dot                      -- {{.}}
  | range (body : List Node) -- {{range .WordList}} … {{end}}
  | ifDot (body : List Node) -- {{if .}} … {{end}}

inductive Tok | text (s : Str) | action (s : Str)

def isSpace (c : Nat) : Bool := c == 0x20 || c == 0x09 || c == 0x0A || c == 0x0D

def trim (s : Str) : Str := ((s.dropWhile isSpace).reverse.dropWhile isSpace).reverse

/-- split the template text into literal text and `{{ … }}` actions -/
def lexAux : Nat → Str → Str → List Tok
  | 0, _, _ => []
  | _, [], cur => if cur = [] then [] else [.text cur.reverse]
  | f + 1, 123 :: 123 :: rest, cur =>
    -- read up to the closing braces
    let rec close : Nat → Str → Str → Option (Str × Str)
      | 0, _, _ => none
      | _, [], _ => none
      | _, 125 :: 125 :: r, acc => some (acc.reverse, r)
      | g + 1, c :: r, acc => close g r (c :: acc)
    match close (rest.length + 1) rest [] with
    | some (a, r) => (if cur = [] then [] else [.text cur.reverse]) ++ .action (trim a) :: lexAux f r []
    | none => []
  | f + 1, c :: rest, cur => lexAux f rest (c :: cur)

def lex (s : Str) : List Tok := lexAux (s.length + 1) s []

def aVariable : Str := ".Variable".toList.map Char.toNat
def aRange : Str := "range .WordList".toList.map Char.toNat
def aIf : Str := "if .".toList.map Char.toNat
def aDot : Str := ".".toList.map Char.toNat
def aEnd : Str := "end".toList.map Char.toNat

/-- parse a token list into nodes; returns the nodes up to the matching `end` (or the end of input)
and the remaining tokens -/
def parseNodes : Nat → List Tok → Option (List Node × List Tok × Bool)
  | 0, _ => none
  | _, [] => some ([], [], false)
  | f + 1, .text s :: r => do
    let (ns, rest, e) ← parseNodes f r
    pure (.text s :: ns, rest, e)
  | f + 1, .action a :: r =>
    if a = aEnd then some ([], r, true)
    else if a = aVariable then do let (ns, rest, e) ← parseNodes f r; pure (.variable :: ns, rest, e)
    else if a = aDot then do let (ns, rest, e) ← parseNodes f r; pure (.dot :: ns, rest, e)
    else if a = aRange then do
      let (body, rest, e) ← parseNodes f r
      if !e then none else
      let (ns, rest', e') ← parseNodes f rest
      pure (.range body :: ns, rest', e')
    else if a = aIf then do
      let (body, rest, e) ← parseNodes f r
      if !e then none else
      let (ns, rest', e') ← parseNodes f rest
      pure (.ifDot body :: ns, rest', e')
    else none

def parseTemplate (s : Str) : Option (List Node) :=
  let toks := lex s
  match parseNodes (toks.length + 1) toks with
  | some (ns, [], false) => some ns
  | _ => none

/-- html/template's escaper for a text context -/
def escItem (c : Nat) : Str :=
  if c = 0 then [0xFFFD]
  else if c = 34 then "&#34;".toList.map Char.toNat
  else if c = 38 then "&amp;".toList.map Char.toNat
  else if c = 39 then "&#39;".toList.map Char.toNat
  else if c = 43 then "&#43;".toList.map Char.toNat
  else if c = 60 then "&lt;".toList.map Char.toNat
  else if c = 62 then "&gt;".toList.map Char.toNat
  else [c]
def esc (s : Str) : Str := s.flatMap escItem

mutual
def execNode (var : Str) (lines : List Str) (dot : Str) : Node → Str
  | .text s => s
  | .variable => esc var
  | .dot => esc dot
  | .range body => execRange var lines body lines
  | .ifDot body => if dot = [] then [] else execNodes var lines dot body
def execNodes (var : Str) (lines : List Str) (dot : Str) : List Node → Str
  | [] => []
  | n :: ns => execNode var lines dot n ++ execNodes var lines dot ns
def execRange (var : Str) (lines : List Str) (body : List Node) : List Str → Str
  | [] => []
  | l :: ls => execNodes var lines l body ++ execRange var lines body ls
end

/-- the file the tool writes for fetched text `src` and variable `var` -/
def render (src : Str) (var : Str) : Option Str :=
  match parseTemplate Gen.Tool_text.text with
  | none => none
  | some ns => some (execNodes var (splitOn (Gen.Tool_updateWordlist.splitSep.headD 0) src) [] ns)

/-! ### reading the generated file back (Go lexer/parser on this shape of file) -/

def skipWs (s : Str) : Str := s.dropWhile isSpace

def expect (p : Str) (s : Str) : Option Str := if p.isPrefixOf s then some (s.drop p.length) else none

def isIdentItem (c : Nat) : Bool := (97 ≤ c && c ≤ 122) || (65 ≤ c && c ≤ 90) || (48 ≤ c && c ≤ 57) || c == 95 || c ≥ 128

/-- an interpreted string literal without escapes: everything up to the closing quote; a backslash,
a newline or the end of input inside it is not handled by this model (`none`) -/
def readString : Str → Str → Option (Str × Str)
  | [], _ => none
  | 34 :: r, acc => some (acc.reverse, r)
  | 92 :: _, _ => none
  | 10 :: _, _ => none
  | c :: r, acc => readString r (c :: acc)

def parseElems : Nat → Str → List Str → Option (List Str)
  | 0, _, _ => none
  | f + 1, s, acc =>
    match skipWs s with
    | 125 :: _ => some acc.reverse
    | 34 :: r =>
      match readString r [] with
      | none => none
      | some (w, r') =>
        match skipWs r' with
        | 44 :: r'' => parseElems f r'' (w :: acc)
        | 125 :: _ => some (w :: acc).reverse
        | _ => none
    | _ => none

/-- `// comment` line, `package <ident>`, `var`: returns what follows (blanks skipped) -/
def parseHeader (s : Str) : Option Str := do
  let s ← expect [47, 47] s
  let s := (s.dropWhile (· != 10))
  let s ← expect ("package".toList.map Char.toNat) (skipWs s)
  let s := (skipWs s).dropWhile isIdentItem
  let s ← expect ("var".toList.map Char.toNat) (skipWs s)
  pure (skipWs s)

/-- `<ident> = []string{ … }` → (variable, elements) -/
def parseDecl (s : Str) : Option (Str × List Str) := do
  let name := s.takeWhile isIdentItem
  let s := s.dropWhile isIdentItem
  if name = [] then none else
  let s ← expect [61] (skipWs s)
  let s ← expect ("[]string".toList.map Char.toNat) (skipWs s)
  let s ← expect [123] (skipWs s)
  let elems ← parseElems (s.length + 1) s []
  pure (name, elems)

def parseFile (s : Str) : Option (Str × List Str) := do
  let s ← parseHeader s
  parseDecl s

end Bip39V.Model.Tool
