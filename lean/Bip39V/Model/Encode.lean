import Bip39V.Model.Lang
import Bip39V.Gen.Consts
import Bip39V.Gen.Gates
/-! Model of entropy.go (`fromEntropy`) and `NewMnemonicByEntropy`.  `D` is the SHA-256 digest
function; every theorem is stated for an arbitrary `D`. -/
namespace Bip39V.Model
open Bip39V

/-- Go slice expression `x[lo:hi]` with its bounds panic (`none`) -/
def goSlice {α} (l : List α) (lo hi : Int) : Option (List α) :=
  if 0 ≤ lo ∧ lo ≤ hi ∧ hi ≤ l.length then some ((l.drop lo.toNat).take (hi.toNat - lo.toNat)) else none

/-- the loop of `fromEntropy`: `k` times take `n & mask`, divide by `divisor`, index the list;
filled from the back, so the result is most significant first -/
def peelWords (lst : List Str) (mask divisor : Nat) : Nat → Nat → Option (List Str)
  | 0, _ => some []
  | k + 1, n =>
    match lst[n &&& mask]?, peelWords lst mask divisor k (n / divisor) with
    | some w, some ws => some (ws ++ [w])
    | _, _ => none

def fromEntropy (D : Bytes → Bytes) (e : Bytes) (wordLen : Int) (ℓ : Int) : Res Str :=
  match goSlice (D e) Gen.fromEntropy.hashLo Gen.fromEntropy.hashHi with
  | none => .panic .sliceOutOfRange
  | some checksum =>
    let cs := e.length / Gen.fromEntropy.csDiv.toNat
    if cs > Gen.fromEntropy.shBase.toNat then .panic .divByZero     -- uint wrap: 1<<huge = 0
    else
      let d := Gen.fromEntropy.shOne.toNat <<< (Gen.fromEntropy.shBase.toNat - cs)
      if d = 0 then .panic .divByZero
      else
        let csInt := beNat checksum / d
        let entInt := (beNat e <<< cs) + csInt
        if wordLen < 0 then .panic .makeNegative
        else if Gen.first11BitsMask.divisor.toNat = 0 ∧ wordLen.toNat ≠ 0 then .panic .divByZero
        else
          match peelWords (list ℓ) Gen.last11BitsMask.mask.toNat Gen.first11BitsMask.divisor.toNat wordLen.toNat entInt with
          | none => .panic .indexOutOfRange
          | some ws => .ok (joinWith (if ℓ = Gen.vJapanese then Gen.fromEntropy.sepJa else Gen.fromEntropy.sep) ws)

/-- the size gate of `NewMnemonicByEntropy` on the Go `int` length: the condition of the source,
translated by the extractor (`Gen/Gates.lean`) -/
def entGate (n : Int) : Bool := Gen.Gates.entGate n

def entWordLen (n : Int) : Int := n.tdiv Gen.NewMnemonicByEntropy.wlDiv * Gen.NewMnemonicByEntropy.wlMul

def newMnemonicByEntropy (D : Bytes → Bytes) (e : Bytes) (ℓ : Int) : Res Str :=
  let n : Int := e.length
  if entGate n then .err .entropyLen
  else fromEntropy D e (entWordLen n) ℓ

end Bip39V.Model
