import Bip39V.Basic.Res
import Bip39V.Gen.Consts
/-! Model of `MnemonicToSeed`.  `X` is the normaliser, `PB` PBKDF2-HMAC-SHA512
(`password salt iterations keyLen`). -/
namespace Bip39V.Model
open Bip39V

def mnemonicToSeed (X : Str → Str) (PB : Bytes → Bytes → Nat → Nat → Bytes) (m p : Str) : Bytes :=
  let password := utf8 (X m)
  let salt := utf8 (X (Gen.MnemonicToSeed.saltPrefix ++ p))
  PB password salt Gen.MnemonicToSeed.iter.toNat Gen.MnemonicToSeed.keyLen.toNat

end Bip39V.Model
