import Bip39V.Basic.Res
import Bip39V.Gen.Lang
/-! Model of lang.go: `Language.list`, and `Language.mapping` with its once-guarded lazily built
maps as a state machine over the regenerated switch arms. -/
namespace Bip39V.Model
open Bip39V

/-- the words of table `t` as item lists -/
def words (t : Nat) : List Str := Gen.wordsOf t

def assoc (l : List (Int × Nat)) (k : Int) : Option Nat :=
  match l with
  | [] => none
  | (k', v) :: r => if k' == k then some v else assoc r k

/-- `Language.list`: the switch with its default arm -/
def listTable (ℓ : Int) : Nat := (assoc Gen.listArms ℓ).getD Gen.listDefault
def list (ℓ : Int) : List Str := words (listTable ℓ)

/-- model of the Go loop `for idx, word := range list { m[word] = int64(idx) }` followed by `m[w]`:
a later assignment overwrites an earlier one, so the tail is consulted first -/
def goMap : List Str → Nat → Str → Option Nat
  | [], _, _ => none
  | x :: xs, i, w =>
    match goMap xs (i + 1) w with
    | some k => some k
    | none => if x = w then some i else none

def upd {α} (f : Nat → α) (k : Nat) (v : α) : Nat → α := fun x => if x = k then v else f x

/-- package state: which once cells have fired; which table each map variable was built from
(`none` = still nil) -/
structure PkgState where
  onceDone : Nat → Bool
  mapVar : Nat → Option Nat

def PkgState.init : PkgState := { onceDone := fun _ => false, mapVar := fun _ => none }

def findArm (arms : List Gen.MapArm) (ℓ : Int) : Option Gen.MapArm :=
  match arms with
  | [] => none
  | a :: r => if a.value == ℓ then some a else findArm r ℓ

/-- `Language.mapping`: run the arm's `once.Do` closure if its cell has not fired, then return the
current value of the arm's result variable; `nil` for a value without an arm. -/
def mappingArms (arms : List Gen.MapArm) (s : PkgState) (ℓ : Int) : PkgState × Option Nat :=
  match findArm arms ℓ with
  | none => (s, none)
  | some a =>
    let s' := if s.onceDone a.cell then s
              else { onceDone := upd s.onceDone a.cell true, mapVar := upd s.mapVar a.wvar (some a.table) }
    (s', s'.mapVar a.rvar)

def mapping (s : PkgState) (ℓ : Int) : PkgState × Option Nat := mappingArms Gen.mapArms s ℓ

/-- reading a Go map value: nil map → not found -/
def mapLookup (m : Option Nat) (w : Str) : Option Nat :=
  match m with
  | none => none
  | some t => goMap (words t) 0 w

end Bip39V.Model
