import Bip39V.Model.Encode
/-! Model of `NewMnemonic`: the count gate, `io.ReadFull` over a scripted reader, `fromEntropy`. -/
namespace Bip39V.Model
open Bip39V

/-- one element = one `Read` call: the bytes it is willing to deliver and the error it returns
with them.  A reader asked for fewer bytes than it offers delivers what fits and returns nil.
After the script the reader returns `(0, EOF)` forever. -/
abbrev Script := List (Bytes × Option IoErr)

inductive RRes | ok (buf : Bytes) | err (e : IoErr)
deriving DecidableEq, Repr

/-- `io.ReadAtLeast(r, buf, len(buf))` with `need` bytes still missing and `acc` already in the
buffer; also returns the number of `Read` calls made -/
def readFull : Nat → Script → Bytes → Nat → RRes × Nat
  | 0, _, acc, calls => (.ok acc, calls)
  | _ + 1, [], acc, calls => (if acc = [] then .err .eof else .err .unexpectedEof, calls + 1)
  | need + 1, (bs, e) :: rest, acc, calls =>
    if need + 1 ≤ bs.length then (.ok (acc ++ bs.take (need + 1)), calls + 1)   -- n ≥ min: the error, if any, is dropped
    else match e with
      | none => readFull (need + 1 - bs.length) rest (acc ++ bs) (calls + 1)
      | some .eof => (if acc ++ bs = [] then .err .eof else .err .unexpectedEof, calls + 1)
      | some x => (.err x, calls + 1)
termination_by need script => script.length
decreasing_by simp_wf

def wordGate (n : Int) : Bool := Gen.Gates.wordGate n

def bufSize (n : Int) : Int := n + n.tdiv Gen.NewMnemonic.bufDiv

/-- `NewMnemonic`; the second component is the number of `Read` calls made on the source -/
def newMnemonic (D : Bytes → Bytes) (n : Int) (ℓ : Int) (script : Script) : Res Str × Nat :=
  if wordGate n then (.err .wordLen, 0)
  else if bufSize n < 0 then (.panic .makeNegative, 0)
  else
    match readFull (bufSize n).toNat script [] 0 with
    | (.err e, calls) => (.err (.io e), calls)
    | (.ok buf, calls) => (fromEntropy D buf n ℓ, calls)

end Bip39V.Model
