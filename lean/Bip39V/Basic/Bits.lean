/-! Bit strings, big-endian naturals and base-2048 digits: the vocabulary shared by the model
of the Go big-integer code and the bit-string specification. -/
namespace Bip39V

abbrev Bytes := List UInt8

def ofBits (l : List Bool) : Nat := l.foldl (fun a b => 2 * a + b.toNat) 0

def byteBits (b : UInt8) : List Bool := (List.range 8).map (fun i => b.toNat.testBit (7 - i))
def bits (e : Bytes) : List Bool := e.flatMap byteBits

/-- `big.Int.SetBytes` -/
def beNat (e : Bytes) : Nat := e.foldl (fun a b => a * 256 + b.toNat) 0

def chunksN (k : Nat) : Nat → List α → List (List α)
  | 0, _ => []
  | n + 1, l => l.take k :: chunksN k n (l.drop k)

/-- the `k` low base-`d` digits of `n`, most significant first -/
def peelBase (d : Nat) : Nat → Nat → List Nat
  | 0, _ => []
  | k + 1, n => peelBase d k (n / d) ++ [n % d]

/-- the `k` base-2048 digits of `n`, most significant first -/
def peel : Nat → Nat → List Nat := peelBase 2048

def unpeel (l : List Nat) : Nat := l.foldl (fun a i => a * 2048 + i) 0

/-- `big.Int.FillBytes` into a buffer of `k` bytes (without the overflow panic, which the model
checks separately) -/
def toBytesFixed : Nat → Nat → Bytes
  | 0, _ => []
  | k + 1, n => toBytesFixed k (n / 256) ++ [UInt8.ofNat (n % 256)]

/-- number of base-256 digits of `n` (0 for 0), with fuel -/
def byteLenAux : Nat → Nat → Nat
  | 0, _ => 0
  | f + 1, n => if n = 0 then 0 else byteLenAux f (n / 256) + 1
def byteLen (n : Nat) : Nat := byteLenAux (n + 1) n

/-- `big.Int.Bytes`: minimal big-endian encoding -/
def toBytesMin (n : Nat) : Bytes := toBytesFixed (byteLen n) n

/-- pack a list of bits (length a multiple of 8) into bytes -/
def packBytes (l : List Bool) : Bytes := (chunksN 8 (l.length / 8) l).map (fun c => UInt8.ofNat (ofBits c))

end Bip39V
