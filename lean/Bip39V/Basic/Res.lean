import Bip39V.Basic.Str
/-! Outcomes of the modelled Go functions: a value, a returned error, or a run-time panic. -/
namespace Bip39V

inductive IoErr | eof | unexpectedEof | other (code : Nat)
deriving DecidableEq, Repr

inductive Err
  | wordLen | entropyLen | checksum
  | unknownWord (tok : Str) (pos : Nat)
  | io (e : IoErr)
deriving DecidableEq, Repr

inductive Panic | divByZero | indexOutOfRange | makeNegative | fillBytesOverflow | sliceOutOfRange | shiftOverflow | nilMapWrite
deriving DecidableEq, Repr

inductive Res (α : Type) where
  | ok (a : α) | err (e : Err) | panic (p : Panic)
deriving DecidableEq, Repr

def Res.isPanic {α} : Res α → Bool
  | .panic _ => true
  | _ => false

end Bip39V
