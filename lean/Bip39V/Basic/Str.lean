import Bip39V.Basic.Bits
/-! Go strings as lists of *items*: a Unicode scalar value, or `0x110000 + b` for a byte `b`
that is not part of a valid UTF-8 sequence. -/
namespace Bip39V

abbrev Str := List Nat

/-- model of `strings.Split(s, sep)` for a one-item separator: `Split("", sep) = [""]` -/
def splitOn (sep : Nat) : Str → List Str
  | [] => [[]]
  | c :: cs =>
    if c = sep then [] :: splitOn sep cs
    else match splitOn sep cs with
      | [] => [[c]]
      | w :: ws => (c :: w) :: ws

/-- model of `strings.Join(ws, sep)` -/
def joinWith (sep : Str) : List Str → Str
  | [] => []
  | [w] => w
  | w :: w' :: ws => w ++ sep ++ joinWith sep (w' :: ws)

def unpackAux : Nat → Nat → Str → Str
  | 0, _, acc => acc
  | f + 1, n, acc => if n ≤ 1 then acc else unpackAux f (n / 2097152) (n % 2097152 :: acc)
/-- a word packed as one numeral (base 2^21 digits under a leading 1) back to its items -/
def unpack (n : Nat) : Str := unpackAux 64 n []

def pack (s : Str) : Nat := s.foldl (fun a c => a * 2097152 + c) 1

/-- UTF-8 encoding of one item (invalid-byte items encode as that byte) -/
def utf8Item (c : Nat) : Bytes :=
  if c < 0x80 then [UInt8.ofNat c]
  else if c < 0x800 then [UInt8.ofNat (0xC0 + c / 64), UInt8.ofNat (0x80 + c % 64)]
  else if c < 0x10000 then [UInt8.ofNat (0xE0 + c / 4096), UInt8.ofNat (0x80 + c / 64 % 64), UInt8.ofNat (0x80 + c % 64)]
  else if c < 0x110000 then [UInt8.ofNat (0xF0 + c / 262144), UInt8.ofNat (0x80 + c / 4096 % 64), UInt8.ofNat (0x80 + c / 64 % 64), UInt8.ofNat (0x80 + c % 64)]
  else [UInt8.ofNat (c - 0x110000)]

def utf8 (s : Str) : Bytes := s.flatMap utf8Item

/-- decode bytes into items the way Go's `range` over a string does (invalid bytes one at a time) -/
def decodeItemsAux : Nat → List Nat → Str
  | 0, _ => []
  | _, [] => []
  | f + 1, b0 :: rest =>
    let bad := fun (_ : Unit) => (0x110000 + b0) :: decodeItemsAux f rest
    let cont (b : Nat) : Bool := 0x80 ≤ b && b < 0xC0
    if b0 < 0x80 then b0 :: decodeItemsAux f rest
    else if b0 < 0xC2 then bad ()
    else if b0 < 0xE0 then
      match rest with
      | b1 :: r1 => if cont b1 then ((b0 - 0xC0) * 64 + (b1 - 0x80)) :: decodeItemsAux f r1 else bad ()
      | _ => bad ()
    else if b0 < 0xF0 then
      match rest with
      | b1 :: b2 :: r2 =>
        let lo := if b0 = 0xE0 then 0xA0 else 0x80
        let hi := if b0 = 0xED then 0xA0 else 0xC0
        if lo ≤ b1 && b1 < hi && cont b2 then
          ((b0 - 0xE0) * 4096 + (b1 - 0x80) * 64 + (b2 - 0x80)) :: decodeItemsAux f r2
        else bad ()
      | _ => bad ()
    else if b0 < 0xF5 then
      match rest with
      | b1 :: b2 :: b3 :: r3 =>
        let lo := if b0 = 0xF0 then 0x90 else 0x80
        let hi := if b0 = 0xF4 then 0x90 else 0xC0
        if lo ≤ b1 && b1 < hi && cont b2 && cont b3 then
          ((b0 - 0xF0) * 262144 + (b1 - 0x80) * 4096 + (b2 - 0x80) * 64 + (b3 - 0x80)) :: decodeItemsAux f r3
        else bad ()
      | _ => bad ()
    else bad ()

def decodeItems (b : Bytes) : Str := decodeItemsAux (b.length + 1) (b.map (·.toNat))

end Bip39V
