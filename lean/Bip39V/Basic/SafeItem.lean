/-! Characters the generator tool's `html/template` escaper or the Go lexer treat specially (used by
C17; defined here so that the per-language kernel evaluations can run in parallel modules). -/
namespace Bip39V

/-- characters the escaper or the Go lexer treat specially -/
def safeItem (c : Nat) : Bool :=
  c != 0 && c != 10 && c != 13 && c != 34 && c != 38 && c != 39 && c != 43 && c != 60 && c != 62 && c != 92 &&
    c != 0xFEFF && decide (c < 0x110000)

end Bip39V
