/-! Search-tree certificates: an untrusted balanced tree `key ↦ value` emitted next to each
table.  Soundness never relies on the tree being ordered. -/
namespace Bip39V

inductive T where
  | L : T
  | N (l : T) (k v : Nat) (r : T) : T

def T.find : T → Nat → Option Nat
  | .L, _ => none
  | .N l k v r, x => if x < k then l.find x else if k < x then r.find x else some v

/-- every element of the list, at position `i`, is mapped to `i` by the tree -/
def chk (t : T) : List Nat → Nat → Bool
  | [], _ => true
  | w :: ws, i => (t.find w == some i) && chk t ws (i + 1)

end Bip39V
