import Bip39V.Basic.Str
/-! The item model of Go strings is faithful where the package looks at bytes.

* `utf8_decodeItems`: every byte string — valid UTF-8 or not — is the encoding of the item list the
  driver decodes it into, so a theorem quantified over `Str` covers every Go `string`.
* `splitOn_utf8`: `strings.Split(s, " ")`, which works on bytes, is `splitOn 0x20` on items
  (no byte 0x20 occurs inside the encoding of any other item), for item lists in which an
  "invalid byte" item stands for a byte ≥ 0x80 — which is all `decodeItems` ever produces
  (`decodeItems_wf`). -/
namespace Bip39V

def utf8ItemN (c : Nat) : List Nat :=
  if c < 0x80 then [c]
  else if c < 0x800 then [0xC0 + c / 64, 0x80 + c % 64]
  else if c < 0x10000 then [0xE0 + c / 4096, 0x80 + c / 64 % 64, 0x80 + c % 64]
  else if c < 0x110000 then [0xF0 + c / 262144, 0x80 + c / 4096 % 64, 0x80 + c / 64 % 64, 0x80 + c % 64]
  else [c - 0x110000]

theorem utf8Item_eq (c : Nat) : utf8Item c = (utf8ItemN c).map UInt8.ofNat := by
  unfold utf8Item utf8ItemN
  split; · rfl
  split; · rfl
  split; · rfl
  split <;> rfl

theorem utf8ItemN_ascii (b : Nat) (h : b < 0x80) : utf8ItemN b = [b] := by
  unfold utf8ItemN; rw [if_pos h]

theorem utf8ItemN_bad (b : Nat) : utf8ItemN (0x110000 + b) = [b] := by
  unfold utf8ItemN
  rw [if_neg (by omega), if_neg (by omega), if_neg (by omega), if_neg (by omega)]
  simp

theorem utf8ItemN_2 (b0 b1 : Nat) (h0 : 0xC2 ≤ b0) (h0' : b0 < 0xE0) (h1 : 0x80 ≤ b1) (h1' : b1 < 0xC0) :
    utf8ItemN ((b0 - 0xC0) * 64 + (b1 - 0x80)) = [b0, b1] := by
  unfold utf8ItemN
  rw [if_neg (by omega), if_pos (by omega)]
  simp only [List.cons.injEq, and_true]
  omega

theorem utf8ItemN_3 (b0 b1 b2 : Nat) (h0 : 0xE0 ≤ b0) (h0' : b0 < 0xF0)
    (h1 : (if b0 = 0xE0 then 0xA0 else 0x80) ≤ b1) (h1' : b1 < (if b0 = 0xED then 0xA0 else 0xC0))
    (h2 : 0x80 ≤ b2) (h2' : b2 < 0xC0) :
    utf8ItemN ((b0 - 0xE0) * 4096 + (b1 - 0x80) * 64 + (b2 - 0x80)) = [b0, b1, b2] := by
  have g1 : 0x80 ≤ b1 := by split at h1 <;> omega
  have g1' : b1 < 0xC0 := by split at h1' <;> omega
  have g3 : b0 = 0xE0 → 0xA0 ≤ b1 := by intro h; rw [if_pos h] at h1; exact h1
  unfold utf8ItemN
  rw [if_neg (by omega), if_neg (by omega), if_pos (by omega)]
  simp only [List.cons.injEq, and_true]
  omega

theorem utf8ItemN_4 (b0 b1 b2 b3 : Nat) (h0 : 0xF0 ≤ b0) (h0' : b0 < 0xF5)
    (h1 : (if b0 = 0xF0 then 0x90 else 0x80) ≤ b1) (h1' : b1 < (if b0 = 0xF4 then 0x90 else 0xC0))
    (h2 : 0x80 ≤ b2) (h2' : b2 < 0xC0) (h3 : 0x80 ≤ b3) (h3' : b3 < 0xC0) :
    utf8ItemN ((b0 - 0xF0) * 262144 + (b1 - 0x80) * 4096 + (b2 - 0x80) * 64 + (b3 - 0x80)) = [b0, b1, b2, b3] := by
  have g1 : 0x80 ≤ b1 := by split at h1 <;> omega
  have g1' : b1 < 0xC0 := by split at h1' <;> omega
  have g3 : b0 = 0xF0 → 0x90 ≤ b1 := by intro h; rw [if_pos h] at h1; exact h1
  have g4 : b0 = 0xF4 → b1 < 0x90 := by intro h; rw [if_pos h] at h1'; exact h1'
  unfold utf8ItemN
  rw [if_neg (by omega), if_neg (by omega), if_neg (by omega), if_pos (by omega)]
  simp only [List.cons.injEq, and_true]
  omega

theorem decode_encode_aux (f : Nat) : ∀ l : List Nat, l.length < f → (decodeItemsAux f l).flatMap utf8ItemN = l := by
  induction f with
  | zero => intro l h; omega
  | succ f ih =>
    intro l h
    match l with
    | [] => rfl
    | b0 :: rest =>
      simp only [List.length_cons] at h
      have ihr := ih rest (by omega)
      have hbad : ((0x110000 + b0) :: decodeItemsAux f rest).flatMap utf8ItemN = b0 :: rest := by
        rw [List.flatMap_cons, utf8ItemN_bad, ihr]; rfl
      unfold decodeItemsAux
      simp only []
      split
      · rename_i h1
        rw [List.flatMap_cons, utf8ItemN_ascii b0 h1, ihr]; rfl
      split
      · exact hbad
      split
      · -- two bytes
        rename_i h1 h2 h3
        match rest with
        | [] => exact hbad
        | b1 :: r1 =>
          simp only []
          split
          · rename_i hc
            simp only [Bool.and_eq_true, decide_eq_true_eq] at hc
            rw [List.flatMap_cons, utf8ItemN_2 b0 b1 (by omega) h3 hc.1 hc.2, ih r1 (by simp at h; omega)]; rfl
          · exact hbad
      split
      · -- three bytes
        rename_i h1 h2 h3 h4
        match rest with
        | [] => exact hbad
        | [_] => exact hbad
        | b1 :: b2 :: r2 =>
          simp only []
          have key : ∀ lo hi : Nat, lo = (if b0 = 0xE0 then 0xA0 else 0x80) → hi = (if b0 = 0xED then 0xA0 else 0xC0) →
              (if (decide (lo ≤ b1) && decide (b1 < hi) && (decide (0x80 ≤ b2) && decide (b2 < 0xC0))) = true then
                ((b0 - 0xE0) * 4096 + (b1 - 0x80) * 64 + (b2 - 0x80)) :: decodeItemsAux f r2
              else (0x110000 + b0) :: decodeItemsAux f (b1 :: b2 :: r2)).flatMap utf8ItemN = b0 :: b1 :: b2 :: r2 := by
            intro lo hi hlo hhi
            split
            · rename_i hc
              simp only [Bool.and_eq_true, decide_eq_true_eq] at hc
              subst hlo hhi
              rw [List.flatMap_cons, utf8ItemN_3 b0 b1 b2 (by omega) h4 hc.1.1 hc.1.2 hc.2.1 hc.2.2, ih r2 (by simp at h; omega)]; rfl
            · exact hbad
          exact key _ _ rfl rfl
      split
      · -- four bytes
        rename_i h1 h2 h3 h4 h5
        match rest with
        | [] => exact hbad
        | [_] => exact hbad
        | [_, _] => exact hbad
        | b1 :: b2 :: b3 :: r3 =>
          simp only []
          have key : ∀ lo hi : Nat, lo = (if b0 = 0xF0 then 0x90 else 0x80) → hi = (if b0 = 0xF4 then 0x90 else 0xC0) →
              (if (decide (lo ≤ b1) && decide (b1 < hi) && (decide (0x80 ≤ b2) && decide (b2 < 0xC0)) && (decide (0x80 ≤ b3) && decide (b3 < 0xC0))) = true then
                ((b0 - 0xF0) * 262144 + (b1 - 0x80) * 4096 + (b2 - 0x80) * 64 + (b3 - 0x80)) :: decodeItemsAux f r3
              else (0x110000 + b0) :: decodeItemsAux f (b1 :: b2 :: b3 :: r3)).flatMap utf8ItemN = b0 :: b1 :: b2 :: b3 :: r3 := by
            intro lo hi hlo hhi
            split
            · rename_i hc
              simp only [Bool.and_eq_true, decide_eq_true_eq] at hc
              subst hlo hhi
              rw [List.flatMap_cons, utf8ItemN_4 b0 b1 b2 b3 (by omega) h5 hc.1.1.1 hc.1.1.2 hc.1.2.1 hc.1.2.2 hc.2.1 hc.2.2,
                ih r3 (by simp at h; omega)]; rfl
            · exact hbad
          exact key _ _ rfl rfl
      · exact hbad

/-- **every Go string is represented**: decoding a byte string into items and encoding the items
gives the byte string back, for all byte strings (valid UTF-8 or not) -/
theorem utf8_decodeItems (b : Bytes) : utf8 (decodeItems b) = b := by
  unfold utf8 decodeItems
  have h := decode_encode_aux (b.length + 1) (b.map (·.toNat)) (by simp)
  have : (decodeItemsAux (b.length + 1) (b.map (·.toNat))).flatMap utf8Item =
      ((decodeItemsAux (b.length + 1) (b.map (·.toNat))).flatMap utf8ItemN).map UInt8.ofNat := by
    rw [List.map_flatMap]; congr 1; funext c; exact utf8Item_eq c
  rw [this, h, List.map_map]
  have : (UInt8.ofNat ∘ fun (x : UInt8) => x.toNat) = id := by
    funext x; simp
  rw [this, List.map_id]

/-- `strings.Split(s, sep)` on bytes, for a one-byte separator -/
def splitBytes (sep : UInt8) : Bytes → List Bytes
  | [] => [[]]
  | c :: cs =>
    if c = sep then [] :: splitBytes sep cs
    else match splitBytes sep cs with
      | [] => [[c]]
      | w :: ws => (c :: w) :: ws

theorem splitBytes_ne_nil (sep : UInt8) (b : Bytes) : splitBytes sep b ≠ [] := by
  cases b with
  | nil => simp [splitBytes]
  | cons c cs =>
    simp only [splitBytes]
    split
    · simp
    · split <;> simp

/-- prefixing bytes that are not the separator extends the first field -/
theorem splitBytes_prefix (sep : UInt8) (p : Bytes) (hp : ∀ x ∈ p, x ≠ sep) (b : Bytes) :
    splitBytes sep (p ++ b) = match splitBytes sep b with
      | [] => [p]
      | w :: ws => (p ++ w) :: ws := by
  induction p with
  | nil =>
    simp only [List.nil_append]
    cases h : splitBytes sep b with
    | nil => exact absurd h (splitBytes_ne_nil sep b)
    | cons w ws => rfl
  | cons c cs ih =>
    have hc : c ≠ sep := hp c (by simp)
    simp only [List.cons_append, splitBytes, hc, if_false]
    rw [ih (fun x hx => hp x (by simp [hx]))]
    cases h : splitBytes sep b with
    | nil => exact absurd h (splitBytes_ne_nil sep b)
    | cons w ws => rfl

/-- an item list in which "invalid byte" items stand for bytes ≥ 0x80 (what decoding produces) -/
def WF (s : Str) : Prop := ∀ c ∈ s, c < 0x110000 ∨ (0x110080 ≤ c ∧ c < 0x110100)

theorem utf8Item_no_space (c : Nat) (hc : c ≠ 0x20) (hw : c < 0x110000 ∨ (0x110080 ≤ c ∧ c < 0x110100)) :
    ∀ x ∈ utf8Item c, x ≠ 0x20 := by
  intro x hx
  rw [utf8Item_eq] at hx
  obtain ⟨n, hn, rfl⟩ := List.mem_map.mp hx
  have key : n < 256 ∧ n ≠ 0x20 := by
    unfold utf8ItemN at hn
    split at hn
    · simp at hn; omega
    split at hn
    · simp at hn; omega
    split at hn
    · simp at hn; omega
    split at hn
    · simp at hn; omega
    · simp at hn; omega
  intro h
  have := congrArg UInt8.toNat h
  simp [UInt8.toNat_ofNat'] at this
  omega

/-- **`strings.Split(s, " ")` on the bytes is `splitOn 0x20` on the items** -/
theorem splitOn_utf8 (s : Str) (h : WF s) : (splitOn 0x20 s).map utf8 = splitBytes 0x20 (utf8 s) := by
  induction s with
  | nil => rfl
  | cons c cs ih =>
    have ihc := ih (fun x hx => h x (by simp [hx]))
    by_cases hc : c = 0x20
    · subst hc
      have : utf8 (0x20 :: cs) = 0x20 :: utf8 cs := rfl
      simp only [splitOn, if_true, List.map_cons, this, splitBytes, ihc]
      rfl
    · have hu : utf8 (c :: cs) = utf8Item c ++ utf8 cs := rfl
      rw [hu, splitBytes_prefix 0x20 _ (utf8Item_no_space c hc (h c (by simp))), ← ihc]
      simp only [splitOn, hc, if_false]
      cases hs : splitOn 0x20 cs with
      | nil => simp [utf8]
      | cons w ws => rfl

theorem decodeItemsAux_wf (f : Nat) : ∀ l : List Nat, (∀ x ∈ l, x < 256) → WF (decodeItemsAux f l) := by
  induction f with
  | zero => intro l _ c hc; simp [decodeItemsAux] at hc
  | succ f ih =>
    intro l hl
    match l with
    | [] => intro c hc; simp [decodeItemsAux] at hc
    | b0 :: rest =>
      have hb0 : b0 < 256 := hl b0 (by simp)
      have hrest : ∀ x ∈ rest, x < 256 := fun x hx => hl x (by simp [hx])
      have tl : ∀ r : List Nat, (∀ x ∈ r, x < 256) → ∀ v, (v < 0x110000 ∨ (0x110080 ≤ v ∧ v < 0x110100)) → WF (v :: decodeItemsAux f r) := by
        intro r hr v hv c hc
        rcases List.mem_cons.mp hc with rfl | hc
        · exact hv
        · exact ih r hr c hc
      unfold decodeItemsAux
      simp only []
      split
      · exact tl rest hrest b0 (by omega)
      split
      · exact tl rest hrest _ (by omega)
      split
      · match rest with
        | [] => exact tl [] (by simp) _ (by omega)
        | b1 :: r1 =>
          have hb1 : b1 < 256 := hrest b1 (by simp)
          simp only []
          split
          · exact tl r1 (fun x hx => hrest x (by simp [hx])) _ (by omega)
          · exact tl _ hrest _ (by omega)
      split
      · match rest with
        | [] => exact tl [] (by simp) _ (by omega)
        | [b1] => exact tl _ hrest _ (by omega)
        | b1 :: b2 :: r2 =>
          have hb1 : b1 < 256 := hrest b1 (by simp)
          have hb2 : b2 < 256 := hrest b2 (by simp)
          simp only []
          have key : ∀ cnd : Bool, WF (if cnd = true then ((b0 - 0xE0) * 4096 + (b1 - 0x80) * 64 + (b2 - 0x80)) :: decodeItemsAux f r2
              else (0x110000 + b0) :: decodeItemsAux f (b1 :: b2 :: r2)) := by
            intro cnd
            split
            · exact tl r2 (fun x hx => hrest x (by simp [hx])) _ (by omega)
            · exact tl _ hrest _ (by omega)
          exact key _
      split
      · match rest with
        | [] => exact tl [] (by simp) _ (by omega)
        | [b1] => exact tl _ hrest _ (by omega)
        | [b1, b2] => exact tl _ hrest _ (by omega)
        | b1 :: b2 :: b3 :: r3 =>
          have hb1 : b1 < 256 := hrest b1 (by simp)
          have hb2 : b2 < 256 := hrest b2 (by simp)
          have hb3 : b3 < 256 := hrest b3 (by simp)
          simp only []
          have key : ∀ lo hi : Nat, hi = (if b0 = 0xF4 then 0x90 else 0xC0) →
              WF (if (decide (lo ≤ b1) && decide (b1 < hi) && (decide (0x80 ≤ b2) && decide (b2 < 0xC0)) && (decide (0x80 ≤ b3) && decide (b3 < 0xC0))) = true then
                ((b0 - 0xF0) * 262144 + (b1 - 0x80) * 4096 + (b2 - 0x80) * 64 + (b3 - 0x80)) :: decodeItemsAux f r3
              else (0x110000 + b0) :: decodeItemsAux f (b1 :: b2 :: b3 :: r3)) := by
            intro lo hi hhi
            split
            · rename_i hc
              simp only [Bool.and_eq_true, decide_eq_true_eq] at hc
              have h4 : b0 = 0xF4 → b1 < 0x90 := by intro h4; rw [hhi, if_pos h4] at hc; exact hc.1.1.2
              have h5 : b1 < 0xC0 := by have := hc.1.1.2; rw [hhi] at this; split at this <;> omega
              exact tl r3 (fun x hx => hrest x (by simp [hx])) _ (by omega)
            · exact tl _ hrest _ (by omega)
          exact key _ _ rfl
      · exact tl rest hrest _ (by omega)

/-- decoding only ever produces well-formed item lists -/
theorem decodeItems_wf (b : Bytes) : WF (decodeItems b) := by
  unfold decodeItems
  apply decodeItemsAux_wf
  intro x hx
  obtain ⟨y, _, rfl⟩ := List.mem_map.mp hx
  exact y.toNat_lt

/-- a Unicode scalar value -/
def isScalar (c : Nat) : Prop := c < 0xD800 ∨ (0xE000 ≤ c ∧ c < 0x110000)
def Scalar (s : Str) : Prop := ∀ c ∈ s, isScalar c

theorem decodeItemsAux_cons (f b0 : Nat) (rest : List Nat) : decodeItemsAux (f + 1) (b0 :: rest) =
    (let bad := fun (_ : Unit) => (0x110000 + b0) :: decodeItemsAux f rest
    let cont (b : Nat) : Bool := 0x80 ≤ b && b < 0xC0
    if b0 < 0x80 then b0 :: decodeItemsAux f rest
    else if b0 < 0xC2 then bad ()
    else if b0 < 0xE0 then
      match rest with
      | b1 :: r1 => if cont b1 then ((b0 - 0xC0) * 64 + (b1 - 0x80)) :: decodeItemsAux f r1 else bad ()
      | _ => bad ()
    else if b0 < 0xF0 then
      match rest with
      | b1 :: b2 :: r2 =>
        let lo := if b0 = 0xE0 then 0xA0 else 0x80
        let hi := if b0 = 0xED then 0xA0 else 0xC0
        if lo ≤ b1 && b1 < hi && cont b2 then
          ((b0 - 0xE0) * 4096 + (b1 - 0x80) * 64 + (b2 - 0x80)) :: decodeItemsAux f r2
        else bad ()
      | _ => bad ()
    else if b0 < 0xF5 then
      match rest with
      | b1 :: b2 :: b3 :: r3 =>
        let lo := if b0 = 0xF0 then 0x90 else 0x80
        let hi := if b0 = 0xF4 then 0x90 else 0xC0
        if lo ≤ b1 && b1 < hi && cont b2 && cont b3 then
          ((b0 - 0xF0) * 262144 + (b1 - 0x80) * 4096 + (b2 - 0x80) * 64 + (b3 - 0x80)) :: decodeItemsAux f r3
        else bad ()
      | _ => bad ()
    else bad ()) := rfl

set_option maxRecDepth 8000 in
/-- decoding the encoding of a scalar value gives the scalar value back, whatever follows -/
theorem decode_utf8ItemN (f : Nat) (c : Nat) (hc : isScalar c) (rest : List Nat) (hf : 0 < f) :
    ∃ f', f' + 1 = f ∧ decodeItemsAux f (utf8ItemN c ++ rest) = c :: decodeItemsAux f' rest := by
  obtain ⟨f', rfl⟩ : ∃ f', f = f' + 1 := ⟨f - 1, by omega⟩
  refine ⟨f', rfl, ?_⟩
  unfold isScalar at hc
  unfold utf8ItemN
  split
  · rename_i h1
    simp only [List.singleton_append]
    rw [decodeItemsAux_cons]
    simp only [h1, if_true]
  split
  · rename_i h1 h2
    simp only [List.cons_append, List.nil_append]
    rw [decodeItemsAux_cons]
    simp only []
    rw [if_neg (by omega), if_neg (by omega), if_pos (by omega)]
    have hcont : (decide (0x80 ≤ 0x80 + c % 64) && decide (0x80 + c % 64 < 0xC0)) = true := by
      simp only [Bool.and_eq_true, decide_eq_true_eq]; omega
    rw [if_pos hcont]
    congr 1; omega
  split
  · rename_i h1 h2 h3
    simp only [List.cons_append, List.nil_append]
    rw [decodeItemsAux_cons]
    simp only []
    rw [if_neg (by omega), if_neg (by omega), if_neg (by omega), if_pos (by omega)]
    have hcond : (decide ((if 0xE0 + c / 4096 = 0xE0 then 0xA0 else 0x80) ≤ 0x80 + c / 64 % 64) &&
        decide (0x80 + c / 64 % 64 < (if 0xE0 + c / 4096 = 0xED then 0xA0 else 0xC0)) &&
        (decide (0x80 ≤ 0x80 + c % 64) && decide (0x80 + c % 64 < 0xC0))) = true := by
      simp only [Bool.and_eq_true, decide_eq_true_eq]
      refine ⟨⟨?_, ?_⟩, by omega, by omega⟩
      · split <;> omega
      · split <;> omega
    rw [if_pos hcond]
    congr 1; omega
  split
  · rename_i h1 h2 h3 h4
    simp only [List.cons_append, List.nil_append]
    rw [decodeItemsAux_cons]
    simp only []
    rw [if_neg (by omega), if_neg (by omega), if_neg (by omega), if_neg (by omega), if_pos (by omega)]
    have hcond : (decide ((if 0xF0 + c / 262144 = 0xF0 then 0x90 else 0x80) ≤ 0x80 + c / 4096 % 64) &&
        decide (0x80 + c / 4096 % 64 < (if 0xF0 + c / 262144 = 0xF4 then 0x90 else 0xC0)) &&
        (decide (0x80 ≤ 0x80 + c / 64 % 64) && decide (0x80 + c / 64 % 64 < 0xC0)) &&
        (decide (0x80 ≤ 0x80 + c % 64) && decide (0x80 + c % 64 < 0xC0))) = true := by
      simp only [Bool.and_eq_true, decide_eq_true_eq]
      refine ⟨⟨⟨?_, ?_⟩, by omega, by omega⟩, by omega, by omega⟩
      · split <;> omega
      · split <;> omega
    rw [if_pos hcond]
    congr 1; omega
  · omega

theorem utf8ItemN_ne_nil (c : Nat) : utf8ItemN c ≠ [] := by
  unfold utf8ItemN; split; · simp
  split; · simp
  split; · simp
  split <;> simp

theorem utf8ItemN_lt (c : Nat) (hc : isScalar c) : ∀ x ∈ utf8ItemN c, x < 256 := by
  unfold isScalar at hc
  unfold utf8ItemN
  intro x hx
  split at hx
  · simp at hx; omega
  split at hx
  · simp at hx; omega
  split at hx
  · simp at hx; omega
  split at hx
  · simp at hx; omega
  · omega

theorem decode_encode_scalar (s : Str) (hs : Scalar s) : ∀ f, (s.flatMap utf8ItemN).length < f →
    decodeItemsAux f (s.flatMap utf8ItemN) = s := by
  induction s with
  | nil => intro f _; cases f <;> rfl
  | cons c cs ih =>
    intro f hf
    simp only [List.flatMap_cons, List.length_append] at hf ⊢
    obtain ⟨f', hf', heq⟩ := decode_utf8ItemN f c (hs c (by simp)) (cs.flatMap utf8ItemN) (by omega)
    rw [heq, ih (fun x hx => hs x (by simp [hx])) f' (by
      have : 0 < (utf8ItemN c).length := List.length_pos_iff.mpr (utf8ItemN_ne_nil c)
      omega)]

/-- a list of scalar values is what its own encoding decodes to -/
theorem decodeItems_utf8 (s : Str) (hs : Scalar s) : decodeItems (utf8 s) = s := by
  unfold decodeItems
  have hmap : (utf8 s).map (·.toNat) = s.flatMap utf8ItemN := by
    unfold utf8
    rw [List.map_flatMap]
    have hcongr : ∀ (l : Str), (∀ c ∈ l, isScalar c) →
        l.flatMap (fun c => (utf8Item c).map (fun (x : UInt8) => x.toNat)) = l.flatMap utf8ItemN := by
      intro l hl
      induction l with
      | nil => rfl
      | cons c t ih =>
        simp only [List.flatMap_cons]
        rw [ih (fun x hx => hl x (by simp [hx]))]
        congr 1
        rw [utf8Item_eq, List.map_map]
        have hlt := utf8ItemN_lt c (hl c (by simp))
        have : ∀ l : List Nat, (∀ x ∈ l, x < 256) → l.map ((fun (x : UInt8) => x.toNat) ∘ UInt8.ofNat) = l := by
          intro l hl
          induction l with
          | nil => rfl
          | cons a t ih =>
            have ha : a < 256 := hl a (by simp)
            simp only [List.map_cons, Function.comp, ih (fun x hx => hl x (by simp [hx]))]
            congr 1
            simp [UInt8.toNat_ofNat']; omega
        exact this _ hlt
    exact hcongr s hs
  rw [hmap]
  apply decode_encode_scalar s hs
  rw [← hmap]; simp

/-- **string equality**: two lists of scalar values are equal iff their encodings are — so a map
lookup by Go string key is the model's lookup by item list, for valid UTF-8 -/
theorem utf8_inj_scalar (a b : Str) (ha : Scalar a) (hb : Scalar b) (h : utf8 a = utf8 b) : a = b := by
  rw [← decodeItems_utf8 a ha, ← decodeItems_utf8 b hb, h]

theorem mem_of_mem_splitOn (sep : Nat) (s : Str) : ∀ t ∈ splitOn sep s, ∀ c ∈ t, c ∈ s := by
  induction s with
  | nil => intro t ht c hc; simp [splitOn] at ht; subst ht; simp at hc
  | cons x xs ih =>
    intro t ht c hc
    simp only [splitOn] at ht
    split at ht
    · rcases List.mem_cons.mp ht with rfl | ht
      · simp at hc
      · exact List.mem_cons_of_mem _ (ih t ht c hc)
    · split at ht
      · simp at ht; subst ht; simp at hc; subst hc; simp
      · rename_i w ws hw
        rcases List.mem_cons.mp ht with rfl | ht
        · rcases List.mem_cons.mp hc with rfl | hc
          · simp
          · exact List.mem_cons_of_mem _ (ih w (by rw [hw]; simp) c hc)
        · exact List.mem_cons_of_mem _ (ih t (by rw [hw]; exact List.mem_cons_of_mem _ ht) c hc)

theorem scalar_of_token (sep : Nat) (s : Str) (hs : Scalar s) : ∀ t ∈ splitOn sep s, Scalar t :=
  fun t ht c hc => hs c (mem_of_mem_splitOn sep s t ht c hc)


#print axioms utf8_decodeItems
#print axioms splitOn_utf8
#print axioms decodeItems_wf
end Bip39V
