import Bip39V.Lemmas.Arith
import Bip39V.Spec.Bip39
/-! More bit-string facts: groups of any width, 11-bit groups of indices, bytes from bits. -/
namespace Bip39V

theorem peelBase_succ (d k n : Nat) : peelBase d (k + 1) n = peelBase d k (n / d) ++ [n % d] := rfl

theorem peelBase_length (d k n : Nat) : (peelBase d k n).length = k := by
  induction k generalizing n with
  | zero => rfl
  | succ m ih => simp [peelBase_succ, ih]

/-- cutting a bit string into `w`-bit groups is peeling base-`2^w` digits -/
theorem chunks_peelBase (w : Nat) (hw : 0 < w) (k : Nat) (l : List Bool) (h : l.length = w * k) :
    (chunksN w k l).map ofBits = peelBase (2 ^ w) k (ofBits l) := by
  induction k generalizing l with
  | zero => simp [chunksN, peelBase]
  | succ m ih =>
    have hsplit : l = l.take (w * m) ++ l.drop (w * m) := (List.take_append_drop _ _).symm
    have hlen : w * m ≤ l.length := by rw [h, Nat.mul_succ]; omega
    have ha : (l.take (w * m)).length = w * m := by simp [List.length_take]; omega
    have hb : (l.drop (w * m)).length = w := by simp [List.length_drop, h, Nat.mul_succ]
    rw [hsplit, chunksN_append_last w m _ _ ha hb hw]
    rw [List.map_append, ih _ ha, ofBits_append, hb]
    have hlt := ofBits_lt (l.drop (w * m))
    rw [hb] at hlt
    have hp : 0 < 2 ^ w := Nat.two_pow_pos w
    simp only [peelBase_succ, List.map_cons, List.map_nil]
    have h1 : (ofBits (l.take (w * m)) * 2 ^ w + ofBits (l.drop (w * m))) / 2 ^ w = ofBits (l.take (w * m)) := by
      rw [Nat.mul_comm, Nat.mul_add_div hp, Nat.div_eq_of_lt hlt]; simp
    have h2 : (ofBits (l.take (w * m)) * 2 ^ w + ofBits (l.drop (w * m))) % 2 ^ w = ofBits (l.drop (w * m)) := by
      rw [Nat.mul_comm, Nat.mul_add_mod, Nat.mod_eq_of_lt hlt]
    rw [h1, h2]

/-- bit strings of equal length with equal value are equal -/
theorem ofBits_inj : ∀ (a b : List Bool), a.length = b.length → ofBits a = ofBits b → a = b := by
  intro a
  induction a with
  | nil => intro b hl _; exact (List.eq_nil_of_length_eq_zero hl.symm).symm
  | cons x xs ih =>
    intro b hl hv
    cases b with
    | nil => simp at hl
    | cons y ys =>
      have hl' : xs.length = ys.length := by simpa using hl
      have hx := ofBits_append [x] xs
      have hy := ofBits_append [y] ys
      simp only [List.singleton_append] at hx hy
      rw [hx, hy, hl'] at hv
      have h1 := ofBits_lt xs
      have h2 := ofBits_lt ys
      rw [hl'] at h1
      have hp : 0 < 2 ^ ys.length := Nat.two_pow_pos _
      have hbx : ofBits [x] = x.toNat := by simp [ofBits]
      have hby : ofBits [y] = y.toNat := by simp [ofBits]
      rw [hbx, hby] at hv
      have hxy : x.toNat = y.toNat := by
        have e1 : (x.toNat * 2 ^ ys.length + ofBits xs) / 2 ^ ys.length = x.toNat := by
          rw [Nat.mul_comm, Nat.mul_add_div hp, Nat.div_eq_of_lt h1]; simp
        have e2 : (y.toNat * 2 ^ ys.length + ofBits ys) / 2 ^ ys.length = y.toNat := by
          rw [Nat.mul_comm, Nat.mul_add_div hp, Nat.div_eq_of_lt h2]; simp
        rw [← e1, ← e2, hv]
      have hrest : ofBits xs = ofBits ys := by rw [hxy] at hv; omega
      have : x = y := by cases x <;> cases y <;> simp_all
      rw [this, ih ys hl' hrest]

theorem chunksN_flatten (w k : Nat) (l : List α) (h : l.length = w * k) : (chunksN w k l).flatten = l := by
  induction k generalizing l with
  | zero => simp [chunksN]; exact List.eq_nil_of_length_eq_zero (by simpa using h)
  | succ m ih =>
    simp only [chunksN, List.flatten_cons]
    rw [ih (l.drop w) (by simp [h, Nat.mul_succ]), List.take_append_drop]

theorem chunksN_all_length (w k : Nat) (l : List α) (h : l.length = w * k) : ∀ c ∈ chunksN w k l, c.length = w := by
  induction k generalizing l with
  | zero => simp [chunksN]
  | succ m ih =>
    intro c hc
    simp only [chunksN, List.mem_cons] at hc
    rcases hc with rfl | hc
    · simp [List.length_take, h, Nat.mul_succ]
    · exact ih (l.drop w) (by simp [h, Nat.mul_succ]) c hc

namespace Spec

theorem bits11_length (i : Nat) : (bits11 i).length = 11 := by simp [bits11]

theorem ofBits_bits11 (i : Nat) (h : i < 2048) : ofBits (bits11 i) = i := by
  have : ∀ i < 2048, ofBits ((List.range 11).map (fun k => i.testBit (10 - k))) = i := by decide +kernel
  exact this i h

/-- the 11-bit group of the value of an 11-bit string is that string -/
theorem bits11_ofBits (c : List Bool) (h : c.length = 11) : bits11 (ofBits c) = c := by
  apply ofBits_inj
  · rw [bits11_length, h]
  · have := ofBits_lt c
    rw [h] at this
    exact ofBits_bits11 _ this

theorem flatMap_bits11_length (idxs : List Nat) : (idxs.flatMap bits11).length = 11 * idxs.length := by
  induction idxs with
  | nil => rfl
  | cons i t ih => simp [List.flatMap_cons, bits11_length, ih]; omega

theorem ofBits_flatMap_bits11 (idxs : List Nat) (h : ∀ i ∈ idxs, i < 2048) :
    ofBits (idxs.flatMap bits11) = unpeel idxs := by
  induction idxs with
  | nil => rfl
  | cons i t ih =>
    rw [List.flatMap_cons, ofBits_append, ofBits_bits11 i (h i List.mem_cons_self),
      ih (fun x hx => h x (List.mem_cons_of_mem _ hx)), flatMap_bits11_length, unpeel_cons, Nat.pow_mul]

/-- re-expanding the groups of a bit string gives the bit string back -/
theorem flatMap_bits11_chunks (k : Nat) (l : List Bool) (h : l.length = 11 * k) :
    ((chunksN 11 k l).map ofBits).flatMap bits11 = l := by
  have key : ∀ (cs : List (List Bool)), (∀ c ∈ cs, c.length = 11) → (cs.map ofBits).flatMap bits11 = cs.flatten := by
    intro cs
    induction cs with
    | nil => intro _; rfl
    | cons c t ih =>
      intro hc
      rw [List.map_cons, List.flatMap_cons, List.flatten_cons, bits11_ofBits c (hc c List.mem_cons_self),
        ih (fun x hx => hc x (List.mem_cons_of_mem _ hx))]
  rw [key _ (chunksN_all_length 11 k l h), chunksN_flatten 11 k l h]

end Spec

theorem toBytesFixed_eq_peelBase (k n : Nat) : toBytesFixed k n = (peelBase 256 k n).map UInt8.ofNat := by
  induction k generalizing n with
  | zero => rfl
  | succ m ih => simp [toBytesFixed, peelBase_succ, ih]

/-- packing a bit string of `8k` bits gives the fixed-width bytes of its value -/
theorem packBytes_eq (k : Nat) (l : List Bool) (h : l.length = 8 * k) : packBytes l = toBytesFixed k (ofBits l) := by
  unfold packBytes
  rw [h, Nat.mul_div_cancel_left _ (by decide : 0 < 8)]
  rw [toBytesFixed_eq_peelBase, ← chunks_peelBase 8 (by decide) k l h, List.map_map]
  rfl

theorem packBytes_bits (e : Bytes) : packBytes (bits e) = e := by
  rw [packBytes_eq e.length (bits e) (bits_length e), ofBits_bits, toBytesFixed_beNat]

end Bip39V
