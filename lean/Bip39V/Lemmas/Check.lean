import Bip39V.Lemmas.Bits2
import Bip39V.Lemmas.Gates
import Bip39V.Lemmas.Lists
/-! The validator: `checkTokens` (the body of `CheckMnemonic` after normalisation and splitting)
over the map of a duplicate-free 2048-word list is the specification's classification. -/
namespace Bip39V
open Model

/-- `checkTokens` with the constants of mnemonic.go written out; tied to the regenerated constants
by `rfl` -/
def checkTokensLit (D : Bytes → Bytes) (m : Option Nat) (toks : List Str) : Res Unit :=
  let wc := toks.length
  if wcGate wc then .err .wordLen
  else
    match sumWords m wc toks 0 0 with
    | .error (w, pos) => .err (.unknownWord w pos)
    | .ok entBig =>
      let cs := wc / 3
      let shift := 1 <<< cs
      let csBig := entBig &&& (shift - 1)
      if shift = 0 then .panic .divByZero
      else
        let ent := entBig / shift
        let width := wc / 3 * 4
        if byteLen ent > width then .panic .fillBytesOverflow
        else
          let entBytes := toBytesFixed width ent
          match goSlice (D entBytes) 0 1 with
          | none => .panic .sliceOutOfRange
          | some first =>
            let cs2 := wc / 3
            if cs2 > 8 then .panic .divByZero
            else
              let d := 1 <<< (8 - cs2)
              if d = 0 then .panic .divByZero
              else if beNat first / d ≠ csBig then .err .checksum
              else .ok ()

theorem checkTokens_lit : @checkTokens = @checkTokensLit := rfl

theorem bitsPerWord_eq : Gen.CheckMnemonic.bitsPerWord.toNat = 11 := rfl

/-- the plain-search index and the Go map agree on a duplicate-free list -/
theorem goMap_eq_idxOf (ws : List Str) (hn : ws.Nodup) (w : Str) : goMap ws 0 w = Spec.idxOf ws w := by
  unfold Spec.idxOf
  by_cases hm : w ∈ ws
  · have hlt : ws.idxOf w < ws.length := List.idxOf_lt_length_of_mem hm
    simp only [hlt, if_true]
    have := goMap_of_nodup ws hn 0 (ws.idxOf w) hlt
    rw [List.getElem_idxOf hlt] at this
    simpa using this
  · have hge : ¬ ws.idxOf w < ws.length := by
      rw [List.idxOf_lt_length_iff]; exact hm
    simp only [hge, if_false]
    exact goMap_none_of_not_mem ws 0 w hm

theorem idxOf_lt (ws : List Str) (w : Str) (i : Nat) (h : Spec.idxOf ws w = some i) : i < ws.length := by
  unfold Spec.idxOf at h
  split at h
  · injection h with h; omega
  · cases h

theorem idxOf_getElem (ws : List Str) (w : Str) (i : Nat) (h : Spec.idxOf ws w = some i) : ws[i]? = some w := by
  unfold Spec.idxOf at h
  split at h
  · rename_i hlt
    injection h with h; subst h
    rw [List.getElem?_eq_getElem hlt]
    congr 1
    exact List.getElem_idxOf hlt
  · cases h

theorem idxOf_isSome_iff (ws : List Str) (w : Str) : (Spec.idxOf ws w).isSome ↔ w ∈ ws := by
  unfold Spec.idxOf
  rw [← List.idxOf_lt_length_iff]
  split <;> simp_all

/-- Σ idx_j · 2^((wc - (pos+j) - 1)·11): what the word loop accumulates -/
def shiftSumAt (wc : Nat) : Nat → List Nat → Nat
  | _, [] => 0
  | pos, i :: t => (i <<< ((wc - pos - 1) * 11)) + shiftSumAt wc (pos + 1) t

theorem shiftSumAt_eq_unpeel (wc pos : Nat) (idxs : List Nat) (h : pos + idxs.length = wc) :
    shiftSumAt wc pos idxs = unpeel idxs := by
  induction idxs generalizing pos with
  | nil => rfl
  | cons i t ih =>
    have h1 : wc - pos - 1 = t.length := by simp at h; omega
    rw [shiftSumAt, ih (pos + 1) (by simp at h ⊢; omega), unpeel_cons, h1, Nat.shiftLeft_eq, Nat.mul_comm t.length 11, Nat.pow_mul]

/-- the word loop: either it stops at the first unknown token, or it delivers the shifted sum of
the indices of all tokens -/
theorem sumWords_spec (ws : List Str) (t : Nat) (hw : Model.words t = ws) (hn : ws.Nodup) (wc : Nat) (toks : List Str) (pos acc : Nat) :
    (∀ u i, Spec.firstUnknown ws toks pos = some (u, i) → sumWords (some t) wc toks pos acc = .error (u, i)) ∧
    (Spec.firstUnknown ws toks pos = none → ∃ idxs, toks.mapM (Spec.idxOf ws) = some idxs ∧
        sumWords (some t) wc toks pos acc = .ok (acc + shiftSumAt wc pos idxs)) := by
  induction toks generalizing pos acc with
  | nil =>
    refine ⟨fun u i h => by simp [Spec.firstUnknown] at h, fun _ => ⟨[], rfl, by simp [sumWords, shiftSumAt]⟩⟩
  | cons w rest ih =>
    have hlk : mapLookup (some t) w = Spec.idxOf ws w := by
      unfold mapLookup; simp only [hw]; exact goMap_eq_idxOf ws hn w
    cases hidx : Spec.idxOf ws w with
    | none =>
      constructor
      · intro u i h
        simp only [Spec.firstUnknown, hidx, Option.isSome_none, Bool.false_eq_true, if_false] at h
        injection h with h; injection h with h1 h2; subst h1 h2
        simp [sumWords, hlk, hidx]
      · intro h
        simp [Spec.firstUnknown, hidx] at h
    | some k =>
      obtain ⟨ih1, ih2⟩ := ih (pos + 1) (acc + (k <<< ((wc - pos - 1) * 11)))
      constructor
      · intro u i h
        simp only [Spec.firstUnknown, hidx, Option.isSome_some, if_true] at h
        simp only [sumWords, hlk, hidx, bitsPerWord_eq]
        exact ih1 u i h
      · intro h
        simp only [Spec.firstUnknown, hidx, Option.isSome_some, if_true] at h
        obtain ⟨idxs, hm, hs⟩ := ih2 h
        refine ⟨k :: idxs, by simp [List.mapM_cons, hidx, hm], ?_⟩
        simp only [sumWords, hlk, hidx, bitsPerWord_eq, hs, shiftSumAt]
        congr 1; omega

theorem mapM_idxOf_lt (ws : List Str) (toks : List Str) (idxs : List Nat) (h : toks.mapM (Spec.idxOf ws) = some idxs) :
    idxs.length = toks.length ∧ ∀ i ∈ idxs, i < ws.length := by
  induction toks generalizing idxs with
  | nil => simp at h; subst h; simp
  | cons w rest ih =>
    rw [List.mapM_cons] at h
    cases hw : Spec.idxOf ws w with
    | none => simp [hw] at h
    | some k =>
      cases hr : rest.mapM (Spec.idxOf ws) with
      | none => simp [hw, hr] at h
      | some ks =>
        simp [hw, hr] at h; subst h
        obtain ⟨h1, h2⟩ := ih ks hr
        refine ⟨by simp [h1], ?_⟩
        intro i hi
        rcases List.mem_cons.mp hi with rfl | hi
        · exact idxOf_lt ws w _ hw
        · exact h2 i hi

theorem validWordCount_iff (n : Nat) : Spec.ValidWordCount n ↔ wcGate (n : Int) = false := by
  rw [wcGate_iff]; unfold Spec.ValidWordCount; omega

/-- **the validator is the specification's classification**, for every digest function, every
token list, over any table that is the canonical list of `L` -/
theorem checkTokens_eq_classify (D : Bytes → Bytes) (hD : ∀ x, (D x).length = 32) (L : Spec.Lang) (t : Nat)
    (hw : Model.words t = L.words) (hn : L.words.Nodup) (hl : L.words.length = 2048) (toks : List Str) :
    checkTokens D (some t) toks = Spec.classify D L toks := by
  rw [checkTokens_lit]
  unfold checkTokensLit Spec.classify
  by_cases hv : Spec.ValidWordCount toks.length
  · have hg : wcGate (toks.length : Int) = false := (validWordCount_iff _).mp hv
    simp only [hg, Bool.false_eq_true, if_false, hv, not_true_eq_false]
    obtain ⟨s1, s2⟩ := sumWords_spec L.words t hw hn toks.length toks 0 0
    cases hfu : Spec.firstUnknown L.words toks 0 with
    | some ui =>
      obtain ⟨u, i⟩ := ui
      rw [s1 u i hfu]
    | none =>
      obtain ⟨idxs, hm, hs⟩ := s2 hfu
      obtain ⟨hlen, hlt⟩ := mapM_idxOf_lt L.words toks idxs hm
      rw [hl] at hlt
      rw [hs, Nat.zero_add, shiftSumAt_eq_unpeel _ 0 idxs (by omega)]
      -- arithmetic facts
      obtain ⟨cs, hn3, hcs4, hcs8⟩ : ∃ cs, toks.length = 3 * cs ∧ 4 ≤ cs ∧ cs ≤ 8 := by
        rcases hv with h | h | h | h | h <;> exact ⟨toks.length / 3, by omega, by omega, by omega⟩
      have hdiv : toks.length / 3 = cs := by omega
      have hbig : unpeel idxs < 2048 ^ idxs.length := unpeel_lt idxs hlt
      have hshift : (1 : Nat) <<< cs = 2 ^ cs := by rw [Nat.shiftLeft_eq]; simp
      have hshift2 : (1 : Nat) <<< (8 - cs) = 2 ^ (8 - cs) := by rw [Nat.shiftLeft_eq]; simp
      have hp : 2 ^ cs ≠ 0 := Nat.pos_iff_ne_zero.mp (Nat.two_pow_pos _)
      have hp2 : 2 ^ (8 - cs) ≠ 0 := Nat.pos_iff_ne_zero.mp (Nat.two_pow_pos _)
      have hand : unpeel idxs &&& (2 ^ cs - 1) = unpeel idxs % 2 ^ cs := Nat.and_two_pow_sub_one_eq_mod _ _
      have hpow : (2048 : Nat) ^ idxs.length = 2 ^ (32 * cs) * 2 ^ cs := by
        rw [hlen, hn3, ← Nat.pow_add]
        have : (2048 : Nat) = 2 ^ 11 := by decide
        rw [this, ← Nat.pow_mul]; congr 1; omega
      have hent : unpeel idxs / 2 ^ cs < 256 ^ (cs * 4) := by
        have h256 : (256 : Nat) ^ (cs * 4) = 2 ^ (32 * cs) := by
          have : (256 : Nat) = 2 ^ 8 := by decide
          rw [this, ← Nat.pow_mul]; congr 1; omega
        rw [h256]
        apply Nat.div_lt_of_lt_mul
        rw [Nat.mul_comm, ← hpow]; exact hbig
      have hbl : ¬ byteLen (unpeel idxs / 2 ^ cs) > cs * 4 := by
        have := byteLen_le _ _ hent; omega
      simp only [hdiv, hshift, hshift2, hand, if_neg hp, if_neg hp2, if_neg hbl]
      have hcs8' : ¬ cs > 8 := by omega
      simp only [if_neg hcs8']
      -- the digest byte
      match hDe : D (toBytesFixed (cs * 4) (unpeel idxs / 2 ^ cs)) with
      | [] => have := hD (toBytesFixed (cs * 4) (unpeel idxs / 2 ^ cs)); rw [hDe] at this; cases this
      | b :: rest =>
        have hslice : goSlice (b :: rest) 0 1 = some [b] := by simp [goSlice]; omega
        simp only [hslice, beNat_single]
        -- the specification side
        have hck : Spec.checksumOK D L toks = decide (b.toNat / 2 ^ (8 - cs) = unpeel idxs % 2 ^ cs) := by
          unfold Spec.checksumOK
          simp only [hm, hv, decide_true, Bool.true_and]
          have hall : (idxs.flatMap Spec.bits11).length = 11 * toks.length := by
            rw [Spec.flatMap_bits11_length, hlen]
          have hk : toks.length * 11 - cs = 32 * cs := by omega
          simp only [hdiv, hk]
          have hsplit : idxs.flatMap Spec.bits11 = (idxs.flatMap Spec.bits11).take (32 * cs) ++ (idxs.flatMap Spec.bits11).drop (32 * cs) :=
            (List.take_append_drop _ _).symm
          have hlE : ((idxs.flatMap Spec.bits11).take (32 * cs)).length = 8 * (cs * 4) := by
            simp [List.length_take, hall]; omega
          have hlC : ((idxs.flatMap Spec.bits11).drop (32 * cs)).length = cs := by
            simp [List.length_drop, hall]; omega
          have hval := Spec.ofBits_flatMap_bits11 idxs hlt
          rw [hsplit, ofBits_append, hlC] at hval
          have hC := ofBits_lt ((idxs.flatMap Spec.bits11).drop (32 * cs))
          rw [hlC] at hC
          have hsp := split_checksum (ofBits ((idxs.flatMap Spec.bits11).take (32 * cs)))
            (ofBits ((idxs.flatMap Spec.bits11).drop (32 * cs))) cs hC
          rw [hval] at hsp
          rw [packBytes_eq (cs * 4) _ hlE, ← hsp.1, hDe]
          have hbits : bits (b :: rest) = byteBits b ++ bits rest := by simp [bits]
          have htake : (bits (b :: rest)).take cs = (byteBits b).take cs := by
            rw [hbits, List.take_append_of_le_length (by rw [byteBits_length]; omega)]
          rw [htake]
          have hlT : ((byteBits b).take cs).length = cs := by simp [List.length_take, byteBits_length]; omega
          have hT := ofBits_take_byteBits b cs hcs8
          apply Bool.eq_iff_iff.mpr
          simp only [beq_iff_eq, decide_eq_true_eq]
          constructor
          · intro heq
            rw [← hT, ← heq, hsp.2]
          · intro heq
            apply ofBits_inj _ _ (by rw [hlC, hlT])
            rw [hT, heq, hsp.2]
        rw [hck]
        by_cases hcmp : b.toNat / 2 ^ (8 - cs) = unpeel idxs % 2 ^ cs
        · simp [hcmp]
        · simp [hcmp]
  · have hg : wcGate (toks.length : Int) = true := by
      cases hgw : wcGate (toks.length : Int) with
      | true => rfl
      | false => exact absurd ((validWordCount_iff _).mpr hgw) hv
    simp [hg, hv]

end Bip39V
