import Bip39V.Model.GoMap
/-! # C12 at the level of the translated code: an interleaving semantics for `Go.Prog`

`Gen.Code.Language_mapping_prog` — `Language.mapping` translated from lang.go as a deep-embedded
program — is given a small-step interleaving semantics here: any number of goroutines, each
repeatedly calling `mapping()` with any receiver value, scheduled arbitrarily; every access to a
package-level map variable and every `sync.Once` transition is one atomic step that logs an event.
`sync.Once.Do` as documented: a caller that finds the cell idle becomes its runner; one that finds
it done returns; one that finds it running by another goroutine is blocked (has no step); the
runner's exit marks the cell done.  Happens-before = program order ∪ (exit of a cell → every later
return from `Do` on that cell) — the Go memory model's guarantee for `sync.Once`.

`racefree` is *positional* (it speaks about occurrences, not event values, so repeated calls by
the same goroutine are covered): for every occurrence of a read of variable `v` in the trace of any
reachable configuration, the trace before it contains `exit tw o … ret tr o` for the cell `o`
guarding `v`; **every** write to `v` — indeed to any variable of that cell — anywhere in the execution
lies before that exit and was made by `tw`.  So each write happens-before each read (write →po exit →sync ret →po read) and all writes
are by one goroutine.  The only assumption on the programs is the static guard discipline
`GuardedAfter`, which `Props/C12Code.lean` establishes for the regenerated program by evaluation. -/
namespace Bip39V.CC
open Bip39V Go Model

abbrev Tid := Nat

inductive Ev
  | enter (t : Tid) (c : Nat)
  | write (t : Tid) (st : CStmt)        -- a closure statement; it writes the variable `st.var`
  | exit (t : Tid) (c : Nat)
  | ret (t : Tid) (c : Nat)
  | read (t : Tid) (v : Nat)
deriving DecidableEq, Repr

inductive OnceSt | idle | running (t : Tid) | done
deriving DecidableEq

/-- what a goroutine is doing -/
inductive TSt
  | idle
  | ready (p : Prog)                                   -- about to execute `p`
  | inDo (c : Nat) (todo : List CStmt) (k : Prog)      -- inside the closure of cell `c`

structure Cfg where
  once : Nat → OnceSt
  th : Tid → TSt
  trace : List Ev

def init : Cfg := ⟨fun _ => .idle, fun _ => .idle, []⟩

/-- one atomic step of one goroutine; `P ℓ` is the body of `mapping()` for receiver value `ℓ` -/
inductive Step (P : Int → Prog) : Cfg → Cfg → Prop
  | call (s : Cfg) (t : Tid) (ℓ : Int) (h : s.th t = .idle) :
      Step P s { s with th := upd s.th t (.ready (P ℓ)) }
  | enter (s : Cfg) (t : Tid) (c : Nat) (body : List CStmt) (k : Prog)
      (h : s.th t = .ready (.onceDo c body k)) (ho : s.once c = .idle) :
      Step P s { once := upd s.once c (.running t), th := upd s.th t (.inDo c body k), trace := s.trace ++ [.enter t c] }
  | observe (s : Cfg) (t : Tid) (c : Nat) (body : List CStmt) (k : Prog)
      (h : s.th t = .ready (.onceDo c body k)) (ho : s.once c = .done) :
      Step P s { s with th := upd s.th t (.ready k), trace := s.trace ++ [.ret t c] }
  | stmt (s : Cfg) (t : Tid) (c : Nat) (st : CStmt) (rest : List CStmt) (k : Prog)
      (h : s.th t = .inDo c (st :: rest) k) :
      Step P s { s with th := upd s.th t (.inDo c rest k), trace := s.trace ++ [.write t st] }
  | exit (s : Cfg) (t : Tid) (c : Nat) (k : Prog) (h : s.th t = .inDo c [] k) :
      Step P s { once := upd s.once c .done, th := upd s.th t (.ready k), trace := s.trace ++ [.exit t c, .ret t c] }
  | retVar (s : Cfg) (t : Tid) (v : Nat) (h : s.th t = .ready (.retVar v)) :
      Step P s { s with th := upd s.th t .idle, trace := s.trace ++ [.read t v] }
  | retNil (s : Cfg) (t : Tid) (h : s.th t = .ready .retNil) :
      Step P s { s with th := upd s.th t .idle }

inductive Reach (P : Int → Prog) : Cfg → Prop
  | init : Reach P init
  | step {s s'} : Reach P s → Step P s s' → Reach P s'

/-! ### the guard discipline (static) -/

/-- every closure statement writes a variable guarded by the closure's cell, and a variable is only
returned (read) after a `Do` on its cell; `S` = the cells already synchronised with -/
def GuardedAfter (cellOf : Nat → Nat) (S : Nat → Prop) : Prog → Prop
  | .retNil => True
  | .retVar r => S (cellOf r)
  | .onceDo c body k => (∀ st ∈ body, cellOf st.var = c) ∧ GuardedAfter cellOf (fun c' => c' = c ∨ S c') k

theorem GuardedAfter.mono {cellOf : Nat → Nat} {S S' : Nat → Prop} (h : ∀ c, S c → S' c) :
    ∀ p, GuardedAfter cellOf S p → GuardedAfter cellOf S' p
  | .retNil, _ => trivial
  | .retVar r, hp => h _ hp
  | .onceDo c body k, hp => ⟨hp.1, GuardedAfter.mono (fun c' hc' => hc'.imp id (h c')) k hp.2⟩

/-! ### what a trace must look like (semantic-independent) -/

structure Scan where
  entered : Nat → Option Tid
  exited : Nat → Bool
  retd : Tid → Nat → Bool

def Scan.init : Scan := ⟨fun _ => none, fun _ => false, fun _ _ => false⟩

def Scan.step (S : Scan) : Ev → Scan
  | .enter t c => { S with entered := upd S.entered c (some t) }
  | .exit _ c => { S with exited := upd S.exited c true }
  | .ret t c => { S with retd := fun t' c' => if t' = t ∧ c' = c then true else S.retd t' c' }
  | .write _ _ => S
  | .read _ _ => S

def scanFrom (S : Scan) (τ : List Ev) : Scan := τ.foldl Scan.step S

variable (cellOf : Nat → Nat)

def admissible (S : Scan) : Ev → Prop
  | .enter _ c => S.entered c = none
  | .write t st => S.entered (cellOf st.var) = some t ∧ S.exited (cellOf st.var) = false
  | .exit t c => S.entered c = some t ∧ S.exited c = false
  | .ret _ c => S.exited c = true
  | .read t v => S.retd t (cellOf v) = true

/-- every event is admissible in the scan state reached by the events before it -/
def okFrom : Scan → List Ev → Prop
  | _, [] => True
  | S, e :: r => admissible cellOf S e ∧ okFrom (S.step e) r

theorem scanFrom_append (S : Scan) (a b : List Ev) : scanFrom S (a ++ b) = scanFrom (scanFrom S a) b := by
  simp [scanFrom, List.foldl_append]

theorem scanFrom_cons (S : Scan) (e : Ev) (r : List Ev) : scanFrom S (e :: r) = scanFrom (S.step e) r := rfl
theorem scanFrom_nil (S : Scan) : scanFrom S [] = S := rfl

theorem okFrom_append (S : Scan) (a b : List Ev) :
    okFrom cellOf S (a ++ b) ↔ okFrom cellOf S a ∧ okFrom cellOf (scanFrom S a) b := by
  induction a generalizing S with
  | nil => simp [okFrom, scanFrom]
  | cons e r ih =>
    simp only [List.cons_append, okFrom, ih, scanFrom, List.foldl_cons, and_assoc]

theorem exited_mono (S : Scan) (τ : List Ev) (c : Nat) (h : S.exited c = true) : (scanFrom S τ).exited c = true := by
  induction τ generalizing S with
  | nil => exact h
  | cons e r ih =>
    simp only [scanFrom, List.foldl_cons]
    apply ih
    cases e <;> simp only [Scan.step, h]
    simp only [upd]; split <;> simp [h]

theorem entered_stable (S : Scan) (τ : List Ev) (c : Nat) (a : Tid) (h : S.entered c = some a) (hok : okFrom cellOf S τ) :
    (scanFrom S τ).entered c = some a := by
  induction τ generalizing S with
  | nil => exact h
  | cons e r ih =>
    simp only [scanFrom, List.foldl_cons]
    apply ih _ _ hok.2
    cases e with
    | enter t c' =>
      simp only [Scan.step, upd]
      split
      · rename_i hc; subst hc
        have := hok.1; simp only [admissible] at this; rw [this] at h; cases h
      · exact h
    | write _ _ => exact h
    | exit _ _ => exact h
    | ret _ _ => exact h
    | read _ _ => exact h

/-- the flag `retd t c` can only have been set by an occurrence of `ret t c` -/
theorem find_ret (S : Scan) (τ : List Ev) (t : Tid) (c : Nat) (h : (scanFrom S τ).retd t c = true) (h0 : S.retd t c = false) :
    ∃ p q, τ = p ++ Ev.ret t c :: q := by
  induction τ generalizing S with
  | nil => simp [scanFrom] at h; rw [h] at h0; cases h0
  | cons e r ih =>
    by_cases he : e = Ev.ret t c
    · exact ⟨[], r, by simp [he]⟩
    · have h1 : (S.step e).retd t c = false := by
        cases e with
        | ret t' c' =>
          simp only [Scan.step]
          split
          · rename_i hh; exact absurd (by rw [hh.1, hh.2]) he
          · exact h0
        | enter _ _ => exact h0
        | write _ _ => exact h0
        | exit _ _ => exact h0
        | read _ _ => exact h0
      obtain ⟨p, q, hpq⟩ := ih (S.step e) (by simpa [scanFrom] using h) h1
      exact ⟨e :: p, q, by simp [hpq]⟩

/-- the first occurrence of an exit of cell `c` -/
theorem find_exit (S : Scan) (τ : List Ev) (c : Nat) (h : (scanFrom S τ).exited c = true) (h0 : S.exited c = false) :
    ∃ p t q, τ = p ++ Ev.exit t c :: q ∧ (scanFrom S p).exited c = false := by
  induction τ generalizing S with
  | nil => simp [scanFrom] at h; rw [h] at h0; cases h0
  | cons e r ih =>
    by_cases he : ∃ t, e = Ev.exit t c
    · obtain ⟨t, rfl⟩ := he
      exact ⟨[], t, r, by simp, by simpa [scanFrom] using h0⟩
    · have h1 : (S.step e).exited c = false := by
        cases e with
        | exit t' c' =>
          simp only [Scan.step, upd]
          split
          · rename_i hc; subst hc; exact absurd ⟨t', rfl⟩ he
          · exact h0
        | enter _ _ => exact h0
        | write _ _ => exact h0
        | ret _ _ => exact h0
        | read _ _ => exact h0
      obtain ⟨p, t, q, hpq, hp⟩ := ih (S.step e) (by simpa [scanFrom] using h) h1
      exact ⟨e :: p, t, q, by simp [hpq], by simpa [scanFrom] using hp⟩

/-- once a cell has exited, nothing guarded by it is written any more -/
theorem no_write_after (S : Scan) (τ : List Ev) (c : Nat) (h : S.exited c = true) (hok : okFrom cellOf S τ) :
    ∀ t st, cellOf st.var = c → Ev.write t st ∉ τ := by
  induction τ generalizing S with
  | nil => simp
  | cons e r ih =>
    intro t st hv hm
    have hnext : (S.step e).exited c = true := by
      have := exited_mono S [e] c h
      simpa [scanFrom] using this
    rcases List.mem_cons.mp hm with heq | hm
    · subst heq
      have := hok.1
      simp only [admissible, hv] at this
      rw [h] at this; cases this.2
    · exact ih _ hnext hok.2 t st hv hm

/-- whoever writes a variable is the goroutine that entered its cell -/
theorem writer_entered (S : Scan) (τ : List Ev) (t : Tid) (st : CStmt) (hok : okFrom cellOf S τ) (hm : Ev.write t st ∈ τ) :
    (scanFrom S τ).entered (cellOf st.var) = some t := by
  obtain ⟨a, b, rfl⟩ := List.append_of_mem hm
  rw [okFrom_append] at hok
  have hadm := hok.2.1
  simp only [admissible] at hadm
  rw [scanFrom_append]
  exact entered_stable cellOf _ _ _ _ (by simpa [scanFrom, Scan.step] using hadm.1) hok.2

/-- **the positional ordering theorem for admissible traces** -/
theorem ordered_of_ok (τ pre post : List Ev) (tr : Tid) (v : Nat) (hok : okFrom cellOf Scan.init τ)
    (hτ : τ = pre ++ Ev.read tr v :: post) :
    ∃ tw p1 p2 p3, pre = p1 ++ Ev.exit tw (cellOf v) :: p2 ++ Ev.ret tr (cellOf v) :: p3 ∧
      (∀ t st, cellOf st.var = cellOf v → Ev.write t st ∉ p2 ++ Ev.ret tr (cellOf v) :: p3 ++ Ev.read tr v :: post) ∧
      (∀ t st, cellOf st.var = cellOf v → Ev.write t st ∈ p1 → t = tw) := by
  subst hτ
  rw [okFrom_append] at hok
  obtain ⟨hpre, hread, hpost⟩ := hok
  simp only [admissible] at hread
  obtain ⟨a, b, hab⟩ := find_ret _ pre tr (cellOf v) hread rfl
  subst hab
  rw [okFrom_append] at hpre
  obtain ⟨ha, hret, hb⟩ := hpre
  simp only [admissible] at hret
  obtain ⟨p1, tw, p2, hp, hfirst⟩ := find_exit _ a (cellOf v) hret rfl
  subst hp
  rw [okFrom_append] at ha
  obtain ⟨hp1, hexit, hp2⟩ := ha
  simp only [admissible] at hexit
  refine ⟨tw, p1, p2, b, by simp, ?_, ?_⟩
  · -- after the exit the cell is marked exited for good
    have hex : (scanFrom Scan.init (p1 ++ [Ev.exit tw (cellOf v)])).exited (cellOf v) = true := by
      rw [scanFrom_append]; simp [scanFrom, Scan.step, upd]
    have hrest : okFrom cellOf (scanFrom Scan.init (p1 ++ [Ev.exit tw (cellOf v)]))
        (p2 ++ Ev.ret tr (cellOf v) :: b ++ Ev.read tr v :: post) := by
      rw [scanFrom_append]
      have e1 : scanFrom (scanFrom Scan.init p1) [Ev.exit tw (cellOf v)] = (scanFrom Scan.init p1).step (Ev.exit tw (cellOf v)) := rfl
      rw [e1]
      rw [List.append_assoc, okFrom_append]
      refine ⟨hp2, ?_⟩
      -- the scan state after p1 ++ exit :: p2 is the one after `a`
      have e2 : scanFrom ((scanFrom Scan.init p1).step (Ev.exit tw (cellOf v))) p2 =
          scanFrom Scan.init (p1 ++ Ev.exit tw (cellOf v) :: p2) := by
        simp only [scanFrom_append, scanFrom_cons]
      rw [e2]
      show okFrom cellOf _ (Ev.ret tr (cellOf v) :: (b ++ Ev.read tr v :: post))
      refine ⟨hret, ?_⟩
      rw [okFrom_append]
      refine ⟨hb, ?_⟩
      have e3 : scanFrom ((scanFrom Scan.init (p1 ++ Ev.exit tw (cellOf v) :: p2)).step (Ev.ret tr (cellOf v))) b =
          scanFrom Scan.init ((p1 ++ Ev.exit tw (cellOf v) :: p2) ++ Ev.ret tr (cellOf v) :: b) := by
        simp only [scanFrom_append, scanFrom_cons]
      rw [e3]
      exact ⟨hread, hpost⟩
    exact no_write_after cellOf _ _ (cellOf v) hex hrest
  · intro t st hv hm
    have h1 := writer_entered cellOf Scan.init p1 t st hp1 hm
    rw [hv, hexit.1] at h1
    exact (Option.some.inj h1).symm

/-! ### the invariant linking configurations and traces -/

structure Inv (P : Int → Prog) (s : Cfg) : Prop where
  ok : okFrom cellOf Scan.init s.trace
  idle : ∀ c, s.once c = .idle → (scanFrom Scan.init s.trace).entered c = none ∧ (scanFrom Scan.init s.trace).exited c = false
  running : ∀ c t, s.once c = .running t →
    (scanFrom Scan.init s.trace).entered c = some t ∧ (scanFrom Scan.init s.trace).exited c = false
  done : ∀ c, s.once c = .done → (scanFrom Scan.init s.trace).exited c = true
  ready : ∀ t p, s.th t = .ready p → GuardedAfter cellOf (fun c => (scanFrom Scan.init s.trace).retd t c = true) p
  inDo : ∀ t c todo k, s.th t = .inDo c todo k → s.once c = .running t ∧ (∀ st ∈ todo, cellOf st.var = c) ∧
    GuardedAfter cellOf (fun c' => c' = c ∨ (scanFrom Scan.init s.trace).retd t c' = true) k

theorem upd_same' {α} (f : Nat → α) (k : Nat) (v : α) : upd f k v k = v := by simp [upd]
theorem upd_ne' {α} (f : Nat → α) {k x : Nat} (v : α) (h : x ≠ k) : upd f k v x = f x := by simp [upd, h]

theorem scan_snoc (τ : List Ev) (e : Ev) : scanFrom Scan.init (τ ++ [e]) = (scanFrom Scan.init τ).step e := by
  rw [scanFrom_append]; rfl

theorem ok_snoc (τ : List Ev) (e : Ev) (h : okFrom cellOf Scan.init τ) (ha : admissible cellOf (scanFrom Scan.init τ) e) :
    okFrom cellOf Scan.init (τ ++ [e]) := by
  rw [okFrom_append]; exact ⟨h, ha, trivial⟩

variable {cellOf}

theorem inv_init (P : Int → Prog) : Inv cellOf P init := by
  constructor <;> intros <;> simp_all [init, okFrom, scanFrom, Scan.init]

theorem inv_step {P : Int → Prog} (hP : ∀ ℓ, GuardedAfter cellOf (fun _ => False) (P ℓ)) {s s' : Cfg}
    (inv : Inv cellOf P s) (st : Step P s s') : Inv cellOf P s' := by
  cases st with
  | call t ℓ h =>
    refine ⟨inv.ok, inv.idle, inv.running, inv.done, ?_, ?_⟩
    · intro t' p hp
      try dsimp only at hp
      by_cases ht : t' = t
      · subst ht
        simp only [upd_same'] at hp
        injection hp with hp; subst hp
        exact GuardedAfter.mono (fun _ h => h.elim) _ (hP ℓ)
      · rw [upd_ne' _ _ ht] at hp; exact inv.ready t' p hp
    · intro t' c todo k hp
      try dsimp only at hp
      by_cases ht : t' = t
      · subst ht; simp only [upd_same'] at hp; cases hp
      · rw [upd_ne' _ _ ht] at hp; exact inv.inDo t' c todo k hp
  | enter t c body k h ho =>
    have hg := inv.ready t _ h
    obtain ⟨hent, hex⟩ := inv.idle c ho
    have hscan := scan_snoc s.trace (Ev.enter t c)
    refine ⟨ok_snoc cellOf _ _ inv.ok hent, ?_, ?_, ?_, ?_, ?_⟩
    all_goals simp only [hscan, Scan.step]
    · intro c' hc'
      by_cases hc : c' = c
      · subst hc; simp only [upd_same'] at hc'; cases hc'
      · rw [upd_ne' _ _ hc] at hc' ⊢; exact inv.idle c' hc'
    · intro c' t' hc'
      by_cases hc : c' = c
      · subst hc; simp only [upd_same'] at hc' ⊢; injection hc' with hc'; subst hc'; exact ⟨rfl, hex⟩
      · rw [upd_ne' _ _ hc] at hc' ⊢; exact inv.running c' t' hc'
    · intro c' hc'
      by_cases hc : c' = c
      · subst hc; simp only [upd_same'] at hc'; cases hc'
      · rw [upd_ne' _ _ hc] at hc'; exact inv.done c' hc'
    · intro t' p hp
      try dsimp only at hp
      by_cases ht : t' = t
      · subst ht; simp only [upd_same'] at hp; cases hp
      · rw [upd_ne' _ _ ht] at hp; exact inv.ready t' p hp
    · intro t' c' todo k' hp
      try dsimp only at hp
      by_cases ht : t' = t
      · subst ht
        simp only [upd_same'] at hp
        injection hp with h1 h2 h3; subst h1 h2 h3
        exact ⟨by simp [upd_same'], hg.1, hg.2⟩
      · rw [upd_ne' _ _ ht] at hp
        obtain ⟨h1, h2, h3⟩ := inv.inDo t' c' todo k' hp
        have hc : c' ≠ c := by rintro rfl; rw [ho] at h1; cases h1
        exact ⟨by rw [upd_ne' _ _ hc]; exact h1, h2, h3⟩
  | observe t c body k h ho =>
    have hg := inv.ready t _ h
    have hex := inv.done c ho
    have hscan := scan_snoc s.trace (Ev.ret t c)
    refine ⟨ok_snoc cellOf _ _ inv.ok hex, ?_, ?_, ?_, ?_, ?_⟩
    all_goals simp only [hscan, Scan.step]
    · exact inv.idle
    · exact inv.running
    · exact inv.done
    · intro t' p hp
      try dsimp only at hp
      by_cases ht : t' = t
      · subst ht
        simp only [upd_same'] at hp
        injection hp with hp; subst hp
        refine GuardedAfter.mono ?_ _ hg.2
        intro c' hc'
        rcases hc' with rfl | hc'
        · simp
        · simp [hc']
      · rw [upd_ne' _ _ ht] at hp
        refine GuardedAfter.mono ?_ _ (inv.ready t' p hp)
        intro c' hc'; simp [ht, hc']
    · intro t' c' todo k' hp
      try dsimp only at hp
      by_cases ht : t' = t
      · subst ht; simp only [upd_same'] at hp; cases hp
      · rw [upd_ne' _ _ ht] at hp
        obtain ⟨h1, h2, h3⟩ := inv.inDo t' c' todo k' hp
        refine ⟨h1, h2, GuardedAfter.mono ?_ _ h3⟩
        intro c'' hc''; simp [ht]; exact hc''
  | stmt t c st rest k h =>
    obtain ⟨hrun, htodo, hk⟩ := inv.inDo t c _ k h
    obtain ⟨hent, hex⟩ := inv.running c t hrun
    have hc : cellOf st.var = c := htodo st (by simp)
    have hscan := scan_snoc s.trace (Ev.write t st)
    refine ⟨ok_snoc cellOf _ _ inv.ok (by simp only [admissible, hc]; exact ⟨hent, hex⟩), ?_, ?_, ?_, ?_, ?_⟩
    all_goals simp only [hscan, Scan.step]
    · exact inv.idle
    · exact inv.running
    · exact inv.done
    · intro t' p hp
      try dsimp only at hp
      by_cases ht : t' = t
      · subst ht; simp only [upd_same'] at hp; cases hp
      · rw [upd_ne' _ _ ht] at hp; exact inv.ready t' p hp
    · intro t' c' todo k' hp
      try dsimp only at hp
      by_cases ht : t' = t
      · subst ht
        simp only [upd_same'] at hp
        injection hp with h1 h2 h3; subst h1 h2 h3
        exact ⟨hrun, fun x hx => htodo x (by simp [hx]), hk⟩
      · rw [upd_ne' _ _ ht] at hp; exact inv.inDo t' c' todo k' hp
  | exit t c k h =>
    obtain ⟨hrun, _, hk⟩ := inv.inDo t c _ k h
    obtain ⟨hent, hex⟩ := inv.running c t hrun
    have hscan : scanFrom Scan.init (s.trace ++ [Ev.exit t c, Ev.ret t c]) =
        ((scanFrom Scan.init s.trace).step (Ev.exit t c)).step (Ev.ret t c) := by
      rw [scanFrom_append]; rfl
    have hok : okFrom cellOf Scan.init (s.trace ++ [Ev.exit t c, Ev.ret t c]) := by
      rw [okFrom_append]
      refine ⟨inv.ok, ⟨hent, hex⟩, ?_, trivial⟩
      simp [admissible, Scan.step, upd_same']
    refine ⟨hok, ?_, ?_, ?_, ?_, ?_⟩
    all_goals simp only [hscan, Scan.step]
    · intro c' hc'
      by_cases hc : c' = c
      · subst hc; simp only [upd_same'] at hc'; cases hc'
      · rw [upd_ne' _ _ hc] at hc' ⊢; exact inv.idle c' hc'
    · intro c' t' hc'
      by_cases hc : c' = c
      · subst hc; simp only [upd_same'] at hc'; cases hc'
      · rw [upd_ne' _ _ hc] at hc' ⊢; exact inv.running c' t' hc'
    · intro c' hc'
      by_cases hc : c' = c
      · subst hc; simp [upd_same']
      · rw [upd_ne' _ _ hc] at hc' ⊢; exact inv.done c' hc'
    · intro t' p hp
      try dsimp only at hp
      by_cases ht : t' = t
      · subst ht
        simp only [upd_same'] at hp
        injection hp with hp; subst hp
        refine GuardedAfter.mono ?_ _ hk
        intro c' hc'
        rcases hc' with rfl | hc'
        · simp
        · simp [hc']
      · rw [upd_ne' _ _ ht] at hp
        refine GuardedAfter.mono ?_ _ (inv.ready t' p hp)
        intro c' hc'; simp [ht, hc']
    · intro t' c' todo k' hp
      try dsimp only at hp
      by_cases ht : t' = t
      · subst ht; simp only [upd_same'] at hp; cases hp
      · rw [upd_ne' _ _ ht] at hp
        obtain ⟨h1, h2, h3⟩ := inv.inDo t' c' todo k' hp
        have hc : c' ≠ c := by
          rintro rfl; rw [hrun] at h1; injection h1 with h1; exact ht h1.symm
        refine ⟨by rw [upd_ne' _ _ hc]; exact h1, h2, GuardedAfter.mono ?_ _ h3⟩
        intro c'' hc''; simp [ht]; exact hc''
  | retVar t v h =>
    have hg := inv.ready t _ h
    have hscan := scan_snoc s.trace (Ev.read t v)
    refine ⟨ok_snoc cellOf _ _ inv.ok hg, ?_, ?_, ?_, ?_, ?_⟩
    all_goals simp only [hscan, Scan.step]
    · exact inv.idle
    · exact inv.running
    · exact inv.done
    · intro t' p hp
      try dsimp only at hp
      by_cases ht : t' = t
      · subst ht; simp only [upd_same'] at hp; cases hp
      · rw [upd_ne' _ _ ht] at hp; exact inv.ready t' p hp
    · intro t' c' todo k' hp
      try dsimp only at hp
      by_cases ht : t' = t
      · subst ht; simp only [upd_same'] at hp; cases hp
      · rw [upd_ne' _ _ ht] at hp; exact inv.inDo t' c' todo k' hp
  | retNil t h =>
    refine ⟨inv.ok, inv.idle, inv.running, inv.done, ?_, ?_⟩
    · intro t' p hp
      try dsimp only at hp
      by_cases ht : t' = t
      · subst ht; simp only [upd_same'] at hp; cases hp
      · rw [upd_ne' _ _ ht] at hp; exact inv.ready t' p hp
    · intro t' c' todo k' hp
      try dsimp only at hp
      by_cases ht : t' = t
      · subst ht; simp only [upd_same'] at hp; cases hp
      · rw [upd_ne' _ _ ht] at hp; exact inv.inDo t' c' todo k' hp

theorem inv_reach {P : Int → Prog} (hP : ∀ ℓ, GuardedAfter cellOf (fun _ => False) (P ℓ)) {s : Cfg} (r : Reach P s) :
    Inv cellOf P s := by
  induction r with
  | init => exact inv_init P
  | step _ st ih => exact inv_step hP ih st

/-- **race freedom of the interleaving semantics**, positional: see the header -/
theorem racefree {P : Int → Prog} (hP : ∀ ℓ, GuardedAfter cellOf (fun _ => False) (P ℓ)) {s : Cfg} (r : Reach P s)
    (pre post : List Ev) (tr : Tid) (v : Nat) (h : s.trace = pre ++ Ev.read tr v :: post) :
    ∃ tw p1 p2 p3, pre = p1 ++ Ev.exit tw (cellOf v) :: p2 ++ Ev.ret tr (cellOf v) :: p3 ∧
      (∀ t st, cellOf st.var = cellOf v → Ev.write t st ∉ p2 ++ Ev.ret tr (cellOf v) :: p3 ++ Ev.read tr v :: post) ∧
      (∀ t st, cellOf st.var = cellOf v → Ev.write t st ∈ p1 → t = tw) :=
  ordered_of_ok cellOf s.trace pre post tr v (inv_reach hP r).ok h

end Bip39V.CC
