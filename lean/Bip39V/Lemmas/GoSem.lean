import Bip39V.Model.GoSem
import Bip39V.Lemmas.Encode
import Bip39V.Lemmas.Check
/-! Facts about the Go vocabulary (`Model/GoSem.lean`) used by the refinement proofs
(`Props/Refine.lean`): in-range arithmetic does not wrap, `big.Int` operations on natural numbers
are the natural-number operations, and the two loops. -/
namespace Bip39V.Go
open Bip39V Model

theorem St.afterReads_zero (st : St) : st.afterReads 0 = st := by
  cases st; simp [St.afterReads]

theorem wrapI_of_range (x : Int) (h1 : -9223372036854775808 ≤ x) (h2 : x < 9223372036854775808) : wrapI x = x := by
  unfold wrapI two63 two64; omega

theorem wrapU_of_range (x : Int) (h1 : 0 ≤ x) (h2 : x < 18446744073709551616) : wrapU x = x := by
  unfold wrapU two64; omega

theorem bigAnd_nat (a b : Nat) : bigAnd (a : Int) (b : Int) = ((a &&& b : Nat) : Int) := rfl

theorem bigQuo_nat (a b : Nat) (hb : b ≠ 0) (s : St) : bigQuo (a : Int) (b : Int) s = (.ok ((a / b : Nat) : Int), s) := by
  unfold bigQuo
  have : ¬ ((b : Int) = 0) := by omega
  simp only [this, if_false, Go.pure]
  rw [Int.ofNat_tdiv]

theorem bigQuo_zero (a : Int) (s : St) : bigQuo a 0 s = (.panic .divByZero, s) := by
  simp [bigQuo, Go.panic]

theorem bigLsh_nat (a k : Nat) : bigLsh (a : Int) (k : Int) = ((a <<< k : Nat) : Int) := by
  unfold bigLsh
  rw [Nat.shiftLeft_eq, Int.toNat_natCast]
  simp [Int.natCast_mul, Int.natCast_pow]

theorem bigInt64_nat (a : Nat) (h : a < 9223372036854775808) : bigInt64 (a : Int) = (a : Int) := by
  unfold bigInt64
  rcases Nat.eq_zero_or_pos a with h0 | hpos
  · subst h0; simp [wrapI, two63, two64]
  · have hs : (a : Int).sign = 1 := Int.sign_eq_one_of_pos (by omega)
    rw [hs, Int.natAbs_natCast, Nat.mod_eq_of_lt (by omega), Int.one_mul]
    exact wrapI_of_range _ (by omega) (by omega)

theorem drop_set_self {α} (l : List α) (i : Nat) (v : α) (h : i < l.length) : (l.set i v).drop i = v :: l.drop (i + 1) := by
  induction l generalizing i with
  | nil => simp at h
  | cons x xs ih =>
    cases i with
    | zero => simp
    | succ j => simp at h; simpa using ih j h

theorem take_set_self {α} (l : List α) (i : Nat) (v : α) : (l.set i v).take i = l.take i := by
  induction l generalizing i with
  | nil => simp
  | cons x xs ih =>
    cases i with
    | zero => simp
    | succ j => simp [ih j]

end Bip39V.Go

namespace Bip39V.Go
open Bip39V Model

/-- The word loop of `fromEntropy`, for any loop body that behaves like the Go statements
(`hbody`): it is `peelWords`, written into the first `k` places of the slice.  The loop state is
(`entInt`, `wordList`, `wordIdx`), in the order the function declares them. -/
theorem forDownAux_peel {β} (lst : List Str) (body : Int → Int × List Str × Int → M (Int × List Str × Int))
    (hbody : ∀ (i : Nat) (n : Nat) (idx : Int) (wl : List Str) (st : St), i < wl.length →
      body (i : Int) ((n : Int), wl, idx) st =
        match lst[n &&& 2047]? with
        | none => (.panic .indexOutOfRange, st)
        | some w => (.ok (((n / 2048 : Nat) : Int), wl.set i w, ((n &&& 2047 : Nat) : Int)), st))
    (K' : Int × List Str × Int → M β) (hK : ∀ a b c, K' (a, c, b) = K' (0, c, 0)) :
    ∀ (k n : Nat) (idx : Int) (wl : List Str) (st : St), k ≤ wl.length →
      Go.bind (forDownAux 0 body k ((k : Int) - 1) ((n : Int), wl, idx)) K' st =
        match peelWords lst 2047 2048 k n with
        | some ws => K' (0, ws ++ wl.drop k, 0) st
        | none => (.panic .indexOutOfRange, st) := by
  intro k
  induction k with
  | zero =>
    intro n idx wl st _
    simp only [forDownAux, Go.bind, Go.pure, peelWords, List.nil_append, List.drop_zero]
    rw [hK]
  | succ k ih =>
    intro n idx wl st hk
    have hge : (k : Int) ≥ 0 := by omega
    have hcast : ((k + 1 : Nat) : Int) - 1 = (k : Int) := by omega
    rw [hcast]
    simp only [forDownAux, hge, if_true]
    have hb := hbody k n idx wl st (by omega)
    unfold peelWords
    cases hl : lst[n &&& 2047]? with
    | none =>
      rw [hl] at hb
      simp only [Go.bind, hb]
    | some w =>
      rw [hl] at hb
      have hlen : k ≤ (wl.set k w).length := by simp; omega
      have := ih (n / 2048) ((n &&& 2047 : Nat) : Int) (wl.set k w) st hlen
      simp only [Go.bind, hb] at this ⊢
      rw [this]
      cases peelWords lst 2047 2048 k (n / 2048) with
      | none => rfl
      | some ws =>
        simp only []
        rw [drop_set_self wl k w (by omega)]
        simp [List.append_assoc]

theorem toUint_div_len (n : Nat) (c : Nat) (hlen : (n : Int) < 9223372036854775808) :
    toUint (divIc (n : Int) (c : Int)) = ((n / c : Nat) : Int) := by
  unfold toUint divIc
  have h1 : (n : Int).tdiv (c : Int) = ((n / c : Nat) : Int) := by
    rw [Int.ofNat_tdiv]
  have h2 : n / c ≤ n := Nat.div_le_self n c
  rw [h1]
  generalize n / c = q at *
  rw [wrapI_of_range _ (by omega) (by omega), wrapU_of_range _ (by omega) (by omega)]

/-- the same quantity computed the other way round: `uint(len(x)) / 4` -/
theorem divUc_toUint_len (n : Nat) (c : Nat) (hlen : (n : Int) < 9223372036854775808) :
    divUc (toUint (n : Int)) (c : Int) = ((n / c : Nat) : Int) := by
  unfold toUint divUc
  rw [wrapU_of_range _ (by omega) (by omega), Int.ofNat_tdiv]

/-- `len(x)/4` as a checksum width, in either spelling, with the divisor as the literal the source has -/
theorem csWidth_forms (n : Nat) (hlen : (n : Int) < 9223372036854775808) :
    toUint (divIc (n : Int) (4 : Int)) = ((n / 4 : Nat) : Int) ∧ divUc (toUint (n : Int)) (4 : Int) = ((n / 4 : Nat) : Int) :=
  ⟨toUint_div_len n 4 hlen, divUc_toUint_len n 4 hlen⟩

theorem two_pow_cast (k : Nat) : (2 : Int) ^ k = ((2 ^ k : Nat) : Int) := by simp [Int.natCast_pow]

theorem shlI_one_small (k : Nat) (hk : k ≤ 62) : shlI 1 (k : Int) = ((1 <<< k : Nat) : Int) := by
  unfold shlI
  have h2 : ¬ ((k : Int) ≥ 64) := by omega
  simp only [h2, if_false, Int.toNat_natCast, Int.one_mul, Nat.shiftLeft_eq, Nat.one_mul]
  rw [two_pow_cast]
  have h4 : 2 ^ k ≤ 2 ^ 62 := Nat.pow_le_pow_right (by decide) hk
  have h5 : (2:Nat) ^ 62 = 4611686018427387904 := by decide
  generalize 2 ^ k = p at *
  exact wrapI_of_range _ (by omega) (by omega)

theorem subU_small (a b : Nat) (h : b ≤ a) (ha : (a : Int) < 18446744073709551616) : subU (a : Int) (b : Int) = ((a - b : Nat) : Int) := by
  unfold subU
  rw [wrapU_of_range _ (by omega) (by omega)]; omega

theorem subU_wrap (a b : Nat) (h : a < b) (hb : (b : Int) ≤ 9223372036854775808) : subU (a : Int) (b : Int) ≥ 64 := by
  unfold subU wrapU two64
  omega

end Bip39V.Go

/-! ### Stepping through translated code

The refinement proofs never unfold `Go.bind` wholesale: the kernel would then evaluate 64-bit
wrap-around arithmetic on half-symbolic numerals (unary peeling of `2^63`).  They step through the
statements with the lemmas below, after the arithmetic has been rewritten to natural-number form. -/
namespace Bip39V.Go
open Bip39V Model

theorem bind_ok {α β} {x : M α} {f : α → M β} {s s' : St} {a : α} (h : x s = (.ok a, s')) : Go.bind x f s = f a s' := by
  unfold Go.bind; rw [h]
theorem bind_panic {α β} {x : M α} {f : α → M β} {s s' : St} {p : Panic} (h : x s = (.panic p, s')) :
    Go.bind x f s = (.panic p, s') := by
  unfold Go.bind; rw [h]
theorem bind_err {α β} {x : M α} {f : α → M β} {s s' : St} {e : Err} (h : x s = (.err e, s')) :
    Go.bind x f s = (.err e, s') := by
  unfold Go.bind; rw [h]
theorem bind_pure_id {α} (x : M α) (s : St) : Go.bind x (fun a => Go.pure a) s = x s := by
  unfold Go.bind
  cases hx : x s with
  | mk r s' => cases r <;> rfl
/-- function-level form, usable by `simp` under binders (deliberately not a `rfl` lemma, so that the
kernel is never asked to compare the two sides of a whole function body by unfolding) -/
theorem bind_pure_fun {α β} (a : α) (f : α → M β) : Go.bind (Go.pure a) f = f a := by
  funext s
  rfl
theorem pure_apply {α} (a : α) (s : St) : Go.pure a s = (.ok a, s) := rfl
theorem fail_apply {α} (e : Err) (s : St) : (Go.fail e : M α) s = (.err e, s) := rfl
theorem panic_apply {α} (p : Panic) (s : St) : (Go.panic p : M α) s = (.panic p, s) := rfl

theorem sliceBytes_some {b : Bytes} {lo hi : Int} {r : Bytes} (h : goSlice b lo hi = some r) (s : St) :
    sliceBytes b lo hi s = (.ok r, s) := by unfold sliceBytes; rw [h]; rfl
theorem sliceBytes_none {b : Bytes} {lo hi : Int} (h : goSlice b lo hi = none) (s : St) :
    sliceBytes b lo hi s = (.panic .sliceOutOfRange, s) := by unfold sliceBytes; rw [h]; rfl

theorem makeStrs_neg {n : Int} (h : n < 0) (s : St) : makeStrs n s = (.panic .makeNegative, s) := by
  unfold makeStrs; rw [if_pos h]; rfl
theorem makeStrs_nonneg {n : Int} (h : ¬ n < 0) (s : St) : makeStrs n s = (.ok (List.replicate n.toNat []), s) := by
  unfold makeStrs; rw [if_neg h]; rfl
theorem makeBytes_nonneg {n : Int} (h : ¬ n < 0) (s : St) : makeBytes n s = (.ok (List.replicate n.toNat 0), s) := by
  unfold makeBytes; rw [if_neg h]; rfl

end Bip39V.Go

namespace Bip39V.Go
open Bip39V Model

theorem divIc_nat (n c : Nat) (hlen : (n : Int) < 9223372036854775808) : divIc (n : Int) (c : Int) = ((n / c : Nat) : Int) := by
  unfold divIc
  have h1 : (n : Int).tdiv (c : Int) = ((n / c : Nat) : Int) := by
    rw [Int.ofNat_tdiv]
  rw [h1]
  have h2 : n / c ≤ n := Nat.div_le_self n c
  generalize n / c = q at *
  exact wrapI_of_range _ (by omega) (by omega)

theorem subI_nat (a b : Nat) (h : b ≤ a) (ha : (a : Int) < 9223372036854775808) : subI (a : Int) (b : Int) = ((a - b : Nat) : Int) := by
  unfold subI
  rw [wrapI_of_range _ (by omega) (by omega)]; omega

theorem mulI_nat (a b : Nat) (h : a * b < 9223372036854775808) : mulI (a : Int) (b : Int) = ((a * b : Nat) : Int) := by
  unfold mulI
  have : (a : Int) * (b : Int) = ((a * b : Nat) : Int) := by simp [Int.natCast_mul]
  rw [this]
  generalize a * b = p at *
  exact wrapI_of_range _ (by omega) (by omega)

theorem mulU_nat (a b : Nat) (h : a * b < 18446744073709551616) : mulU (a : Int) (b : Int) = ((a * b : Nat) : Int) := by
  unfold mulU
  have : (a : Int) * (b : Int) = ((a * b : Nat) : Int) := by simp [Int.natCast_mul]
  rw [this]
  generalize a * b = p at *
  exact wrapU_of_range _ (by omega) (by omega)

theorem toUint_nat (a : Nat) (h : (a : Int) < 18446744073709551616) : toUint (a : Int) = (a : Int) :=
  wrapU_of_range _ (by omega) h

theorem bigCmp_eq_zero (a b : Int) : decide (bigCmp a b = 0) = decide (a = b) := by
  unfold bigCmp
  by_cases h1 : a < b
  · simp [h1]; omega
  · by_cases h2 : a = b
    · simp [h2]
    · simp [h1, h2]

theorem bigCmp_ne_zero (a b : Int) : decide (bigCmp a b ≠ 0) = decide (a ≠ b) := by
  unfold bigCmp
  by_cases h1 : a < b
  · have : a ≠ b := by omega
    simp [h1, this]
  · by_cases h2 : a = b
    · simp [h2]
    · simp [h1, h2]

theorem bigFillBytes_nat (a : Nat) (buf : Bytes) (s : St) :
    bigFillBytes (a : Int) buf s =
      if byteLen a > buf.length then (.panic .fillBytesOverflow, s) else (.ok (toBytesFixed buf.length a), s) := by
  unfold bigFillBytes
  rw [Int.natAbs_natCast]
  split <;> rfl

theorem bigFillBytes_overflow (a : Nat) (buf : Bytes) (s : St) (h : byteLen a > buf.length) :
    bigFillBytes (a : Int) buf s = (.panic .fillBytesOverflow, s) := by
  rw [bigFillBytes_nat, if_pos h]
theorem bigFillBytes_ok (a : Nat) (buf : Bytes) (s : St) (h : ¬ byteLen a > buf.length) :
    bigFillBytes (a : Int) buf s = (.ok (toBytesFixed buf.length a), s) := by
  rw [bigFillBytes_nat, if_neg h]

theorem langMapping_apply (ℓ : Int) (s : St) :
    langMapping ℓ s = (.ok (Model.mapping s.pkg ℓ).2, { s with pkg := (Model.mapping s.pkg ℓ).1 }) := rfl

/-- The token loop of `CheckMnemonic`, for any loop body that behaves like the Go statements
(`hbody`): it is `sumWords`. -/
theorem forRangeAux_sumWords (m : Option Nat) (wc : Nat) (body : Int → Str → Int → M Int)
    (hbody : ∀ (pos : Nat) (w : Str) (acc : Nat) (st : St), pos < wc →
      body (pos : Int) w (acc : Int) st =
        match mapLookup m w with
        | none => (.err (.unknownWord w pos), st)
        | some idx => (.ok ((acc + idx <<< ((wc - pos - 1) * 11) : Nat) : Int), st)) :
    ∀ (toks : List Str) (pos acc : Nat) (st : St), pos + toks.length = wc →
      forRangeAux body toks (pos : Int) (acc : Int) st =
        match sumWords m wc toks pos acc with
        | .ok a => (.ok (a : Int), st)
        | .error (w, p) => (.err (.unknownWord w p), st) := by
  intro toks
  induction toks with
  | nil => intro pos acc st _; rfl
  | cons w ws ih =>
    intro pos acc st hlen
    simp only [List.length_cons] at hlen
    have hb := hbody pos w acc st (by omega)
    unfold forRangeAux sumWords
    cases hl : mapLookup m w with
    | none =>
      rw [hl] at hb
      rw [bind_err hb]
    | some idx =>
      rw [hl] at hb
      rw [bind_ok hb]
      have hcast : ((pos : Int) + 1) = ((pos + 1 : Nat) : Int) := by omega
      rw [hcast, ih (pos + 1) _ st (by omega), bitsPerWord_eq]

theorem forRange_sumWords (m : Option Nat) (toks : List Str) (body : Int → Str → Int → M Int)
    (hbody : ∀ (pos : Nat) (w : Str) (acc : Nat) (st : St), pos < toks.length →
      body (pos : Int) w (acc : Int) st =
        match mapLookup m w with
        | none => (.err (.unknownWord w pos), st)
        | some idx => (.ok ((acc + idx <<< ((toks.length - pos - 1) * 11) : Nat) : Int), st)) (st : St) :
    forRange toks bigZero body st =
      match sumWords m toks.length toks 0 0 with
      | .ok a => (.ok (a : Int), st)
      | .error (w, p) => (.err (.unknownWord w p), st) :=
  forRangeAux_sumWords m toks.length body hbody toks 0 0 st (by omega)

end Bip39V.Go
