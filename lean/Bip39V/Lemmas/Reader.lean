import Bip39V.Model.Reader
/-! `io.ReadFull` over an arbitrary scripted reader: any fragmentation, zero-length reads, errors
with or without bytes alongside. -/
namespace Bip39V.Model

/-- bytes delivered before (and together with) the first error -/
def delivered : Script → Bytes
  | [] => []
  | (bs, none) :: rest => bs ++ delivered rest
  | (bs, some _) :: _ => bs

/-- the first error the script returns (`none`: the script simply ends, i.e. EOF afterwards) -/
def firstErr : Script → Option IoErr
  | [] => none
  | (_, none) :: rest => firstErr rest
  | (_, some e) :: _ => some e

theorem readFull_ok (need : Nat) (sc : Script) (acc : Bytes) (calls : Nat) (h : need ≤ (delivered sc).length) :
    (readFull need sc acc calls).1 = .ok (acc ++ (delivered sc).take need) := by
  induction sc generalizing need acc calls with
  | nil =>
    simp [delivered] at h; subst h; simp [readFull]
  | cons hd rest ih =>
    obtain ⟨bs, e⟩ := hd
    cases need with
    | zero => simp [readFull]
    | succ n =>
      unfold readFull
      by_cases hle : n + 1 ≤ bs.length
      · simp only [hle, if_true]
        cases e <;> simp [delivered, List.take_append_of_le_length hle]
      · simp only [hle, if_false]
        cases e with
        | none =>
          simp only [delivered, List.length_append] at h
          rw [ih (n + 1 - bs.length) (acc ++ bs) (calls + 1) (by omega)]
          simp only [delivered]
          rw [List.take_append]
          have : List.take (n + 1) bs = bs := List.take_of_length_le (by omega)
          simp [this, List.append_assoc]
        | some x => simp [delivered] at h; omega

/-- which error `ReadFull` reports when fewer than `need` bytes arrive -/
def expectedErr (sc : Script) (acc : Bytes) : IoErr :=
  match firstErr sc with
  | some (.other c) => .other c
  | some .unexpectedEof => .unexpectedEof
  | _ => if acc ++ delivered sc = [] then .eof else .unexpectedEof

theorem readFull_fail (need : Nat) (sc : Script) (acc : Bytes) (calls : Nat) (h : (delivered sc).length < need) :
    (readFull need sc acc calls).1 = .err (expectedErr sc acc) := by
  induction sc generalizing need acc calls with
  | nil =>
    cases need with
    | zero => simp at h
    | succ n => simp [readFull, expectedErr, firstErr, delivered]; split <;> rfl
  | cons hd rest ih =>
    obtain ⟨bs, e⟩ := hd
    cases need with
    | zero => simp at h
    | succ n =>
      unfold readFull
      cases e with
      | none =>
        simp only [delivered, List.length_append] at h
        have hle : ¬ n + 1 ≤ bs.length := by omega
        simp only [hle, if_false]
        rw [ih _ _ _ (by omega)]
        simp [expectedErr, firstErr, delivered, List.append_assoc]
      | some x =>
        simp only [delivered] at h
        have hle : ¬ n + 1 ≤ bs.length := by omega
        simp only [hle, if_false]
        cases x <;> simp [expectedErr, firstErr, delivered] <;> split <;> rfl

end Bip39V.Model
