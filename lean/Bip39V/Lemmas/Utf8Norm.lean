import Bip39V.Lemmas.Utf8
import Bip39V.Lemmas.XText
/-! Normalisation keeps item lists well-formed, so the byte-level `strings.Split` of the normalised
string is the item-level `splitOn` the model uses — for UAX #15 NFKD and for the model of x/text. -/
namespace Bip39V.Unicode
open Bip39V

/-- every stored decomposition consists of scalar values (kernel evaluation of the whole table) -/
theorem table_scalar : T.allValues (fun _ v => (unpack v).all (fun c => decide (c < 0x110000))) decompTree = true := by decide +kernel

theorem decomp_wf (c : Nat) (hc : c < 0x110000 ∨ (0x110080 ≤ c ∧ c < 0x110100)) :
    ∀ x ∈ decomp c, x < 0x110000 ∨ (0x110080 ≤ x ∧ x < 0x110100) := by
  unfold decomp
  split
  · rename_i h
    intro x hx
    have := hangul_items c h.1 h.2 x hx
    omega
  · split
    · rename_i p hp
      obtain ⟨k, hk⟩ := T.find_of_allValues _ decompTree table_scalar c p hp
      intro x hx
      simp only [List.all_eq_true, decide_eq_true_eq] at hk
      exact Or.inl (hk x hx)
    · intro x hx; simp at hx; subst hx; exact hc

theorem flatMap_decomp_wf (s : Str) (h : WF s) : WF (s.flatMap decomp) := by
  intro x hx
  obtain ⟨c, hc, hxc⟩ := List.mem_flatMap.mp hx
  exact decomp_wf c (h c hc) x hxc

/-- UAX #15 NFKD keeps item lists well-formed -/
theorem nfkd_wf (s : Str) (h : WF s) : WF (nfkd s) := by
  intro x hx
  exact flatMap_decomp_wf s h x ((mem_reorderG _ x).mp hx)

theorem xdecomp_wf (s : Str) (h : WF s) : ∀ ss, WF (xdecomp ss s) := by
  induction s with
  | nil => intro ss x hx; simp [xdecomp] at hx
  | cons c cs ih =>
    intro ss x hx
    have hd := decomp_wf c (h c (by simp))
    have ih' := ih (fun y hy => h y (by simp [hy]))
    simp only [xdecomp] at hx
    split at hx
    · rcases List.mem_cons.mp hx with rfl | hx
      · left; decide
      · rcases List.mem_append.mp hx with hx | hx
        · exact hd x hx
        · exact ih' _ x hx
    · split at hx <;>
      · rcases List.mem_append.mp hx with hx | hx
        · exact hd x hx
        · exact ih' _ x hx

/-- the model of x/text's NFKD keeps item lists well-formed -/
theorem xnfkd_wf (s : Str) (h : WF s) : WF (xnfkd s) := by
  intro x hx
  exact xdecomp_wf s h 0 x ((mem_reorderG _ x).mp hx)

/-- **the tokens `CheckMnemonic` looks up are the item-level tokens**: for every Go string `b`,
`strings.Split` applied to the bytes of the normalised string yields the encodings of
`splitOn 0x20` applied to the normalised items — with either normaliser -/
theorem split_normalised_bytes (b : Bytes) :
    splitBytes 0x20 (utf8 (xnfkd (decodeItems b))) = (splitOn 0x20 (xnfkd (decodeItems b))).map utf8 ∧
    splitBytes 0x20 (utf8 (nfkd (decodeItems b))) = (splitOn 0x20 (nfkd (decodeItems b))).map utf8 :=
  ⟨(splitOn_utf8 _ (xnfkd_wf _ (decodeItems_wf b))).symm, (splitOn_utf8 _ (nfkd_wf _ (decodeItems_wf b))).symm⟩

/-- every stored decomposition consists of Unicode scalar values (no surrogates) -/
theorem table_isScalar : T.allValues (fun _ v => (unpack v).all (fun c => decide (c < 0xD800) || (decide (0xE000 ≤ c) && decide (c < 0x110000)))) decompTree = true := by
  decide +kernel

theorem decomp_scalar (c : Nat) (hc : isScalar c) : ∀ x ∈ decomp c, isScalar x := by
  unfold decomp
  split
  · rename_i h
    intro x hx
    have := hangul_items c h.1 h.2 x hx
    unfold isScalar; omega
  · split
    · rename_i p hp
      obtain ⟨k, hk⟩ := T.find_of_allValues _ decompTree table_isScalar c p hp
      intro x hx
      simp only [List.all_eq_true, Bool.or_eq_true, Bool.and_eq_true, decide_eq_true_eq] at hk
      exact hk x hx
    · intro x hx; simp at hx; subst hx; exact hc

theorem nfkd_scalar (s : Str) (h : Scalar s) : Scalar (nfkd s) := by
  intro x hx
  obtain ⟨c, hc, hxc⟩ := List.mem_flatMap.mp ((mem_reorderG _ x).mp hx)
  exact decomp_scalar c (h c hc) x hxc

theorem xdecomp_scalar (s : Str) (h : Scalar s) : ∀ ss, Scalar (xdecomp ss s) := by
  induction s with
  | nil => intro ss x hx; simp [xdecomp] at hx
  | cons c cs ih =>
    intro ss x hx
    have hd := decomp_scalar c (h c (by simp))
    have ih' := ih (fun y hy => h y (by simp [hy]))
    simp only [xdecomp] at hx
    split at hx
    · rcases List.mem_cons.mp hx with rfl | hx
      · left; decide
      · rcases List.mem_append.mp hx with hx | hx
        · exact hd x hx
        · exact ih' _ x hx
    · split at hx <;>
      · rcases List.mem_append.mp hx with hx | hx
        · exact hd x hx
        · exact ih' _ x hx

theorem xnfkd_scalar (s : Str) (h : Scalar s) : Scalar (xnfkd s) := by
  intro x hx
  exact xdecomp_scalar s h 0 x ((mem_reorderG _ x).mp hx)

/-- **map lookup by string key is lookup by item list** (valid UTF-8): for a Go string that is valid
UTF-8 (its decoding has no invalid-byte item), every token of the normalised string — with either
normaliser — has the same bytes as a list of scalar values `w` (a list word) iff it *is* `w` -/
theorem key_equality (b : Bytes) (hb : Scalar (decodeItems b)) (w : Str) (hw : Scalar w) :
    (∀ t ∈ splitOn 0x20 (xnfkd (decodeItems b)), (utf8 t = utf8 w ↔ t = w)) ∧
    (∀ t ∈ splitOn 0x20 (nfkd (decodeItems b)), (utf8 t = utf8 w ↔ t = w)) := by
  constructor
  · intro t ht
    exact ⟨utf8_inj_scalar t w (scalar_of_token _ _ (xnfkd_scalar _ hb) t ht) hw, fun h => h ▸ rfl⟩
  · intro t ht
    exact ⟨utf8_inj_scalar t w (scalar_of_token _ _ (nfkd_scalar _ hb) t ht) hw, fun h => h ▸ rfl⟩

#print axioms key_equality
#print axioms split_normalised_bytes
end Bip39V.Unicode
