import Bip39V.Basic.Tree
import Bip39V.Model.Lang
/-! Soundness of the search-tree certificate, and the Go map built by a range loop. -/
namespace Bip39V

theorem chk_sound (t : T) : ∀ (l : List Nat) (i : Nat), chk t l i = true →
    ∀ j (h : j < l.length), t.find l[j] = some (i + j) := by
  intro l
  induction l with
  | nil => intro i _ j h; simp at h
  | cons w ws ih =>
    intro i hc j h
    simp only [chk, Bool.and_eq_true, beq_iff_eq] at hc
    cases j with
    | zero => simpa using hc.1
    | succ j' =>
      have := ih (i + 1) hc.2 j' (by simpa using h)
      simpa [Nat.add_assoc, Nat.add_comm 1 j'] using this

theorem inj_of_chk (t : T) (l : List Nat) (hc : chk t l 0 = true) (j k : Nat) (hj : j < l.length) (hk : k < l.length)
    (h : l[j] = l[k]) : j = k := by
  have a := chk_sound t l 0 hc j hj
  have b := chk_sound t l 0 hc k hk
  rw [h, b] at a
  simpa using a.symm

/-- a list that passes the certificate check has no duplicates -/
theorem nodup_of_chk (t : T) (l : List Nat) (hc : chk t l 0 = true) : l.Nodup := by
  rw [List.nodup_iff_pairwise_ne, List.pairwise_iff_getElem]
  intro j k hj hk hjk h
  have := inj_of_chk t l hc j k hj hk h
  omega

/-- a map with a left inverse on the elements keeps a list duplicate-free -/
theorem nodup_map_of_leftInv {α β} (f : α → β) (g : β → α) (l : List α) (h : ∀ x ∈ l, g (f x) = x) (hn : l.Nodup) :
    (l.map f).Nodup := by
  induction l with
  | nil => simp
  | cons a t ih =>
    rw [List.nodup_cons] at hn
    rw [List.map_cons, List.nodup_cons]
    refine ⟨?_, ih (fun x hx => h x (List.mem_cons_of_mem _ hx)) hn.2⟩
    intro hmem
    rw [List.mem_map] at hmem
    obtain ⟨b, hb, hfb⟩ := hmem
    have : b = a := by
      have h1 := h b (List.mem_cons_of_mem _ hb)
      have h2 := h a List.mem_cons_self
      rw [← h1, hfb, h2]
    exact hn.1 (this ▸ hb)

namespace Model

theorem goMap_none_of_not_mem (l : List Str) (i : Nat) (w : Str) (h : w ∉ l) : goMap l i w = none := by
  induction l generalizing i with
  | nil => rfl
  | cons x xs ih =>
    simp only [List.mem_cons, not_or] at h
    simp [goMap, ih (i + 1) h.2, Ne.symm h.1]

theorem goMap_of_nodup (l : List Str) (hnd : l.Nodup) (i j : Nat) (hj : j < l.length) :
    goMap l i l[j] = some (i + j) := by
  induction l generalizing i j with
  | nil => simp at hj
  | cons x xs ih =>
    rw [List.nodup_cons] at hnd
    cases j with
    | zero =>
      simp only [List.getElem_cons_zero, goMap, goMap_none_of_not_mem xs (i + 1) x hnd.1]
      simp
    | succ j' =>
      have hj' : j' < xs.length := by simpa using hj
      simp only [List.getElem_cons_succ, goMap, ih hnd.2 (i + 1) j' hj']
      congr 1; omega

/-- whatever the map returns is the position of the word -/
theorem goMap_some (l : List Str) (i : Nat) (w : Str) (k : Nat) (h : goMap l i w = some k) :
    ∃ j, ∃ hj : j < l.length, k = i + j ∧ l[j] = w := by
  induction l generalizing i with
  | nil => simp [goMap] at h
  | cons x xs ih =>
    simp only [goMap] at h
    split at h
    · rename_i k' hk'
      injection h with h; subst h
      obtain ⟨j, hj, rfl, hw⟩ := ih (i + 1) hk'
      exact ⟨j + 1, by simpa using hj, by omega, by simpa using hw⟩
    · split at h
      · injection h with h; subst h
        rename_i hx
        exact ⟨0, by simp, rfl, by simpa using hx⟩
      · cases h

theorem goMap_isSome_iff_mem (l : List Str) (i : Nat) (w : Str) : (goMap l i w).isSome ↔ w ∈ l := by
  constructor
  · intro h
    obtain ⟨k, hk⟩ := Option.isSome_iff_exists.mp h
    obtain ⟨j, hj, _, hw⟩ := goMap_some l i w k hk
    exact hw ▸ List.getElem_mem hj
  · intro h
    false_or_by_contra
    rename_i hn
    have : goMap l i w = none := by simpa using hn
    induction l generalizing i with
    | nil => simp at h
    | cons x xs ih =>
      simp only [goMap] at this
      split at this
      · cases this
      · rename_i hnone
        split at this
        · cases this
        · rename_i hx
          rcases List.mem_cons.mp h with rfl | hm
          · exact hx rfl
          · exact ih (i + 1) hm (by simp [hnone]) hnone

end Model
end Bip39V
