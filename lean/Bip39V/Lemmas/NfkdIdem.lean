import Bip39V.Lemmas.Nfkd
/-! NFKD is idempotent: the NFKD spelling of a string has the same NFKD form as the string.
Table part by kernel evaluation (every stored decomposition consists of items that decompose to
themselves; no Hangul jamo has a table entry); ordering part by induction (insertion into an
ordered list keeps it ordered). -/
namespace Bip39V.Unicode
open Bip39V

/-- every value of the tree satisfies `p` -/
def T.allValues (p : Nat → Nat → Bool) : T → Bool
  | .L => true
  | .N l k v r => p k v && T.allValues p l && T.allValues p r

theorem T.find_of_allValues (p : Nat → Nat → Bool) (t : T) (h : T.allValues p t = true) (x v : Nat)
    (hf : t.find x = some v) : ∃ k, p k v = true := by
  induction t with
  | L => simp [T.find] at hf
  | N l k v' r ihl ihr =>
    simp only [T.allValues, Bool.and_eq_true] at h
    simp only [T.find] at hf
    split at hf
    · exact ihl h.1.2 hf
    · split at hf
      · exact ihr h.2 hf
      · injection hf with hf; subst hf; exact ⟨k, h.1.1⟩

/-- an item is *inert*: it is not a Hangul syllable and has no table entry, i.e. `decomp c = [c]` -/
def inert (c : Nat) : Bool := !(decide (0xAC00 ≤ c) && decide (c ≤ 0xD7A3)) && (decompTree.find c).isNone

theorem decomp_of_inert (c : Nat) (h : inert c = true) : decomp c = [c] := by
  simp only [inert, Bool.and_eq_true, Bool.not_eq_true', Bool.and_eq_false_iff, decide_eq_false_iff_not,
    Option.isNone_iff_eq_none] at h
  unfold decomp
  have hn : ¬ (0xAC00 ≤ c ∧ c ≤ 0xD7A3) := by
    rintro ⟨h1, h2⟩; rcases h.1 with h3 | h3 <;> omega
  rw [if_neg hn, h.2]

/-- every stored decomposition consists of inert items (kernel evaluation of the whole table) -/
theorem table_fully_decomposed : T.allValues (fun _ v => (unpack v).all inert) decompTree = true := by decide +kernel

set_option maxRecDepth 100000 in
/-- the conjoining jamo are inert (kernel evaluation over U+1100 … U+11FF) -/
theorem jamo_inert : ∀ c, 0x1100 ≤ c → c ≤ 0x11FF → inert c = true := by
  have : ((List.range 256).all fun d => inert (0x1100 + d)) = true := by decide +kernel
  have : ∀ d < 256, inert (0x1100 + d) = true := by
    intro d hd; rw [List.all_eq_true] at this; exact this d (List.mem_range.mpr hd)
  intro c h1 h2
  have := this (c - 0x1100) (by omega)
  have hc : 0x1100 + (c - 0x1100) = c := by omega
  rwa [hc] at this

theorem hangul_eq (c : Nat) : hangul c =
    if (c - 0xAC00) % 28 = 0 then [0x1100 + (c - 0xAC00) / 588, 0x1161 + (c - 0xAC00) % 588 / 28]
    else [0x1100 + (c - 0xAC00) / 588, 0x1161 + (c - 0xAC00) % 588 / 28, 0x11A7 + (c - 0xAC00) % 28] := rfl

theorem hangul_items (c : Nat) (h1 : 0xAC00 ≤ c) (h2 : c ≤ 0xD7A3) : ∀ x ∈ hangul c, 0x1100 ≤ x ∧ x ≤ 0x11FF := by
  intro x hx
  rw [hangul_eq] at hx
  generalize hs : c - 0xAC00 = s at hx
  have hs' : s ≤ 11171 := by omega
  have hl : s / 588 ≤ 18 := by omega
  have hv : s % 588 / 28 ≤ 20 := by omega
  have ht : s % 28 ≤ 27 := by omega
  by_cases h0 : s % 28 = 0
  · rw [if_pos h0] at hx
    simp only [List.mem_cons, List.mem_nil_iff, or_false] at hx
    rcases hx with hx | hx <;> omega
  · rw [if_neg h0] at hx
    simp only [List.mem_cons, List.mem_nil_iff, or_false] at hx
    rcases hx with hx | hx | hx <;> omega

theorem decomp_items_inert (c : Nat) : ∀ x ∈ decomp c, inert x = true := by
  unfold decomp
  by_cases hh : 0xAC00 ≤ c ∧ c ≤ 0xD7A3
  · rw [if_pos hh]
    intro x hx
    obtain ⟨a, b⟩ := hangul_items c hh.1 hh.2 x hx
    exact jamo_inert x a b
  · rw [if_neg hh]
    cases hf : decompTree.find c with
    | none =>
      intro x hx
      simp only [List.mem_singleton] at hx
      subst hx
      simp only [inert, Bool.and_eq_true, Bool.not_eq_true', Bool.and_eq_false_iff, decide_eq_false_iff_not]
      refine ⟨?_, by simp [hf]⟩
      by_cases h1 : 0xAC00 ≤ x
      · right; intro h2; exact hh ⟨h1, h2⟩
      · left; exact h1
    | some v =>
      obtain ⟨k, hk⟩ := T.find_of_allValues _ decompTree table_fully_decomposed c v hf
      simp only [List.all_eq_true] at hk
      exact hk

theorem flatMap_decomp_inert (l : Str) (h : ∀ x ∈ l, inert x = true) : l.flatMap decomp = l :=
  flatMap_id_of_inert decomp l (fun x hx => decomp_of_inert x (h x hx))

theorem flatMap_decomp_items_inert (s : Str) : ∀ x ∈ s.flatMap decomp, inert x = true := by
  intro x hx
  obtain ⟨c, _, hxc⟩ := List.mem_flatMap.mp hx
  exact decomp_items_inert c x hxc

theorem mem_insG (c : Nat) (l : Str) (x : Nat) : x ∈ insG ccc c l ↔ x = c ∨ x ∈ l := by
  induction l with
  | nil => simp [insG]
  | cons d ds ih =>
    simp only [insG]
    split
    · simp only [List.mem_cons, ih]
      constructor
      · rintro (h | h | h) <;> simp [h]
      · rintro (h | h | h) <;> simp [h]
    · simp [List.mem_cons]

theorem mem_reorderG (l : Str) (x : Nat) : x ∈ reorderG ccc l ↔ x ∈ l := by
  induction l with
  | nil => simp [reorderG]
  | cons c cs ih => simp [reorderG, mem_insG, ih]

theorem orderedCcc_cons_cons (a b : Nat) (t : Str) :
    orderedCcc (a :: b :: t) = true ↔ (ccc b = 0 ∨ ¬ ccc b < ccc a) ∧ orderedCcc (b :: t) = true := by
  simp only [orderedCcc, Bool.and_eq_true, Bool.not_eq_true', Bool.and_eq_false_iff, bne_eq_false_iff_eq,
    decide_eq_false_iff_not]

theorem orderedCcc_tail (a : Nat) (l : Str) (h : orderedCcc (a :: l) = true) : orderedCcc l = true := by
  cases l with
  | nil => rfl
  | cons b t => exact ((orderedCcc_cons_cons a b t).mp h).2

/-- inserting into an ordered list keeps it ordered -/
theorem ordered_insG (c : Nat) (l : Str) (h : orderedCcc l = true) : orderedCcc (insG ccc c l) = true := by
  induction l with
  | nil => rfl
  | cons d ds ih =>
    have ih' := ih (orderedCcc_tail d ds h)
    by_cases hc : ccc d ≠ 0 ∧ ccc d < ccc c
    · have e1 : insG ccc c (d :: ds) = d :: insG ccc c ds := by rw [insG, if_pos hc]
      rw [e1]
      cases ds with
      | nil =>
        have : insG ccc c [] = [c] := rfl
        rw [this, orderedCcc_cons_cons]
        exact ⟨Or.inr (by omega), rfl⟩
      | cons e es =>
        have hde := (orderedCcc_cons_cons d e es).mp h
        by_cases he : ccc e ≠ 0 ∧ ccc e < ccc c
        · have e2 : insG ccc c (e :: es) = e :: insG ccc c es := by rw [insG, if_pos he]
          rw [e2] at ih' ⊢
          rw [orderedCcc_cons_cons]
          exact ⟨hde.1, ih'⟩
        · have e2 : insG ccc c (e :: es) = c :: e :: es := by rw [insG, if_neg he]
          rw [e2] at ih' ⊢
          rw [orderedCcc_cons_cons]
          exact ⟨Or.inr (by omega), ih'⟩
    · have e1 : insG ccc c (d :: ds) = c :: d :: ds := by rw [insG, if_neg hc]
      rw [e1, orderedCcc_cons_cons]
      refine ⟨?_, h⟩
      by_cases h0 : ccc d = 0
      · left; exact h0
      · right; intro hlt; exact hc ⟨h0, hlt⟩

theorem ordered_reorderG (l : Str) : orderedCcc (reorderG ccc l) = true := by
  induction l with
  | nil => rfl
  | cons c cs ih => exact ordered_insG c _ ih

/-- **NFKD is idempotent** -/
theorem nfkd_idempotent (s : Str) : nfkd (nfkd s) = nfkd s := by
  unfold nfkd nfkdG
  have hin : ∀ x ∈ reorderG ccc (s.flatMap decomp), inert x = true := by
    intro x hx
    exact flatMap_decomp_items_inert s x ((mem_reorderG _ x).mp hx)
  rw [flatMap_decomp_inert _ hin]
  exact reorder_of_ordered _ (ordered_reorderG _)

end Bip39V.Unicode
