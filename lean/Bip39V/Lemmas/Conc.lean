/-! The C12 interleaving model: once-guarded lazily built maps, any number of threads, any
schedule.  `sync.Once.Do`: exactly one caller runs the closure; every other caller blocks until it
has completed; the completion happens-before every return (Go memory model). -/
namespace Bip39V.Conc

abbrev Tid := Nat
abbrev Cell := Nat
abbrev Var := Nat
abbrev Lang := Nat

structure Guard where
  cell : Cell
  wvar : Var
  rvar : Var

inductive OnceSt | idle | running (t : Tid) | done
deriving DecidableEq

/-- events carry the language whose `mapping()` arm produced them; the variable touched is
`(g l).wvar` for a write and `(g l).rvar` for a read -/
inductive Ev
  | enter (t : Tid) (o : Cell)
  | write (t : Tid) (l : Lang)
  | exit (t : Tid) (o : Cell)
  | ret (t : Tid) (o : Cell)
  | read (t : Tid) (l : Lang)
deriving DecidableEq

inductive Pc
  | idle
  | start (l : Lang)
  | building (l : Lang)
  | built (l : Lang)
  | exited (l : Lang)
  | returned (l : Lang)
deriving DecidableEq

structure St where
  once : Cell → OnceSt
  pc : Tid → Pc
  trace : List Ev          -- chronological

def init : St := { once := fun _ => .idle, pc := fun _ => .idle, trace := [] }

def upd {α} (f : Nat → α) (k : Nat) (v : α) : Nat → α := fun x => if x = k then v else f x

variable (g : Lang → Guard)

inductive Step : St → St → Prop
  | call (s : St) (t : Tid) (l : Lang) (h : s.pc t = .idle) :
      Step s { s with pc := upd s.pc t (.start l) }
  | becomeRunner (s : St) (t : Tid) (l : Lang) (h : s.pc t = .start l) (ho : s.once (g l).cell = .idle) :
      Step s { once := upd s.once (g l).cell (.running t), pc := upd s.pc t (.building l),
               trace := s.trace ++ [.enter t (g l).cell] }
  | observeDone (s : St) (t : Tid) (l : Lang) (h : s.pc t = .start l) (ho : s.once (g l).cell = .done) :
      Step s { s with pc := upd s.pc t (.returned l), trace := s.trace ++ [.ret t (g l).cell] }
  | build (s : St) (t : Tid) (l : Lang) (h : s.pc t = .building l) :
      Step s { s with pc := upd s.pc t (.built l), trace := s.trace ++ [.write t l] }
  | finish (s : St) (t : Tid) (l : Lang) (h : s.pc t = .built l) :
      Step s { once := upd s.once (g l).cell .done, pc := upd s.pc t (.exited l),
               trace := s.trace ++ [.exit t (g l).cell] }
  | runnerReturn (s : St) (t : Tid) (l : Lang) (h : s.pc t = .exited l) :
      Step s { s with pc := upd s.pc t (.returned l), trace := s.trace ++ [.ret t (g l).cell] }
  | readMap (s : St) (t : Tid) (l : Lang) (h : s.pc t = .returned l) :
      Step s { s with pc := upd s.pc t .idle, trace := s.trace ++ [.read t l] }

inductive Reach : St → Prop
  | init : Reach init
  | step {s s'} : Reach s → Step g s s' → Reach s'

def Before (τ : List Ev) (a b : Ev) : Prop := ∃ x y z, τ = x ++ a :: y ++ b :: z

structure WellGuarded : Prop where
  rw_same : ∀ l, (g l).wvar = (g l).rvar
  var_cell : ∀ l₁ l₂, (g l₁).wvar = (g l₂).wvar → (g l₁).cell = (g l₂).cell

/-- write →po exit(o) →sync ret(o) →po read -/
def Ordered (τ : List Ev) (tw : Tid) (lw : Lang) (tr : Tid) (lr : Lang) : Prop :=
  ∃ o, Before τ (.write tw lw) (.exit tw o) ∧ Before τ (.exit tw o) (.ret tr o) ∧ Before τ (.ret tr o) (.read tr lr)

theorem Before.append {τ a b} (h : Before τ a b) (e : List Ev) : Before (τ ++ e) a b := by
  obtain ⟨x, y, z, rfl⟩ := h
  exact ⟨x, y, z ++ e, by simp⟩
theorem before_snoc_of_mem {τ : List Ev} {a b : Ev} (h : a ∈ τ) : Before (τ ++ [b]) a b := by
  obtain ⟨x, y, rfl⟩ := List.append_of_mem h
  exact ⟨x, y, [], by simp⟩
theorem mem_of_before_left {τ a b} (h : Before τ a b) : a ∈ τ := by
  obtain ⟨x, y, z, rfl⟩ := h; simp
theorem mem_of_before_right {τ a b} (h : Before τ a b) : b ∈ τ := by
  obtain ⟨x, y, z, rfl⟩ := h; simp

structure Inv (s : St) : Prop where
  idle_clean : ∀ o, s.once o = .idle →
      (∀ t, Ev.exit t o ∉ s.trace ∧ Ev.ret t o ∉ s.trace) ∧ ∀ l t, (g l).cell = o → Ev.write t l ∉ s.trace
  running_ok : ∀ o t, s.once o = .running t →
      (∀ t', Ev.exit t' o ∉ s.trace ∧ Ev.ret t' o ∉ s.trace) ∧
      (∀ l t', (g l).cell = o → Ev.write t' l ∈ s.trace → t' = t)
  runner_pc : ∀ t l, (s.pc t = .building l ∨ s.pc t = .built l) → s.once (g l).cell = .running t
  done_ok : ∀ o, s.once o = .done → ∀ l t', (g l).cell = o → Ev.write t' l ∈ s.trace →
      Before s.trace (.write t' l) (.exit t' o)
  ret_after : ∀ t o, Ev.ret t o ∈ s.trace →
      s.once o = .done ∧ ∀ t', Ev.exit t' o ∈ s.trace → Before s.trace (.exit t' o) (.ret t o)
  exit_done : ∀ t o, Ev.exit t o ∈ s.trace → s.once o = .done
  returned_ok : ∀ t l, s.pc t = .returned l → Ev.ret t (g l).cell ∈ s.trace
  exited_ok : ∀ t l, s.pc t = .exited l → s.once (g l).cell = .done
  read_ok : ∀ t l, Ev.read t l ∈ s.trace → Before s.trace (.ret t (g l).cell) (.read t l)
  writers_same : ∀ l₁ l₂ t₁ t₂, (g l₁).cell = (g l₂).cell → Ev.write t₁ l₁ ∈ s.trace → Ev.write t₂ l₂ ∈ s.trace → t₁ = t₂

variable {g}

theorem ordered_of_inv (wg : WellGuarded g) {s : St} (inv : Inv g s) (tw tr : Tid) (lw lr : Lang)
    (hv : (g lw).wvar = (g lr).rvar)
    (hw : Ev.write tw lw ∈ s.trace) (hr : Ev.read tr lr ∈ s.trace) : Ordered s.trace tw lw tr lr := by
  have hbefore := inv.read_ok tr lr hr
  obtain ⟨hdone, hexits⟩ := inv.ret_after tr _ (mem_of_before_left hbefore)
  have hcell : (g lw).cell = (g lr).cell := wg.var_cell lw lr (by rw [hv, wg.rw_same lr])
  have h1 := inv.done_ok _ hdone lw tw hcell hw
  exact ⟨(g lr).cell, h1, hexits tw (mem_of_before_right h1), hbefore⟩

/-- two writes to one variable come from one thread (the unique runner), hence are ordered by program order -/
theorem single_writer (wg : WellGuarded g) {s : St} (inv : Inv g s) (t₁ t₂ : Tid) (l₁ l₂ : Lang)
    (hv : (g l₁).wvar = (g l₂).wvar)
    (h₁ : Ev.write t₁ l₁ ∈ s.trace) (h₂ : Ev.write t₂ l₂ ∈ s.trace) : t₁ = t₂ :=
  inv.writers_same l₁ l₂ t₁ t₂ (wg.var_cell l₁ l₂ hv) h₁ h₂

theorem inv_init : Inv g init := by
  constructor <;> simp [init]


@[simp] theorem upd_same {α} (f : Nat → α) (k : Nat) (v : α) : upd f k v k = v := by simp [upd]
theorem upd_ne {α} (f : Nat → α) {k x : Nat} (v : α) (h : x ≠ k) : upd f k v x = f x := by simp [upd, h]

theorem before_snoc_iff {τ : List Ev} {a b e : Ev} :
    Before (τ ++ [e]) a b ↔ Before τ a b ∨ (a ∈ τ ∧ b = e) := by
  constructor
  · rintro ⟨x, y, z, h⟩
    rcases List.eq_nil_or_concat z with rfl | ⟨z', e', rfl⟩
    · right
      have : τ ++ [e] = (x ++ a :: y) ++ [b] := by simpa using h
      have h2 := List.append_inj' this rfl
      exact ⟨by rw [h2.1]; simp, by simpa using h2.2.symm⟩
    · left
      have : τ ++ [e] = (x ++ a :: y ++ b :: z') ++ [e'] := by simpa using h
      have h2 := List.append_inj' this rfl
      exact ⟨x, y, z', h2.1⟩
  · rintro (h | ⟨h, rfl⟩)
    · exact h.append _
    · exact before_snoc_of_mem h

/-- steps that only change a pc from a non-runner, non-returned, non-exited state to `.start` -/
theorem inv_call (s : St) (t : Tid) (l : Lang) (h : s.pc t = .idle) (inv : Inv g s) :
    Inv g { s with pc := upd s.pc t (.start l) } := by
  have pcne : ∀ t' (p : Pc), p ≠ .start l → upd s.pc t (.start l) t' = p → s.pc t' = p := by
    intro t' p hp hpc
    by_cases ht : t' = t
    · subst ht; simp at hpc; exact absurd hpc.symm hp
    · rwa [upd_ne _ _ ht] at hpc
  constructor
  · exact inv.idle_clean
  · exact inv.running_ok
  · intro t' l' hpc
    exact inv.runner_pc t' l' (hpc.imp (pcne t' _ (by simp)) (pcne t' _ (by simp)))
  · exact inv.done_ok
  · exact inv.ret_after
  · exact inv.exit_done
  · intro t' l' hpc; exact inv.returned_ok t' l' (pcne t' _ (by simp) hpc)
  · intro t' l' hpc; exact inv.exited_ok t' l' (pcne t' _ (by simp) hpc)
  · exact inv.read_ok
  · exact inv.writers_same

theorem inv_becomeRunner (s : St) (t : Tid) (l : Lang) (h : s.pc t = .start l)
    (ho : s.once (g l).cell = .idle) (inv : Inv g s) :
    Inv g { once := upd s.once (g l).cell (.running t), pc := upd s.pc t (.building l),
            trace := s.trace ++ [.enter t (g l).cell] } := by
  have clean := inv.idle_clean _ ho
  have pcne : ∀ t' (p : Pc), p ≠ .building l → upd s.pc t (.building l) t' = p → s.pc t' = p := by
    intro t' p hp hpc
    by_cases ht : t' = t
    · subst ht; simp at hpc; exact absurd hpc.symm hp
    · rwa [upd_ne _ _ ht] at hpc
  have oncene : ∀ o (st : OnceSt), st ≠ .running t → upd s.once (g l).cell (.running t) o = st → s.once o = st ∧ o ≠ (g l).cell := by
    intro o st hst hon
    by_cases hc : o = (g l).cell
    · subst hc; simp at hon; exact absurd hon.symm hst
    · rw [upd_ne _ _ hc] at hon; exact ⟨hon, hc⟩
  constructor
  all_goals dsimp only
  · intro o hoo
    obtain ⟨h1, _⟩ := oncene o _ (by simp) hoo
    simpa using inv.idle_clean o h1
  · intro o t' hoo
    by_cases hc : o = (g l).cell
    · subst hc
      simp at hoo; subst hoo
      refine ⟨fun t' => by simpa using clean.1 t', fun l' t' hl' hw => ?_⟩
      simp at hw
      exact absurd hw (clean.2 l' t' hl')
    · rw [upd_ne _ _ hc] at hoo
      simpa using inv.running_ok o t' hoo
  · intro t' l' hpc
    by_cases ht : t' = t
    · subst ht
      simp at hpc
      subst hpc; simp
    · simp only [upd_ne _ _ ht] at hpc
      have := inv.runner_pc t' l' hpc
      by_cases hc : (g l').cell = (g l).cell
      · rw [hc, ho] at this; simp at this
      · rw [upd_ne _ _ hc]; exact this
  · intro o hoo l' t' hl' hw
    obtain ⟨h1, _⟩ := oncene o _ (by simp) hoo
    simp at hw
    exact (inv.done_ok o h1 l' t' hl' hw).append _
  · intro t' o hr
    simp at hr
    obtain ⟨h1, h2⟩ := inv.ret_after t' o hr
    have hc : o ≠ (g l).cell := by rintro rfl; rw [ho] at h1; simp at h1
    refine ⟨by rw [upd_ne _ _ hc]; exact h1, fun t'' he => ?_⟩
    simp at he
    exact (h2 t'' he).append _
  · intro t' o he
    simp at he
    have h1 := inv.exit_done t' o he
    have hc : o ≠ (g l).cell := by rintro rfl; rw [ho] at h1; simp at h1
    rw [upd_ne _ _ hc]; exact h1
  · intro t' l' hpc
    simp; exact inv.returned_ok t' l' (pcne t' _ (by simp) hpc)
  · intro t' l' hpc
    have h1 := inv.exited_ok t' l' (pcne t' _ (by simp) hpc)
    have hc : (g l').cell ≠ (g l).cell := by intro hc; rw [hc, ho] at h1; simp at h1
    rw [upd_ne _ _ hc]; exact h1
  · intro t' l' hr
    simp at hr
    exact (inv.read_ok t' l' hr).append _
  · intro l₁ l₂ t₁ t₂ hc h1 h2
    simp at h1 h2
    exact inv.writers_same l₁ l₂ t₁ t₂ hc h1 h2

/-- both `observeDone` (from `.start l`) and `runnerReturn` (from `.exited l`): the cell is done, a `ret` is logged -/
theorem inv_ret (s : St) (t : Tid) (l : Lang) (h : s.pc t = .start l ∨ s.pc t = .exited l)
    (ho : s.once (g l).cell = .done) (inv : Inv g s) :
    Inv g { s with pc := upd s.pc t (.returned l), trace := s.trace ++ [.ret t (g l).cell] } := by
  have pcne : ∀ t' (p : Pc), p ≠ .returned l → upd s.pc t (.returned l) t' = p → s.pc t' = p := by
    intro t' p hp hpc
    by_cases ht : t' = t
    · subst ht; simp at hpc; exact absurd hpc.symm hp
    · rwa [upd_ne _ _ ht] at hpc
  constructor
  all_goals dsimp only
  · intro o hoo
    have hc : o ≠ (g l).cell := by rintro rfl; rw [ho] at hoo; simp at hoo
    obtain ⟨h1, h2⟩ := inv.idle_clean o hoo
    refine ⟨fun t' => ?_, fun l' t' hl' => by simpa using h2 l' t' hl'⟩
    simp only [List.mem_append, List.mem_singleton, not_or]
    refine ⟨⟨(h1 t').1, by simp⟩, (h1 t').2, ?_⟩
    intro heq; injection heq with _ h4; exact hc h4
  · intro o t' hoo
    have hc : o ≠ (g l).cell := by rintro rfl; rw [ho] at hoo; simp at hoo
    obtain ⟨h1, h2⟩ := inv.running_ok o t' hoo
    refine ⟨fun t'' => ?_, fun l' t'' hl' hw => h2 l' t'' hl' (by simpa using hw)⟩
    simp only [List.mem_append, List.mem_singleton, not_or]
    refine ⟨⟨(h1 t'').1, by simp⟩, (h1 t'').2, ?_⟩
    intro heq; injection heq with _ h4; exact hc h4
  · intro t' l' hpc
    exact inv.runner_pc t' l' (hpc.imp (pcne t' _ (by simp)) (pcne t' _ (by simp)))
  · intro o hoo l' t' hl' hw
    simp at hw
    exact (inv.done_ok o hoo l' t' hl' hw).append _
  · intro t' o hr
    simp only [List.mem_append, List.mem_singleton] at hr
    rcases hr with hr | hr
    · obtain ⟨h1, h2⟩ := inv.ret_after t' o hr
      refine ⟨h1, fun t'' he => ?_⟩
      simp at he
      exact (h2 t'' he).append _
    · injection hr with h3 h4
      subst h3 h4
      refine ⟨ho, fun t'' he => ?_⟩
      simp at he
      exact before_snoc_of_mem he
  · intro t' o he
    simp at he
    exact inv.exit_done t' o he
  · intro t' l' hpc
    by_cases ht : t' = t
    · subst ht; simp at hpc; subst hpc; simp
    · rw [upd_ne _ _ ht] at hpc
      simp only [List.mem_append]; exact Or.inl (inv.returned_ok t' l' hpc)
  · intro t' l' hpc
    exact inv.exited_ok t' l' (pcne t' _ (by simp) hpc)
  · intro t' l' hr
    simp at hr
    exact (inv.read_ok t' l' hr).append _
  · intro l₁ l₂ t₁ t₂ hc h1 h2
    simp at h1 h2
    exact inv.writers_same l₁ l₂ t₁ t₂ hc h1 h2

theorem inv_build (s : St) (t : Tid) (l : Lang) (h : s.pc t = .building l) (inv : Inv g s) :
    Inv g { s with pc := upd s.pc t (.built l), trace := s.trace ++ [.write t l] } := by
  have hrun := inv.runner_pc t l (Or.inl h)
  have pcne : ∀ t' (p : Pc), p ≠ .built l → upd s.pc t (.built l) t' = p → s.pc t' = p := by
    intro t' p hp hpc
    by_cases ht : t' = t
    · subst ht; simp at hpc; exact absurd hpc.symm hp
    · rwa [upd_ne _ _ ht] at hpc
  constructor
  all_goals dsimp only
  · intro o hoo
    have hc : (g l).cell ≠ o := by rintro rfl; rw [hrun] at hoo; simp at hoo
    obtain ⟨h1, h2⟩ := inv.idle_clean o hoo
    refine ⟨fun t' => by simpa using h1 t', fun l' t' hl' => ?_⟩
    simp only [List.mem_append, List.mem_singleton, not_or]
    refine ⟨h2 l' t' hl', ?_⟩
    intro heq; injection heq with _ h4; subst h4; exact hc hl'
  · intro o t' hoo
    obtain ⟨h1, h2⟩ := inv.running_ok o t' hoo
    refine ⟨fun t'' => by simpa using h1 t'', fun l' t'' hl' hw => ?_⟩
    simp only [List.mem_append, List.mem_singleton] at hw
    rcases hw with hw | hw
    · exact h2 l' t'' hl' hw
    · injection hw with h3 h4
      subst h3 h4
      rw [hl'] at hrun; rw [hrun] at hoo; injection hoo
  · intro t' l' hpc
    by_cases ht : t' = t
    · subst ht; simp at hpc; subst hpc; exact hrun
    · simp only [upd_ne _ _ ht] at hpc; exact inv.runner_pc t' l' hpc
  · intro o hoo l' t' hl' hw
    simp only [List.mem_append, List.mem_singleton] at hw
    rcases hw with hw | hw
    · exact (inv.done_ok o hoo l' t' hl' hw).append _
    · injection hw with h3 h4
      subst h3 h4
      rw [hl'] at hrun; rw [hrun] at hoo; simp at hoo
  · intro t' o hr
    simp at hr
    obtain ⟨h1, h2⟩ := inv.ret_after t' o hr
    refine ⟨h1, fun t'' he => ?_⟩
    simp at he
    exact (h2 t'' he).append _
  · intro t' o he
    simp at he
    exact inv.exit_done t' o he
  · intro t' l' hpc
    simp; exact inv.returned_ok t' l' (pcne t' _ (by simp) hpc)
  · intro t' l' hpc
    exact inv.exited_ok t' l' (pcne t' _ (by simp) hpc)
  · intro t' l' hr
    simp at hr
    exact (inv.read_ok t' l' hr).append _
  · intro l₁ l₂ t₁ t₂ hc h1 h2
    simp only [List.mem_append, List.mem_singleton] at h1 h2
    have key : ∀ l' t', (g l').cell = (g l).cell → Ev.write t' l' ∈ s.trace → t' = t :=
      fun l' t' hl' hw => (inv.running_ok _ t hrun).2 l' t' hl' hw
    rcases h1 with h1 | h1 <;> rcases h2 with h2 | h2
    · exact inv.writers_same l₁ l₂ t₁ t₂ hc h1 h2
    · injection h2 with h3 h4; subst h3 h4; exact key l₁ t₁ hc h1
    · injection h1 with h3 h4; subst h3 h4; exact (key l₂ t₂ hc.symm h2).symm
    · injection h1 with h3 _; injection h2 with h5 _; rw [h3, h5]

theorem inv_finish (s : St) (t : Tid) (l : Lang) (h : s.pc t = .built l) (inv : Inv g s) :
    Inv g { once := upd s.once (g l).cell .done, pc := upd s.pc t (.exited l),
            trace := s.trace ++ [.exit t (g l).cell] } := by
  have hrun := inv.runner_pc t l (Or.inr h)
  obtain ⟨hnoexit, hwriters⟩ := inv.running_ok _ t hrun
  have pcne : ∀ t' (p : Pc), p ≠ .exited l → upd s.pc t (.exited l) t' = p → s.pc t' = p := by
    intro t' p hp hpc
    by_cases ht : t' = t
    · subst ht; simp at hpc; exact absurd hpc.symm hp
    · rwa [upd_ne _ _ ht] at hpc
  have oncene : ∀ o (st : OnceSt), st ≠ .done → upd s.once (g l).cell .done o = st → s.once o = st ∧ o ≠ (g l).cell := by
    intro o st hst hon
    by_cases hc : o = (g l).cell
    · subst hc; simp at hon; exact absurd hon.symm hst
    · rw [upd_ne _ _ hc] at hon; exact ⟨hon, hc⟩
  constructor
  all_goals dsimp only
  · intro o hoo
    obtain ⟨h1, hc⟩ := oncene o _ (by simp) hoo
    obtain ⟨h2, h3⟩ := inv.idle_clean o h1
    refine ⟨fun t' => ?_, fun l' t' hl' => by simpa using h3 l' t' hl'⟩
    simp only [List.mem_append, List.mem_singleton, not_or]
    refine ⟨⟨(h2 t').1, ?_⟩, (h2 t').2, by simp⟩
    intro heq; injection heq with _ h4; exact hc h4
  · intro o t' hoo
    obtain ⟨h1, hc⟩ := oncene o _ (by simp) hoo
    obtain ⟨h2, h3⟩ := inv.running_ok o t' h1
    refine ⟨fun t'' => ?_, fun l' t'' hl' hw => h3 l' t'' hl' (by simpa using hw)⟩
    simp only [List.mem_append, List.mem_singleton, not_or]
    refine ⟨⟨(h2 t'').1, ?_⟩, (h2 t'').2, by simp⟩
    intro heq; injection heq with _ h4; exact hc h4
  · intro t' l' hpc
    have hpc' := hpc.imp (pcne t' _ (by simp)) (pcne t' _ (by simp))
    have hr := inv.runner_pc t' l' hpc'
    have ht : t' ≠ t := by
      rintro rfl
      rcases hpc' with h' | h' <;> rw [h] at h' <;> simp at h'
      -- pc t = built l' with l' = l: contradiction with new pc; handled below
      all_goals (subst h'; simp at hpc)
    have hc : (g l').cell ≠ (g l).cell := by
      intro hc; rw [hc, hrun] at hr; injection hr with hr; exact ht hr.symm
    rw [upd_ne _ _ hc]; exact hr
  · intro o hoo l' t' hl' hw
    simp at hw
    by_cases hc : o = (g l).cell
    · subst hc
      have : t' = t := hwriters l' t' hl' hw
      subst this
      exact before_snoc_of_mem hw
    · rw [upd_ne _ _ hc] at hoo
      exact (inv.done_ok o hoo l' t' hl' hw).append _
  · intro t' o hr
    simp at hr
    obtain ⟨h1, h2⟩ := inv.ret_after t' o hr
    have hc : o ≠ (g l).cell := by rintro rfl; rw [hrun] at h1; simp at h1
    refine ⟨by rw [upd_ne _ _ hc]; exact h1, fun t'' he => ?_⟩
    simp only [List.mem_append, List.mem_singleton] at he
    rcases he with he | he
    · exact (h2 t'' he).append _
    · injection he with _ h4; exact absurd h4 hc
  · intro t' o he
    simp only [List.mem_append, List.mem_singleton] at he
    rcases he with he | he
    · have h1 := inv.exit_done t' o he
      by_cases hc : o = (g l).cell
      · subst hc; simp
      · rw [upd_ne _ _ hc]; exact h1
    · injection he with _ h4; subst h4; simp
  · intro t' l' hpc
    simp; exact inv.returned_ok t' l' (pcne t' _ (by simp) hpc)
  · intro t' l' hpc
    by_cases ht : t' = t
    · subst ht; simp at hpc; subst hpc; simp
    · rw [upd_ne _ _ ht] at hpc
      have h1 := inv.exited_ok t' l' hpc
      by_cases hc : (g l').cell = (g l).cell
      · rw [hc]; simp
      · rw [upd_ne _ _ hc]; exact h1
  · intro t' l' hr
    simp at hr
    exact (inv.read_ok t' l' hr).append _
  · intro l₁ l₂ t₁ t₂ hc h1 h2
    simp at h1 h2
    exact inv.writers_same l₁ l₂ t₁ t₂ hc h1 h2

theorem inv_readMap (s : St) (t : Tid) (l : Lang) (h : s.pc t = .returned l) (inv : Inv g s) :
    Inv g { s with pc := upd s.pc t .idle, trace := s.trace ++ [.read t l] } := by
  have hret := inv.returned_ok t l h
  have pcne : ∀ t' (p : Pc), p ≠ .idle → upd s.pc t .idle t' = p → s.pc t' = p := by
    intro t' p hp hpc
    by_cases ht : t' = t
    · subst ht; simp at hpc; exact absurd hpc.symm hp
    · rwa [upd_ne _ _ ht] at hpc
  constructor
  all_goals dsimp only
  · intro o hoo
    simpa using inv.idle_clean o hoo
  · intro o t' hoo
    simpa using inv.running_ok o t' hoo
  · intro t' l' hpc
    exact inv.runner_pc t' l' (hpc.imp (pcne t' _ (by simp)) (pcne t' _ (by simp)))
  · intro o hoo l' t' hl' hw
    simp at hw
    exact (inv.done_ok o hoo l' t' hl' hw).append _
  · intro t' o hr
    simp at hr
    obtain ⟨h1, h2⟩ := inv.ret_after t' o hr
    refine ⟨h1, fun t'' he => ?_⟩
    simp at he
    exact (h2 t'' he).append _
  · intro t' o he
    simp at he
    exact inv.exit_done t' o he
  · intro t' l' hpc
    simp; exact inv.returned_ok t' l' (pcne t' _ (by simp) hpc)
  · intro t' l' hpc
    exact inv.exited_ok t' l' (pcne t' _ (by simp) hpc)
  · intro t' l' hr
    simp only [List.mem_append, List.mem_singleton] at hr
    rcases hr with hr | hr
    · exact (inv.read_ok t' l' hr).append _
    · injection hr with h3 h4
      subst h3 h4
      exact before_snoc_of_mem hret
  · intro l₁ l₂ t₁ t₂ hc h1 h2
    simp at h1 h2
    exact inv.writers_same l₁ l₂ t₁ t₂ hc h1 h2

theorem inv_step {s s' : St} (inv : Inv g s) (st : Step g s s') : Inv g s' := by
  cases st with
  | call t l h => exact inv_call s t l h inv
  | becomeRunner t l h ho => exact inv_becomeRunner s t l h ho inv
  | observeDone t l h ho => exact inv_ret s t l (Or.inl h) ho inv
  | build t l h => exact inv_build s t l h inv
  | finish t l h => exact inv_finish s t l h inv
  | runnerReturn t l h => exact inv_ret s t l (Or.inr h) (inv.exited_ok t l h) inv
  | readMap t l h => exact inv_readMap s t l h inv

theorem inv_reach {s : St} (r : Reach g s) : Inv g s := by
  induction r with
  | init => exact inv_init
  | step _ st ih => exact inv_step ih st

/-- C12 race freedom: in every reachable state of any schedule with any number of threads, every
write/read pair on one variable is ordered by happens-before, and all writes to it come from one thread. -/
theorem race_free (wg : WellGuarded g) {s : St} (r : Reach g s) (tw tr : Tid) (lw lr : Lang)
    (hv : (g lw).wvar = (g lr).rvar) (hw : Ev.write tw lw ∈ s.trace) (hr : Ev.read tr lr ∈ s.trace) :
    Ordered s.trace tw lw tr lr :=
  ordered_of_inv wg (inv_reach r) tw tr lw lr hv hw hr


end Bip39V.Conc

namespace Bip39V.Conc
variable {g : Lang → Guard}

/-- second invariant: a cell that is done has seen a write by some arm using it; a thread that has
built has logged its write -/
structure Inv2 (g : Lang → Guard) (s : St) : Prop where
  done_written : ∀ o, s.once o = .done → ∃ t l, (g l).cell = o ∧ Ev.write t l ∈ s.trace
  built_written : ∀ t l, s.pc t = .built l → Ev.write t l ∈ s.trace

theorem inv2_init : Inv2 g init := by
  constructor <;> simp [init]

theorem inv2_step {s s' : St} (inv : Inv2 g s) (st : Step g s s') : Inv2 g s' := by
  cases st with
  | call t l h =>
    constructor
    · exact inv.done_written
    · intro t' l' hpc
      dsimp only at hpc ⊢
      by_cases ht : t' = t
      · subst ht; simp at hpc
      · rw [upd_ne _ _ ht] at hpc; exact inv.built_written t' l' hpc
  | becomeRunner t l h ho =>
    constructor
    · intro o hoo
      dsimp only at hoo ⊢
      by_cases hc : o = (g l).cell
      · subst hc; simp at hoo
      · rw [upd_ne _ _ hc] at hoo
        obtain ⟨t', l', h1, h2⟩ := inv.done_written o hoo
        exact ⟨t', l', h1, by simp [h2]⟩
    · intro t' l' hpc
      dsimp only at hpc ⊢
      by_cases ht : t' = t
      · subst ht; simp at hpc
      · rw [upd_ne _ _ ht] at hpc; simp [inv.built_written t' l' hpc]
  | observeDone t l h ho =>
    constructor
    · intro o hoo
      dsimp only at hoo ⊢
      obtain ⟨t', l', h1, h2⟩ := inv.done_written o hoo
      exact ⟨t', l', h1, by simp [h2]⟩
    · intro t' l' hpc
      dsimp only at hpc ⊢
      by_cases ht : t' = t
      · subst ht; simp at hpc
      · rw [upd_ne _ _ ht] at hpc; simp [inv.built_written t' l' hpc]
  | build t l h =>
    constructor
    · intro o hoo
      dsimp only at hoo ⊢
      obtain ⟨t', l', h1, h2⟩ := inv.done_written o hoo
      exact ⟨t', l', h1, by simp [h2]⟩
    · intro t' l' hpc
      dsimp only at hpc ⊢
      by_cases ht : t' = t
      · subst ht; simp at hpc; subst hpc; simp
      · rw [upd_ne _ _ ht] at hpc; simp [inv.built_written t' l' hpc]
  | finish t l h =>
    constructor
    · intro o hoo
      dsimp only at hoo ⊢
      by_cases hc : o = (g l).cell
      · subst hc
        exact ⟨t, l, rfl, by simp [inv.built_written t l h]⟩
      · rw [upd_ne _ _ hc] at hoo
        obtain ⟨t', l', h1, h2⟩ := inv.done_written o hoo
        exact ⟨t', l', h1, by simp [h2]⟩
    · intro t' l' hpc
      dsimp only at hpc ⊢
      by_cases ht : t' = t
      · subst ht; simp at hpc
      · rw [upd_ne _ _ ht] at hpc; simp [inv.built_written t' l' hpc]
  | runnerReturn t l h =>
    constructor
    · intro o hoo
      dsimp only at hoo ⊢
      obtain ⟨t', l', h1, h2⟩ := inv.done_written o hoo
      exact ⟨t', l', h1, by simp [h2]⟩
    · intro t' l' hpc
      dsimp only at hpc ⊢
      by_cases ht : t' = t
      · subst ht; simp at hpc
      · rw [upd_ne _ _ ht] at hpc; simp [inv.built_written t' l' hpc]
  | readMap t l h =>
    constructor
    · intro o hoo
      dsimp only at hoo ⊢
      obtain ⟨t', l', h1, h2⟩ := inv.done_written o hoo
      exact ⟨t', l', h1, by simp [h2]⟩
    · intro t' l' hpc
      dsimp only at hpc ⊢
      by_cases ht : t' = t
      · subst ht; simp at hpc
      · rw [upd_ne _ _ ht] at hpc; simp [inv.built_written t' l' hpc]

theorem inv2_reach {s : St} (r : Reach g s) : Inv2 g s := by
  induction r with
  | init => exact inv2_init
  | step _ st ih => exact inv2_step ih st

/-- every read is preceded by a write from an arm that uses the same once cell -/
theorem read_has_write {s : St} (r : Reach g s) (tr : Tid) (lr : Lang) (hr : Ev.read tr lr ∈ s.trace) :
    ∃ tw lw, (g lw).cell = (g lr).cell ∧ Ev.write tw lw ∈ s.trace := by
  have inv := inv_reach r
  have hb := inv.read_ok tr lr hr
  have hdone := (inv.ret_after tr _ (mem_of_before_left hb)).1
  exact (inv2_reach r).done_written _ hdone

end Bip39V.Conc
