import Bip39V.Lemmas.TableFacts
/-! Laws of NFKD (decomposition, then canonical ordering), proved from the definition for
arbitrary tables, then instantiated with the pinned Unicode 15 tables. -/
namespace Bip39V.Unicode
open Bip39V

section generic
variable (ccc : Nat → Nat) (decomp : Nat → Str)

theorem insG_starter (c : Nat) (h : ccc c = 0) (l : Str) : insG ccc c l = c :: l := by
  cases l with
  | nil => rfl
  | cons d ds => simp [insG, h]

theorem insG_append_starter (c s : Nat) (hs : ccc s = 0) (x t : Str) :
    insG ccc c (x ++ s :: t) = insG ccc c x ++ s :: t := by
  induction x with
  | nil => simp [insG, hs]
  | cons d ds ih =>
    simp only [List.cons_append, insG]
    split
    · rw [ih]; rfl
    · rfl

theorem reorderG_starter_cons (s : Nat) (hs : ccc s = 0) (b : Str) :
    reorderG ccc (s :: b) = s :: reorderG ccc b := by
  simp [reorderG, insG_starter ccc s hs]

theorem reorderG_append_starter (a : Str) (s : Nat) (hs : ccc s = 0) (b : Str) :
    reorderG ccc (a ++ s :: b) = reorderG ccc a ++ s :: reorderG ccc b := by
  induction a with
  | nil => simp [reorderG_starter_cons ccc s hs, reorderG]
  | cons c cs ih =>
    simp only [List.cons_append, reorderG]
    rw [ih, insG_append_starter ccc c s hs]

theorem reorderG_starters_prefix (a : Str) (ha : ∀ c ∈ a, ccc c = 0) (b : Str) :
    reorderG ccc (a ++ b) = a ++ reorderG ccc b := by
  induction a with
  | nil => rfl
  | cons c cs ih =>
    simp only [List.cons_append, reorderG]
    rw [ih (fun x hx => ha x (List.mem_cons_of_mem _ hx)), insG_starter ccc c (ha c (List.mem_cons_self))]

/-- normalisation splits at a separator whose decomposition is a single starter -/
theorem nfkdG_split (a b : Str) (sp sp' : Nat) (hd : decomp sp = [sp']) (hs : ccc sp' = 0) :
    nfkdG ccc decomp (a ++ sp :: b) = nfkdG ccc decomp a ++ sp' :: nfkdG ccc decomp b := by
  simp only [nfkdG, List.flatMap_append, List.flatMap_cons, hd, List.singleton_append]
  exact reorderG_append_starter ccc _ sp' hs _

theorem flatMap_id_of_inert (l : Str) (h : ∀ c ∈ l, decomp c = [c]) : l.flatMap decomp = l := by
  induction l with
  | nil => rfl
  | cons c cs ih =>
    simp only [List.flatMap_cons, h c (List.mem_cons_self), List.singleton_append]
    rw [ih (fun x hx => h x (List.mem_cons_of_mem _ hx))]

/-- an inert prefix (identity decomposition, all starters) commutes with normalisation -/
theorem nfkdG_inert_prefix (a p : Str) (hd : ∀ c ∈ a, decomp c = [c]) (hs : ∀ c ∈ a, ccc c = 0) :
    nfkdG ccc decomp (a ++ p) = a ++ nfkdG ccc decomp p := by
  simp only [nfkdG, List.flatMap_append, flatMap_id_of_inert decomp a hd]
  exact reorderG_starters_prefix ccc a hs _
end generic

theorem reorder_of_ordered (l : Str) (h : orderedCcc l = true) : reorderG ccc l = l := by
  induction l with
  | nil => rfl
  | cons a t ih =>
    cases t with
    | nil => rfl
    | cons b t' =>
      simp only [orderedCcc, Bool.and_eq_true, Bool.not_eq_true', Bool.and_eq_false_iff, bne_eq_false_iff_eq,
        decide_eq_false_iff_not] at h
      rw [reorderG, ih h.2, insG]
      have : ¬ (ccc b ≠ 0 ∧ ccc b < ccc a) := by
        rintro ⟨h1, h2⟩
        rcases h.1 with h3 | h3
        · exact h1 h3
        · exact h3 h2
      rw [if_neg this]

/-- the cheap per-word predicate the kernel evaluates implies NFKD stability -/
theorem nfkd_of_stableWord (w : Str) (h : stableWord w = true) : nfkd w = w := by
  simp only [stableWord, Bool.and_eq_true, List.all_eq_true, beq_iff_eq] at h
  rw [nfkd, nfkdG, flatMap_id_of_inert decomp w h.1, reorder_of_ordered w h.2]

/-- ASCII is inert: identity decomposition, class 0 (kernel evaluation over the 128 code points) -/
theorem ascii_inert : ∀ c < 128, decomp c = [c] ∧ ccc c = 0 := by decide +kernel

theorem decomp_space : decomp 0x20 = [0x20] := (ascii_inert 0x20 (by decide)).1
theorem ccc_space : ccc 0x20 = 0 := (ascii_inert 0x20 (by decide)).2
theorem decomp_ideographic_space : decomp 0x3000 = [0x20] := by decide +kernel

/-- NFKD splits at U+0020 -/
theorem nfkd_split_space (a b : Str) : nfkd (a ++ 0x20 :: b) = nfkd a ++ 0x20 :: nfkd b :=
  nfkdG_split ccc decomp a b 0x20 0x20 decomp_space ccc_space

/-- NFKD splits at U+3000 and turns it into U+0020 -/
theorem nfkd_split_ideographic (a b : Str) : nfkd (a ++ 0x3000 :: b) = nfkd a ++ 0x20 :: nfkd b :=
  nfkdG_split ccc decomp a b 0x3000 0x20 decomp_ideographic_space ccc_space

/-- an ASCII prefix commutes with NFKD, whatever follows (in particular a passphrase that begins
with combining marks) -/
theorem nfkd_ascii_prefix (a p : Str) (ha : ∀ c ∈ a, c < 128) : nfkd (a ++ p) = a ++ nfkd p :=
  nfkdG_inert_prefix ccc decomp a p (fun c hc => (ascii_inert c (ha c hc)).1) (fun c hc => (ascii_inert c (ha c hc)).2)

theorem nfkd_nil : nfkd [] = [] := rfl

end Bip39V.Unicode
