import Bip39V.Basic.Str
/-! `strings.Split` / `strings.Join` on item lists. -/
namespace Bip39V

theorem splitOn_ne_nil (sep : Nat) (s : Str) : splitOn sep s ≠ [] := by
  induction s with
  | nil => simp [splitOn]
  | cons c cs ih =>
    simp only [splitOn]
    split
    · simp
    · split <;> simp

theorem splitOn_no_sep (sep : Nat) (w : Str) (h : sep ∉ w) : splitOn sep w = [w] := by
  induction w with
  | nil => rfl
  | cons c cs ih =>
    simp only [List.mem_cons, not_or] at h
    simp [splitOn, Ne.symm h.1, ih h.2]

theorem splitOn_append_sep (sep : Nat) (w rest : Str) (h : sep ∉ w) :
    splitOn sep (w ++ sep :: rest) = w :: splitOn sep rest := by
  induction w with
  | nil => simp [splitOn]
  | cons c cs ih =>
    simp only [List.mem_cons, not_or] at h
    simp [splitOn, Ne.symm h.1, ih h.2]

/-- splitting a sentence joined by single separators gives the words back: no leading, trailing
or doubled separator -/
theorem split_join (sep : Nat) (ws : List Str) (hne : ws ≠ []) (h : ∀ w ∈ ws, sep ∉ w) :
    splitOn sep (joinWith [sep] ws) = ws := by
  induction ws with
  | nil => exact absurd rfl hne
  | cons w t ih =>
    cases t with
    | nil => simpa [joinWith] using splitOn_no_sep sep w (h w (List.mem_cons_self))
    | cons w' t' =>
      simp only [joinWith, List.singleton_append, List.append_assoc]
      rw [splitOn_append_sep sep w _ (h w (List.mem_cons_self))]
      rw [ih (by simp) (fun x hx => h x (List.mem_cons_of_mem _ hx))]

theorem joinWith_ne_nil (sep : Str) (ws : List Str) (hne : ws ≠ []) (h : ∀ w ∈ ws, w ≠ []) : joinWith sep ws ≠ [] := by
  match ws, hne with
  | [w], _ => simpa [joinWith] using h w (by simp)
  | w :: w' :: r, _ =>
    simp only [joinWith]
    intro hc
    have h1 := (List.append_eq_nil_iff.mp hc).1
    have h2 := (List.append_eq_nil_iff.mp h1).1
    exact h w (by simp) h2

end Bip39V
