import Bip39V.Lemmas.Arith
import Bip39V.Lemmas.Gates
import Bip39V.Spec.Bip39
/-! The encoder: the big-integer computation of `fromEntropy` produces exactly the 11-bit groups
of `entropy ‖ first ENT/32 bits of the digest`. -/
namespace Bip39V
open Model

/-- the spec's index list, in big-integer terms -/
theorem spec_indices_eq (D : Bytes → Bytes) (e : Bytes) (m : Nat) (hlen : e.length = 4 * m) (hm : m ≤ 8)
    (b : UInt8) (rest : Bytes) (hD : D e = b :: rest) :
    Spec.indices D e = peel (m * 3) (beNat e * 2 ^ m + b.toNat / 2 ^ (8 - m)) := by
  have hcs : e.length / 4 = m := by omega
  unfold Spec.indices
  simp only [hcs, hD]
  have hbits : bits (b :: rest) = byteBits b ++ bits rest := by simp [bits]
  have htake : (bits (b :: rest)).take m = (byteBits b).take m := by
    rw [hbits, List.take_append_of_le_length (by rw [byteBits_length]; exact hm)]
  rw [htake]
  have htk : ((byteBits b).take m).length = m := by
    simp [List.length_take, byteBits_length]; omega
  have hall : (bits e ++ (byteBits b).take m).length = 11 * (m * 3) := by
    rw [List.length_append, bits_length, htk, hlen]; omega
  rw [hall, Nat.mul_div_cancel_left _ (by decide : 0 < 11)]
  rw [chunks_peel (m * 3) _ hall, ofBits_append, ofBits_bits, htk, ofBits_take_byteBits _ _ hm]

theorem spec_indices_length (D : Bytes → Bytes) (e : Bytes) (m : Nat) (hlen : e.length = 4 * m) (hm : m ≤ 8)
    (hD : (D e).length = 32) : (Spec.indices D e).length = m * 3 := by
  match h : D e with
  | [] => rw [h] at hD; cases hD
  | b :: rest => rw [spec_indices_eq D e m hlen hm b rest h, peel_length]

theorem spec_indices_lt (D : Bytes → Bytes) (e : Bytes) (m : Nat) (hlen : e.length = 4 * m) (hm : m ≤ 8)
    (hD : (D e).length = 32) : ∀ i ∈ Spec.indices D e, i < 2048 := by
  match h : D e with
  | [] => rw [h] at hD; cases hD
  | b :: rest => rw [spec_indices_eq D e m hlen hm b rest h]; exact peel_lt _ _

/-- the loop of `fromEntropy` over a 2048-word list is `peel` followed by indexing -/
theorem peelWords_eq (lst : List Str) (hl : lst.length = 2048) (k n : Nat) :
    peelWords lst 2047 2048 k n = some ((peel k n).map (fun i => lst[i]?.getD [])) := by
  induction k generalizing n with
  | zero => rfl
  | succ m ih =>
    have hand : n &&& 2047 = n % 2048 := Nat.and_two_pow_sub_one_eq_mod n 11
    have hlt : n % 2048 < lst.length := by rw [hl]; exact Nat.mod_lt _ (by decide)
    simp only [peelWords, hand, ih, peel_succ, List.map_append, List.map_cons, List.map_nil]
    rw [List.getElem?_eq_getElem hlt]
    simp


/-- `fromEntropy` with the constants of entropy.go written out.  The equation below is where the
regenerated constants enter: it is closed by `rfl`, i.e. by unfolding `Gen.*` to these literals. -/
def fromEntropyLit (D : Bytes → Bytes) (e : Bytes) (wordLen : Int) (ℓ : Int) : Res Str :=
  match goSlice (D e) 0 1 with
  | none => .panic .sliceOutOfRange
  | some checksum =>
    let cs := e.length / 4
    if cs > 8 then .panic .divByZero
    else
      let d := 1 <<< (8 - cs)
      if d = 0 then .panic .divByZero
      else
        let csInt := beNat checksum / d
        let entInt := (beNat e <<< cs) + csInt
        if wordLen < 0 then .panic .makeNegative
        else if 2048 = 0 ∧ wordLen.toNat ≠ 0 then .panic .divByZero
        else
          match peelWords (list ℓ) 2047 2048 wordLen.toNat entInt with
          | none => .panic .indexOutOfRange
          | some ws => .ok (joinWith (if ℓ = Gen.vJapanese then [12288] else [32]) ws)

theorem fromEntropy_lit : @fromEntropy = @fromEntropyLit := rfl

end Bip39V
