import Bip39V.Lemmas.Check
/-! The checksum predicate in arithmetic form, and the counting lemma behind "exactly 2^(11−n/3)
final words are accepted". -/
namespace Bip39V

theorem countP_range_eq (c : Nat) (b : Nat) :
    (List.range b).countP (fun j => j == c) = if c < b then 1 else 0 := by
  induction b with
  | zero => simp
  | succ m ih =>
    rw [List.range_succ, List.countP_append, ih]
    by_cases h1 : c < m
    · have : ¬ m = c := by omega
      simp [h1, this]; omega
    · by_cases h2 : m = c
      · subst h2; simp
      · have : ¬ c < m + 1 := by omega
        simp [h1, h2, this]

/-- in every block of `b` consecutive numbers exactly one has the residue prescribed for that block -/
theorem countP_range_block (b : Nat) (hb : 0 < b) (f : Nat → Nat) (hf : ∀ x, f x < b) (a : Nat) :
    (List.range (a * b)).countP (fun w => w % b == f (w / b)) = a := by
  induction a with
  | zero => simp
  | succ n ih =>
    have : (n + 1) * b = n * b + b := Nat.succ_mul n b
    rw [this, List.range_add, List.countP_append, ih]
    rw [List.countP_map]
    have hblock : (List.range b).countP ((fun w => w % b == f (w / b)) ∘ fun x => n * b + x)
        = (List.range b).countP (fun j => j == f n) := by
      apply List.countP_congr
      intro j hj
      have hj' : j < b := List.mem_range.mp hj
      simp only [Function.comp]
      have h1 : (n * b + j) % b = j := by
        rw [Nat.add_comm, Nat.add_mul_mod_self_right, Nat.mod_eq_of_lt hj']
      have h2 : (n * b + j) / b = n := by
        rw [Nat.add_comm, Nat.add_mul_div_right _ _ hb, Nat.div_eq_of_lt hj']; simp
      rw [h1, h2]
    rw [hblock]
    have h1 : (List.range b).countP (fun j => j == f n) = 1 := by
      rw [countP_range_eq]; simp [hf n]
    omega

/-- first byte of a digest as a number (0 for the impossible empty digest) -/
def firstByte (d : Bytes) : Nat := match d with | [] => 0 | b :: _ => b.toNat

/-- the specification's checksum predicate, in terms of the re-assembled integer -/
theorem checksumOK_arith (D : Bytes → Bytes) (hD : ∀ x, (D x).length = 32) (L : Spec.Lang) (toks : List Str) (idxs : List Nat)
    (hm : toks.mapM (Spec.idxOf L.words) = some idxs) (hlt : ∀ i ∈ idxs, i < 2048) (cs : Nat)
    (hn3 : toks.length = 3 * cs) (hcs4 : 4 ≤ cs) (hcs8 : cs ≤ 8) :
    Spec.checksumOK D L toks =
      decide (firstByte (D (toBytesFixed (cs * 4) (unpeel idxs / 2 ^ cs))) / 2 ^ (8 - cs) = unpeel idxs % 2 ^ cs) := by
  have hv : Spec.ValidWordCount toks.length := by unfold Spec.ValidWordCount; omega
  have hlen : idxs.length = toks.length := (mapM_idxOf_lt L.words toks idxs hm).1
  have hdiv : toks.length / 3 = cs := by omega
  match hDe : D (toBytesFixed (cs * 4) (unpeel idxs / 2 ^ cs)) with
  | [] => have := hD (toBytesFixed (cs * 4) (unpeel idxs / 2 ^ cs)); rw [hDe] at this; cases this
  | b :: rest =>
    show Spec.checksumOK D L toks = decide (b.toNat / 2 ^ (8 - cs) = unpeel idxs % 2 ^ cs)
    unfold Spec.checksumOK
    simp only [hm, hv, decide_true, Bool.true_and]
    have hall : (idxs.flatMap Spec.bits11).length = 11 * toks.length := by
      rw [Spec.flatMap_bits11_length, hlen]
    have hk : toks.length * 11 - cs = 32 * cs := by omega
    simp only [hdiv, hk]
    have hsplit : idxs.flatMap Spec.bits11 = (idxs.flatMap Spec.bits11).take (32 * cs) ++ (idxs.flatMap Spec.bits11).drop (32 * cs) :=
      (List.take_append_drop _ _).symm
    have hlE : ((idxs.flatMap Spec.bits11).take (32 * cs)).length = 8 * (cs * 4) := by
      simp [List.length_take, hall]; omega
    have hlC : ((idxs.flatMap Spec.bits11).drop (32 * cs)).length = cs := by
      simp [List.length_drop, hall]; omega
    have hval := Spec.ofBits_flatMap_bits11 idxs hlt
    rw [hsplit, ofBits_append, hlC] at hval
    have hC := ofBits_lt ((idxs.flatMap Spec.bits11).drop (32 * cs))
    rw [hlC] at hC
    have hsp := split_checksum (ofBits ((idxs.flatMap Spec.bits11).take (32 * cs)))
      (ofBits ((idxs.flatMap Spec.bits11).drop (32 * cs))) cs hC
    rw [hval] at hsp
    rw [packBytes_eq (cs * 4) _ hlE, ← hsp.1, hDe]
    have hbits : bits (b :: rest) = byteBits b ++ bits rest := by simp [bits]
    have htake : (bits (b :: rest)).take cs = (byteBits b).take cs := by
      rw [hbits, List.take_append_of_le_length (by rw [byteBits_length]; omega)]
    rw [htake]
    have hlT : ((byteBits b).take cs).length = cs := by simp [List.length_take, byteBits_length]; omega
    have hT := ofBits_take_byteBits b cs hcs8
    apply Bool.eq_iff_iff.mpr
    simp only [beq_iff_eq, decide_eq_true_eq]
    constructor
    · intro heq
      rw [← hT, ← heq, hsp.2]
    · intro heq
      apply ofBits_inj _ _ (by rw [hlC, hlT])
      rw [hT, heq, hsp.2]

end Bip39V
