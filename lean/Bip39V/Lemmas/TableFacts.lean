import Bip39V.Lemmas.Lists
import Bip39V.Unicode.Nfkd
/-! Per-table facts that the kernel evaluates over a whole 2048-word table, and what they imply. -/
namespace Bip39V
open Unicode

/-- non-empty, no White_Space item, items are below 2^21, at most 12 items -/
def wordOk (w : Str) : Bool :=
  !w.isEmpty && w.all (fun c => !isWhiteSpace c && decide (c < 2097152)) && decide (w.length ≤ 12)

/-- the complete check of one regenerated table against its certificate tree -/
def tableOk (t : T) (ws : List Nat) : Bool :=
  ws.length == 2048 && chk t ws 0 && ws.all (fun n => pack (unpack n) == n && wordOk (unpack n))

/-- no mark is followed by a mark of smaller non-zero class -/
def orderedCcc : Str → Bool
  | [] => true
  | [_] => true
  | a :: b :: t => !(ccc b != 0 && decide (ccc b < ccc a)) && orderedCcc (b :: t)

/-- cheap sufficient condition for `nfkd w = w`: every item decomposes to itself and the marks are in order -/
def stableWord (w : Str) : Bool := w.all (fun c => decomp c == [c]) && orderedCcc w

theorem tableOk_length {t ws} (h : tableOk t ws = true) : ws.length = 2048 := by
  simp only [tableOk, Bool.and_eq_true, beq_iff_eq] at h; exact h.1.1

theorem tableOk_nodup_packed {t ws} (h : tableOk t ws = true) : ws.Nodup := by
  simp only [tableOk, Bool.and_eq_true] at h; exact nodup_of_chk t ws h.1.2

theorem tableOk_nodup {t ws} (h : tableOk t ws = true) : (ws.map unpack).Nodup := by
  have hn := tableOk_nodup_packed h
  simp only [tableOk, Bool.and_eq_true, List.all_eq_true, beq_iff_eq] at h
  exact nodup_map_of_leftInv unpack pack ws (fun x hx => (h.2 x hx).1) hn

theorem tableOk_wordOk {t ws} (h : tableOk t ws = true) : ∀ w ∈ ws.map unpack, wordOk w = true := by
  simp only [tableOk, Bool.and_eq_true, List.all_eq_true, beq_iff_eq] at h
  intro w hw
  obtain ⟨n, hn, rfl⟩ := List.mem_map.mp hw
  exact (h.2 n hn).2

theorem wordOk_ne_nil {w} (h : wordOk w = true) : w ≠ [] := by
  simp only [wordOk, Bool.and_eq_true, Bool.not_eq_true', List.isEmpty_eq_false_iff] at h
  exact h.1.1

theorem wordOk_noWs {w} (h : wordOk w = true) : ∀ c ∈ w, isWhiteSpace c = false := by
  simp only [wordOk, Bool.and_eq_true, List.all_eq_true, Bool.not_eq_true', decide_eq_true_eq] at h
  exact fun c hc => (h.1.2 c hc).1

theorem wordOk_length {w} (h : wordOk w = true) : w.length ≤ 12 := by
  simp only [wordOk, Bool.and_eq_true, decide_eq_true_eq] at h
  exact h.2

theorem not_mem_of_noWs {w : Str} (h : ∀ c ∈ w, isWhiteSpace c = false) (s : Nat) (hs : isWhiteSpace s = true) : s ∉ w := by
  intro hm; have := h s hm; rw [hs] at this; cases this

end Bip39V
