import Bip39V.Basic.Bits
/-! Bit strings vs. base-2048 digits: cutting a bit string into 11-bit groups is peeling
`% 2048`, `/ 2048` from the low end (core Lean only). -/
namespace Bip39V

theorem ofBits_nil : ofBits [] = 0 := rfl

theorem foldl_bits (l : List Bool) (a : Nat) :
    l.foldl (fun a b => 2 * a + b.toNat) a = a * 2 ^ l.length + ofBits l := by
  induction l generalizing a with
  | nil => simp [ofBits]
  | cons b t ih =>
    simp only [List.foldl_cons, List.length_cons, ofBits]
    rw [ih, ih (2 * 0 + b.toNat)]
    rw [Nat.pow_succ]
    simp [Nat.add_mul, Nat.mul_assoc, Nat.mul_comm, Nat.add_assoc]

theorem ofBits_append (a b : List Bool) : ofBits (a ++ b) = ofBits a * 2 ^ b.length + ofBits b := by
  unfold ofBits
  rw [List.foldl_append, foldl_bits]
  rfl

theorem ofBits_lt (l : List Bool) : ofBits l < 2 ^ l.length := by
  induction l with
  | nil => simp [ofBits]
  | cons b t ih =>
    have := ofBits_append [b] t
    simp only [List.singleton_append] at this
    rw [this, List.length_cons, Nat.pow_succ]
    have hb : ofBits [b] ≤ 1 := by cases b <;> simp [ofBits]
    have hp : 0 < 2 ^ t.length := Nat.two_pow_pos _
    calc ofBits [b] * 2 ^ t.length + ofBits t < ofBits [b] * 2 ^ t.length + 2 ^ t.length := by omega
      _ = (ofBits [b] + 1) * 2 ^ t.length := by rw [Nat.add_mul]; simp
      _ ≤ 2 * 2 ^ t.length := Nat.mul_le_mul_right _ (by omega)
      _ = 2 ^ t.length * 2 := Nat.mul_comm _ _

theorem chunksN_length (k n : Nat) (l : List α) : (chunksN k n l).length = n := by
  induction n generalizing l with
  | zero => rfl
  | succ m ih => simp [chunksN, ih]

theorem chunksN_append_last (k n : Nat) (a b : List α) (ha : a.length = k * n) (hb : b.length = k) (_hk : 0 < k) :
    chunksN k (n + 1) (a ++ b) = chunksN k n a ++ [b] := by
  induction n generalizing a with
  | zero =>
    have : a = [] := List.eq_nil_of_length_eq_zero (by simpa using ha)
    subst this
    simp [chunksN, ← hb]
  | succ m ih =>
    have hlen : k ≤ a.length := by rw [ha]; exact Nat.le_mul_of_pos_right k (Nat.succ_pos m)
    rw [chunksN]
    rw [List.take_append_of_le_length hlen, List.drop_append_of_le_length hlen]
    rw [ih (a.drop k) (by simp [ha, Nat.mul_succ])]
    conv => rhs; rw [chunksN]
    simp

theorem peel_succ (k n : Nat) : peel (k + 1) n = peel k (n / 2048) ++ [n % 2048] := rfl
theorem peel_zero (n : Nat) : peel 0 n = [] := rfl

theorem chunks_peel (k : Nat) (l : List Bool) (h : l.length = 11 * k) :
    (chunksN 11 k l).map ofBits = peel k (ofBits l) := by
  induction k generalizing l with
  | zero => simp [chunksN, peel_zero]
  | succ m ih =>
    have hsplit : l = l.take (11 * m) ++ l.drop (11 * m) := (List.take_append_drop _ _).symm
    have ha : (l.take (11 * m)).length = 11 * m := by simp [List.length_take]; omega
    have hb : (l.drop (11 * m)).length = 11 := by simp [List.length_drop]; omega
    rw [hsplit, chunksN_append_last 11 m _ _ ha hb (by decide)]
    rw [List.map_append, ih _ ha, ofBits_append, hb]
    have hlt := ofBits_lt (l.drop (11 * m))
    rw [hb] at hlt
    simp only [peel_succ, List.map_cons, List.map_nil]
    have h2048 : (2:Nat)^11 = 2048 := by decide
    rw [h2048] at hlt ⊢
    congr 2
    · omega
    · congr 1; omega

theorem peel_length (k n : Nat) : (peel k n).length = k := by
  induction k generalizing n with
  | zero => rfl
  | succ m ih => simp [peel_succ, ih]

theorem peel_lt (k n : Nat) : ∀ i ∈ peel k n, i < 2048 := by
  induction k generalizing n with
  | zero => simp [peel_zero]
  | succ m ih =>
    intro i hi
    simp only [peel_succ, List.mem_append, List.mem_singleton] at hi
    rcases hi with hi | rfl
    · exact ih _ i hi
    · exact Nat.mod_lt _ (by decide)

theorem unpeel_append_single (l : List Nat) (x : Nat) : unpeel (l ++ [x]) = unpeel l * 2048 + x := by
  simp [unpeel, List.foldl_append]

theorem unpeel_peel (k n : Nat) (h : n < 2048 ^ k) : unpeel (peel k n) = n := by
  induction k generalizing n with
  | zero => simp at h; subst h; rfl
  | succ m ih =>
    rw [peel_succ, unpeel_append_single, ih (n / 2048)]
    · omega
    · rw [Nat.pow_succ] at h
      exact Nat.div_lt_of_lt_mul (by rw [Nat.mul_comm]; exact h)

theorem foldl_unpeel (l : List Nat) (a : Nat) :
    l.foldl (fun a i => a * 2048 + i) a = a * 2048 ^ l.length + unpeel l := by
  induction l generalizing a with
  | nil => simp [unpeel]
  | cons b t ih =>
    simp only [List.foldl_cons, List.length_cons, unpeel]
    rw [ih, ih (0 * 2048 + b), Nat.pow_succ]
    simp only [Nat.zero_mul, Nat.zero_add, Nat.add_mul, Nat.add_assoc]
    congr 1
    rw [Nat.mul_assoc, Nat.mul_comm 2048]

theorem unpeel_cons (i : Nat) (t : List Nat) : unpeel (i :: t) = i * 2048 ^ t.length + unpeel t := by
  have := foldl_unpeel t (0 * 2048 + i)
  simpa [unpeel] using this

theorem unpeel_lt (l : List Nat) (h : ∀ i ∈ l, i < 2048) : unpeel l < 2048 ^ l.length := by
  induction l with
  | nil => simp [unpeel]
  | cons i t ih =>
    rw [unpeel_cons, List.length_cons, Nat.pow_succ]
    have h1 := ih (fun x hx => h x (List.mem_cons_of_mem _ hx))
    have h2 : i < 2048 := h i List.mem_cons_self
    have h3 : i * 2048 ^ t.length ≤ 2047 * 2048 ^ t.length := Nat.mul_le_mul_right _ (by omega)
    omega

theorem peel_unpeel_aux (k : Nat) : ∀ l : List Nat, l.length = k → (∀ i ∈ l, i < 2048) → peel k (unpeel l) = l := by
  induction k with
  | zero => intro l hl _; rw [List.eq_nil_of_length_eq_zero hl]; rfl
  | succ m ih =>
    intro l hl h
    rcases List.eq_nil_or_concat l with rfl | ⟨t, x, rfl⟩
    · simp at hl
    · rw [List.concat_eq_append] at hl h ⊢
      have hx : x < 2048 := h x (by simp)
      have ht : ∀ i ∈ t, i < 2048 := fun i hi => h i (by simp [hi])
      have htl : t.length = m := by simp at hl; exact hl
      rw [peel_succ, unpeel_append_single]
      have h1 : (unpeel t * 2048 + x) / 2048 = unpeel t := by omega
      have h2 : (unpeel t * 2048 + x) % 2048 = x := by omega
      rw [h1, h2, ih t htl ht]

/-- peeling the re-assembled digits gives them back (digits < 2048) -/
theorem peel_unpeel (l : List Nat) (h : ∀ i ∈ l, i < 2048) : peel l.length (unpeel l) = l :=
  peel_unpeel_aux _ l rfl h

theorem byteBits_length (b : UInt8) : (byteBits b).length = 8 := by simp [byteBits]
theorem bits_length (e : Bytes) : (bits e).length = 8 * e.length := by
  induction e with
  | nil => rfl
  | cons b t ih => simp [bits, List.flatMap_cons, byteBits_length] at *; omega

/-- the first `k` bits of a byte, as a number, are the byte divided by 2^(8-k) -/
theorem ofBits_take_byteBits (b : UInt8) (k : Nat) (hk : k ≤ 8) :
    ofBits ((byteBits b).take k) = b.toNat / 2 ^ (8 - k) := by
  have hb : b.toNat < 256 := b.toNat_lt
  have : ∀ n < 256, ∀ k ≤ 8, ofBits (((List.range 8).map (fun i => n.testBit (7 - i))).take k) = n / 2 ^ (8 - k) := by
    decide +kernel
  simpa [byteBits] using this b.toNat hb k hk

theorem ofBits_byteBits (b : UInt8) : ofBits (byteBits b) = b.toNat := by
  have := ofBits_take_byteBits b 8 (Nat.le_refl _)
  simpa [List.take_of_length_le, byteBits_length] using this

theorem foldl_beNat (l : Bytes) (a : Nat) :
    l.foldl (fun a b => a * 256 + b.toNat) a = a * 256 ^ l.length + beNat l := by
  induction l generalizing a with
  | nil => simp [beNat]
  | cons b t ih =>
    simp only [List.foldl_cons, List.length_cons, beNat]
    rw [ih, ih (0 * 256 + b.toNat), Nat.pow_succ]
    simp only [Nat.zero_mul, Nat.zero_add, Nat.add_mul, Nat.add_assoc]
    congr 1
    rw [Nat.mul_assoc, Nat.mul_comm 256]

theorem beNat_cons (b : UInt8) (t : Bytes) : beNat (b :: t) = b.toNat * 256 ^ t.length + beNat t := by
  have := foldl_beNat t (0 * 256 + b.toNat)
  simpa [beNat] using this

theorem beNat_single (b : UInt8) : beNat [b] = b.toNat := by simp [beNat]

theorem ofBits_bits (e : Bytes) : ofBits (bits e) = beNat e := by
  induction e with
  | nil => rfl
  | cons b t ih =>
    have h1 : bits (b :: t) = byteBits b ++ bits t := by simp [bits]
    rw [h1, ofBits_append, ofBits_byteBits, ih, beNat_cons, bits_length]
    congr 1
    rw [Nat.pow_mul]

theorem beNat_lt (e : Bytes) : beNat e < 256 ^ e.length := by
  have := ofBits_lt (bits e)
  rw [ofBits_bits, bits_length, Nat.pow_mul] at this
  exact this

theorem beNat_append_single (l : Bytes) (b : UInt8) : beNat (l ++ [b]) = beNat l * 256 + b.toNat := by
  simp [beNat, List.foldl_append]

theorem toBytesFixed_length (k n : Nat) : (toBytesFixed k n).length = k := by
  induction k generalizing n with
  | zero => rfl
  | succ m ih => simp [toBytesFixed, ih]

theorem toBytesFixed_beNat_aux (k : Nat) : ∀ e : Bytes, e.length = k → toBytesFixed k (beNat e) = e := by
  induction k with
  | zero => intro e he; rw [List.eq_nil_of_length_eq_zero he]; rfl
  | succ m ih =>
    intro e he
    rcases List.eq_nil_or_concat e with rfl | ⟨t, b, rfl⟩
    · simp at he
    · have ht : t.length = m := by simp at he; exact he
      have hb : b.toNat < 256 := b.toNat_lt
      rw [List.concat_eq_append] at he ⊢
      rw [toBytesFixed, beNat_append_single]
      have h1 : (beNat t * 256 + b.toNat) / 256 = beNat t := by omega
      have h2 : (beNat t * 256 + b.toNat) % 256 = b.toNat := by omega
      rw [h1, h2, ih t ht]
      simp

/-- `FillBytes` into `len e` bytes inverts `SetBytes` — including leading zero bytes -/
theorem toBytesFixed_beNat (e : Bytes) : toBytesFixed e.length (beNat e) = e :=
  toBytesFixed_beNat_aux _ e rfl

/-- and conversely, for numbers that fit -/
theorem beNat_toBytesFixed (k n : Nat) (h : n < 256 ^ k) : beNat (toBytesFixed k n) = n := by
  induction k generalizing n with
  | zero => simp at h; subst h; rfl
  | succ m ih =>
    rw [toBytesFixed, beNat_append_single, ih (n / 256)]
    · have : (UInt8.ofNat (n % 256)).toNat = n % 256 := by
        simp
      rw [this]; omega
    · rw [Nat.pow_succ] at h
      exact Nat.div_lt_of_lt_mul (by rw [Nat.mul_comm]; exact h)

/-- the validator's split of the re-assembled integer -/
theorem split_checksum (ent c cs : Nat) (hc : c < 2 ^ cs) :
    (ent * 2 ^ cs + c) / 2 ^ cs = ent ∧ (ent * 2 ^ cs + c) % 2 ^ cs = c := by
  have hp : 0 < 2 ^ cs := Nat.two_pow_pos cs
  constructor
  · rw [Nat.mul_comm, Nat.mul_add_div hp, Nat.div_eq_of_lt hc]; simp
  · rw [Nat.mul_comm, Nat.mul_add_mod, Nat.mod_eq_of_lt hc]

theorem byteLenAux_le (f n k : Nat) (h : n < 256 ^ k) : byteLenAux f n ≤ k := by
  induction f generalizing n k with
  | zero => simp [byteLenAux]
  | succ g ih =>
    unfold byteLenAux
    split
    · omega
    · cases k with
      | zero => simp at h; omega
      | succ k' =>
        have : n / 256 < 256 ^ k' := by
          rw [Nat.pow_succ] at h
          exact Nat.div_lt_of_lt_mul (by rw [Nat.mul_comm]; exact h)
        have := ih (n / 256) k' this
        omega

/-- a number below 256^k needs at most k bytes (the `FillBytes` panic condition is not met) -/
theorem byteLen_le (n k : Nat) (h : n < 256 ^ k) : byteLen n ≤ k := byteLenAux_le _ n k h

end Bip39V
