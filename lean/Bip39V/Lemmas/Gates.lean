import Bip39V.Model.Check
import Bip39V.Model.Reader
/-! The three size gates, for every Go `int` (modelled as `Int`; `%` truncates toward zero).
The first `have` in each proof is where the regenerated constants enter (by `rfl`). -/
namespace Bip39V.Model

theorem entGate_iff (n : Int) : entGate n = false ↔ n = 16 ∨ n = 20 ∨ n = 24 ∨ n = 28 ∨ n = 32 := by
  have hdef : entGate n = (decide (n < 16) || decide (n > 32) || (n.tmod 4 != 0)) := rfl
  rw [hdef]
  simp only [Bool.or_eq_false_iff, decide_eq_false_iff_not, bne_eq_false_iff_eq, Int.not_lt, gt_iff_lt]
  constructor
  · rintro ⟨⟨h1, h2⟩, h3⟩
    have : n.tmod 4 = n % 4 := Int.tmod_eq_emod_of_nonneg (by omega)
    omega
  · rintro (h|h|h|h|h) <;> subst h <;> decide

theorem wordGate_iff (n : Int) : wordGate n = false ↔ n = 12 ∨ n = 15 ∨ n = 18 ∨ n = 21 ∨ n = 24 := by
  have hdef : wordGate n = (decide (n < 12) || decide (n > 24) || (n.tmod 3 != 0)) := rfl
  rw [hdef]
  simp only [Bool.or_eq_false_iff, decide_eq_false_iff_not, bne_eq_false_iff_eq, Int.not_lt, gt_iff_lt]
  constructor
  · rintro ⟨⟨h1, h2⟩, h3⟩
    have : n.tmod 3 = n % 3 := Int.tmod_eq_emod_of_nonneg (by omega)
    omega
  · rintro (h|h|h|h|h) <;> subst h <;> decide

theorem wcGate_iff (n : Int) : wcGate n = false ↔ n = 12 ∨ n = 15 ∨ n = 18 ∨ n = 21 ∨ n = 24 := by
  have hdef : wcGate n = ((n.tmod 3 != 0) || decide (n < 12) || decide (n > 24)) := rfl
  rw [hdef]
  simp only [Bool.or_eq_false_iff, decide_eq_false_iff_not, bne_eq_false_iff_eq, Int.not_lt, gt_iff_lt]
  constructor
  · rintro ⟨⟨h3, h1⟩, h2⟩
    have : n.tmod 3 = n % 3 := Int.tmod_eq_emod_of_nonneg (by omega)
    omega
  · rintro (h|h|h|h|h) <;> subst h <;> decide

end Bip39V.Model
