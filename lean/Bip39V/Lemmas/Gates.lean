import Bip39V.Model.Check
import Bip39V.Model.Reader
/-! The three size gates, for every Go `int` (modelled as `Int`; `%` truncates toward zero).
The gate conditions are *translated from the source* on every run (`Gen/Gates.lean`); the proofs
below do not depend on how the condition is written — they split on the sign of `n`, turn the
truncated remainder into the Euclidean one, and leave linear arithmetic to `omega` — so an
equivalent rewrite of a gate is re-proved, and a changed bound is not. -/
namespace Bip39V.Model

/-- the translator understood all three conditions, and none uses `+ - *` (whose 64-bit
wrap-around is not modelled) -/
theorem gates_translated :
    Gen.Gates.entGateTranslated = true ∧ Gen.Gates.wordGateTranslated = true ∧ Gen.Gates.wcGateTranslated = true ∧
    Gen.Gates.entGateUsesArith = false ∧ Gen.Gates.wordGateUsesArith = false ∧ Gen.Gates.wcGateUsesArith = false := by decide

theorem entGate_iff (n : Int) : entGate n = false ↔ n = 16 ∨ n = 20 ∨ n = 24 ∨ n = 28 ∨ n = 32 := by
  unfold entGate Gen.Gates.entGate
  rcases Int.le_total 0 n with hn | hn
  · (try simp only [Int.tmod_eq_emod_of_nonneg hn]); simp <;> omega
  · obtain ⟨m, rfl, hm⟩ : ∃ m : Int, n = -m ∧ 0 ≤ m := ⟨-n, by omega, by omega⟩
    (try simp only [Int.neg_tmod, Int.tmod_eq_emod_of_nonneg hm]); simp <;> omega

theorem wordGate_iff (n : Int) : wordGate n = false ↔ n = 12 ∨ n = 15 ∨ n = 18 ∨ n = 21 ∨ n = 24 := by
  unfold wordGate Gen.Gates.wordGate
  rcases Int.le_total 0 n with hn | hn
  · (try simp only [Int.tmod_eq_emod_of_nonneg hn]); simp <;> omega
  · obtain ⟨m, rfl, hm⟩ : ∃ m : Int, n = -m ∧ 0 ≤ m := ⟨-n, by omega, by omega⟩
    (try simp only [Int.neg_tmod, Int.tmod_eq_emod_of_nonneg hm]); simp <;> omega

theorem wcGate_iff (n : Int) : wcGate n = false ↔ n = 12 ∨ n = 15 ∨ n = 18 ∨ n = 21 ∨ n = 24 := by
  unfold wcGate Gen.Gates.wcGate
  rcases Int.le_total 0 n with hn | hn
  · (try simp only [Int.tmod_eq_emod_of_nonneg hn]); simp <;> omega
  · obtain ⟨m, rfl, hm⟩ : ∃ m : Int, n = -m ∧ 0 ≤ m := ⟨-n, by omega, by omega⟩
    (try simp only [Int.neg_tmod, Int.tmod_eq_emod_of_nonneg hm]); simp <;> omega

end Bip39V.Model
