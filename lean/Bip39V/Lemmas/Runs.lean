import Bip39V.Lemmas.Split
import Bip39V.Unicode.Nfkd
/-! Runs of K-items vs. tokens: U+0020 is not a K-item, so a run of K-items lies inside one token. -/
namespace Bip39V
open Unicode

theorem kItem_space : kItem 0x20 = false := by decide +kernel

theorem splitOn_prefix (sep : Nat) (r b : Str) (h : sep ∉ r) : ∃ w ws, splitOn sep (r ++ b) = (r ++ w) :: ws := by
  induction r with
  | nil =>
    match hs : splitOn sep b with
    | [] => exact absurd hs (splitOn_ne_nil _ _)
    | w :: ws => exact ⟨w, ws, by simpa using hs⟩
  | cons c cs ih =>
    simp only [List.mem_cons, not_or] at h
    obtain ⟨w, ws, hw⟩ := ih h.2
    refine ⟨w, ws, ?_⟩
    simp only [List.cons_append, splitOn, Ne.symm h.1, if_false, hw]

/-- a separator-free stretch of the string lies inside one token -/
theorem token_contains_run (sep : Nat) (a r b : Str) (h : sep ∉ r) :
    ∃ t ∈ splitOn sep (a ++ r ++ b), r.length ≤ t.length := by
  induction a with
  | nil =>
    obtain ⟨w, ws, hw⟩ := splitOn_prefix sep r b h
    simp only [List.nil_append]
    rw [hw]
    exact ⟨r ++ w, List.mem_cons_self, by simp⟩
  | cons c cs ih =>
    obtain ⟨t, ht, hl⟩ := ih
    simp only [List.cons_append, List.append_assoc] at ht ⊢
    simp only [splitOn]
    split
    · exact ⟨t, List.mem_cons_of_mem _ ht, hl⟩
    · match hs : splitOn sep (cs ++ (r ++ b)) with
      | [] => exact absurd hs (splitOn_ne_nil _ _)
      | w :: ws =>
        rw [hs] at ht
        rcases List.mem_cons.mp ht with rfl | hm
        · exact ⟨c :: t, List.mem_cons_self, by simp; omega⟩
        · exact ⟨t, List.mem_cons_of_mem _ hm, hl⟩

/-- if every U+0020-separated token has at most `k` items, no run of K-items is longer than `k` -/
theorem maxKRunAux_le (k : Nat) (s : Str) : ∀ cur best, best ≤ k →
    (∀ w ws, splitOn 0x20 s = w :: ws → cur + w.length ≤ k) → (∀ t ∈ splitOn 0x20 s, t.length ≤ k) →
    maxKRunAux s cur best ≤ k := by
  induction s with
  | nil =>
    intro cur best hb hf _
    have := hf [] [] rfl
    simp only [maxKRunAux]
    simp at this
    omega
  | cons c cs ih =>
    intro cur best hb hf hall
    match hs : splitOn 0x20 cs with
    | [] => exact absurd hs (splitOn_ne_nil _ _)
    | w :: ws =>
      by_cases hc : c = 0x20
      · subst hc
        have hsp : splitOn 0x20 (0x20 :: cs) = [] :: w :: ws := by simp [splitOn, hs]
        have hcur := hf [] (w :: ws) hsp
        simp only [maxKRunAux, kItem_space, Bool.false_eq_true, if_false]
        apply ih 0 (max cur best) (by simp at hcur; omega)
        · intro w' ws' h'; rw [hs] at h'; injection h' with h1 _; subst h1
          have := hall w (by rw [hsp]; simp); omega
        · intro t ht; exact hall t (by rw [hsp]; rw [hs] at ht; exact List.mem_cons_of_mem _ ht)
      · have hsp : splitOn 0x20 (c :: cs) = (c :: w) :: ws := by simp [splitOn, hc, hs]
        have hcur := hf (c :: w) ws hsp
        simp only [List.length_cons] at hcur
        have hall' : ∀ t ∈ splitOn 0x20 cs, t.length ≤ k := by
          intro t ht; rw [hs] at ht
          rcases List.mem_cons.mp ht with rfl | hm
          · have := hall (c :: t) (by rw [hsp]; simp); simp at this; omega
          · exact hall t (by rw [hsp]; exact List.mem_cons_of_mem _ hm)
        simp only [maxKRunAux]
        split
        · apply ih (cur + 1) best hb _ hall'
          intro w' ws' h'; rw [hs] at h'; injection h' with h1 _; subst h1; omega
        · apply ih 0 (max cur best) (by omega) _ hall'
          intro w' ws' h'; rw [hs] at h'; injection h' with h1 _; subst h1; omega

theorem maxKRun_le_of_tokens (k : Nat) (s : Str) (h : ∀ t ∈ splitOn 0x20 s, t.length ≤ k) : maxKRun s ≤ k := by
  apply maxKRunAux_le k s 0 0 (Nat.zero_le _) _ h
  intro w ws hs
  have := h w (by rw [hs]; simp); omega

end Bip39V
