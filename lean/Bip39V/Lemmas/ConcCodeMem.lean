import Bip39V.Lemmas.ConcCode
/-! # C12 at code level, second half: every concurrent call returns what a cold sequential call returns

The shared memory of the interleaving semantics of `Lemmas/ConcCode.lean` is a *function of the
trace*: each `write t st` event applies the closure statement `st` to the map variables
(`applyStmt`, the state transformer of `CStmt.run`).  `sequential`: in every reachable configuration,
for every occurrence of a read of variable `v`, the memory at that moment holds at `v` exactly what
running the closure body of `v`'s cell once, from the cold state, leaves there — whatever the other
goroutines did, however often and in whatever order `mapping()` was called.

Static assumption `ArmOK` (established for the regenerated program by evaluation): every receiver
value either returns nil or runs `Do` on a cell `c` with *the* body of that cell and then returns a
variable guarded by `c`; all statements of a cell's body write variables of that cell. -/
namespace Bip39V.CC
open Bip39V Go Model

/-- the state transformer of a closure statement (`CStmt.run` without the panic: filling a nil map,
which the invariant shows never happens, leaves the memory unchanged here) -/
def applyStmt : CStmt → (Nat → MapVal) → (Nat → MapVal)
  | .makeMap v, m => upd m v Go.makeMap
  | .fill v t, m =>
    match m v with
    | none => m
    | some l => upd m v (some (insertAll (words t) 0 l))

def applyAll : List CStmt → (Nat → MapVal) → (Nat → MapVal)
  | [], m => m
  | st :: r, m => applyAll r (applyStmt st m)

def cold : Nat → MapVal := fun _ => none

def memStep (m : Nat → MapVal) : Ev → (Nat → MapVal)
  | .write _ st => applyStmt st m
  | _ => m

def memFrom (m : Nat → MapVal) (τ : List Ev) : Nat → MapVal := τ.foldl memStep m
/-- the memory after the events of `τ`, from a cold start -/
def memOf (τ : List Ev) : Nat → MapVal := memFrom cold τ

theorem applyStmt_other (st : CStmt) (m : Nat → MapVal) (v : Nat) (h : st.var ≠ v) : applyStmt st m v = m v := by
  cases st with
  | makeMap w =>
    have : v ≠ w := fun e => h (by simp [CStmt.var, e])
    simp [applyStmt, upd, this]
  | fill w t =>
    have : v ≠ w := fun e => h (by simp [CStmt.var, e])
    simp only [applyStmt]
    cases m w with
    | none => rfl
    | some l => simp [upd, this]

/-- a statement's effect on `v` depends only on the old value of `v` -/
theorem applyStmt_local (st : CStmt) (m m' : Nat → MapVal) (v : Nat) (h : m v = m' v) : applyStmt st m v = applyStmt st m' v := by
  by_cases hv : st.var = v
  · cases st with
    | makeMap w =>
      simp only [CStmt.var] at hv; subst hv; simp [applyStmt, upd]
    | fill w t =>
      simp only [CStmt.var] at hv; subst hv
      simp only [applyStmt]
      rw [h]
      cases m' w <;> simp [upd, h]
  · rw [applyStmt_other st m v hv, applyStmt_other st m' v hv, h]

variable (cellOf : Nat → Nat)

/-- the closure statements of cell `c` executed so far, in order -/
def writesOf (c : Nat) : List Ev → List CStmt
  | [] => []
  | .write _ st :: r => if cellOf st.var = c then st :: writesOf c r else writesOf c r
  | .enter _ _ :: r => writesOf c r
  | .exit _ _ :: r => writesOf c r
  | .ret _ _ :: r => writesOf c r
  | .read _ _ :: r => writesOf c r

theorem writesOf_append (c : Nat) (a b : List Ev) : writesOf cellOf c (a ++ b) = writesOf cellOf c a ++ writesOf cellOf c b := by
  induction a with
  | nil => rfl
  | cons e r ih =>
    cases e <;> simp only [List.cons_append, writesOf, ih]
    split <;> simp

theorem writesOf_nil_of_no_write (c : Nat) (τ : List Ev) (h : ∀ t st, cellOf st.var = c → Ev.write t st ∉ τ) :
    writesOf cellOf c τ = [] := by
  induction τ with
  | nil => rfl
  | cons e r ih =>
    have ihr := ih (fun t st hc hm => h t st hc (List.mem_cons_of_mem _ hm))
    cases e with
    | write t st =>
      simp only [writesOf]
      split
      · rename_i hc; exact absurd List.mem_cons_self (h t st hc)
      · exact ihr
    | enter _ _ => exact ihr
    | exit _ _ => exact ihr
    | ret _ _ => exact ihr
    | read _ _ => exact ihr

/-- the value of `v` after a trace is determined by the statements of `v`'s cell in it -/
theorem mem_of_writes (v : Nat) (τ : List Ev) : ∀ m m' : Nat → MapVal, m v = m' v →
    memFrom m τ v = applyAll (writesOf cellOf (cellOf v) τ) m' v := by
  induction τ with
  | nil => intro m m' h; exact h
  | cons e r ih =>
    intro m m' h
    cases e with
    | write t st =>
      simp only [memFrom, List.foldl_cons, memStep, writesOf]
      split
      · exact ih _ _ (applyStmt_local st m m' v h)
      · rename_i hc
        have hv : st.var ≠ v := fun e => hc (by rw [e])
        exact ih _ _ (by rw [applyStmt_other st m v hv]; exact h)
    | enter _ _ => exact ih m m' h
    | exit _ _ => exact ih m m' h
    | ret _ _ => exact ih m m' h
    | read _ _ => exact ih m m' h

/-! ### the static shape of the programs and the second invariant -/

structure ArmOK (bodyOf : Nat → List CStmt) (P : Int → Prog) : Prop where
  shape : ∀ ℓ, P ℓ = .retNil ∨ ∃ c r, P ℓ = .onceDo c (bodyOf c) (.retVar r) ∧ cellOf r = c
  body_cell : ∀ c, ∀ st ∈ bodyOf c, cellOf st.var = c

theorem ArmOK.guarded {bodyOf : Nat → List CStmt} {P : Int → Prog} (h : ArmOK cellOf bodyOf P) (ℓ : Int) :
    GuardedAfter cellOf (fun _ => False) (P ℓ) := by
  rcases h.shape ℓ with h0 | ⟨c, r, h1, h2⟩
  · rw [h0]; trivial
  · rw [h1]; exact ⟨h.body_cell c, Or.inl h2⟩

structure Inv2 (bodyOf : Nat → List CStmt) (P : Int → Prog) (s : Cfg) : Prop where
  w_idle : ∀ c, s.once c = .idle → writesOf cellOf c s.trace = []
  w_inDo : ∀ t c todo k, s.th t = .inDo c todo k → writesOf cellOf c s.trace ++ todo = bodyOf c ∧ ∃ r, k = .retVar r
  w_done : ∀ c, s.once c = .done → writesOf cellOf c s.trace = bodyOf c
  t_ready : ∀ t p, s.th t = .ready p → (∃ ℓ, p = P ℓ) ∨ (∃ r, p = .retVar r)

variable {cellOf}

theorem inv2_init (bodyOf : Nat → List CStmt) (P : Int → Prog) : Inv2 cellOf bodyOf P init := by
  constructor <;> intros <;> simp_all [init, writesOf]

theorem writesOf_snoc_other (c : Nat) (τ : List Ev) (e : Ev) (h : ∀ t st, e ≠ Ev.write t st) :
    writesOf cellOf c (τ ++ [e]) = writesOf cellOf c τ := by
  rw [writesOf_append]
  cases e with
  | write t st => exact absurd rfl (h t st)
  | enter _ _ => simp [writesOf]
  | exit _ _ => simp [writesOf]
  | ret _ _ => simp [writesOf]
  | read _ _ => simp [writesOf]

theorem inv2_step {bodyOf : Nat → List CStmt} {P : Int → Prog} (hP : ArmOK cellOf bodyOf P) {s s' : Cfg}
    (inv : Inv cellOf P s) (inv2 : Inv2 cellOf bodyOf P s) (st : Step P s s') : Inv2 cellOf bodyOf P s' := by
  cases st with
  | call t ℓ h =>
    refine ⟨inv2.w_idle, ?_, inv2.w_done, ?_⟩
    · intro t' c todo k hp
      try dsimp only at hp
      by_cases ht : t' = t
      · subst ht; simp only [upd_same'] at hp; cases hp
      · rw [upd_ne' _ _ ht] at hp; exact inv2.w_inDo t' c todo k hp
    · intro t' p hp
      try dsimp only at hp
      by_cases ht : t' = t
      · subst ht; simp only [upd_same'] at hp; injection hp with hp; exact Or.inl ⟨ℓ, hp.symm⟩
      · rw [upd_ne' _ _ ht] at hp; exact inv2.t_ready t' p hp
  | enter t c body k h ho =>
    have hw : ∀ c', writesOf cellOf c' (s.trace ++ [Ev.enter t c]) = writesOf cellOf c' s.trace :=
      fun c' => writesOf_snoc_other c' _ _ (by intro _ _ h; cases h)
    -- the thread is at the start of P ℓ, so the body is the cell's body
    have hshape : body = bodyOf c ∧ ∃ r, k = .retVar r := by
      rcases inv2.t_ready t _ h with ⟨ℓ, hℓ⟩ | ⟨r, hr⟩
      · rcases hP.shape ℓ with h0 | ⟨c', r, h1, _⟩
        · rw [h0] at hℓ; cases hℓ
        · rw [h1] at hℓ; injection hℓ with e1 e2 e3; subst e1; exact ⟨e2, r, e3⟩
      · cases hr
    refine ⟨?_, ?_, ?_, ?_⟩
    all_goals dsimp only
    · intro c' hc'
      rw [hw]
      by_cases hc : c' = c
      · subst hc; simp only [upd_same'] at hc'; cases hc'
      · rw [upd_ne' _ _ hc] at hc'; exact inv2.w_idle c' hc'
    · intro t' c' todo k' hp
      rw [hw]
      by_cases ht : t' = t
      · subst ht
        simp only [upd_same'] at hp
        injection hp with e1 e2 e3; subst e1 e2 e3
        rw [inv2.w_idle _ ho]; exact ⟨by simpa using hshape.1, hshape.2⟩
      · rw [upd_ne' _ _ ht] at hp; exact inv2.w_inDo t' c' todo k' hp
    · intro c' hc'
      rw [hw]
      by_cases hc : c' = c
      · subst hc; simp only [upd_same'] at hc'; cases hc'
      · rw [upd_ne' _ _ hc] at hc'; exact inv2.w_done c' hc'
    · intro t' p hp
      by_cases ht : t' = t
      · subst ht; simp only [upd_same'] at hp; cases hp
      · rw [upd_ne' _ _ ht] at hp; exact inv2.t_ready t' p hp
  | observe t c body k h ho =>
    have hw : ∀ c', writesOf cellOf c' (s.trace ++ [Ev.ret t c]) = writesOf cellOf c' s.trace :=
      fun c' => writesOf_snoc_other c' _ _ (by intro _ _ h; cases h)
    have hk : ∃ r, k = .retVar r := by
      rcases inv2.t_ready t _ h with ⟨ℓ, hℓ⟩ | ⟨r, hr⟩
      · rcases hP.shape ℓ with h0 | ⟨c', r, h1, _⟩
        · rw [h0] at hℓ; cases hℓ
        · rw [h1] at hℓ; injection hℓ with _ _ e3; exact ⟨r, e3⟩
      · cases hr
    refine ⟨?_, ?_, ?_, ?_⟩
    all_goals dsimp only
    · intro c' hc'; rw [hw]; exact inv2.w_idle c' hc'
    · intro t' c' todo k' hp
      rw [hw]
      by_cases ht : t' = t
      · subst ht; simp only [upd_same'] at hp; cases hp
      · rw [upd_ne' _ _ ht] at hp; exact inv2.w_inDo t' c' todo k' hp
    · intro c' hc'; rw [hw]; exact inv2.w_done c' hc'
    · intro t' p hp
      by_cases ht : t' = t
      · subst ht; simp only [upd_same'] at hp; injection hp with hp; subst hp; exact Or.inr hk
      · rw [upd_ne' _ _ ht] at hp; exact inv2.t_ready t' p hp
  | stmt t c st0 rest k h =>
    obtain ⟨hrun, htodo, _⟩ := inv.inDo t c _ k h
    have hc0 : cellOf st0.var = c := htodo st0 (by simp)
    have hw : ∀ c', writesOf cellOf c' (s.trace ++ [Ev.write t st0]) =
        if c' = c then writesOf cellOf c' s.trace ++ [st0] else writesOf cellOf c' s.trace := by
      intro c'
      rw [writesOf_append]
      simp only [writesOf, hc0]
      by_cases hc : c = c'
      · subst hc; simp
      · have : ¬ c' = c := fun e => hc e.symm
        simp [hc, this]
    have hother : ∀ c', s.once c' ≠ .running t → c' ≠ c := by
      intro c' hne hc; subst hc; exact hne hrun
    refine ⟨?_, ?_, ?_, ?_⟩
    all_goals dsimp only
    · intro c' hc'
      rw [hw, if_neg (hother c' (by rw [hc']; simp))]; exact inv2.w_idle c' hc'
    · intro t' c' todo k' hp
      by_cases ht : t' = t
      · subst ht
        simp only [upd_same'] at hp
        injection hp with e1 e2 e3; subst e1 e2 e3
        obtain ⟨h1, h2⟩ := inv2.w_inDo t' c _ k h
        rw [hw, if_pos rfl]
        exact ⟨by simpa using h1, h2⟩
      · rw [upd_ne' _ _ ht] at hp
        have hr' := (inv.inDo t' c' todo k' hp).1
        have hc : c' ≠ c := by
          rintro rfl; rw [hrun] at hr'; injection hr' with e; exact ht e.symm
        rw [hw, if_neg hc]; exact inv2.w_inDo t' c' todo k' hp
    · intro c' hc'
      rw [hw, if_neg (hother c' (by rw [hc']; simp))]; exact inv2.w_done c' hc'
    · intro t' p hp
      by_cases ht : t' = t
      · subst ht; simp only [upd_same'] at hp; cases hp
      · rw [upd_ne' _ _ ht] at hp; exact inv2.t_ready t' p hp
  | exit t c k h =>
    obtain ⟨hrun, _, _⟩ := inv.inDo t c _ k h
    obtain ⟨hbody, hk⟩ := inv2.w_inDo t c _ k h
    have hw : ∀ c', writesOf cellOf c' (s.trace ++ [Ev.exit t c, Ev.ret t c]) = writesOf cellOf c' s.trace := by
      intro c'; rw [writesOf_append]; simp [writesOf]
    refine ⟨?_, ?_, ?_, ?_⟩
    all_goals dsimp only
    · intro c' hc'
      rw [hw]
      by_cases hc : c' = c
      · subst hc; simp only [upd_same'] at hc'; cases hc'
      · rw [upd_ne' _ _ hc] at hc'; exact inv2.w_idle c' hc'
    · intro t' c' todo k' hp
      rw [hw]
      by_cases ht : t' = t
      · subst ht; simp only [upd_same'] at hp; cases hp
      · rw [upd_ne' _ _ ht] at hp; exact inv2.w_inDo t' c' todo k' hp
    · intro c' hc'
      rw [hw]
      by_cases hc : c' = c
      · subst hc; simpa using hbody
      · rw [upd_ne' _ _ hc] at hc'; exact inv2.w_done c' hc'
    · intro t' p hp
      by_cases ht : t' = t
      · subst ht; simp only [upd_same'] at hp; injection hp with hp; subst hp; exact Or.inr hk
      · rw [upd_ne' _ _ ht] at hp; exact inv2.t_ready t' p hp
  | retVar t v h =>
    have hw : ∀ c', writesOf cellOf c' (s.trace ++ [Ev.read t v]) = writesOf cellOf c' s.trace :=
      fun c' => writesOf_snoc_other c' _ _ (by intro _ _ h; cases h)
    refine ⟨?_, ?_, ?_, ?_⟩
    all_goals dsimp only
    · intro c' hc'; rw [hw]; exact inv2.w_idle c' hc'
    · intro t' c' todo k' hp
      rw [hw]
      by_cases ht : t' = t
      · subst ht; simp only [upd_same'] at hp; cases hp
      · rw [upd_ne' _ _ ht] at hp; exact inv2.w_inDo t' c' todo k' hp
    · intro c' hc'; rw [hw]; exact inv2.w_done c' hc'
    · intro t' p hp
      by_cases ht : t' = t
      · subst ht; simp only [upd_same'] at hp; cases hp
      · rw [upd_ne' _ _ ht] at hp; exact inv2.t_ready t' p hp
  | retNil t h =>
    refine ⟨inv2.w_idle, ?_, inv2.w_done, ?_⟩
    · intro t' c' todo k' hp
      try dsimp only at hp
      by_cases ht : t' = t
      · subst ht; simp only [upd_same'] at hp; cases hp
      · rw [upd_ne' _ _ ht] at hp; exact inv2.w_inDo t' c' todo k' hp
    · intro t' p hp
      try dsimp only at hp
      by_cases ht : t' = t
      · subst ht; simp only [upd_same'] at hp; cases hp
      · rw [upd_ne' _ _ ht] at hp; exact inv2.t_ready t' p hp

theorem inv2_reach {bodyOf : Nat → List CStmt} {P : Int → Prog} (hP : ArmOK cellOf bodyOf P) {s : Cfg} (r : Reach P s) :
    Inv cellOf P s ∧ Inv2 cellOf bodyOf P s := by
  induction r with
  | init => exact ⟨inv_init P, inv2_init bodyOf P⟩
  | step _ st ih => exact ⟨inv_step (hP.guarded cellOf) ih.1 st, inv2_step hP ih.1 ih.2 st⟩

/-- **equals sequential use**: at every occurrence of a read of `v`, the memory holds at `v` what
one run of the closure body of `v`'s cell from the cold state leaves there -/
theorem sequential {bodyOf : Nat → List CStmt} {P : Int → Prog} (hP : ArmOK cellOf bodyOf P) {s : Cfg} (r : Reach P s)
    (pre post : List Ev) (tr : Tid) (v : Nat) (h : s.trace = pre ++ Ev.read tr v :: post) :
    memOf pre v = applyAll (bodyOf (cellOf v)) cold v := by
  obtain ⟨inv, inv2⟩ := inv2_reach hP r
  obtain ⟨tw, p1, p2, p3, hpre, hno, _⟩ := ordered_of_ok cellOf s.trace pre post tr v inv.ok h
  -- the cell of `v` has exited, hence is done, hence all of its body has been executed …
  have hexited : (scanFrom Scan.init s.trace).exited (cellOf v) = true := by
    rw [h, hpre]
    have : (scanFrom Scan.init (p1 ++ [Ev.exit tw (cellOf v)])).exited (cellOf v) = true := by
      rw [scanFrom_append]; simp [scanFrom, Scan.step, upd]
    have e : p1 ++ Ev.exit tw (cellOf v) :: p2 ++ Ev.ret tr (cellOf v) :: p3 ++ Ev.read tr v :: post =
        (p1 ++ [Ev.exit tw (cellOf v)]) ++ (p2 ++ Ev.ret tr (cellOf v) :: p3 ++ Ev.read tr v :: post) := by simp
    rw [e, scanFrom_append]
    exact exited_mono _ _ _ this
  have hdone : s.once (cellOf v) = .done := by
    cases ho : s.once (cellOf v) with
    | idle => have := (inv.idle _ ho).2; rw [hexited] at this; cases this
    | running t => have := (inv.running _ t ho).2; rw [hexited] at this; cases this
    | done => rfl
  have hall := inv2.w_done _ hdone
  -- … and none of it after the exit, in particular none at or after the read
  have hpost : writesOf cellOf (cellOf v) (Ev.read tr v :: post) = [] := by
    apply writesOf_nil_of_no_write
    intro t st hc hm
    exact hno t st hc (by simp only [List.mem_append]; exact Or.inr hm)
  rw [h, writesOf_append, hpost, List.append_nil] at hall
  unfold memOf
  rw [mem_of_writes cellOf v pre cold cold rfl, hall]

end Bip39V.CC
