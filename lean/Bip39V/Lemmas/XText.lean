import Bip39V.Lemmas.NfkdIdem
import Bip39V.Unicode.XText
/-! The model of x/text's stream-safe NFKD (`Unicode/XText.lean`) is UAX #15 NFKD exactly on the
stream-safe class, and outside it its output still contains 28 consecutive K-items.

Table part (kernel evaluation of the whole decomposition table): every decomposition is non-empty,
has at most 30 items, at most 3 leading K-items, and if it begins with a K-item it consists of
K-items only.  The rest is induction over the string with the invariant "the model's counter is the
length of the run of K-items at the end of what has been emitted". -/
namespace Bip39V.Unicode
open Bip39V

/-! ### canonical ordering does not change which positions hold K-items -/
theorem kItem_of_ccc {c : Nat} (h : ccc c ≠ 0) : kItem c = true := by
  simp [kItem, h]

theorem insG_mask (c : Nat) (l : Str) : (insG ccc c l).map kItem = (c :: l).map kItem := by
  induction l with
  | nil => rfl
  | cons d ds ih =>
    simp only [insG]
    split
    · rename_i h
      have hd := kItem_of_ccc h.1
      have hc : kItem c = true := kItem_of_ccc (by omega)
      simp [ih, hd, hc]
    · rfl

theorem reorder_mask (l : Str) : (reorderG ccc l).map kItem = l.map kItem := by
  induction l with
  | nil => rfl
  | cons c cs ih => simp [reorderG, insG_mask, ih]

theorem maxKRunAux_mask (l l' : Str) (h : l.map kItem = l'.map kItem) (cur best : Nat) :
    maxKRunAux l cur best = maxKRunAux l' cur best := by
  induction l generalizing l' cur best with
  | nil => cases l' with
    | nil => rfl
    | cons => simp at h
  | cons c cs ih => cases l' with
    | nil => simp at h
    | cons c' cs' =>
      simp only [List.map_cons, List.cons.injEq] at h
      simp only [maxKRunAux, h.1]
      split <;> exact ih _ h.2 _ _

/-- the longest run of K-items of the NFKD form is that of the plain decomposition -/
theorem maxKRun_nfkd (s : Str) : maxKRun (nfkd s) = maxKRun (s.flatMap decomp) :=
  maxKRunAux_mask _ _ (reorder_mask _) 0 0

/-! ### the run scanner, piecewise -/
def bestAfter : Str → Nat → Nat → Nat
  | [], _, best => best
  | c :: cs, cur, best => if kItem c then bestAfter cs (cur + 1) best else bestAfter cs 0 (max cur best)

theorem maxKRunAux_append (a b : Str) (cur best : Nat) :
    maxKRunAux (a ++ b) cur best = maxKRunAux b (curAfter a cur) (bestAfter a cur best) := by
  induction a generalizing cur best with
  | nil => rfl
  | cons c cs ih =>
    simp only [List.cons_append, maxKRunAux, curAfter, bestAfter]
    split <;> exact ih _ _

theorem maxKRunAux_mono (l : Str) {cur cur' best best' : Nat} (h1 : cur ≤ cur') (h2 : best ≤ best') :
    maxKRunAux l cur best ≤ maxKRunAux l cur' best' := by
  induction l generalizing cur cur' best best' with
  | nil => simp only [maxKRunAux]; omega
  | cons c cs ih =>
    simp only [maxKRunAux]
    split
    · exact ih (by omega) h2
    · exact ih (Nat.le_refl _) (by omega)

theorem le_maxKRunAux (l : Str) (cur best : Nat) : cur ≤ maxKRunAux l cur best ∧ best ≤ maxKRunAux l cur best := by
  induction l generalizing cur best with
  | nil => simp only [maxKRunAux]; omega
  | cons c cs ih =>
    simp only [maxKRunAux]
    split
    · have := ih (cur + 1) best; omega
    · have := ih 0 (max cur best); omega

theorem lead_le_maxKRunAux (l : Str) (cur best : Nat) : cur + leadK l ≤ maxKRunAux l cur best := by
  induction l generalizing cur best with
  | nil => simp only [leadK, maxKRunAux]; omega
  | cons c cs ih =>
    simp only [leadK, maxKRunAux]
    split
    · have := ih (cur + 1) best; omega
    · have := (le_maxKRunAux cs 0 (max cur best)).2; omega

theorem leadK_append_ge (a b : Str) : leadK a ≤ leadK (a ++ b) := by
  induction a with
  | nil => simp [leadK]
  | cons c cs ih =>
    simp only [List.cons_append, leadK]
    split <;> omega

theorem curAfter_mono (l : Str) {cur cur' : Nat} (h : cur ≤ cur') : curAfter l cur ≤ curAfter l cur' := by
  induction l generalizing cur cur' with
  | nil => simpa [curAfter]
  | cons c cs ih =>
    simp only [curAfter]
    split
    · exact ih (by omega)
    · exact Nat.le_refl _

theorem curAfter_allK (l : Str) (h : l.all kItem = true) (cur : Nat) : curAfter l cur = cur + l.length := by
  induction l generalizing cur with
  | nil => rfl
  | cons c cs ih =>
    simp only [List.all_cons, Bool.and_eq_true] at h
    simp only [curAfter, h.1, if_true, List.length_cons]
    rw [ih h.2]; omega

theorem bestAfter_allK (l : Str) (h : l.all kItem = true) (cur best : Nat) : bestAfter l cur best = best := by
  induction l generalizing cur with
  | nil => rfl
  | cons c cs ih =>
    simp only [List.all_cons, Bool.and_eq_true] at h
    simp only [bestAfter, h.1, if_true]
    exact ih h.2 _

theorem leadK_allK (l : Str) (h : l.all kItem = true) : leadK l = l.length := by
  induction l with
  | nil => rfl
  | cons c cs ih =>
    simp only [List.all_cons, Bool.and_eq_true] at h
    simp only [leadK, h.1, if_true, List.length_cons, ih h.2]

theorem bestAfter_le (l : Str) (cur best k : Nat) (hb : best ≤ k) (hc : cur + l.length ≤ k) : bestAfter l cur best ≤ k := by
  induction l generalizing cur best with
  | nil => simpa [bestAfter]
  | cons c cs ih =>
    simp only [List.length_cons] at hc
    simp only [bestAfter]
    split
    · exact ih _ _ hb (by omega)
    · exact ih _ _ (by omega) (by omega)

theorem curAfter_le (l : Str) (cur : Nat) : curAfter l cur ≤ cur + l.length := by
  induction l generalizing cur with
  | nil => simp [curAfter]
  | cons c cs ih =>
    simp only [curAfter, List.length_cons]
    split
    · have := ih (cur + 1); omega
    · have := ih 0; omega

/-- appending `l` to a text that ends in a run of `cur` K-items gives a text ending in a run of
`curAfter l cur` K-items -/
theorem run_suffix (l : Str) : ∀ (pre a r : Str) (cur : Nat), pre = a ++ r → r.length = cur → (∀ c ∈ r, kItem c = true) →
    ∃ a' r', pre ++ l = a' ++ r' ∧ r'.length = curAfter l cur ∧ ∀ c ∈ r', kItem c = true := by
  induction l with
  | nil => intro pre a r cur hp hl hk; exact ⟨a, r, by simp [hp], by simp [curAfter, hl], hk⟩
  | cons c cs ih =>
    intro pre a r cur hp hl hk
    simp only [curAfter]
    split
    · rename_i hc
      obtain ⟨a', r', h1, h2, h3⟩ := ih (pre ++ [c]) a (r ++ [c]) (cur + 1) (by simp [hp]) (by simp [hl])
        (by intro x hx; rcases List.mem_append.mp hx with h | h
            · exact hk x h
            · simp at h; subst h; exact hc)
      exact ⟨a', r', by simpa using h1, h2, h3⟩
    · obtain ⟨a', r', h1, h2, h3⟩ := ih (pre ++ [c]) (pre ++ [c]) [] 0 (by simp) rfl (by simp)
      exact ⟨a', r', by simpa using h1, h2, h3⟩

/-! ### facts about the decomposition table -/
def okDecomp (d : Str) : Bool :=
  !d.isEmpty && decide (d.length ≤ 30) && decide (leadK d ≤ 3) && (leadK d == 0 || d.all kItem)

/-- kernel evaluation over all 5 857 stored decompositions -/
theorem table_okDecomp : T.allValues (fun _ v => okDecomp (unpack v)) decompTree = true := by decide +kernel

/-- the leading consonants U+1100 … U+1112 are not K-items -/
theorem jamoL_not_k : ∀ i < 19, kItem (0x1100 + i) = false := by decide +kernel

theorem okDecomp_single (c : Nat) : okDecomp [c] = true := by
  cases h : kItem c <;> simp [okDecomp, leadK, h]

theorem okDecomp_of_head (l : Nat) (t : Str) (h : kItem l = false) (ht : t.length ≤ 29) : okDecomp (l :: t) = true := by
  simp [okDecomp, leadK, h]; omega

theorem decomp_ok (c : Nat) : okDecomp (decomp c) = true := by
  unfold decomp
  split
  · rename_i hc
    rw [hangul_eq]
    have hL : kItem (0x1100 + (c - 0xAC00) / 588) = false := jamoL_not_k _ (by omega)
    split
    · exact okDecomp_of_head _ _ hL (by simp)
    · exact okDecomp_of_head _ _ hL (by simp)
  · split
    · rename_i p hp
      obtain ⟨k, hk⟩ := T.find_of_allValues _ decompTree table_okDecomp c p hp
      exact hk
    · exact okDecomp_single c

theorem decomp_facts (c : Nat) : decomp c ≠ [] ∧ (decomp c).length ≤ 30 ∧ leadK (decomp c) ≤ 3 ∧
    (leadK (decomp c) = 0 ∨ (decomp c).all kItem = true) := by
  have h := decomp_ok c
  simp only [okDecomp, Bool.and_eq_true, Bool.not_eq_true', List.isEmpty_eq_false_iff, decide_eq_true_eq, Bool.or_eq_true,
    beq_iff_eq] at h
  exact ⟨h.1.1.1, h.1.1.2, h.1.2, h.2⟩

/-! ### the model's counter -/
/-- no U+034F is inserted while processing `s` from counter value `ss` -/
def noOverflow : Nat → Str → Bool
  | _, [] => true
  | ss, c :: cs =>
    let d := decomp c
    let n := leadK d
    if ss + n > 30 then false
    else if n = 0 then noOverflow (trailK d) cs
    else noOverflow (ss + n) cs

theorem xdecomp_of_noOverflow (s : Str) (ss : Nat) (h : noOverflow ss s = true) : xdecomp ss s = s.flatMap decomp := by
  induction s generalizing ss with
  | nil => rfl
  | cons c cs ih =>
    simp only [noOverflow] at h
    simp only [xdecomp, List.flatMap_cons]
    split at h
    · cases h
    · rename_i h1
      rw [if_neg h1]
      split at h
      · rename_i h2; rw [if_pos h2, ih _ h]
      · rename_i h2; rw [if_neg h2, ih _ h]

/-- an insertion happens only where the plain decomposition has a run of more than 30 K-items -/
theorem overflow_run (s : Str) (ss best : Nat) (h : noOverflow ss s = false) :
    30 < maxKRunAux (s.flatMap decomp) ss best := by
  induction s generalizing ss best with
  | nil => simp [noOverflow] at h
  | cons c cs ih =>
    simp only [noOverflow] at h
    simp only [List.flatMap_cons]
    by_cases h1 : ss + leadK (decomp c) > 30
    · have := lead_le_maxKRunAux (decomp c ++ cs.flatMap decomp) ss best
      have := leadK_append_ge (decomp c) (cs.flatMap decomp)
      omega
    · rw [if_neg h1] at h
      rw [maxKRunAux_append]
      by_cases h2 : leadK (decomp c) = 0
      · rw [if_pos h2] at h
        have := ih (trailK (decomp c)) (bestAfter (decomp c) ss best) h
        exact Nat.lt_of_lt_of_le this (maxKRunAux_mono _ (curAfter_mono _ (Nat.zero_le _)) (Nat.le_refl _))
      · rw [if_neg h2] at h
        have hall : (decomp c).all kItem = true := by
          rcases (decomp_facts c).2.2.2 with h3 | h3
          · exact absurd h3 h2
          · exact h3
        have := ih (ss + leadK (decomp c)) (bestAfter (decomp c) ss best) h
        rw [curAfter_allK _ hall, ← leadK_allK _ hall]
        exact this

/-- without an insertion every run of K-items has at most 30 -/
theorem noOverflow_run (s : Str) (ss best : Nat) (h : noOverflow ss s = true) (hs : ss ≤ 30) (hb : best ≤ 30) :
    maxKRunAux (s.flatMap decomp) ss best ≤ 30 := by
  induction s generalizing ss best with
  | nil => simp only [List.flatMap_nil, maxKRunAux]; omega
  | cons c cs ih =>
    simp only [noOverflow] at h
    simp only [List.flatMap_cons]
    rw [maxKRunAux_append]
    obtain ⟨hne, hlen, _, hk⟩ := decomp_facts c
    by_cases h1 : ss + leadK (decomp c) > 30
    · rw [if_pos h1] at h; cases h
    · rw [if_neg h1] at h
      by_cases h2 : leadK (decomp c) = 0
      · rw [if_pos h2] at h
        -- the decomposition begins with an item that is not a K-item
        match hd : decomp c with
        | [] => exact absurd hd hne
        | x :: d' =>
          rw [hd] at h2 hlen h
          have hx : kItem x = false := by
            cases hkx : kItem x with
            | false => rfl
            | true => simp [leadK, hkx] at h2
          have hcur : curAfter (x :: d') ss = trailK (x :: d') := by simp [curAfter, trailK, hx]
          have hbest : bestAfter (x :: d') ss best ≤ 30 := by
            simp only [bestAfter, hx]
            apply bestAfter_le _ _ _ _ (by omega)
            simp only [List.length_cons] at hlen; omega
          have hcur' : trailK (x :: d') ≤ 30 := by
            have h0 := curAfter_le d' 0
            have h1' : trailK (x :: d') = curAfter d' 0 := by simp [trailK, curAfter, hx]
            rw [h1']
            simp only [List.length_cons] at hlen
            omega
          rw [hcur]
          exact ih _ _ h hcur' hbest
      · rw [if_neg h2] at h
        have hall : (decomp c).all kItem = true := by
          rcases hk with h3 | h3
          · exact absurd h3 h2
          · exact h3
        rw [curAfter_allK _ hall, bestAfter_allK _ hall, ← leadK_allK _ hall]
        exact ih _ _ h (by omega) hb

/-- at the first insertion the text emitted so far ends in at least 28 K-items -/
theorem overflow_keeps (s : Str) : ∀ (ss : Nat) (pre a r : Str), noOverflow ss s = false → pre = a ++ r → r.length = ss →
    (∀ c ∈ r, kItem c = true) →
    ∃ a' r' b', pre ++ xdecomp ss s = a' ++ r' ++ b' ∧ r'.length = 28 ∧ ∀ c ∈ r', kItem c = true := by
  induction s with
  | nil => intro ss pre a r h; simp [noOverflow] at h
  | cons c cs ih =>
    intro ss pre a r h hp hl hk
    simp only [noOverflow] at h
    simp only [xdecomp]
    obtain ⟨_, _, h3, hkk⟩ := decomp_facts c
    by_cases h1 : ss + leadK (decomp c) > 30
    · rw [if_pos h1]
      refine ⟨a ++ r.take (ss - 28), r.drop (ss - 28), cgj :: (decomp c ++ xdecomp (leadK (decomp c)) cs), ?_, ?_, ?_⟩
      · rw [hp]; simp only [List.append_assoc]
        rw [← List.append_assoc (r.take _), List.take_append_drop]
      · simp only [List.length_drop, hl]; omega
      · intro x hx; exact hk x (List.mem_of_mem_drop hx)
    · rw [if_neg h1] at h ⊢
      by_cases h2 : leadK (decomp c) = 0
      · rw [if_pos h2] at h ⊢
        obtain ⟨a1, r1, e1, l1, k1⟩ := run_suffix (decomp c) pre pre [] 0 (by simp) rfl (by simp)
        obtain ⟨a', r', b', e, l, k⟩ := ih (trailK (decomp c)) (pre ++ decomp c) a1 r1 h e1 l1 k1
        exact ⟨a', r', b', by simpa using e, l, k⟩
      · rw [if_neg h2] at h ⊢
        have hall : (decomp c).all kItem = true := by
          rcases hkk with h4 | h4
          · exact absurd h4 h2
          · exact h4
        obtain ⟨a1, r1, e1, l1, k1⟩ := run_suffix (decomp c) pre a r ss hp hl hk
        rw [curAfter_allK _ hall, ← leadK_allK _ hall] at l1
        obtain ⟨a', r', b', e, l, k⟩ := ih (ss + leadK (decomp c)) (pre ++ decomp c) a1 r1 h e1 l1 k1
        exact ⟨a', r', b', by simpa using e, l, k⟩

/-! ### the two facts that make the model a `Normaliser` -/
theorem noOverflow_of_streamSafe (s : Str) (h : streamSafe s = true) : noOverflow 0 s = true := by
  cases hn : noOverflow 0 s with
  | true => rfl
  | false =>
    have := overflow_run s 0 0 hn
    have h' : maxKRun (nfkd s) ≤ 30 := by simpa [streamSafe] using h
    rw [maxKRun_nfkd] at h'
    unfold maxKRun at h'
    omega

/-- on the stream-safe class the model is UAX #15 NFKD -/
theorem xnfkd_agrees (s : Str) (h : streamSafe s = true) : xnfkd s = nfkd s := by
  simp only [xnfkd, nfkd, nfkdG, xdecomp_of_noOverflow s 0 (noOverflow_of_streamSafe s h)]

theorem overflow_of_not_streamSafe (s : Str) (h : streamSafe s = false) : noOverflow 0 s = false := by
  cases hn : noOverflow 0 s with
  | false => rfl
  | true =>
    have := noOverflow_run s 0 0 hn (by omega) (by omega)
    have h' : ¬ maxKRun (nfkd s) ≤ 30 := by simpa [streamSafe] using h
    rw [maxKRun_nfkd] at h'
    unfold maxKRun at h'
    omega

/-- outside the stream-safe class the model's output contains 28 consecutive K-items -/
theorem xnfkd_overflow (s : Str) (h : streamSafe s = false) :
    ∃ a r b, xnfkd s = a ++ r ++ b ∧ r.length = 28 ∧ ∀ c ∈ r, kItem c = true := by
  obtain ⟨a, r, b, e, l, k⟩ := overflow_keeps s 0 [] [] [] (overflow_of_not_streamSafe s h) rfl rfl (by simp)
  simp only [List.nil_append] at e
  have hm : (xnfkd s).map kItem = (a ++ r ++ b).map kItem := by rw [xnfkd, reorder_mask, e]
  have hlen : (xnfkd s).length = (a ++ r ++ b).length := by
    have := congrArg List.length hm; simpa using this
  refine ⟨(xnfkd s).take a.length, ((xnfkd s).drop a.length).take 28, ((xnfkd s).drop a.length).drop 28, ?_, ?_, ?_⟩
  · simp only [List.append_assoc, List.take_append_drop]
  · simp only [List.length_take, List.length_drop, hlen, List.length_append, l]; omega
  · intro c hc
    have hr : (((xnfkd s).drop a.length).take 28).map kItem = r.map kItem := by
      rw [List.map_take, List.map_drop, hm]
      simp only [List.map_append, List.append_assoc]
      rw [List.drop_left' (by simp), List.take_left' (by simp [l])]
    have : kItem c ∈ (((xnfkd s).drop a.length).take 28).map kItem := List.mem_map_of_mem hc
    rw [hr] at this
    obtain ⟨x, hx, hxe⟩ := List.mem_map.mp this
    rw [← hxe]; exact k x hx

end Bip39V.Unicode
