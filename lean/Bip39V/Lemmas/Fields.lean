import Bip39V.Lemmas.Split
import Bip39V.Spec.Bip39
/-! Splitting on U+0020 vs. splitting on any White_Space. -/
namespace Bip39V
open Unicode

theorem joinWith_splitOn (sep : Nat) (s : Str) : joinWith [sep] (splitOn sep s) = s := by
  induction s with
  | nil => rfl
  | cons c cs ih =>
    simp only [splitOn]
    split
    · rename_i hc
      subst hc
      match h : splitOn c cs with
      | [] => exact absurd h (splitOn_ne_nil c cs)
      | w :: ws => rw [h] at ih; simp [joinWith, ih]
    · match h : splitOn sep cs with
      | [] => exact absurd h (splitOn_ne_nil sep cs)
      | [w] => rw [h] at ih; simp [joinWith] at ih ⊢; exact ih
      | w :: w' :: ws => rw [h] at ih; simp [joinWith] at ih ⊢; exact ih

namespace Spec

theorem fieldsAux_word (w rest cur : Str) (h : ∀ c ∈ w, isWhiteSpace c = false) :
    fieldsAux (w ++ rest) cur = fieldsAux rest (w.reverse ++ cur) := by
  induction w generalizing cur with
  | nil => rfl
  | cons c cs ih =>
    have hc : isWhiteSpace c = false := h c List.mem_cons_self
    simp only [List.cons_append, fieldsAux, hc, Bool.false_eq_true, if_false]
    rw [ih (c :: cur) (fun x hx => h x (List.mem_cons_of_mem _ hx))]
    simp

/-- the whitespace-separated tokens of words joined by single spaces are those words -/
theorem fields_join (ws : List Str) (hne : ∀ w ∈ ws, w ≠ []) (hws : ∀ w ∈ ws, ∀ c ∈ w, isWhiteSpace c = false) :
    fields (joinWith [0x20] ws) = ws := by
  unfold fields
  induction ws with
  | nil => rfl
  | cons w t ih =>
    have hw := hws w List.mem_cons_self
    have hwn := hne w List.mem_cons_self
    cases t with
    | nil =>
      have := fieldsAux_word w [] [] hw
      simp only [List.append_nil] at this
      simp only [joinWith, this, fieldsAux]
      have : w.reverse ≠ [] := by simpa using hwn
      simp [this]
    | cons w' t' =>
      have ih' := ih (fun x hx => hne x (List.mem_cons_of_mem _ hx)) (fun x hx => hws x (List.mem_cons_of_mem _ hx))
      simp only [joinWith, List.append_assoc, List.singleton_append]
      rw [fieldsAux_word w _ [] hw]
      have hsp : isWhiteSpace 0x20 = true := by decide
      simp only [List.append_nil, fieldsAux, hsp, if_true]
      have : w.reverse ≠ [] := by simpa using hwn
      simp only [this, if_false, List.reverse_reverse]
      rw [ih']

end Spec
end Bip39V
