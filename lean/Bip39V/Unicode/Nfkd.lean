import Bip39V.Basic.Str
import Bip39V.Unicode.Tables
/-! UAX #15 NFKD on item lists: full compatibility decomposition (pinned table, algorithmic
Hangul), then canonical ordering by combining class.  Invalid-byte items have no decomposition
and class 0, i.e. they pass through, as in x/text. -/
namespace Bip39V.Unicode
open Bip39V

section generic
variable (ccc : Nat → Nat) (decomp : Nat → Str)

/-- insert `c` in front of an already ordered list, letting it travel right past marks of smaller
non-zero class (stable: it never passes a mark of its own class, nor a starter) -/
def insG (c : Nat) : Str → Str
  | [] => [c]
  | d :: ds => if ccc d ≠ 0 ∧ ccc d < ccc c then d :: insG c ds else c :: d :: ds

def reorderG : Str → Str
  | [] => []
  | c :: cs => insG ccc c (reorderG cs)

def nfkdG (s : Str) : Str := reorderG ccc (s.flatMap decomp)
end generic

def ccc (c : Nat) : Nat := (cccTree.find c).getD 0

def hangul (c : Nat) : Str :=
  let s := c - 0xAC00
  let l := 0x1100 + s / 588
  let v := 0x1161 + (s % 588) / 28
  let t := s % 28
  if t = 0 then [l, v] else [l, v, 0x11A7 + t]

def decomp (c : Nat) : Str :=
  if 0xAC00 ≤ c ∧ c ≤ 0xD7A3 then hangul c
  else match decompTree.find c with
    | some p => unpack p
    | none => [c]

def nfkd (s : Str) : Str := nfkdG ccc decomp s

/-- x/text's notion of "non-starter" for the stream-safe format: non-zero class, or one of the
starters that combine backwards -/
def kItem (c : Nat) : Bool := ccc c != 0 || backwardStarters.contains c

/-- longest run of consecutive K-items -/
def maxKRunAux : Str → Nat → Nat → Nat
  | [], cur, best => max cur best
  | c :: cs, cur, best => if kItem c then maxKRunAux cs (cur + 1) best else maxKRunAux cs 0 (max cur best)
def maxKRun (s : Str) : Nat := maxKRunAux s 0 0

/-- the class of strings on which x/text's NFKD is UAX #15 NFKD: no run of more than 30 K-items
in the NFKD form -/
def streamSafe (s : Str) : Bool := maxKRun (nfkd s) ≤ 30

/-- Unicode White_Space -/
def isWhiteSpace (c : Nat) : Bool :=
  (9 ≤ c && c ≤ 13) || c == 0x20 || c == 0x85 || c == 0xA0 || c == 0x1680 || (0x2000 ≤ c && c ≤ 0x200A)
    || c == 0x2028 || c == 0x2029 || c == 0x202F || c == 0x205F || c == 0x3000

end Bip39V.Unicode
