import Bip39V.Unicode.Nfkd
/-! An executable model of what `norm.NFKD.String` of golang.org/x/text v0.14.0 computes: UAX #15
NFKD made *stream-safe* (UAX #15 §13).  Transcribed from `normalize.go` (`decomposeSegment`,
`doAppendInner`, `quickSpan`), `composition.go` (`streamSafe.next`, `insertOrdered`, `insertCGJ`)
and `maketables.go` (`computeNonStarterCounts`):

* every rune `c` is replaced by its full compatibility decomposition `D c`;
* a counter `ss` of pending "non-starters" is kept (x/text counts as a non-starter every item with a
  non-zero combining class *and* the starters that combine backwards: `kItem`).  With
  `n = nLead c` — the number of leading K-items of `D c` —: if `ss + n > 30` a U+034F COMBINING
  GRAPHEME JOINER is emitted in front of `D c` and the counter restarts at `n`; else if `n = 0`
  the rune starts a new segment and `ss := nTrail c` (trailing K-items of `D c`); else `ss := ss + n`;
* the result is canonically ordered; U+034F has class 0, so nothing moves across it.

The quick-span fast paths of x/text copy text that is already in this form and are not modelled
separately.  The model is compared with the real `norm.NFKD.String` by the harness on every string
the correspondence uses (op `xnfkd`), including the overflow class; `Lemmas/XText.lean` proves that it
is a `Normaliser` (it is UAX #15 NFKD on the stream-safe class and keeps a run of 28 K-items
otherwise). -/
namespace Bip39V.Unicode
open Bip39V

/-- U+034F COMBINING GRAPHEME JOINER -/
def cgj : Nat := 0x34F

/-- number of leading K-items (x/text: `nLeadingNonStarters` of a rune, on its decomposition) -/
def leadK : Str → Nat
  | [] => 0
  | c :: cs => if kItem c then leadK cs + 1 else 0

/-- length of the run of K-items at the end of `l`, continuing a run of `cur` before it -/
def curAfter : Str → Nat → Nat
  | [], cur => cur
  | c :: cs, cur => if kItem c then curAfter cs (cur + 1) else curAfter cs 0

/-- number of trailing K-items (x/text: `nTrailingNonStarters`) -/
def trailK (l : Str) : Nat := curAfter l 0

/-- x/text's limit on consecutive non-starters -/
def maxNonStarters : Nat := 30  -- (the literal 30 below)

/-- decomposition with U+034F inserted wherever the non-starter counter would pass 30 -/
def xdecomp : Nat → Str → Str
  | _, [] => []
  | ss, c :: cs =>
    let d := decomp c
    let n := leadK d
    if ss + n > 30 then cgj :: (d ++ xdecomp n cs)
    else if n = 0 then d ++ xdecomp (trailK d) cs
    else d ++ xdecomp (ss + n) cs

/-- `norm.NFKD.String` as x/text computes it -/
def xnfkd (s : Str) : Str := reorderG ccc (xdecomp 0 s)

end Bip39V.Unicode
