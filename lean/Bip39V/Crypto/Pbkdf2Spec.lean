import Bip39V.Crypto.Consts
import Bip39V.Basic.Bits
/-! SHA-512 (FIPS 180-4), HMAC (RFC 2104) and PBKDF2 (RFC 8018 §5.2) as pure, structurally recursive
functions on byte lists, with the one structural fact the property needs: PBKDF2 returns exactly
`dkLen` bytes.  The driver computes seeds with the array-based transcription in `Crypto/Sha.lean`
(30× faster); the two are compared on every run by the `pbkdf2spec` op of the harness. -/
namespace Bip39V.Crypto.S512

structure St where
  a : UInt64
  b : UInt64
  c : UInt64
  d : UInt64
  e : UInt64
  f : UInt64
  g : UInt64
  h : UInt64

@[inline] def rotr (x : UInt64) (n : UInt64) : UInt64 := (x >>> n) ||| (x <<< (64 - n))

def H0 : St := ⟨0x6a09e667f3bcc908, 0xbb67ae8584caa73b, 0x3c6ef372fe94f82b, 0xa54ff53a5f1d36f1,
  0x510e527fade682d1, 0x9b05688c2b3e6c1f, 0x1f83d9abfb41bd6b, 0x5be0cd19137e2179⟩

def be64 (x : UInt64) : Bytes :=
  [(x >>> 56).toUInt8, (x >>> 48).toUInt8, (x >>> 40).toUInt8, (x >>> 32).toUInt8,
   (x >>> 24).toUInt8, (x >>> 16).toUInt8, (x >>> 8).toUInt8, x.toUInt8]

def word (b : Bytes) : UInt64 := b.foldl (fun a x => (a <<< 8) ||| x.toUInt64) 0

def blockWords : Nat → Bytes → List UInt64
  | 0, _ => []
  | n + 1, b => word (b.take 8) :: blockWords n (b.drop 8)

def schedule : Nat → List UInt64 → List UInt64
  | 0, w => w
  | n + 1, w =>
    let w2 := w.getD 1 0; let w7 := w.getD 6 0; let w15 := w.getD 14 0; let w16 := w.getD 15 0
    let s0 := rotr w15 1 ^^^ rotr w15 8 ^^^ (w15 >>> 7)
    let s1 := rotr w2 19 ^^^ rotr w2 61 ^^^ (w2 >>> 6)
    schedule n ((w16 + s0 + w7 + s1) :: w)

def round (s : St) (k w : UInt64) : St :=
  let S1 := rotr s.e 14 ^^^ rotr s.e 18 ^^^ rotr s.e 41
  let ch := (s.e &&& s.f) ^^^ ((~~~ s.e) &&& s.g)
  let t1 := s.h + S1 + ch + k + w
  let S0 := rotr s.a 28 ^^^ rotr s.a 34 ^^^ rotr s.a 39
  let mj := (s.a &&& s.b) ^^^ (s.a &&& s.c) ^^^ (s.b &&& s.c)
  let t2 := S0 + mj
  ⟨t1 + t2, s.a, s.b, s.c, s.d + t1, s.e, s.f, s.g⟩

def rounds : St → List UInt64 → List UInt64 → St
  | s, k :: ks, w :: ws => rounds (round s k w) ks ws
  | s, _, _ => s

def compress (h : St) (block : Bytes) : St :=
  let w := (schedule 64 (blockWords 16 block).reverse).reverse
  let s := rounds h K512.toList w
  ⟨h.a + s.a, h.b + s.b, h.c + s.c, h.d + s.d, h.e + s.e, h.f + s.f, h.g + s.g, h.h + s.h⟩

def lenBytes (bits : Nat) : Bytes :=
  (List.range 16).map (fun i => UInt8.ofNat ((bits >>> (8 * (15 - i))) % 256))

def pad (msg : Bytes) : Bytes :=
  let l := msg.length
  let k := (239 - l % 128) % 128
  msg ++ [0x80] ++ List.replicate k 0 ++ lenBytes (l * 8)

def blocks : Nat → Bytes → St → St
  | 0, _, h => h
  | n + 1, m, h => blocks n (m.drop 128) (compress h (m.take 128))

def digest (s : St) : Bytes :=
  be64 s.a ++ be64 s.b ++ be64 s.c ++ be64 s.d ++ be64 s.e ++ be64 s.f ++ be64 s.g ++ be64 s.h

def sha512 (msg : Bytes) : Bytes :=
  let p := pad msg
  digest (blocks (p.length / 128) p H0)

theorem sha512_length (msg : Bytes) : (sha512 msg).length = 64 := by
  simp [sha512, digest, be64]

/-- HMAC-SHA512 -/
def hmac (key msg : Bytes) : Bytes :=
  let k0 := if key.length > 128 then sha512 key else key
  let k := k0 ++ List.replicate (128 - k0.length) 0
  sha512 (k.map (· ^^^ 0x5c) ++ sha512 (k.map (· ^^^ 0x36) ++ msg))

theorem hmac_length (key msg : Bytes) : (hmac key msg).length = 64 := by
  simp [hmac, sha512_length]

def xorBytes (a b : Bytes) : Bytes := List.zipWith (· ^^^ ·) a b

/-- U_2 … U_c folded into T -/
def iterF (pw : Bytes) : Nat → Bytes → Bytes → Bytes
  | 0, _, t => t
  | n + 1, u, t => let u' := hmac pw u; iterF pw n u' (xorBytes t u')

theorem iterF_length (pw : Bytes) (n : Nat) (u t : Bytes) (ht : t.length = 64) : (iterF pw n u t).length = 64 := by
  induction n generalizing u t with
  | zero => exact ht
  | succ m ih =>
    simp only [iterF]
    apply ih
    simp [xorBytes, ht, hmac_length]

def int32be (i : Nat) : Bytes := [UInt8.ofNat (i >>> 24), UInt8.ofNat (i >>> 16 % 256), UInt8.ofNat (i >>> 8 % 256), UInt8.ofNat (i % 256)]

def blockF (pw salt : Bytes) (iter : Nat) (i : Nat) : Bytes :=
  let u1 := hmac pw (salt ++ int32be i)
  iterF pw (iter - 1) u1 u1

theorem blockF_length (pw salt : Bytes) (iter i : Nat) : (blockF pw salt iter i).length = 64 :=
  iterF_length pw _ _ _ (hmac_length _ _)

def pbkdf2 (pw salt : Bytes) (iter dkLen : Nat) : Bytes :=
  ((List.range ((dkLen + 63) / 64)).flatMap (fun i => blockF pw salt iter (i + 1))).take dkLen

theorem flatMap_length_const {α} (l : List α) (f : α → Bytes) (k : Nat) (h : ∀ x, (f x).length = k) :
    (l.flatMap f).length = k * l.length := by
  induction l with
  | nil => simp
  | cons a t ih => simp [List.flatMap_cons, h a, ih, Nat.mul_succ]; omega

/-- PBKDF2 returns exactly `dkLen` bytes -/
theorem pbkdf2_length (pw salt : Bytes) (iter dkLen : Nat) : (pbkdf2 pw salt iter dkLen).length = dkLen := by
  unfold pbkdf2
  rw [List.length_take, flatMap_length_const _ _ 64 (fun i => blockF_length pw salt iter (i + 1)), List.length_range]
  omega

end Bip39V.Crypto.S512
