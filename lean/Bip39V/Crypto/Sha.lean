import Bip39V.Crypto.Consts
/-! SHA-256, SHA-512, HMAC-SHA512 and PBKDF2 transcribed from FIPS 180-4, RFC 2104 and RFC 8018.
Executable (ByteArray/UInt loops); used by the driver as the spec oracle.  No theorem depends on
a computed digest. -/
namespace Bip39V.Crypto

namespace Sha256
@[inline] def rotr (x : UInt32) (n : UInt32) : UInt32 := (x >>> n) ||| (x <<< (32 - n))
def pad (msg : ByteArray) : ByteArray := Id.run do
  let len := msg.size
  let mut b := msg.push 0x80
  while b.size % 64 != 56 do b := b.push 0
  let bits := len * 8
  for i in [0:8] do
    b := b.push (UInt8.ofNat ((bits >>> (8 * (7 - i))) % 256))
  return b
def word (b : ByteArray) (off : Nat) : UInt32 := Id.run do
  let mut w : UInt32 := 0
  for i in [0:4] do w := (w <<< 8) ||| (b.get! (off + i)).toUInt32
  return w
def compress (h : Array UInt32) (b : ByteArray) (off : Nat) : Array UInt32 := Id.run do
  let mut w : Array UInt32 := Array.mkEmpty 64
  for t in [0:16] do w := w.push (word b (off + 4 * t))
  for t in [16:64] do
    let w15 := w[t-15]!; let w2 := w[t-2]!
    let s0 := rotr w15 7 ^^^ rotr w15 18 ^^^ (w15 >>> 3)
    let s1 := rotr w2 17 ^^^ rotr w2 19 ^^^ (w2 >>> 10)
    w := w.push (w[t-16]! + s0 + w[t-7]! + s1)
  let mut a := h[0]!; let mut b' := h[1]!; let mut c := h[2]!; let mut d := h[3]!
  let mut e := h[4]!; let mut f := h[5]!; let mut g := h[6]!; let mut hh := h[7]!
  for t in [0:64] do
    let S1 := rotr e 6 ^^^ rotr e 11 ^^^ rotr e 25
    let ch := (e &&& f) ^^^ ((~~~ e) &&& g)
    let t1 := hh + S1 + ch + K256[t]! + w[t]!
    let S0 := rotr a 2 ^^^ rotr a 13 ^^^ rotr a 22
    let mj := (a &&& b') ^^^ (a &&& c) ^^^ (b' &&& c)
    let t2 := S0 + mj
    hh := g; g := f; f := e; e := d + t1; d := c; c := b'; b' := a; a := t1 + t2
  return #[h[0]! + a, h[1]! + b', h[2]! + c, h[3]! + d, h[4]! + e, h[5]! + f, h[6]! + g, h[7]! + hh]
def hash (msg : ByteArray) : ByteArray := Id.run do
  let p := pad msg
  let mut h := H256
  for i in [0:p.size / 64] do h := compress h p (64 * i)
  let mut out := ByteArray.emptyWithCapacity 32
  for x in h do
    for i in [0:4] do out := out.push (UInt8.ofNat ((x >>> (8 * (3 - i).toUInt32)).toNat % 256))
  return out
end Sha256

namespace Sha512
@[inline] def rotr (x : UInt64) (n : UInt64) : UInt64 := (x >>> n) ||| (x <<< (64 - n))
def pad (msg : ByteArray) : ByteArray := Id.run do
  let len := msg.size
  let mut b := msg.push 0x80
  while b.size % 128 != 112 do b := b.push 0
  let bits := len * 8
  for i in [0:16] do
    b := b.push (UInt8.ofNat ((bits >>> (8 * (15 - i))) % 256))
  return b
def word (b : ByteArray) (off : Nat) : UInt64 := Id.run do
  let mut w : UInt64 := 0
  for i in [0:8] do w := (w <<< 8) ||| (b.get! (off + i)).toUInt64
  return w
def compress (h : Array UInt64) (b : ByteArray) (off : Nat) : Array UInt64 := Id.run do
  let mut w : Array UInt64 := Array.mkEmpty 80
  for t in [0:16] do w := w.push (word b (off + 8 * t))
  for t in [16:80] do
    let w15 := w[t-15]!; let w2 := w[t-2]!
    let s0 := rotr w15 1 ^^^ rotr w15 8 ^^^ (w15 >>> 7)
    let s1 := rotr w2 19 ^^^ rotr w2 61 ^^^ (w2 >>> 6)
    w := w.push (w[t-16]! + s0 + w[t-7]! + s1)
  let mut a := h[0]!; let mut b' := h[1]!; let mut c := h[2]!; let mut d := h[3]!
  let mut e := h[4]!; let mut f := h[5]!; let mut g := h[6]!; let mut hh := h[7]!
  for t in [0:80] do
    let S1 := rotr e 14 ^^^ rotr e 18 ^^^ rotr e 41
    let ch := (e &&& f) ^^^ ((~~~ e) &&& g)
    let t1 := hh + S1 + ch + K512[t]! + w[t]!
    let S0 := rotr a 28 ^^^ rotr a 34 ^^^ rotr a 39
    let mj := (a &&& b') ^^^ (a &&& c) ^^^ (b' &&& c)
    let t2 := S0 + mj
    hh := g; g := f; f := e; e := d + t1; d := c; c := b'; b' := a; a := t1 + t2
  return #[h[0]! + a, h[1]! + b', h[2]! + c, h[3]! + d, h[4]! + e, h[5]! + f, h[6]! + g, h[7]! + hh]
def hash (msg : ByteArray) : ByteArray := Id.run do
  let p := pad msg
  let mut h := H512
  for i in [0:p.size / 128] do h := compress h p (128 * i)
  let mut out := ByteArray.emptyWithCapacity 64
  for x in h do
    for i in [0:8] do out := out.push (UInt8.ofNat ((x >>> (8 * (7 - i).toUInt64)).toNat % 256))
  return out
end Sha512

/-- HMAC (RFC 2104) over SHA-512, block size 128 -/
def hmac512 (key msg : ByteArray) : ByteArray :=
  let k0 := if key.size > 128 then Sha512.hash key else key
  let k := Id.run do
    let mut k := k0
    while k.size < 128 do k := k.push 0
    return k
  let ipad := ByteArray.mk (k.data.map (· ^^^ 0x36))
  let opad := ByteArray.mk (k.data.map (· ^^^ 0x5c))
  Sha512.hash (opad ++ Sha512.hash (ipad ++ msg))

/-- PBKDF2 (RFC 8018 §5.2) with HMAC-SHA512 -/
def pbkdf2 (pw salt : ByteArray) (iter dkLen : Nat) : ByteArray := Id.run do
  let mut out := ByteArray.empty
  let nblk := (dkLen + 63) / 64
  for i in [1:nblk+1] do
    let idx := ByteArray.mk #[UInt8.ofNat (i >>> 24), UInt8.ofNat (i >>> 16 % 256), UInt8.ofNat (i >>> 8 % 256), UInt8.ofNat (i % 256)]
    let mut u := hmac512 pw (salt ++ idx)
    let mut t := u
    for _ in [1:iter] do
      u := hmac512 pw u
      t := ByteArray.mk (Array.zipWith (· ^^^ ·) t.data u.data)
    out := out ++ t
  return out.extract 0 dkLen

def sha256L (b : List UInt8) : List UInt8 := (Sha256.hash (ByteArray.mk b.toArray)).toList
def pbkdf2L (pw salt : List UInt8) (iter dkLen : Nat) : List UInt8 :=
  (pbkdf2 (ByteArray.mk pw.toArray) (ByteArray.mk salt.toArray) iter dkLen).toList

end Bip39V.Crypto
