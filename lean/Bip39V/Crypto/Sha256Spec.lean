import Bip39V.Crypto.Consts
import Bip39V.Basic.Bits
/-! SHA-256 (FIPS 180-4) as a pure, structurally recursive function on byte lists.  Used by the
driver as the digest function `D`, and shown to return 32 bytes for every input — which discharges
the hypothesis `∀ x, (D x).length = 32` of the property theorems for this concrete `D`.  That it
computes the same function as Go's crypto/sha256 is tied by differential execution (`sha256` op,
every digest the encoder/validator use, NIST vectors) — no theorem depends on a digest value. -/
namespace Bip39V.Crypto.S256

structure St where
  a : UInt32
  b : UInt32
  c : UInt32
  d : UInt32
  e : UInt32
  f : UInt32
  g : UInt32
  h : UInt32

@[inline] def rotr (x : UInt32) (n : UInt32) : UInt32 := (x >>> n) ||| (x <<< (32 - n))

def H0 : St := ⟨0x6a09e667, 0xbb67ae85, 0x3c6ef372, 0xa54ff53a, 0x510e527f, 0x9b05688c, 0x1f83d9ab, 0x5be0cd19⟩

def be32 (x : UInt32) : Bytes :=
  [(x >>> 24).toUInt8, (x >>> 16).toUInt8, (x >>> 8).toUInt8, x.toUInt8]

def word (b0 b1 b2 b3 : UInt8) : UInt32 :=
  (b0.toUInt32 <<< 24) ||| (b1.toUInt32 <<< 16) ||| (b2.toUInt32 <<< 8) ||| b3.toUInt32

/-- the 16 message words of a 64-byte block -/
def blockWords : Bytes → List UInt32
  | b0 :: b1 :: b2 :: b3 :: rest => word b0 b1 b2 b3 :: blockWords rest
  | _ => []

/-- extend the schedule: `w` holds W[t-1], W[t-2], … (most recent first) -/
def schedule : Nat → List UInt32 → List UInt32
  | 0, w => w
  | n + 1, w =>
    let w2 := w.getD 1 0; let w7 := w.getD 6 0; let w15 := w.getD 14 0; let w16 := w.getD 15 0
    let s0 := rotr w15 7 ^^^ rotr w15 18 ^^^ (w15 >>> 3)
    let s1 := rotr w2 17 ^^^ rotr w2 19 ^^^ (w2 >>> 10)
    schedule n ((w16 + s0 + w7 + s1) :: w)

def round (s : St) (k w : UInt32) : St :=
  let S1 := rotr s.e 6 ^^^ rotr s.e 11 ^^^ rotr s.e 25
  let ch := (s.e &&& s.f) ^^^ ((~~~ s.e) &&& s.g)
  let t1 := s.h + S1 + ch + k + w
  let S0 := rotr s.a 2 ^^^ rotr s.a 13 ^^^ rotr s.a 22
  let mj := (s.a &&& s.b) ^^^ (s.a &&& s.c) ^^^ (s.b &&& s.c)
  let t2 := S0 + mj
  ⟨t1 + t2, s.a, s.b, s.c, s.d + t1, s.e, s.f, s.g⟩

def rounds : St → List UInt32 → List UInt32 → St
  | s, k :: ks, w :: ws => rounds (round s k w) ks ws
  | s, _, _ => s

def compress (h : St) (block : Bytes) : St :=
  let w := (schedule 48 (blockWords block).reverse).reverse
  let s := rounds h K256.toList w
  ⟨h.a + s.a, h.b + s.b, h.c + s.c, h.d + s.d, h.e + s.e, h.f + s.f, h.g + s.g, h.h + s.h⟩

def lenBytes (bits : Nat) : Bytes :=
  (List.range 8).map (fun i => UInt8.ofNat ((bits >>> (8 * (7 - i))) % 256))

def pad (msg : Bytes) : Bytes :=
  let l := msg.length
  let k := (119 - l % 64) % 64     -- zero bytes so that the total is ≡ 56 (mod 64) before the length
  msg ++ [0x80] ++ List.replicate k 0 ++ lenBytes (l * 8)

def blocks : Nat → Bytes → St → St
  | 0, _, h => h
  | n + 1, m, h => blocks n (m.drop 64) (compress h (m.take 64))

def digest (s : St) : Bytes :=
  be32 s.a ++ be32 s.b ++ be32 s.c ++ be32 s.d ++ be32 s.e ++ be32 s.f ++ be32 s.g ++ be32 s.h

def sha256 (msg : Bytes) : Bytes :=
  let p := pad msg
  digest (blocks (p.length / 64) p H0)

/-- the digest always has 32 bytes -/
theorem sha256_length (msg : Bytes) : (sha256 msg).length = 32 := by
  simp [sha256, digest, be32]

end Bip39V.Crypto.S256
