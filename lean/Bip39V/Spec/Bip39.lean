import Bip39V.Spec.Lang
import Bip39V.Unicode.Nfkd
/-! BIP39 in bit-string terms, independent of the big-integer formulation of the code. -/
namespace Bip39V.Spec
open Bip39V

def ValidEntLen (n : Nat) : Prop := n = 16 ∨ n = 20 ∨ n = 24 ∨ n = 28 ∨ n = 32
instance (n : Nat) : Decidable (ValidEntLen n) := by unfold ValidEntLen; exact inferInstance
def ValidWordCount (n : Nat) : Prop := n = 12 ∨ n = 15 ∨ n = 18 ∨ n = 21 ∨ n = 24
instance (n : Nat) : Decidable (ValidWordCount n) := by unfold ValidWordCount; exact inferInstance

/-- entropy bits ++ first ENT/32 bits of the digest, in 11-bit groups, most significant first -/
def indices (D : Bytes → Bytes) (e : Bytes) : List Nat :=
  let cs := e.length / 4
  let all := bits e ++ (bits (D e)).take cs
  (chunksN 11 (all.length / 11) all).map ofBits

def Lang.word (L : Lang) (i : Nat) : Str := (L.words)[i]?.getD []

def sentence (D : Bytes → Bytes) (L : Lang) (e : Bytes) : Str :=
  joinWith [L.sep] ((indices D e).map L.word)

/-- 11-bit big-endian group of an index -/
def bits11 (i : Nat) : List Bool := (List.range 11).map (fun k => i.testBit (10 - k))

/-- position of a word in the list by plain search -/
def idxOf (ws : List Str) (w : Str) : Option Nat :=
  if ws.idxOf w < ws.length then some (ws.idxOf w) else none

/-- the words are list words, their number is legal, and the trailing checksum bits equal the
leading bits of the digest of the ENT/8-byte entropy they encode -/
def checksumOK (D : Bytes → Bytes) (L : Lang) (toks : List Str) : Bool :=
  let n := toks.length
  decide (ValidWordCount n) &&
  match toks.mapM (idxOf L.words) with
  | none => false
  | some idxs =>
    let all := idxs.flatMap bits11
    let entBits := all.take (n * 11 - n / 3)
    let csBits := all.drop (n * 11 - n / 3)
    csBits == (bits (D (packBytes entBits))).take (n / 3)

/-- first token that is not a list word, with its position -/
def firstUnknown (ws : List Str) : List Str → Nat → Option (Str × Nat)
  | [], _ => none
  | t :: ts, i => if (idxOf ws t).isSome then firstUnknown ws ts (i + 1) else some (t, i)

/-- what validation must say about a token list (C03, C15): wrong count; else the first unknown
token; else the checksum; else valid -/
def classify (D : Bytes → Bytes) (L : Lang) (toks : List Str) : Res Unit :=
  if ¬ ValidWordCount toks.length then .err .wordLen
  else match firstUnknown L.words toks 0 with
    | some (t, i) => .err (.unknownWord t i)
    | none => if checksumOK D L toks then .ok () else .err .checksum

/-- tokens separated by exactly one U+0020 in the NFKD form (what the generator emits, up to NFKD) -/
def validStrict (D : Bytes → Bytes) (L : Lang) (s : Str) : Bool :=
  checksumOK D L (splitOn 0x20 (Unicode.nfkd s))

/-- maximal runs of non-White_Space items -/
def fieldsAux : Str → Str → List Str
  | [], cur => if cur = [] then [] else [cur.reverse]
  | c :: cs, cur =>
    if Unicode.isWhiteSpace c then (if cur = [] then fieldsAux cs [] else cur.reverse :: fieldsAux cs [])
    else fieldsAux cs (c :: cur)
def fields (s : Str) : List Str := fieldsAux s []

/-- the whitespace-separated tokens of the NFKD form are a valid sentence (what C03 promises of
every accepted string) -/
def validWs (D : Bytes → Bytes) (L : Lang) (s : Str) : Bool :=
  checksumOK D L (fields (Unicode.nfkd s))

/-- standard decoding: word → index, concatenate, drop the checksum bits -/
def decode (L : Lang) (s : Str) : Option Bytes :=
  let toks := splitOn L.sep s
  match toks.mapM (idxOf L.words) with
  | none => none
  | some idxs =>
    let all := idxs.flatMap bits11
    let n := toks.length
    some (packBytes (all.take (n * 11 - n * 11 / 33)))

/-- the seed: PBKDF2-HMAC-SHA512(NFKD(m), "mnemonic" ‖ NFKD(p), 2048, 64) -/
def seed (PB : Bytes → Bytes → Nat → Nat → Bytes) (m p : Str) : Bytes :=
  PB (utf8 (Unicode.nfkd m)) (utf8 [109, 110, 101, 109, 111, 110, 105, 99] ++ utf8 (Unicode.nfkd p)) 2048 64

def natDigitsAux : Nat → Nat → Str → Str
  | 0, _, acc => acc
  | f + 1, n, acc => if n < 10 then (48 + n) :: acc else natDigitsAux f (n / 10) ((48 + n % 10) :: acc)
def decimal (i : Int) : Str :=
  if i < 0 then 45 :: natDigitsAux ((-i).toNat + 1) (-i).toNat [] else natDigitsAux (i.toNat + 1) i.toNat []

/-- the printable name: the declared identifier of a supported language, `Language(N)` otherwise -/
def langString (v : Int) : Str :=
  match Lang.ofValue v with
  | some L => L.name.toList.map Char.toNat
  | none => [76, 97, 110, 103, 117, 97, 103, 101, 40] ++ decimal v ++ [41]

end Bip39V.Spec
