import Bip39V.Basic.Res
import Bip39V.Gen.Lang
import Bip39V.Canonical.ChineseSimplified
import Bip39V.Canonical.ChineseTraditional
import Bip39V.Canonical.Czech
import Bip39V.Canonical.English
import Bip39V.Canonical.French
import Bip39V.Canonical.Italian
import Bip39V.Canonical.Japanese
import Bip39V.Canonical.Korean
import Bip39V.Canonical.Portuguese
import Bip39V.Canonical.Spanish
/-! The ten languages of BIP39 with their pinned canonical lists. -/
namespace Bip39V.Spec
open Bip39V

inductive Lang
  | chineseSimplified | chineseTraditional | english | french | italian | japanese | korean | spanish | czech | portuguese
deriving DecidableEq, Repr

def Lang.all : List Lang :=
  [.chineseSimplified, .chineseTraditional, .english, .french, .italian, .japanese, .korean, .spanish, .czech, .portuguese]

/-- the pinned canonical list (packed) -/
def Lang.canon : Lang → Array Nat
  | .chineseSimplified => Canonical.ChineseSimplified
  | .chineseTraditional => Canonical.ChineseTraditional
  | .english => Canonical.English
  | .french => Canonical.French
  | .italian => Canonical.Italian
  | .japanese => Canonical.Japanese
  | .korean => Canonical.Korean
  | .spanish => Canonical.Spanish
  | .czech => Canonical.Czech
  | .portuguese => Canonical.Portuguese

/-- the canonical list as item lists (each arm is a closed term, evaluated once by compiled code) -/
def Lang.words : Lang → List Str
  | .chineseSimplified => Canonical.ChineseSimplified.toList.map unpack
  | .chineseTraditional => Canonical.ChineseTraditional.toList.map unpack
  | .english => Canonical.English.toList.map unpack
  | .french => Canonical.French.toList.map unpack
  | .italian => Canonical.Italian.toList.map unpack
  | .japanese => Canonical.Japanese.toList.map unpack
  | .korean => Canonical.Korean.toList.map unpack
  | .spanish => Canonical.Spanish.toList.map unpack
  | .czech => Canonical.Czech.toList.map unpack
  | .portuguese => Canonical.Portuguese.toList.map unpack

/-- the declared identifier -/
def Lang.name : Lang → String
  | .chineseSimplified => "ChineseSimplified"
  | .chineseTraditional => "ChineseTraditional"
  | .english => "English"
  | .french => "French"
  | .italian => "Italian"
  | .japanese => "Japanese"
  | .korean => "Korean"
  | .spanish => "Spanish"
  | .czech => "Czech"
  | .portuguese => "Portuguese"

/-- the value of the exported constant with that identifier, regenerated from the const block -/
def Lang.value : Lang → Int
  | .chineseSimplified => Gen.vChineseSimplified
  | .chineseTraditional => Gen.vChineseTraditional
  | .english => Gen.vEnglish
  | .french => Gen.vFrench
  | .italian => Gen.vItalian
  | .japanese => Gen.vJapanese
  | .korean => Gen.vKorean
  | .spanish => Gen.vSpanish
  | .czech => Gen.vCzech
  | .portuguese => Gen.vPortuguese

/-- the regenerated table carried by the wordlist variable of the same name -/
def Lang.genTable : Lang → Nat
  | .chineseSimplified => Gen.tChineseSimplified
  | .chineseTraditional => Gen.tChineseTraditional
  | .english => Gen.tEnglish
  | .french => Gen.tFrench
  | .italian => Gen.tItalian
  | .japanese => Gen.tJapanese
  | .korean => Gen.tKorean
  | .spanish => Gen.tSpanish
  | .czech => Gen.tCzech
  | .portuguese => Gen.tPortuguese

/-- separator used when *emitting* a sentence -/
def Lang.sep : Lang → Nat
  | .japanese => 0x3000
  | _ => 0x20

def Lang.ofValue (v : Int) : Option Lang := Lang.all.find? (fun L => L.value == v)

end Bip39V.Spec
