def hello := "world"
