import Bip39V.Model.Lang
import Bip39V.Model.Encode
import Bip39V.Model.Check
import Bip39V.Model.Reader
import Bip39V.Model.Seed
import Bip39V.Model.Stringer
import Bip39V.Model.Tool
import Bip39V.Model.GoSem
import Bip39V.Model.GoMap
import Bip39V.Spec.Bip39
import Bip39V.Unicode.XText
import Bip39V.Crypto.Sha
import Bip39V.Crypto.Sha256Spec
import Bip39V.Crypto.Pbkdf2Spec
/-! `bip39model`: one operation per input line, one answer per output line — the executable
definitions of the Lean model (M) and of the specification (S) behind a line protocol. -/
open Bip39V

def hexDigit (n : Nat) : Char := "0123456789abcdef".toList[n]!
def hexOf (b : List UInt8) : String :=
  if b.isEmpty then "_" else String.ofList (b.flatMap fun x => [hexDigit (x.toNat / 16), hexDigit (x.toNat % 16)])
def hexVal (c : Char) : Option Nat :=
  if '0' ≤ c ∧ c ≤ '9' then some (c.toNat - 48)
  else if 'a' ≤ c ∧ c ≤ 'f' then some (c.toNat - 87)
  else if 'A' ≤ c ∧ c ≤ 'F' then some (c.toNat - 55) else none
def unhexAux : List Char → List UInt8 → Option (List UInt8)
  | [], acc => some acc.reverse
  | [_], _ => none
  | a :: b :: r, acc => do
    let x ← hexVal a; let y ← hexVal b
    unhexAux r (UInt8.ofNat (x * 16 + y) :: acc)
def unhex (s : String) : Option (List UInt8) := if s == "_" then some [] else unhexAux s.toList []

def strOfHex (s : String) : Option Str := (unhex s).map decodeItems
def hexOfStr (s : Str) : String := hexOf (utf8 s)

def D : Bytes → Bytes := Crypto.S256.sha256
def PB : Bytes → Bytes → Nat → Nat → Bytes := Crypto.pbkdf2L
/-- the model's normaliser: the executable model of x/text's stream-safe NFKD (`Unicode/XText.lean`);
the specification side (S) always uses UAX #15 NFKD -/
def X : Str → Str := Unicode.xnfkd

def panicName : Panic → String
  | .divByZero => "divByZero" | .indexOutOfRange => "indexOutOfRange" | .makeNegative => "makeNegative"
  | .fillBytesOverflow => "fillBytesOverflow" | .sliceOutOfRange => "sliceOutOfRange" | .shiftOverflow => "shiftOverflow"
  | .nilMapWrite => "nilMapWrite"
def ioName : IoErr → String
  | .eof => "eof" | .unexpectedEof => "ueof" | .other c => s!"o{c}"
def errName : Err → String
  | .wordLen => "wordLen" | .entropyLen => "entropyLen" | .checksum => "checksum"
  | .unknownWord t p => s!"unknown {hexOfStr t} {p}"
  | .io e => s!"io:{ioName e}"
def showRes {α} (f : α → String) : Res α → String
  | .ok a => let s := f a; if s.isEmpty then "ok" else "ok " ++ s
  | .err e => "err " ++ errName e
  | .panic p => "panic " ++ panicName p
def b01 (b : Bool) : String := if b then "1" else "0"

/-- error kind the specification assigns to a string (C15), over the canonical lists -/
def specClassify (L : Spec.Lang) (s : Str) : Res Unit :=
  Spec.classify D L (splitOn 0x20 (Unicode.nfkd s))

def parseIoErr (s : String) : Option (Option IoErr) :=
  if s == "-" then some none
  else if s == "eof" then some (some .eof)
  else if s == "ueof" then some (some .unexpectedEof)
  else if s.startsWith "o" then (s.drop 1).toNat?.map (fun c => some (.other c))
  else none

def parseScript (s : String) : Option Model.Script :=
  if s == "." then some []
  else (s.splitOn ",").mapM fun part =>
    match part.splitOn ":" with
    | [h, e] => do let b ← unhex h; let e ← parseIoErr e; pure (b, e)
    | _ => none

def delivered : Model.Script → Bytes
  | [] => []
  | (bs, none) :: rest => bs ++ delivered rest
  | (bs, some _) :: _ => bs

/-- the Go vocabulary of the translator (`Model/GoSem.lean`) on concrete numbers, so that the harness
can compare each primitive with the real Go operation -/
def st0 : Go.St := { pkg := .init, script := [], reads := 0 }
def showInt (r : Res Int) : String := showRes (fun (i : Int) => toString i) r
def prim (op : String) (a : List String) : String :=
  let ints := a.mapM String.toInt?
  match op, ints with
  | "wrapI", some [x] => s!"ok {Go.wrapI x}"
  | "wrapU", some [x] => s!"ok {Go.wrapU x}"
  | "addI", some [x, y] => s!"ok {Go.addI x y}"
  | "subI", some [x, y] => s!"ok {Go.subI x y}"
  | "mulI", some [x, y] => s!"ok {Go.mulI x y}"
  | "addU", some [x, y] => s!"ok {Go.addU x y}"
  | "subU", some [x, y] => s!"ok {Go.subU x y}"
  | "mulU", some [x, y] => s!"ok {Go.mulU x y}"
  | "divI", some [x, y] => showInt (Go.divI x y st0).1
  | "remI", some [x, y] => showInt (Go.remI x y st0).1
  | "divU", some [x, y] => showInt (Go.divU x y st0).1
  | "remU", some [x, y] => showInt (Go.remU x y st0).1
  | "divIc", some [x, y] => if y = 0 then "bad-op" else s!"ok {Go.divIc x y}"
  | "remIc", some [x, y] => if y = 0 then "bad-op" else s!"ok {Go.remIc x y}"
  | "shlI", some [x, k] => s!"ok {Go.shlI x k}"
  | "shlU", some [x, k] => s!"ok {Go.shlU x k}"
  | "toUint", some [x] => s!"ok {Go.toUint x}"
  | "toInt", some [x] => s!"ok {Go.toInt x}"
  | "bigAnd", some [x, y] => s!"ok {Go.bigAnd x y}"
  | "bigAdd", some [x, y] => s!"ok {Go.bigAdd x y}"
  | "bigLsh", some [x, k] => s!"ok {Go.bigLsh x k}"
  | "bigCmp", some [x, y] => s!"ok {Go.bigCmp x y}"
  | "bigQuo", some [x, y] => showInt (Go.bigQuo x y st0).1
  | "bigInt64", some [x] => s!"ok {Go.bigInt64 x}"
  | "bigFillBytes", some [x, n] => showRes hexOf (Go.bigFillBytes x (List.replicate n.toNat 0) st0).1
  | "makeBytes", some [n] => showRes (fun (b : Bytes) => toString b.length) (Go.makeBytes n st0).1
  | "forDown", some [hi, lo] =>
    showRes (fun (l : List Int) => " ".intercalate (l.reverse.map toString)) (Go.forDown hi lo ([] : List Int) (fun i acc => Go.pure (i :: acc)) st0).1
  | _, _ =>
    match op, a with
    | "bigSetBytes", [h] => match unhex h with | some b => s!"ok {Go.bigSetBytes b}" | none => "bad-op"
    | "lenStr", [h] => match strOfHex h with | some t => s!"ok {Go.lenStr t}" | none => "bad-op"
    | "sliceStr", [h, lo, hi] =>
      match strOfHex h, lo.toInt?, hi.toInt? with
      | some t, some lo, some hi => showRes hexOfStr (Go.sliceStr t lo hi st0).1
      | _, _, _ => "bad-op"
    | "sliceBytes", [h, lo, hi] =>
      match unhex h, lo.toInt?, hi.toInt? with
      | some t, some lo, some hi => showRes hexOf (Go.sliceBytes t lo hi st0).1
      | _, _, _ => "bad-op"
    | _, _ => "bad-op"

/-- the concrete-state vocabulary of the translated `Language.mapping` (`Model/GoMap.lean`) on a
script of operations, so that the harness can compare it with real Go maps and `sync.Once`:
`M<v>` (v = make), `A<v>:<hexkey>:<int>` (v[k] = x), `G<v>:<hexkey>` (print v[k]), `N<v>` (print
whether v is nil), `O<c>(op;op;…)` (cell c .Do(func(){…}) with M/A ops inside). -/
def mapOp1 (tok : String) : Option (Go.MC (Option String)) :=
  match tok.toList with
  | 'M' :: v => (String.ofList v).toNat?.map fun v => Go.bindC (Go.setMapVar v Go.makeMap) fun _ => Go.pureC none
  | 'N' :: v => (String.ofList v).toNat?.map fun v => Go.bindC (Go.getMapVar v) fun m => Go.pureC (some (if m.isNone then "nil" else "nonnil"))
  | 'A' :: rest =>
    match (String.ofList rest).splitOn ":" with
    | [v, k, x] => do
      let v ← v.toNat?; let k ← strOfHex k; let x ← x.toInt?
      pure (Go.bindC (Go.mapAssign v k x) fun _ => Go.pureC none)
    | _ => none
  | 'G' :: rest =>
    match (String.ofList rest).splitOn ":" with
    | [v, k] => do
      let v ← v.toNat?; let k ← strOfHex k
      pure (Go.bindC (Go.getMapVar v) fun m => Go.pureC (some (match Go.mapGet m k with | some x => toString x | none => "none")))
    | _ => none
  | _ => none
def mapSeq (ops : List (Go.MC (Option String))) : Go.MC (List String) :=
  match ops with
  | [] => Go.pureC []
  | o :: r => Go.bindC o fun out => Go.bindC (mapSeq r) fun outs => Go.pureC (match out with | some s => s :: outs | none => outs)
def mapOp (tok : String) : Option (Go.MC (Option String)) :=
  match tok.toList with
  | 'O' :: rest =>
    let str := String.ofList rest
    match str.splitOn "(" with
    | [c, body] => do
      let c ← c.toNat?
      let inner ← ((body.dropEnd 1).toString.splitOn ";").filter (· ≠ "") |>.mapM mapOp1
      pure (Go.bindC (Go.onceDo c (Go.bindC (mapSeq inner) fun _ => Go.pureC ())) fun _ => Go.pureC none)
    | _ => none
  | _ => mapOp1 tok
def primMap (toks : List String) : String :=
  match toks.mapM mapOp with
  | none => "bad-op"
  | some ops =>
    let s0 : Go.CPkg := { once := fun _ => false, maps := fun _ => none }
    match (mapSeq ops s0).1 with
    | .ok outs => if outs.isEmpty then "ok" else "ok " ++ " ".intercalate outs
    | .err e => "err " ++ errName e
    | .panic p => "panic " ++ panicName p

def answer (line : String) : String :=
  match (line.trimAscii.toString.splitOn " ").filter (· ≠ "") with
  | ["enc", l, h] =>
    match l.toInt?, unhex h with
    | some ℓ, some e =>
      let m := showRes hexOfStr (Model.newMnemonicByEntropy D e ℓ)
      let s := match Spec.Lang.ofValue ℓ with
        | none => if Spec.ValidEntLen e.length then "-" else "err entropyLen"
        | some L => if Spec.ValidEntLen e.length then "ok " ++ hexOfStr (Spec.sentence D L e) else "err entropyLen"
      s!"M {m}\tS {s}"
    | _, _ => "bad-op"
  | ["chk", l, h] =>
    match l.toInt?, strOfHex h with
    | some ℓ, some str =>
      -- each normal form is computed once (the model applies its normaliser to `str` only)
      let n := Unicode.nfkd str
      let xn := X str
      let m := showRes (fun _ => "") (Model.checkMnemonic (fun _ => xn) D str ℓ)
      let ss := decide (Unicode.maxKRun n ≤ 30)
      let s := match Spec.Lang.ofValue ℓ with
        | none => "reject ws=0"
        | some L => showRes (fun _ => "") (Spec.classify D L (splitOn 0x20 n)) ++ " ws=" ++ b01 (Spec.checksumOK D L (Spec.fields n))
      s!"M {m}\tS {s} ss={b01 ss}"
    | _, _ => "bad-op"
  | ["newm", n, l, sc] =>
    match n.toInt?, l.toInt?, parseScript sc with
    | some n, some ℓ, some script =>
      let (r, reads) := Model.newMnemonic D n ℓ script
      let m := showRes hexOfStr r ++ s!" reads={reads}"
      let s :=
        if ¬ (0 ≤ n ∧ Spec.ValidWordCount n.toNat) then "err wordLen reads=0"
        else match Spec.Lang.ofValue ℓ with
          | none => "-"
          | some L =>
            let need := 4 * n.toNat / 3
            let d := delivered script
            if need ≤ d.length then "ok " ++ hexOfStr (Spec.sentence D L (d.take need)) else "err io"
      s!"M {m}\tS {s}"
    | _, _, _ => "bad-op"
  | ["seed", hm, hp] =>
    match strOfHex hm, strOfHex hp with
    | some m, some p =>
      let ss := Unicode.streamSafe m && Unicode.streamSafe p
      s!"M ok {hexOf (Model.mnemonicToSeed X PB m p)}\tS ok {hexOf (Spec.seed PB m p)} ss={b01 ss}"
    | _, _ => "bad-op"
  | ["lstr", i] =>
    match i.toInt? with
    | some i => s!"M {showRes hexOfStr (Model.langString i)}\tS ok {hexOfStr (Spec.langString i)}"
    | none => "bad-op"
  | ["dec", l, h] =>
    match l.toInt?, strOfHex h with
    | some ℓ, some str =>
      match Spec.Lang.ofValue ℓ with
      | none => "M -\tS -"
      | some L => match Spec.decode L str with
        | none => "M -\tS none"
        | some e => s!"M -\tS ok {hexOf e}"
    | _, _ => "bad-op"
  | ["render", hs, hv] =>     -- the generator: file rendered for fetched text `hs` and variable `hv`; expected list
    match strOfHex hs, strOfHex hv with
    | some src, some var =>
      let want := (splitOn 10 src).filter (· ≠ [])
      let wantS := if want.isEmpty then "." else String.intercalate "," (want.map hexOfStr)
      match Model.Tool.render src var with
      | none => s!"M none\tS ok {hexOfStr var} {wantS}"
      | some f =>
        let back := match Model.Tool.parseFile f with
          | none => "unparsed"
          | some (v, ws) => hexOfStr v ++ " " ++ (if ws.isEmpty then "." else String.intercalate "," (ws.map hexOfStr))
        s!"M ok {hexOfStr f} back={back}\tS ok {hexOfStr var} {wantS}"
    | _, _ => "bad-op"
  | ["toolvar", hp] =>        -- file name → exported variable, from the regenerated `langs` table
    match strOfHex hp with
    | some path =>
      match Gen.Tool_langs.langs.find? (fun kv => kv.1 == path) with
      | some kv => s!"M ok {hexOfStr kv.2}\tS -"
      | none => "M none\tS -"
    | none => "bad-op"
  | ["nfkd", h] =>
    match strOfHex h with
    | some s => s!"M ok {hexOfStr (Unicode.nfkd s)}\tS - ss={b01 (Unicode.streamSafe s)}"
    | none => "bad-op"
  | ["xnfkd", h] =>        -- the model of x/text's norm.NFKD.String (M) and UAX #15 NFKD (S)
    match strOfHex h with
    | some s => s!"M ok {hexOfStr (Unicode.xnfkd s)}\tS ok {hexOfStr (Unicode.nfkd s)} ss={b01 (Unicode.streamSafe s)}"
    | none => "bad-op"
  | ["sha256", h] =>
    match unhex h with
    | some b => s!"M ok {hexOf (D b)}\tS ok {hexOf (Crypto.sha256L b)}"
    | none => "bad-op"
  | ["pbkdf2", hp, hs, it, n] =>
    match unhex hp, unhex hs, it.toNat?, n.toNat? with
    | some p, some s, some it, some n => s!"M ok {hexOf (PB p s it n)}\tS -"
    | _, _, _, _ => "bad-op"
  | ["pbkdf2spec", hp, hs, it, n] =>   -- the pure functional PBKDF2 of the theorems (M) and the fast one (S)
    match unhex hp, unhex hs, it.toNat?, n.toNat? with
    | some p, some s, some it, some n => s!"M ok {hexOf (Crypto.S512.pbkdf2 p s it n)}\tS ok {hexOf (PB p s it n)}"
    | _, _, _, _ => "bad-op"
  | "primmap" :: toks => s!"M {primMap toks}\tS -"
  | "prim" :: op :: args => s!"M {prim op args}\tS -"
  | ["word", l, i] =>     -- the i-th word of the model's list() and of the canonical list
    match l.toInt?, i.toNat? with
    | some ℓ, some i =>
      let m := match (Model.list ℓ)[i]? with | some w => "ok " ++ hexOfStr w | none => "none"
      let s := match Spec.Lang.ofValue ℓ with | some L => "ok " ++ hexOfStr (L.word i) | none => "-"
      s!"M {m}\tS {s}"
    | _, _ => "bad-op"
  | _ => "bad-op"

partial def loop (hin hout : IO.FS.Stream) : IO Unit := do
  let line ← hin.getLine
  if line.isEmpty then return ()
  hout.putStrLn (answer line)
  hout.flush
  loop hin hout

def main : IO Unit := do loop (← IO.getStdin) (← IO.getStdout)
