#!/bin/bash
# Build the whole framework from files on disk (offline).
set -e
cd "$(dirname "$0")"
exec ./check --setup
