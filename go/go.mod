module verifharness

go 1.21

require (
	github.com/islishude/bip39 v0.0.0
	golang.org/x/text v0.14.0
)

require golang.org/x/crypto v0.17.0

replace github.com/islishude/bip39 => /repo
