package main

import (
	"fmt"
	"os"
	"strings"
)

// When a regenerated word table differs from the canonical one, the check passes the differing
// (language, index) pairs in VERIF_FOCUS ("English:17,Korean:1001,…"); every word-sensitive
// property then runs its basic operation first on entropies that put those indices into the sentence.
type focusItem struct {
	li  int
	idx int
}

func focusItems() []focusItem {
	var out []focusItem
	for _, part := range strings.Split(os.Getenv("VERIF_FOCUS"), ",") {
		f := strings.Split(part, ":")
		if len(f) != 2 {
			continue
		}
		var idx int
		if _, err := fmt.Sscan(f[1], &idx); err != nil || idx < 0 || idx > 2047 {
			continue
		}
		for li, n := range langNames {
			if n == f[0] {
				out = append(out, focusItem{li, idx})
			}
		}
	}
	if len(out) > 64 {
		out = out[:64]
	}
	return out
}

// focusEntropies: for each focus item an entropy of each size whose first group is the index, and
// one whose second group is.
func (c *Ctx) focusEntropies(each func(li int, e []byte)) {
	for _, f := range focusItems() {
		for _, n := range entSizes {
			e := c.randBytes(n)
			setGroup(e, 0, f.idx)
			each(f.li, e)
			e2 := c.randBytes(n)
			setGroup(e2, 1, f.idx)
			each(f.li, e2)
		}
	}
}
