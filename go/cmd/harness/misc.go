package main

import (
	"fmt"
	"math"
	"strings"
)

// doReplay re-executes one recorded op on the implementation and on the model/spec.
func doReplay(drv *Driver, op string) {
	f := strings.Fields(op)
	impl := "(no in-process replay for this op kind; see the replay file)"
	if len(f) >= 1 {
		switch f[0] {
		case "enc":
			var l int64
			fmt.Sscan(f[1], &l)
			impl = implEnc(l, unhx(f[2]))
		case "chk":
			var l int64
			fmt.Sscan(f[1], &l)
			impl = implChk(l, string(unhx(f[2])))
		case "seed":
			impl = implSeed(string(unhx(f[1])), string(unhx(f[2])))
		case "lstr":
			var l int64
			fmt.Sscan(f[1], &l)
			impl = implStr(l)
		case "newm":
			var n, l int64
			fmt.Sscan(f[1], &n)
			fmt.Sscan(f[2], &l)
			impl = implNewm(n, l, f[3])
		}
	}
	m, s := drv.Ask(op)
	fmt.Printf("op:    %s\nimpl:  %s\nmodel: %s\nspec:  %s\n", op, impl, m, s)
}

// ---- C16 -----------------------------------------------------------------------------------

func init() { props["C16"] = propC16; props["C14"] = propC14; props["C09"] = propC09 }

func (c *Ctx) lstr(class string, i int64) string {
	if len(c.askedLstr) < 4000 {
		c.askedLstr = append(c.askedLstr, i)
	}
	return c.lstrNoRecord(class, i)
}

func (c *Ctx) lstrNoRecord(class string, i int64) string {
	op := fmt.Sprintf("lstr %d", i)
	m, s := c.drv.Ask(op)
	impl := implStr(i)
	c.rep.count(class)
	c.rep.outcome(outcomeKey(impl))
	c.rep.nontrivial(op)
	if impl != s {
		c.rep.violate(Violation{Kind: "impl≠spec", Class: class, Op: op, Impl: impl, Model: m, Spec: s})
	} else if !sameAns(impl, m) {
		c.rep.stale(Violation{Kind: "impl≠model", Class: class, Op: op, Impl: impl, Model: m, Spec: s})
	}
	return impl
}

var extremeInts = []int64{math.MinInt64, math.MinInt64 + 1, math.MinInt64 + 2, math.MinInt32 - 1, math.MinInt32, math.MinInt32 + 1, -65537, -65536, -257, -256, -255, -129, -128, -127,
	127, 128, 255, 256, 257, 65535, 65536, math.MaxInt32 - 1, math.MaxInt32, math.MaxInt32 + 1, math.MaxUint32, math.MaxUint32 + 1, math.MaxInt64 - 2, math.MaxInt64 - 1, math.MaxInt64}

func propC16(c *Ctx) {
	r := c.rep
	r.Rule = "Language(i).String() for every i in a window around 0 (quick: -3000..3000, thorough: -70000..70000), the ten declared constants by name, and the int extremes; compared with the specification (declared identifier for the ten supported languages, \"Language(N)\" otherwise) and with the model of the generated code. Non-trivial = distinct values."
	c.newAPIProbes() // String() after a call of each NEW exported function (none on the unchanged tree)
	w := int64(3000)
	if !c.quick {
		w = 70000
	}
	for i := -w; i <= w; i++ {
		c.lstr("window", i)
	}
	for _, i := range extremeInts {
		c.lstr("extreme", i)
	}
	// decimal-rendering boundaries: powers of ten ±1, a·10^k, values with all-zero digit groups, and
	// random 64-bit values of every magnitude
	p10 := int64(1)
	for k := 1; k <= 18; k++ {
		p10 *= 10
		for _, v := range []int64{p10 - 1, p10, p10 + 1, p10 - 2, p10 + 9} {
			c.lstr("power-of-ten", v)
			c.lstr("power-of-ten", -v)
		}
		for a := int64(2); a <= 9; a++ {
			if k < 18 || a <= 9 && a*p10/p10 == a && a*p10 > 0 {
				c.lstr("digit-times-power-of-ten", a*p10)
				c.lstr("digit-times-power-of-ten", -(a*p10 + 123))
			}
		}
	}
	for a := int64(1); a <= 9; a++ {
		for _, low := range []int64{0, 1, 123, 999999999, 1000000000, 1000000123} {
			c.lstr("zero-digit-groups", a*1000000000000000000+low)
			c.lstr("zero-digit-groups", -(a*1000000000000000000 + low))
			c.lstr("zero-digit-groups", a*1000000000+low%1000000000)
		}
	}
	nr := 3000
	if !c.quick {
		nr = 200000
	}
	for k := 0; k < nr; k++ {
		v := int64(c.rng.Uint64()) >> uint(c.rng.Intn(64))
		if c.rng.Intn(2) == 0 {
			v = -v
		}
		c.lstr("random-int64", v)
	}
	// every value asked so far, asked AGAIN at the end, in the original order and reversed: String() must not
	// remember (a memo of formatted values with a faulty eviction answers an early value with a later one's text)
	for pass := 0; pass < 2; pass++ {
		for i := range c.askedLstr {
			v := c.askedLstr[i]
			if pass == 1 {
				v = c.askedLstr[len(c.askedLstr)-1-i]
			}
			if i > 400 && i%9 != 0 {
				continue
			}
			c.lstrNoRecord("asked-again", v)
		}
	}
	names := map[string]bool{}
	for li, v := range langVals {
		impl := c.lstr("declared-constant", int64(v))
		want := "ok " + hx([]byte(langNames[li]))
		if impl != want {
			r.violate(Violation{Kind: "property", Class: "declared-constant", Op: fmt.Sprintf("lstr %d (%s)", v, langNames[li]), Impl: impl, Spec: want})
		}
		names[impl] = true
		r.sample(fmt.Sprintf("%s.String() = %s", langNames[li], impl))
	}
	if len(names) != 10 {
		r.violate(Violation{Kind: "property", Class: "declared-constant", Op: "ten names", Impl: fmt.Sprintf("%d distinct names", len(names)), Detail: "the ten supported languages must have ten distinct names"})
	}
}

// ---- C14 -----------------------------------------------------------------------------------

func propC14(c *Ctx) {
	r := c.rep
	r.Rule = "every exported function/method under recover and a 20 s watchdog on hostile arguments: Language values in a window around 0 and the int extremes for every function, nil/short/huge entropy, every word count class, empty/huge/invalid-UTF-8/separator-only strings; expected: returns normally (and equals the panic-aware model). Non-trivial = distinct ops."
	bad := func(class, op, impl string) {
		if strings.HasPrefix(impl, "panic") || impl == "hang" {
			r.violate(Violation{Kind: "property", Class: class, Op: op, Impl: impl, Detail: "exported function must return normally"})
		}
	}
	c.goPrimitives()
	c.goMapPrimitives()
	w := int64(300)
	if !c.quick {
		w = 70000
	}
	valid := c.specSentence(int64(langVals[2]), make([]byte, 16))
	langs := []int64{}
	for i := -w; i <= w; i++ {
		langs = append(langs, i)
	}
	langs = append(langs, extremeInts...)
	for k, l := range langs {
		bad("language-sweep", fmt.Sprintf("lstr %d", l), c.lstr("language-sweep:String", l))
		if c.quick || k%16 == 0 || l > -20 && l < 20 {
			impl, _ := c.enc("language-sweep:NewMnemonicByEntropy", l, c.randBytes(entSizes[c.rng.Intn(5)]))
			bad("language-sweep", fmt.Sprintf("enc %d", l), impl)
			impl, _ = c.chk("language-sweep:CheckMnemonic", l, valid)
			bad("language-sweep", fmt.Sprintf("chk %d", l), impl)
			impl = c.newm("language-sweep:NewMnemonic", int64(12+3*c.rng.Intn(5)), l, "")
			bad("language-sweep", fmt.Sprintf("newm %d", l), impl)
		}
	}
	// entropy sizes incl. nil and huge
	for _, n := range []int{0, 1, 3, 4, 15, 17, 31, 33, 36, 40, 64, 128, 255, 256, 1040, 1044, 1056, 2064, 4096, 65552, 1 << 20} {
		for _, l := range []int64{2, 5, -1, 10} {
			impl, _ := c.enc("entropy-size", l, make([]byte, n))
			bad("entropy-size", fmt.Sprintf("enc %d <%d bytes>", l, n), impl)
		}
	}
	bad("entropy-size", "enc 2 nil", implEnc(2, nil))
	// word counts
	for _, n := range append(append([]int64{-96, -24, -12, -3, -1, 0, 1, 2, 3, 6, 9, 11, 12, 13, 14, 15, 18, 21, 24, 25, 27, 30, 33, 36, 48, 96, 3000000}, extremeInts...), aliasCounts()...) {
		for _, l := range []int64{2, 5, -1, 10} {
			if (n > 1000 || n < -1000) && l != 2 {
				continue
			}
			bad("word-count", fmt.Sprintf("newm %d %d", n, l), c.newm("word-count", n, l, ""))
		}
	}
	// strings
	strs := []string{"", " ", "   ", "　", " ", "\t", "\n", strings.Repeat(" ", 11), strings.Repeat(" ", 23), strings.Repeat("　", 14), "\xff", "\xff\xfe\xfd", "a\xc0\x80b",
		strings.Repeat("abandon ", 11) + "\xffabout", strings.Repeat("\xe3\x81", 40), strings.Repeat("a ", 24), strings.Repeat("é", 100), string([]byte{0xed, 0xa0, 0x80}), "\x00", strings.Repeat("\x00 ", 12)}
	for k := 0; k < 20; k++ {
		strs = append(strs, string(c.randBytes(c.rng.Intn(400))))
	}
	// long tokens made of one kind of invalid / unusual byte, inside sentences of every acceptable count
	for _, b := range []string{"\x80", "\xbf", "\xc0", "\xe0", "\xf8", "\xff", "\u0301", "\u3099", "\U0001F600"} {
		for _, ln := range []int{1, 31, 63, 64, 65, 66, 129, 300} {
			for _, wc := range []int{12, 15, 24} {
				tok := strings.Repeat(b, ln)
				strs = append(strs, tok+strings.Repeat(" abandon", wc-1), strings.Repeat("abandon ", wc-1)+tok)
			}
		}
	}
	big := 1 << 20
	if !c.quick {
		big = 8 << 20
	}
	strs = append(strs, strings.Repeat("abandon ", big/8), strings.Repeat("́", 5000), strings.Repeat("가", 20000))
	for _, s := range strs {
		for _, l := range []int64{2, 5, 6, -1, 10} {
			var impl string
			if len(s) > 4096 {
				impl = implChk(l, s) // too large for the line protocol; no model comparison
				r.count("huge-string")
			} else {
				impl, _ = c.chk("hostile-string", l, s)
			}
			bad("hostile-string", fmt.Sprintf("chk %d <%d bytes %.40q>", l, len(s), s), impl)
		}
		// MnemonicToSeed: only "returns normally" matters here (its value is C04's business)
		r.count("hostile-string:seed")
		bad("hostile-string", fmt.Sprintf("seed <%d bytes %.40q>", len(s), s), implSeed(s, s[:min(len(s), 100)]))
	}
	// well-formed sentences whose token count depends on WHEN the string is normalised (compatibility spaces as
	// separators, surplus words attached by one): a count taken before NFKD and used after it indexes or
	// shifts out of range
	for li := range langVals {
		if c.quick && li%3 != int(r.Seed%3) {
			continue
		}
		l := int64(langVals[li])
		words := c.canonWords(l)
		for _, n := range entSizes {
			toks := strings.Split(c.specSentence(l, c.randBytes(n)), sepOf(li))
			before := len(r.Violations)
			c.separatorVariantDefects(li, n, toks, words)
			_ = before
		}
	}
	r.sample("chk -1 'abandon ... about' -> err other (word not found); lstr -9223372036854775808 -> Language(-9223372036854775808)")
}

// ---- C09 -----------------------------------------------------------------------------------

func propC09(c *Ctx) {
	r := c.rep
	r.Rule = "NewMnemonicByEntropy on every slice length 0..N (quick 300, thorough 4200), nil and lengths that wrap small integer types; NewMnemonic on every word count in a window, multiples of 3 far outside 12..24 and the int extremes, behind a counting reader; expected: success exactly on 16/20/24/28/32 bytes and 12/15/18/21/24 words, otherwise (\"\", sentinel) with zero reads. Non-trivial = distinct ops."
	c.c09Entropy()
	c.c09Words()
	r.sample("enc English <36 bytes> -> err entropyLen; newm 27 English -> err wordLen reads=0")
}
