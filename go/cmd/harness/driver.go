package main

import (
	"bufio"
	"fmt"
	"io"
	"os"
	"os/exec"
	"strings"
)

var traceFile *os.File

func init() {
	if p := os.Getenv("HARNESS_TRACE"); p != "" {
		traceFile, _ = os.Create(p)
	}
}

type Driver struct {
	cmd *exec.Cmd
	in  io.WriteCloser
	out *bufio.Reader
}

func startDriver(path string) (*Driver, error) {
	cmd := exec.Command(path)
	in, err := cmd.StdinPipe()
	if err != nil {
		return nil, err
	}
	out, err := cmd.StdoutPipe()
	if err != nil {
		return nil, err
	}
	if err := cmd.Start(); err != nil {
		return nil, err
	}
	return &Driver{cmd: cmd, in: in, out: bufio.NewReaderSize(out, 1<<20)}, nil
}

func (d *Driver) Close() { d.in.Close(); d.cmd.Wait() }

// Ask sends one op and returns the model and the spec answer.
func (d *Driver) Ask(op string) (m, s string) {
	if traceFile != nil {
		fmt.Fprintln(traceFile, op)
	}
	if _, err := io.WriteString(d.in, op+"\n"); err != nil {
		panic(fmt.Sprintf("driver write: %v", err))
	}
	line, err := d.out.ReadString('\n')
	if err != nil {
		panic(fmt.Sprintf("driver died on op %.200q: %v", op, err))
	}
	line = strings.TrimRight(line, "\n")
	if !strings.HasPrefix(line, "M ") {
		return "driver:" + line, "driver:" + line
	}
	parts := strings.SplitN(line[2:], "\tS ", 2)
	if len(parts) != 2 {
		return "driver:" + line, "driver:" + line
	}
	return parts[0], parts[1]
}

// AskMany pipelines a batch of ops (the driver answers in order).
func (d *Driver) AskMany(ops []string) (ms, ss []string) {
	done := make(chan struct{})
	go func() {
		w := bufio.NewWriterSize(d.in, 1<<20)
		for _, op := range ops {
			w.WriteString(op)
			w.WriteByte('\n')
		}
		w.Flush()
		close(done)
	}()
	for range ops {
		line, err := d.out.ReadString('\n')
		if err != nil {
			panic(fmt.Sprintf("driver died: %v", err))
		}
		line = strings.TrimRight(line, "\n")
		m, s := "driver:"+line, "driver:"+line
		if strings.HasPrefix(line, "M ") {
			parts := strings.SplitN(line[2:], "\tS ", 2)
			if len(parts) == 2 {
				m, s = parts[0], parts[1]
			}
		}
		ms = append(ms, m)
		ss = append(ss, s)
	}
	<-done
	return
}

// field extracts " key=value" from a spec answer and returns the answer without it.
func field(s, key string) (string, string) {
	i := strings.Index(s, " "+key+"=")
	if i < 0 {
		return "", s
	}
	rest := s[i+len(key)+2:]
	j := strings.IndexByte(rest, ' ')
	if j < 0 {
		return rest, s[:i]
	}
	return rest[:j], s[:i] + rest[j:]
}
