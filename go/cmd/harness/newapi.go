package main

import (
	"fmt"
	"strings"
)

// New entry points.  A change may add an exported function that shares state with the old ones (a name
// table it sorts in place, a cache it primes).  No input class can reach it, because the harness only
// knows the six functions of the pinned API.  ./check therefore generates, for every exported function
// or method that is not in the pinned declaration list and whose parameters it can synthesise, a few
// calls (a generated file zz_newapi_<hash>.go that exists only during the build); here each of them is run at the start of a fresh process,
// followed by a fixed history over the old API that is compared with the specification as usual.
type namedCall struct {
	name string
	f    func()
}

var newAPICalls []namedCall

func execNewAPI(k int) string {
	if k < 0 || k >= len(newAPICalls) {
		return fmt.Sprintf("bad-op (%d new entry points in this build)", len(newAPICalls))
	}
	return guarded(func() string { newAPICalls[k].f(); return "called" })
}

func (c *Ctx) newAPIProbes() {
	if len(newAPICalls) == 0 {
		return
	}
	ops := []string{}
	for i := 0; i < 5; i++ {
		l := int64(langVals[(3*i+2)%10])
		e := c.randBytes(entSizes[i])
		sent := strings.ReplaceAll(c.specSentence(l, e), "　", " ")
		ops = append(ops, fmt.Sprintf("enc %d %s", l, hx(e)), fmt.Sprintf("chk %d %s", l, hx([]byte(sent))),
			fmt.Sprintf("seed %s %s", hx([]byte(sent)), hx([]byte("pw"))), fmt.Sprintf("newm %d %d %s:-", 12+3*i, l, hx(c.randBytes(16+4*i))))
	}
	for i := -1; i <= 10; i++ {
		ops = append(ops, fmt.Sprintf("lstr %d", i))
	}
	for li := range langVals {
		ops = append(ops, fmt.Sprintf("enc %d %s", langVals[li], hx(make([]byte, 16))))
	}
	for k, nc := range newAPICalls {
		c.runHistory("new-api:"+nc.name, append([]string{fmt.Sprintf("newapi %d %s", k, strings.ReplaceAll(nc.name, " ", "·"))}, ops...))
	}
}
