package main

import (
	"bufio"
	"bytes"
	crand "crypto/rand"
	"fmt"
	"io"
	"math"
	"strings"

	"github.com/islishude/bip39"
)

type scriptErr struct{ code int }

func (e *scriptErr) Error() string { return fmt.Sprintf("scripted error %d", e.code) }

// tempErr is an error that reports itself as temporary (like syscall.EAGAIN / EINTR)
type tempErr struct{ code int }

func (e *tempErr) Error() string   { return fmt.Sprintf("temporary scripted error %d", e.code) }
func (e *tempErr) Temporary() bool { return true }
func (e *tempErr) Timeout() bool   { return false }

type step struct {
	data []byte
	err  error
}

// scriptReader plays a script: one element per Read call; after the script, (0, EOF) forever.
type scriptReader struct {
	steps []step
	reads int
	bytes int
}

func (r *scriptReader) Read(p []byte) (int, error) {
	r.reads++
	if len(r.steps) == 0 {
		return 0, io.EOF
	}
	s := r.steps[0]
	if len(s.data) > len(p) {
		n := copy(p, s.data)
		r.steps[0].data = s.data[n:]
		r.bytes += n
		return n, nil
	}
	n := copy(p, s.data)
	r.steps = r.steps[1:]
	r.bytes += n
	return n, s.err
}

func parseScript(sc string) []step {
	if sc == "." {
		return nil
	}
	var out []step
	for _, part := range strings.Split(sc, ",") {
		f := strings.SplitN(part, ":", 2)
		st := step{data: unhx(f[0])}
		switch {
		case f[1] == "-":
		case f[1] == "eof":
			st.err = io.EOF
		case f[1] == "ueof":
			st.err = io.ErrUnexpectedEOF
		case strings.HasPrefix(f[1], "o"):
			var c int
			fmt.Sscan(f[1][1:], &c)
			if c >= 1000 {
				st.err = &tempErr{c} // codes >= 1000: same model-side error, but Temporary() on the Go side
			} else {
				st.err = &scriptErr{c}
			}
		}
		out = append(out, st)
	}
	return out
}

// defaultSource is what the package consulted before this process swapped anything.
var defaultSource io.Reader
var defaultSourceSeen bool

func init() {
	probe := &scriptReader{}
	defaultSource = bip39.VerifSwapRandSource(probe)
	back := bip39.VerifSwapRandSource(defaultSource)
	defaultSourceSeen = back == io.Reader(probe)
}

func implNewm(n, l int64, sc string) string {
	return guarded(func() string {
		rd := &scriptReader{steps: parseScript(sc)}
		prev := bip39.VerifSwapRandSource(rd)
		defer bip39.VerifSwapRandSource(prev)
		s, err := bip39.NewMnemonic(int(n), bip39.Language(l))
		var res string
		switch e := err.(type) {
		case nil:
			res = "ok " + hx([]byte(s))
		case *scriptErr:
			res = fmt.Sprintf("err io:o%d", e.code)
		case *tempErr:
			res = fmt.Sprintf("err io:o%d", e.code)
		default:
			switch {
			case err == io.EOF:
				res = "err io:eof"
			case err == io.ErrUnexpectedEOF:
				res = "err io:ueof"
			default:
				res = errKind(err)
			}
		}
		if err != nil && s != "" {
			res += " nonempty " + hx([]byte(s))
		}
		return fmt.Sprintf("%s reads=%d", res, rd.reads)
	})
}

func (c *Ctx) newm(class string, n, l int64, sc string) string {
	if sc == "" {
		sc = hx(c.randBytes(64)) + ":-"
	}
	op := fmt.Sprintf("newm %d %d %s", n, l, sc)
	m, s := c.drv.Ask(op)
	impl := implNewm(n, l, sc)
	c.rep.count(class)
	c.rep.outcome(outcomeKey(impl))
	c.rep.nontrivial(op)
	okSpec := true
	switch {
	case s == "-":
	case s == "err io":
		okSpec = strings.HasPrefix(impl, "err io:") && !strings.Contains(impl, "nonempty")
	case strings.HasPrefix(s, "ok "):
		okSpec = strings.HasPrefix(impl, s+" reads=")
	default:
		okSpec = impl == s
	}
	if !okSpec {
		c.rep.violate(Violation{Kind: "impl≠spec", Class: class, Op: op, Impl: impl, Model: m, Spec: s})
	} else if !sameAns(impl, m) {
		c.rep.stale(Violation{Kind: "impl≠model", Class: class, Op: op, Impl: impl, Model: m, Spec: s})
	}
	return impl
}

func (c *Ctx) c09Words() {
	w := int64(120)
	if !c.quick {
		w = 5000
	}
	counts := []int64{}
	for n := -w; n <= w; n++ {
		counts = append(counts, n)
	}
	for n := int64(3); n <= 3000000; n *= 3 {
		counts = append(counts, n, -n, n*4, n+1)
	}
	counts = append(counts, extremeInts...)
	counts = append(counts, aliasCounts()...)
	for _, n := range counts {
		for _, li := range []int{2, 5} {
			impl := c.newm("word-count-sweep", n, int64(langVals[li]), "")
			ok := n == 12 || n == 15 || n == 18 || n == 21 || n == 24
			if ok != strings.HasPrefix(impl, "ok ") || (!ok && impl != "err wordLen reads=0") || strings.HasPrefix(impl, "ok _") {
				c.rep.violate(Violation{Kind: "property", Class: "word-count-sweep", Op: fmt.Sprintf("newm %d %d", n, langVals[li]), Impl: impl,
					Detail: "NewMnemonic must succeed iff the count is 12/15/18/21/24 and otherwise return (\"\", ErrWordLen) without reading"})
			}
		}
	}
}

// ---- C06 -----------------------------------------------------------------------------------

func init() { props["C06"] = propC06; props["C07"] = propC07 }

var wordCounts = []int64{12, 15, 18, 21, 24}

func fragment(c *Ctx, b []byte, zeroReads bool) string {
	parts := []string{}
	for len(b) > 0 {
		k := 1 + c.rng.Intn(len(b))
		if c.rng.Intn(3) == 0 {
			k = 1 + c.rng.Intn(min(len(b), 4))
		}
		if zeroReads && c.rng.Intn(4) == 0 {
			parts = append(parts, "_:-")
		}
		parts = append(parts, hx(b[:k])+":-")
		b = b[k:]
	}
	return strings.Join(parts, ",")
}

func propC06(c *Ctx) {
	r := c.rep
	r.Rule = "NewMnemonic behind the verif-tagged source swap with a scripted reader: EVERY failure point k in 0..4n/3-1 for each n in {12,15,18,21,24} x failure kinds (EOF, ErrUnexpectedEOF, arbitrary error; error on the next call, or returned together with the last bytes; delivered in one piece or fragmented), plus fragmentations of successful deliveries (short reads, zero-length reads, surplus bytes, error alongside the final bytes); expected: the spec sentence of the first 4n/3 delivered bytes with n words, or (\"\", error). Compared with Spec and with the model of io.ReadFull (including the number of Read calls). Non-trivial = distinct ops."
	for wi, n := range wordCounts {
		need := int(n) * 4 / 3
		for k := 0; k < need; k++ {
			l := int64(langVals[(k+wi)%10])
			data := c.randBytes(k)
			kinds := []string{"eof", "ueof", "o7"}
			for _, kind := range kinds {
				// error arrives with the last bytes
				c.newm("fail-at-k:error-with-bytes", n, l, hx(data)+":"+kind)
				// bytes first (one piece), error on the following call
				if k > 0 {
					c.newm("fail-at-k:error-after-bytes", n, l, hx(data)+":-,_:"+kind)
					c.newm("fail-at-k:fragmented", n, l, fragment(c, data, true)+",_:"+kind)
				}
			}
			// script simply ends (implicit EOF)
			if k > 0 {
				c.newm("fail-at-k:source-ends", n, l, hx(data)+":-")
			} else {
				c.newm("fail-at-k:source-ends", n, l, ".")
			}
		}
		// errors that call themselves temporary, once or repeatedly, with nothing delivered in between
		for _, rep := range []int{1, 2, 4, 5, 6, 9} {
			l := int64(langVals[(rep+wi)%10])
			parts := []string{hx(c.randBytes(1+c.rng.Intn(need-1))) + ":-"}
			for i := 0; i < rep; i++ {
				parts = append(parts, "_:o1011")
			}
			parts = append(parts, hx(c.randBytes(need))+":-")
			c.newm("fail:temporary-error-repeated", n, l, strings.Join(parts, ","))
			c.newm("fail:temporary-error-first", n, l, strings.Repeat("_:o1004,", rep)+hx(c.randBytes(need))+":-")
		}
		// successful deliveries
		reps := 12 * c.scale
		if !c.quick {
			reps = 200
		}
		for i := 0; i < reps; i++ {
			l := int64(langVals[c.rng.Intn(10)])
			data := c.randBytes(need)
			impl := c.newm("ok:fragmented", n, l, fragment(c, data, true))
			if strings.HasPrefix(impl, "ok ") {
				words := strings.FieldsFunc(string(unhx(strings.Fields(impl)[1])), func(r rune) bool { return r == ' ' || r == '　' })
				if int64(len(words)) != n {
					r.violate(Violation{Kind: "property", Class: "ok:fragmented", Op: fmt.Sprintf("newm %d %d", n, l), Impl: impl, Detail: "result does not have n words"})
				}
			}
			c.newm("ok:surplus", n, l, hx(append(data, c.randBytes(1+c.rng.Intn(40))...))+":-")
			c.newm("ok:error-with-final-bytes", n, l, fragment(c, data[:need-3], false)+","+hx(data[need-3:])+":o9")
			c.newm("ok:eof-with-final-bytes", n, l, hx(data)+":eof")
			c.newm("ok:byte-at-a-time", n, l, func() string {
				p := []string{}
				for _, b := range data {
					p = append(p, hx([]byte{b})+":-")
				}
				return strings.Join(p, ",")
			}())
		}
	}
	// extreme deliveries: all ones, all zeros, the largest and smallest values next to them, a single bit — each
	// followed by surplus bytes, so that an implementation which silently draws again (rejection sampling
	// with an exclusive bound, a "looks degenerate, retry" test) returns the mnemonic of the wrong bytes
	for _, n := range wordCounts {
		need := int(n) * 4 / 3
		fill := func(b byte) []byte { return bytes.Repeat([]byte{b}, need) }
		pats := [][]byte{fill(0xff), fill(0x00), fill(0x80), fill(0x7f), fill(0x01)}
		for _, edit := range []struct {
			base byte
			pos  int
			val  byte
		}{{0xff, need - 1, 0xfe}, {0xff, 0, 0x7f}, {0xff, 0, 0xfe}, {0x00, need - 1, 0x01}, {0x00, 0, 0x80}, {0x00, 0, 0x01}} {
			p := fill(edit.base)
			p[edit.pos] = edit.val
			pats = append(pats, p)
		}
		for i, p := range pats {
			l := int64(langVals[(i+int(n))%10])
			c.newm("ok:extreme-bytes", n, l, hx(p)+":-")
			c.newm("ok:extreme-bytes:surplus", n, l, hx(append(append([]byte{}, p...), c.randBytes(need+7)...))+":-")
			c.newm("ok:extreme-bytes:fragmented", n, l, fragment(c, p, true)+","+hx(c.randBytes(need))+":-")
		}
	}
	c.sharedReaderCalls()
	r.Exhaustive = true
	r.sample("newm 24 English 20 bytes:-,_:o7 -> err io:o7 reads=2 (no mnemonic from a partially filled buffer)")
	r.sample("newm 15 Japanese <20 bytes in 1..4-byte reads with zero-length reads> -> ok <15 words>")
}

// ---- C07 -----------------------------------------------------------------------------------

func propC07(c *Ctx) {
	r := c.rep
	r.Rule = "identity of the randomness source observed through the swap hook before this process swapped anything (must be crypto/rand.Reader itself), again after default-source NewMnemonic calls in every language and word count (history), NewMnemonic under a scripted source equals the encoding of exactly the delivered bytes (no other data mixed in) for every word count x language, and default output is pairwise distinct with balanced bits (supporting only). Non-trivial = distinct observations."
	r.count("default-source-identity")
	if !defaultSourceSeen {
		r.violate(Violation{Kind: "property", Class: "default-source-identity", Op: "swap hook", Impl: "swap hook did not install the probe", Detail: "hook broken"})
	}
	if defaultSource != io.Reader(crand.Reader) {
		r.violate(Violation{Kind: "property", Class: "default-source-identity", Op: "VerifSwapRandSource at process start",
			Impl: fmt.Sprintf("%T", defaultSource), Spec: "crypto/rand.Reader", Detail: "the default randomness source is not crypto/rand.Reader"})
	}
	r.nontrivial("identity")
	// default calls: every language and count; the source must stay crypto/rand.Reader afterwards
	seen := map[string]bool{}
	windows := map[string]string{}
	ones, total := 0, 0
	reps := 40
	if !c.quick {
		reps = 400
	}
	for rep := 0; rep < reps; rep++ {
		for li := range langVals {
			// the order of the word counts is shuffled and one count is repeated a random number of times,
			// so that the running total of bytes drawn has no period (a read-ahead pool whose size is a
			// multiple of 16+20+24+28+32 would otherwise never be straddled by a request)
			order := append([]int64{}, wordCounts...)
			c.rng.Shuffle(len(order), func(i, j int) { order[i], order[j] = order[j], order[i] })
			for k := c.rng.Intn(3); k > 0; k-- {
				order = append(order, wordCounts[c.rng.Intn(len(wordCounts))])
			}
			for _, n := range order {
				s, err := bip39.NewMnemonic(int(n), langVals[li])
				r.count("default-call")
				if err != nil {
					r.violate(Violation{Kind: "property", Class: "default-call", Op: fmt.Sprintf("NewMnemonic(%d,%s)", n, langNames[li]), Impl: err.Error()})
					continue
				}
				if seen[s] {
					r.violate(Violation{Kind: "property", Class: "default-call", Op: fmt.Sprintf("NewMnemonic(%d,%s)", n, langNames[li]), Impl: s, Detail: "repeated mnemonic from the default source"})
				}
				seen[s] = true
				r.nontrivial(s)
				// decode with the spec and count bits
				_, d := c.drv.Ask(fmt.Sprintf("dec %d %s", langVals[li], hx([]byte(s))))
				if strings.HasPrefix(d, "ok ") {
					e := unhx(d[3:])
					for _, b := range e {
						for k := 0; k < 8; k++ {
							ones += int(b >> k & 1)
						}
					}
					total += 8 * len(e)
					for off := 0; off+8 <= len(e); off++ {
						w := string(e[off : off+8])
						if prevOff, dup := windows[w]; dup {
							r.violate(Violation{Kind: "property", Class: "default-call", Op: fmt.Sprintf("NewMnemonic(%d,%s) #%d", n, langNames[li], len(seen)), Impl: hx(e),
								Detail: fmt.Sprintf("8 entropy bytes at offset %d already appeared in an earlier default mnemonic (%s): entropy is being reused", off, prevOff)})
							windows = map[string]string{} // report once
							break
						}
						windows[w] = fmt.Sprintf("#%d+%d", len(seen), off)
					}
					// no stretch of 8 equal bytes (a buffer only partly filled from the source, or padded with a
					// constant: for CSPRNG output the chance is below 2^-50 per mnemonic)
					run := 1
					for i := 1; i < len(e); i++ {
						if e[i] == e[i-1] {
							run++
						} else {
							run = 1
						}
						if run >= 8 {
							r.violate(Violation{Kind: "property", Class: "default-call", Op: fmt.Sprintf("NewMnemonic(%d,%s)", n, langNames[li]), Impl: hx(e),
								Detail: fmt.Sprintf("entropy bytes %d..%d are all %#02x: not drawn from the source", i-7, i, e[i])})
							break
						}
					}
				} else {
					r.violate(Violation{Kind: "property", Class: "default-call", Op: fmt.Sprintf("NewMnemonic(%d,%s)", n, langNames[li]), Impl: s, Spec: d, Detail: "default output does not decode"})
				}
			}
		}
		cur := bip39.VerifSwapRandSource(defaultSource)
		bip39.VerifSwapRandSource(cur)
		if cur != io.Reader(crand.Reader) {
			r.violate(Violation{Kind: "property", Class: "source-after-use", Op: "VerifSwapRandSource after default NewMnemonic calls",
				Impl: fmt.Sprintf("%T", cur), Spec: "crypto/rand.Reader", Detail: "the source was replaced by using the package"})
			break
		}
	}
	// no two default mnemonics may share an 8-byte stretch of entropy (a prefetch buffer that is
	// re-served, or entropy reused across calls, shows as shared substrings long before whole
	// mnemonics repeat)
	if len(windows) > 0 {
		r.note("default output: %d distinct 8-byte entropy windows, no repeats required", len(windows))
	}
	if total > 0 {
		frac := float64(ones) / float64(total)
		r.note("default output: %d mnemonics pairwise distinct, fraction of one-bits %.4f over %d bits", len(seen), frac, total)
		if frac < 0.47 || frac > 0.53 {
			r.violate(Violation{Kind: "property", Class: "default-call", Op: "bit balance", Impl: fmt.Sprintf("%.4f", frac), Detail: "default output is grossly unbalanced"})
		}
	}
	// the same under every environment variable the source consults (none on the unchanged tree)
	c.envProbesC07()
	// a source that keeps failing with a "temporary" error must produce an error, never a mnemonic of
	// whatever is in the buffer
	for _, n := range wordCounts {
		c.newm("scripted-source:temporary-errors", n, int64(langVals[int(n)%10]), strings.Repeat("_:o1011,", 8)+"_:o1011")
		c.newm("scripted-source:temporary-errors", n, int64(langVals[int(n)%10]), hx(c.randBytes(7))+":-,"+strings.Repeat("_:o1004,", 6)+"_:eof")
	}
	// function of the source's bytes only
	for li := range langVals {
		for _, n := range wordCounts {
			data := c.randBytes(int(n) * 4 / 3)
			sc := hx(data) + ":-"
			a := c.newm("scripted-source", n, int64(langVals[li]), sc)
			bip39.NewMnemonic(12, bip39.English) // unrelated history
			b := c.newm("scripted-source-again", n, int64(langVals[li]), sc)
			if a != b {
				r.violate(Violation{Kind: "property", Class: "scripted-source", Op: fmt.Sprintf("newm %d %d %s", n, langVals[li], sc), Impl: a + " vs " + b,
					Detail: "same source bytes, different result"})
			}
		}
	}
	r.sample(fmt.Sprintf("source before any swap: %T (identical to crypto/rand.Reader: %v)", defaultSource, defaultSource == io.Reader(crand.Reader)))
}

// implNewmDefault: NewMnemonic with whatever source the package currently holds (no hook use).
func implNewmDefault(n, l int64) string {
	return guarded(func() string {
		s, err := bip39.NewMnemonic(int(n), bip39.Language(l))
		if err != nil {
			return errKind(err)
		}
		// the content is random: report only the shape
		return fmt.Sprintf("ok words=%d", len(strings.FieldsFunc(s, func(r rune) bool { return r == ' ' || r == '　' })))
	})
}

// sharedReaderCalls: several NewMnemonic calls on ONE source object (plain, bytes.Reader,
// bufio.Reader): call i must encode the i-th block of 4n/3 bytes, and fail once the stream is short.
func (c *Ctx) sharedReaderCalls() {
	r := c.rep
	for _, n := range wordCounts {
		need := int(n) * 4 / 3
		for kind := 0; kind < 4; kind++ {
			data := c.randBytes(need*3 + c.rng.Intn(need))
			var src io.Reader
			name := ""
			switch kind {
			case 0:
				src, name = bytes.NewReader(data), "bytes.Reader"
			case 1:
				src, name = bufio.NewReader(bytes.NewReader(data)), "bufio.Reader"
			case 2:
				src, name = bufio.NewReaderSize(&scriptReader{steps: parseScript(fragment(c, data, true))}, 4096), "bufio.Reader over fragments"
			case 3:
				src, name = strings.NewReader(string(data)), "strings.Reader"
			}
			li := c.rng.Intn(10)
			l := int64(langVals[li])
			prev := bip39.VerifSwapRandSource(src)
			for call := 0; call < 5; call++ {
				s, err := bip39.NewMnemonic(int(n), langVals[li])
				r.count("shared-source:" + name)
				r.nontrivial(fmt.Sprintf("%s/%d/%d", name, n, call))
				if call < 3 {
					want := c.specSentence(l, data[call*need:(call+1)*need])
					if err != nil || s != want {
						r.violate(Violation{Kind: "impl≠spec", Class: "shared-source:" + name, Op: fmt.Sprintf("call #%d of NewMnemonic(%d,%s) on one %s holding %s", call+1, n, langNames[li], name, hx(data)),
							Impl: fmt.Sprintf("%q %v", s, err), Spec: want, Detail: "each call must encode the next 4n/3 bytes of the source"})
						break
					}
				} else if err == nil || s != "" {
					r.violate(Violation{Kind: "impl≠spec", Class: "shared-source:" + name, Op: fmt.Sprintf("call #%d of NewMnemonic(%d,%s) on one %s holding %d bytes", call+1, n, langNames[li], name, len(data)),
						Impl: fmt.Sprintf("%q %v", s, err), Spec: "error (stream exhausted)", Detail: "a mnemonic was returned although the source has ended"})
					break
				}
			}
			bip39.VerifSwapRandSource(prev)
		}
	}
}

// aliasCounts: values that alias a legal word count after a narrowing conversion or an intermediate
// 64-bit overflow (n*4, n+n/3, n/3*32, n*11 …).
func aliasCounts() []int64 {
	var counts []int64
	// values that alias a legal count after a narrowing conversion or an intermediate overflow
	// (n*4, n+n/3 …): ±2^k + {12,15,18,21,24}, and the same offsets from the int extremes
	for _, k := range []uint{7, 8, 15, 16, 31, 32, 33, 48, 60, 61, 62} {
		for _, d := range []int64{12, 15, 18, 21, 24} {
			counts = append(counts, int64(1)<<k+d, -(int64(1)<<k)+d, int64(1)<<k-d)
		}
	}
	for _, d := range []int64{12, 15, 18, 21, 24} {
		counts = append(counts, math.MinInt64+d, math.MaxInt64-d, math.MaxInt64-d+1)
		// w + j·c·2^k: aliases of w under n/3*32, n*4/3, n*11 … computed in 64 bits
		for _, k := range []uint{55, 56, 57, 58, 59, 60, 61} {
			for _, cc := range []int64{1, 3, 5, 11} {
				for j := int64(-5); j <= 5; j++ {
					if j != 0 {
						counts = append(counts, d+j*cc*(int64(1)<<k))
					}
				}
			}
		}
	}
	return counts
}
