package main

import (
	"strings"
	"sync"
	"unicode"

	"golang.org/x/text/unicode/norm"
)

// Reverse NFKD: for every code point r whose NFKD form differs from r, nfkdPreimages[NFKD(r)]
// lists r.  Substituting a preimage for a substring never changes the NFKD form *of that
// substring*; whether the whole string keeps its NFKD form is re-checked by the caller.
var (
	preOnce       sync.Once
	nfkdPreimages map[string][]string
	nfkdSpaces    []string
	highExpansion []string // code points whose NFKD form is much longer than their UTF-8 encoding
	hanCompat     []string // Han-script code points that do decompose (compatibility ideographs, radicals)
)

func buildPreimages() {
	preOnce.Do(func() {
		nfkdPreimages = map[string][]string{}
		ranges := [][2]rune{{0x80, 0xD7FF}, {0xE000, 0xFFFD}, {0x1D400, 0x1D7FF}, {0x1F100, 0x1F2FF}, {0x2F800, 0x2FA1D}}
		for _, rg := range ranges {
			for r := rg[0]; r <= rg[1]; r++ {
				if r >= 0xAC00 && r <= 0xD7A3 {
					continue // Hangul syllables: covered by the NFC form
				}
				s := string(r)
				d := norm.NFKD.String(s)
				if d == s {
					continue
				}
				nfkdPreimages[d] = append(nfkdPreimages[d], s)
				if d == " " {
					nfkdSpaces = append(nfkdSpaces, s)
				}
				if len(d) > 4*len(s) || len([]rune(d)) >= 5 {
					highExpansion = append(highExpansion, s)
				}
				if unicode.Is(unicode.Han, r) {
					hanCompat = append(hanCompat, s)
				}
			}
		}
	})
}

// respellByPreimages replaces substrings of the NFKD form of s (up to 4 runes long) by random
// preimages; returns "" if nothing could be replaced or the NFKD form changed.
func (c *Ctx) respellByPreimages(s string, prob int) string {
	buildPreimages()
	base := norm.NFKD.String(s)
	rs := []rune(base)
	var sb strings.Builder
	changed := false
	for i := 0; i < len(rs); {
		done := false
		for k := 4; k >= 1 && !done; k-- {
			if i+k > len(rs) {
				continue
			}
			if pre, ok := nfkdPreimages[string(rs[i:i+k])]; ok && rs[i] != ' ' && c.rng.Intn(100) < prob {
				sb.WriteString(pre[c.rng.Intn(len(pre))])
				i += k
				done, changed = true, true
			}
		}
		if !done {
			sb.WriteRune(rs[i])
			i++
		}
	}
	out := sb.String()
	if !changed || norm.NFKD.String(out) != base {
		return ""
	}
	return out
}
