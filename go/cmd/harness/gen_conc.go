package main

import (
	"bytes"
	"fmt"
	"github.com/islishude/bip39"
	"os"
	"os/exec"
	"strings"
	"sync"
)

// runConcChild: a fresh process (built with -race) in which N goroutines, released together, use
// the package from a cold start; afterwards the same ops are run sequentially and compared.
// Scenario on stdin: first line N, then one op per line (goroutine i runs ops i, i+N, ...).
func runConcChild() {
	var n int
	var ops []string
	data, _ := os.ReadFile("/dev/stdin")
	lines := strings.Split(strings.TrimRight(string(data), "\n"), "\n")
	fmt.Sscan(lines[0], &n)
	ops = lines[1:]
	// `sharedbuf <hex>`: one buffer whose disjoint windows the `encw` ops encode concurrently
	if len(ops) > 0 && strings.HasPrefix(ops[0], "sharedbuf ") {
		sharedOrig = unhx(strings.Fields(ops[0])[1])
		sharedBuf = append([]byte(nil), sharedOrig...)
		ops = ops[1:]
	}
	res := make([]string, len(ops))
	var wg sync.WaitGroup
	start := make(chan struct{})
	for g := 0; g < n; g++ {
		wg.Add(1)
		go func(g int) {
			defer wg.Done()
			<-start
			for i := g; i < len(ops); i += n {
				res[i] = execOpConc(ops[i])
			}
		}(g)
	}
	close(start)
	wg.Wait()
	bad := 0
	for i, op := range ops {
		if strings.HasPrefix(op, "newmd ") {
			continue
		}
		if sharedOrig != nil {
			sharedBuf = append([]byte(nil), sharedOrig...) // the reference run sees the bytes the caller put there
		}
		seq := execOpConc(op)
		if seq != res[i] {
			bad++
			fmt.Printf("DIFF %s :: concurrent %s :: alone %s\n", op, res[i], seq)
		}
	}
	fmt.Printf("end diffs=%d\n", bad)
}

// execOpConc: like execOp but without touching the source swap hook (that would be a race of the
// hook itself); `newmd n l` uses the default source.
func execOpConc(op string) string {
	f := strings.Fields(op)
	if f[0] == "encw" {
		// NewMnemonicByEntropy on a window of the shared buffer (its capacity runs to the end of the buffer)
		var l int64
		var off, n int
		fmt.Sscan(f[1], &l)
		fmt.Sscan(f[2], &off)
		fmt.Sscan(f[3], &n)
		return guarded(func() string {
			s, err := bip39.NewMnemonicByEntropy(sharedBuf[off:off+n], bip39.Language(l))
			if err != nil {
				return errKind(err)
			}
			return "ok " + hx([]byte(s))
		})
	}
	if f[0] == "newmd" {
		var n, l int64
		fmt.Sscan(f[1], &n)
		fmt.Sscan(f[2], &l)
		return implNewmDefault(n, l)
	}
	return execOp(op)
}

var sharedBuf, sharedOrig []byte

func init() { props["C12"] = propC12 }

func (c *Ctx) concScenario(class string, n int, ops []string) {
	bin := os.Getenv("VERIF_RACE_HARNESS")
	if bin == "" {
		self, _ := os.Executable()
		bin = self + "-race"
	}
	cmd := exec.Command(bin, "-child", "conc")
	cmd.Env = append(os.Environ(), "GORACE=halt_on_error=0 exitcode=66")
	cmd.Stdin = strings.NewReader(fmt.Sprintf("%d\n%s\n", n, strings.Join(ops, "\n")))
	var errb bytes.Buffer
	cmd.Stderr = &errb
	out, err := cmd.Output()
	c.rep.count(class)
	c.rep.Evaluations += len(ops)
	c.rep.nontrivial(strings.Join(ops[:min(4, len(ops))], "|"))
	desc := fmt.Sprintf("cold start, %d goroutines: %s", n, strings.Join(ops[:min(6, len(ops))], " ; "))
	if len(desc) > 900 {
		desc = desc[:900] + " …"
	}
	if strings.Contains(errb.String(), "DATA RACE") {
		i := strings.Index(errb.String(), "WARNING: DATA RACE")
		c.rep.violate(Violation{Kind: "property", Class: class, Op: desc, Impl: "race detector: " + strings.ReplaceAll(errb.String()[i:min(i+700, errb.Len())], "\n", " | "),
			Detail: "data race"})
		return
	}
	if err != nil && !strings.Contains(string(out), "end diffs=") {
		c.rep.violate(Violation{Kind: "property", Class: class, Op: desc, Impl: fmt.Sprintf("child crashed: %v %s", err, strings.ReplaceAll(errb.String()[:min(500, errb.Len())], "\n", " | "))})
		return
	}
	if !strings.Contains(string(out), "end diffs=0") {
		c.rep.violate(Violation{Kind: "property", Class: class, Op: desc, Impl: strings.ReplaceAll(string(out)[:min(600, len(out))], "\n", " | "),
			Detail: "a concurrent call returned something else than when run alone"})
	}
}

func propC12(c *Ctx) {
	r := c.rep
	r.Rule = "a -race build of the harness, cold-started once per scenario: N goroutines released together run CheckMnemonic/IsMnemonicValid on a pair of first-used languages (every ordered pair, incl. unsupported values) mixed with NewMnemonicByEntropy, NewMnemonic (default source), MnemonicToSeed and Language.String; a race-detector report, a crash, or a result differing from the same op run alone afterwards is a violation. Supports the protocol-level theorem; schedules are sampled, not enumerated. Non-trivial = distinct scenarios."
	valid := map[int]string{}
	for li := range langVals {
		valid[li] = strings.ReplaceAll(c.specSentence(int64(langVals[li]), c.randBytes(32)), "　", " ")
	}
	mk := func(li, lj int) []string {
		ops := []string{}
		for k := 0; k < 8; k++ {
			ops = append(ops, fmt.Sprintf("chk %d %s", langVals[li], hx([]byte(valid[li]))), fmt.Sprintf("chk %d %s", langVals[lj], hx([]byte(valid[lj]))))
		}
		for k := 0; k < 6; k++ {
			ops = append(ops, fmt.Sprintf("enc %d %s", langVals[(li+k)%10], hx(c.randBytes(entSizes[k%5]))))
			ops = append(ops, fmt.Sprintf("newmd %d %d", 12+3*(k%5), langVals[(lj+k)%10]))
		}
		// error paths too: wrong checksum (two words swapped), wrong count, unknown word
		for _, x := range []int{li, lj} {
			t := strings.Split(valid[x], " ")
			t[1], t[7] = t[7], t[1]
			ops = append(ops, fmt.Sprintf("chk %d %s", langVals[x], hx([]byte(strings.Join(t, " ")))),
				fmt.Sprintf("chk %d %s", langVals[x], hx([]byte(strings.Join(t[:11], " ")))),
				fmt.Sprintf("chk %d %s", langVals[x], hx([]byte(valid[x]+"x"))),
				fmt.Sprintf("chk %d %s", langVals[x], hx([]byte(valid[x]))))
		}
		ops = append(ops, fmt.Sprintf("seed %s %s", hx([]byte(valid[li])), hx([]byte("pw"))), fmt.Sprintf("lstr %d", li), "lstr -1",
			fmt.Sprintf("chk 100 %s", hx([]byte(valid[2]))), fmt.Sprintf("chk %d %s", langVals[li], hx([]byte(valid[lj]))))
		c.rng.Shuffle(len(ops), func(a, b int) { ops[a], ops[b] = ops[b], ops[a] })
		return ops
	}
	for li := range langVals {
		for lj := range langVals {
			if c.quick && (li*10+lj)%6 != int(r.Seed%6) {
				continue
			}
			c.concScenario("pair-of-first-used-languages", 8+c.rng.Intn(9), mk(li, lj))
		}
	}
	// ALL ten languages first-used at the same moment: one goroutine per (language, copy), so every pair
	// of lazily built tables is under construction concurrently in one scenario (the pair sweep above
	// samples a sixth of the ordered pairs per quick run)
	allReps := 4
	if !c.quick {
		allReps = 40
	}
	for k := 0; k < allReps; k++ {
		ops := []string{}
		for li := range langVals {
			for copy := 0; copy < 2; copy++ {
				ops = append(ops, fmt.Sprintf("chk %d %s", langVals[li], hx([]byte(valid[li]))))
			}
		}
		c.rng.Shuffle(len(ops), func(a, b int) { ops[a], ops[b] = ops[b], ops[a] })
		c.concScenario("all-languages-cold-start", len(ops), ops)
	}
	// disjoint windows of ONE caller buffer encoded concurrently (a key-derivation loop over a big random
	// block): if the package writes anywhere outside what it allocates itself — past the length of the
	// entropy slice, into its spare capacity — the neighbouring goroutine's entropy is overwritten while it
	// is being read
	winReps := 2
	if !c.quick {
		winReps = 20
	}
	for k := 0; k < winReps; k++ {
		size := entSizes[(k+int(r.Seed))%5]
		nwin := 24
		buf := c.randBytes(size*nwin + 64)
		ops := []string{"sharedbuf " + hx(buf)}
		for w := 0; w < nwin; w++ {
			ops = append(ops, fmt.Sprintf("encw %d %d %d", langVals[(w+k)%10], w*size, size))
		}
		c.concScenario("shared-buffer-windows", nwin, ops)
	}
	// same language hammered by many goroutines (the once-vs-nil-check window)
	reps := 3
	if !c.quick {
		reps = 60
	}
	// cold start of ONE language by 32 goroutines, each validating a different valid sentence; the
	// sentences of a scenario cover a third of the list (thorough: three scenarios cover every word), so a
	// lookup path that is only used while the table is being built is exercised on every word
	for li := range langVals {
		l := int64(langVals[li])
		for part := 0; part < 3; part++ {
			if c.quick && part != (li+int(r.Seed))%3 {
				continue
			}
			ops := []string{}
			for g := 0; g < 32; g++ {
				e := c.randBytes(32)
				for p := 0; p < 23; p++ {
					setGroup(e, p, (part*736+g*23+p)%2048)
				}
				ops = append(ops, fmt.Sprintf("chk %d %s", l, hx([]byte(strings.ReplaceAll(c.specSentence(l, e), "　", " ")))))
			}
			c.concScenario("same-language-cold-start:word-cover", 32, ops)
		}
	}
	// cold start of one language by 32 goroutines whose sentences consist of the words that stand where the
	// list is NOT in byte order (Czech has exactly one such place: svetr / svatba): a search that assumes sorted
	// tables — used, say, only while the real table is still being built — is wrong for these words and only these
	for li := range langVals {
		l := int64(langVals[li])
		words := c.canonWords(l)
		var inv []int
		for i := 0; i+1 < len(words) && len(inv) < 46; i++ {
			if words[i] > words[i+1] {
				inv = append(inv, i, i+1)
			}
		}
		if len(inv) == 0 {
			continue
		}
		invReps := 2
		if !c.quick {
			invReps = 12
		}
		for k := 0; k < invReps; k++ {
			ops := []string{}
			for g := 0; g < 32; g++ {
				e := c.randBytes(32)
				for p := 0; p < 23; p++ {
					setGroup(e, p, inv[(g+p+k)%len(inv)])
				}
				ops = append(ops, fmt.Sprintf("chk %d %s", l, hx([]byte(strings.ReplaceAll(c.specSentence(l, e), "　", " ")))))
			}
			c.concScenario("same-language-cold-start:order-inversions", 32, ops)
		}
	}
	for k := 0; k < reps; k++ {
		li := k % 10
		ops := []string{}
		for g := 0; g < 32; g++ {
			ops = append(ops, fmt.Sprintf("chk %d %s", langVals[li], hx([]byte(valid[li]))))
		}
		c.concScenario("same-language-cold-start", 32, ops)
		ops = ops[:0]
		for g := 0; g < 48; g++ {
			ops = append(ops, fmt.Sprintf("enc %d %s", langVals[(li+g)%10], hx(c.randBytes(entSizes[g%5]))))
		}
		c.concScenario("concurrent-generation", 16, ops)
	}
	r.sample("fresh -race process: 12 goroutines: chk Korean ×8, chk French ×8, enc ×6, NewMnemonic ×6, seed, String … -> no race report, every result equals the sequential one")
}
