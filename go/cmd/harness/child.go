package main

func runChild(spec string) { runHistoryChild(spec) }
