package main

import (
	"fmt"
	"go/ast"
	"go/parser"
	"go/token"
	"go/types"
	"net/http"
	"net/http/httptest"
	"os"
	"os/exec"
	"path/filepath"
	"strconv"
	"strings"
	"sync"
)

func init() { props["C17"] = propC17 }

// file name -> exported variable, as the specification pairs them
var toolTargets = map[string]string{"chinese_simplified": "ChineseSimplified", "chinese_traditional": "ChineseTraditional", "english": "English",
	"french": "French", "italian": "Italian", "japanese": "Japanese", "korean": "Korean", "spanish": "Spanish", "czech": "Czech", "portuguese": "Portuguese"}

var langIndexOfTarget = map[string]int{"chinese_simplified": 0, "chinese_traditional": 1, "english": 2, "french": 3, "italian": 4, "japanese": 5,
	"korean": 6, "spanish": 7, "czech": 8, "portuguese": 9}

type toolRun struct {
	dir, bin string
	mu       sync.Mutex
	files    map[string]string // path -> served content
	srv      *httptest.Server
}

func newToolRun(c *Ctx) (*toolRun, error) {
	repo := os.Getenv("VERIF_REPO")
	if repo == "" {
		repo = "/repo"
	}
	dir, err := os.MkdirTemp("", "bip39verif-tool-")
	if err != nil {
		return nil, err
	}
	t := &toolRun{dir: dir, bin: filepath.Join(dir, "update-wordlist"), files: map[string]string{}}
	cmd := exec.Command("go", "build", "-tags", "verif", "-o", t.bin, "./update-wordlist")
	cmd.Dir = repo
	if out, err := cmd.CombinedOutput(); err != nil {
		os.RemoveAll(dir)
		return nil, fmt.Errorf("the tool does not build: %v %s", err, out)
	}
	t.srv = httptest.NewServer(http.HandlerFunc(func(w http.ResponseWriter, r *http.Request) {
		name := strings.TrimSuffix(strings.TrimPrefix(r.URL.Path, "/"), ".txt")
		t.mu.Lock()
		body, ok := t.files[name]
		t.mu.Unlock()
		if !ok {
			http.NotFound(w, r)
			return
		}
		w.Header().Set("Content-Type", "text/plain; charset=utf-8")
		w.Write([]byte(body))
	}))
	return t, nil
}

func (t *toolRun) close() { t.srv.Close(); os.RemoveAll(t.dir) }

// run executes the real tool once on the given inputs (one per target) and returns the generated files.
func (t *toolRun) run(inputs map[string]string) (map[string][]byte, string) {
	t.mu.Lock()
	t.files = inputs
	t.mu.Unlock()
	work := filepath.Join(t.dir, "work")
	os.RemoveAll(work)
	os.MkdirAll(filepath.Join(work, "internal", "wordlist"), 0o755)
	cmd := exec.Command(t.bin)
	cmd.Dir = work
	cmd.Env = append(os.Environ(), "BIP39_VERIF_WORDLIST_URL="+t.srv.URL+"/", "NO_PROXY=*", "no_proxy=*")
	out, err := cmd.CombinedOutput()
	if err != nil {
		return nil, fmt.Sprintf("tool failed: %v %s", err, out)
	}
	res := map[string][]byte{}
	ents, _ := os.ReadDir(filepath.Join(work, "internal", "wordlist"))
	for _, e := range ents {
		b, _ := os.ReadFile(filepath.Join(work, "internal", "wordlist", e.Name()))
		res[strings.TrimSuffix(e.Name(), ".go")] = b
	}
	return res, ""
}

// goList parses a generated file the way the Go toolchain does and type-checks it.
func goList(src []byte) (string, []string, error) {
	fset := token.NewFileSet()
	f, err := parser.ParseFile(fset, "gen.go", src, 0)
	if err != nil {
		return "", nil, err
	}
	if _, err := (&types.Config{}).Check("wordlist", fset, []*ast.File{f}, nil); err != nil {
		return "", nil, err
	}
	for _, d := range f.Decls {
		gd, ok := d.(*ast.GenDecl)
		if !ok || gd.Tok != token.VAR {
			continue
		}
		for _, sp := range gd.Specs {
			vs := sp.(*ast.ValueSpec)
			if len(vs.Names) != 1 || len(vs.Values) != 1 {
				continue
			}
			cl, ok := vs.Values[0].(*ast.CompositeLit)
			if !ok {
				continue
			}
			var ws []string
			for _, e := range cl.Elts {
				bl, ok := e.(*ast.BasicLit)
				if !ok {
					return "", nil, fmt.Errorf("element is not a literal")
				}
				s, err := strconv.Unquote(bl.Value)
				if err != nil {
					return "", nil, err
				}
				ws = append(ws, s)
			}
			return vs.Names[0].Name, ws, nil
		}
	}
	return "", nil, fmt.Errorf("no list variable found")
}

func hexList(ws []string) string {
	if len(ws) == 0 {
		return "."
	}
	p := make([]string, len(ws))
	for i, w := range ws {
		p[i] = hx([]byte(w))
	}
	return strings.Join(p, ",")
}

func (c *Ctx) toolScenario(t *toolRun, class string, inputs map[string]string, committed bool) {
	r := c.rep
	files, errs := t.run(inputs)
	r.count(class)
	if errs != "" {
		r.violate(Violation{Kind: "property", Class: class, Op: "run update-wordlist", Impl: errs})
		return
	}
	for path, src := range inputs {
		want := toolTargets[path]
		op := fmt.Sprintf("render %s %s", hx([]byte(src)), hx([]byte(want)))
		short := fmt.Sprintf("update-wordlist on %s.txt (%d bytes, %.60q…)", path, len(src), src)
		r.Evaluations++
		r.nontrivial(class + "/" + path + "/" + fmt.Sprint(len(src)))
		out, ok := files[path]
		if !ok {
			r.violate(Violation{Kind: "property", Class: class, Op: short, Impl: "no file written for " + path})
			continue
		}
		var m, s string
		if len(op) < 900000 {
			m, s = c.drv.Ask(op)
		}
		name, ws, err := goList(out)
		if err != nil {
			r.violate(Violation{Kind: "impl≠spec", Class: class, Op: op, Impl: "generated file does not compile: " + err.Error(), Spec: s, Detail: short})
			continue
		}
		got := "ok " + hx([]byte(name)) + " " + hexList(ws)
		if s == "" {
			// too large for the line protocol: the expected list is computed here (non-empty LF-separated lines)
			var exp []string
			for _, ln := range strings.Split(src, "\n") {
				if ln != "" {
					exp = append(exp, ln)
				}
			}
			s = "ok " + hx([]byte(want)) + " " + hexList(exp)
		}
		if got != s {
			r.violate(Violation{Kind: "impl≠spec", Class: class, Op: op, Impl: trunc(got, 400), Spec: trunc(s, 400),
				Detail: short + ": the generated list is not the non-empty input lines under the expected variable"})
			continue
		}
		if m != "" {
			mf := strings.Fields(m)
			if len(mf) < 2 || mf[0] != "ok" || mf[1] != hx(out) {
				r.stale(Violation{Kind: "impl≠model", Class: class, Op: trunc(op, 300), Impl: trunc("ok "+hx(out), 300), Model: trunc(m, 300), Detail: short + ": file bytes differ from the rendered model"})
			} else if len(mf) >= 3 && !strings.HasPrefix(mf[2], "back=") {
				r.stale(Violation{Kind: "impl≠model", Class: class, Op: trunc(op, 300), Model: trunc(m, 300)})
			}
		}
		if committed {
			canon := c.canonWords(int64(langVals[langIndexOfTarget[path]]))
			if strings.Join(canon, "\n") != strings.Join(ws, "\n") {
				r.violate(Violation{Kind: "property", Class: class, Op: short, Impl: fmt.Sprintf("%d words", len(ws)), Detail: "run on the canonical list the tool does not reproduce the committed list"})
			}
		}
	}
	// the regenerated file->variable table agrees with the specification's
	for path, want := range toolTargets {
		m, _ := c.drv.Ask("toolvar " + hx([]byte(path)))
		if m != "ok "+hx([]byte(want)) {
			r.violate(Violation{Kind: "impl≠spec", Class: "targets", Op: "toolvar " + path, Impl: m, Spec: want, Detail: "file name -> variable table"})
		}
	}
}

func trunc(s string, n int) string {
	if len(s) > n {
		return s[:n] + "…"
	}
	return s
}

var scriptPools = [][]rune{[]rune("abcdefghijklmnopqrstuvwxyz"), []rune("abcdeéèêëàâîïôùûçABC"), []rune("あいうえおかきくけこさしすせそがぎぐげご"), []rune("的一是在不了有和人这中大为上个国我以要他"),
	[]rune("가각간갈감갑강개객거건걸검것게겨격견결경"), []rune("aábcčdďeéěfghiíjklmnňoóprřsštťuúůvyýzž"), []rune("aáeéiíoóuúñü")}

func (c *Ctx) randWordFile(n int, trailing bool, blanks bool) string {
	pool := scriptPools[c.rng.Intn(len(scriptPools))]
	var sb strings.Builder
	for i := 0; i < n; i++ {
		if blanks && c.rng.Intn(7) == 0 {
			sb.WriteString("\n")
		}
		k := 1 + c.rng.Intn(8)
		var w strings.Builder
		if c.rng.Intn(9) == 0 {
			w.WriteRune(rune(0x300 + c.rng.Intn(0x30))) // word beginning with a combining mark
		}
		for j := 0; j < k; j++ {
			w.WriteRune(pool[c.rng.Intn(len(pool))])
			if c.rng.Intn(6) == 0 {
				w.WriteRune([]rune{0x301, 0x300, 0x30C, 0x3099, 0x309A, 0x327}[c.rng.Intn(6)])
			}
		}
		sb.WriteString(w.String())
		if i < n-1 || trailing {
			sb.WriteString("\n")
		}
	}
	return sb.String()
}

func propC17(c *Ctx) {
	r := c.rep
	r.Rule = "the REAL update-wordlist tool (built from /repo with -tags verif, its HTTP fetches redirected to a local server by the verif hook) run in a scratch directory on: the ten canonical lists (LF-terminated, without final LF, with blank lines inserted), crafted files (words beginning/ending with combining marks, NFD text, duplicates, unsorted, upper case, single word, empty file, only blank lines) and random word files of 0..5000 lines in every script of the lists; each generated file is parsed and type-checked with go/parser+go/types, its list compared with the non-empty input lines and the expected variable, and its bytes compared with the Lean model's rendering of the regenerated template. Non-trivial = distinct (class, target, size)."
	t, err := newToolRun(c)
	if err != nil {
		r.violate(Violation{Kind: "property", Class: "build", Op: "go build -tags verif ./update-wordlist", Impl: err.Error()})
		return
	}
	defer t.close()
	canon := map[string]string{}
	for path, li := range langIndexOfTarget {
		canon[path] = strings.Join(c.canonWords(int64(langVals[li])), "\n") + "\n"
	}
	c.toolScenario(t, "canonical", canon, true)
	noLF := map[string]string{}
	blank := map[string]string{}
	for p, s := range canon {
		noLF[p] = strings.TrimSuffix(s, "\n")
		lines := strings.Split(s, "\n")
		var sb strings.Builder
		for i, l := range lines {
			sb.WriteString(l)
			if i < len(lines)-1 {
				sb.WriteString("\n")
			}
			if i%97 == 3 {
				sb.WriteString("\n\n")
			}
		}
		blank[p] = "\n" + sb.String() + "\n\n"
	}
	c.toolScenario(t, "canonical-no-final-LF", noLF, true)
	c.toolScenario(t, "canonical-blank-lines", blank, true)
	crafted := map[string]string{
		"english": "zoo\nabandon\nabandon\nZOO\n", "french": "école\nécole\ncafé", "spanish": "acné\nmúsculo\ńx\n",
		"japanese": "あいだ\nが\nぱ", "korean": "가\n가\nᅡ", "czech": "č\nž́", "italian": "città", "portuguese": "",
		"chinese_simplified": "\n\n\n", "chinese_traditional": "的"}
	c.toolScenario(t, "crafted", crafted, false)
	// very long words (scanner token limits, fixed buffers) and files whose first letters look like the
	// magic number of some binary format to a content sniffer
	longs := map[string]string{}
	magic := map[string]string{}
	sizes := []int{4095, 4096, 65535, 65536, 70000, 1 << 20}
	prefixes := []string{"BMAT", "OTTO", "wOFFka", "wOFtwo", "RIFFabcdWAVE", "RIFFabcdAVI", "FORMabcdAIFF", "MThd", "OggS", "fLaC", "Rar", "MZ", "PK", "GIF"}
	i := 0
	for p := range toolTargets {
		longs[p] = "alpha\nbeta\n" + strings.Repeat("z", sizes[i%len(sizes)]) + "\ngamma\ndelta\n"
		magic[p] = prefixes[i%len(prefixes)] + "\n" + prefixes[(i+5)%len(prefixes)] + "x\nzoo\n"
		i++
	}
	// letters and combining marks beyond the Basic Multilingual Plane (CJK extension B, variation selectors
	// supplement, musical and Brahmi marks, Adlam): anything that re-encodes characters (\uXXXX escapes with four
	// hex digits, UTF-16 round trips, surrogate handling) is exact on the BMP and wrong here
	astral := map[string]string{}
	astralWords := []string{"\U00020000\U000E0100", "葛\U000E0100", "\U0001D15E\U0001D165", "\U00011013\U00011046\U00011013", "\U0001E900\U0001E944\U0001E94A",
		"a\U0001D165b", "\U0002A6D6", "\U00010400\U00010428", "x\U000E01EF", "\U0001F600"}
	i = 0
	for p := range toolTargets {
		var sb strings.Builder
		for k := 0; k < 6; k++ {
			sb.WriteString(astralWords[(i+k)%len(astralWords)])
			sb.WriteString("\n")
		}
		astral[p] = sb.String()
		i++
	}
	c.toolScenario(t, "supplementary-plane", astral, false)
	// the LAST word of the file ending in a character whose UTF-8 encoding ends in each possible continuation
	// byte 0x80..0xBF (0x85 and 0xA0 are white space when a byte is mistaken for a rune), with and without a
	// final line feed, with trailing blank lines: byte-wise trimming of the end of the file eats into the word
	for _, fb := range []int{0x05, 0x20} { // final bytes 0x85 and 0xA0, on every target
		in := map[string]string{}
		j := 0
		for p := range toolTargets {
			in[p] = "alpha\nbeta\ngamm" + string(rune(0x4E00+fb)) + []string{"", "\n", "\n\n\n"}[j%3]
			j++
		}
		c.toolScenario(t, "last-word-final-byte", in, false)
	}
	for k := 0; k < 64; k += 9 {
		in := map[string]string{}
		j := 0
		for p := range toolTargets {
			b := (k + j*5) % 64
			in[p] = "one\ntwo\nwo" + string(rune(0x4E00+b)) + []string{"", "\n", "\n\n"}[(j+k)%3]
			j++
		}
		c.toolScenario(t, "last-word-final-byte", in, false)
	}
	c.toolScenario(t, "very-long-word", longs, false)
	c.toolScenario(t, "magic-number-prefix", magic, false)
	reps := 3 * c.scale
	if !c.quick {
		reps = 40
	}
	for k := 0; k < reps; k++ {
		in := map[string]string{}
		for p := range toolTargets {
			n := []int{0, 1, 2, 5, 50, 500, 2048, 5000}[c.rng.Intn(8)]
			in[p] = c.randWordFile(n, c.rng.Intn(2) == 0, c.rng.Intn(2) == 0)
		}
		c.toolScenario(t, "random-word-files", in, false)
	}
	r.sample("update-wordlist on japanese.txt (canonical, no final LF) -> internal/wordlist/japanese.go parses to var Japanese with the 2048 input lines; bytes equal the Lean rendering of the regenerated template")
}
