package main

import (
	"crypto/sha256"
	"fmt"
	"sort"
	"strings"
)

var entSizes = []int{16, 20, 24, 28, 32}

// ---- shared op runners -----------------------------------------------------------------

// enc runs one NewMnemonicByEntropy op; returns the implementation's answer and the spec's.
// fitsInt: the value survives the conversion to this build's `int` (always on 64-bit; on the 32-bit build
// used by the search phase, operations whose Language value would be truncated by the HARNESS are skipped —
// the truncation would be the harness's, not the implementation's)
func fitsInt(a int64) bool { return int64(int(a)) == a }

func (c *Ctx) enc(class string, l int64, e []byte) (impl, spec string) {
	if !fitsInt(l) {
		return "skipped: the Language value does not fit this build's int", ""
	}
	op := fmt.Sprintf("enc %d %s", l, hx(e))
	m, s := c.drv.Ask(op)
	impl = implEnc(l, e)
	c.rep.count(class)
	c.rep.outcome(outcomeKey(impl))
	if strings.HasPrefix(impl, "ok ") {
		c.rep.nontrivial(op)
	}
	if s != "-" && impl != s {
		c.rep.violate(Violation{Kind: "impl≠spec", Class: class, Op: op, Impl: impl, Model: m, Spec: s})
	} else if !sameAns(impl, m) {
		c.rep.stale(Violation{Kind: "impl≠model", Class: class, Op: op, Impl: impl, Model: m, Spec: s})
	}
	return impl, s
}

// sameAns compares answers, identifying any two panics.
func sameAns(a, b string) bool {
	if a == b {
		return true
	}
	return strings.HasPrefix(a, "panic") && strings.HasPrefix(b, "panic")
}

func min(a, b int) int {
	if a < b {
		return a
	}
	return b
}

func (c *Ctx) randBytes(n int) []byte {
	b := make([]byte, n)
	c.rng.Read(b)
	return b
}

// setGroup writes the 11-bit value v at word position p into the entropy bits (only the bits that
// fall inside the entropy are written).
func setGroup(e []byte, p int, v int) {
	for k := 0; k < 11; k++ {
		bit := p*11 + k
		if bit >= len(e)*8 {
			return
		}
		if v>>(10-k)&1 == 1 {
			e[bit/8] |= 1 << (7 - bit%8)
		} else {
			e[bit/8] &^= 1 << (7 - bit%8)
		}
	}
}

// entropyForLast finds an entropy of n bytes whose last word has index v.
func (c *Ctx) entropyForLast(n, v int) []byte {
	cs := n / 4
	for try := 0; try < 100000; try++ {
		e := c.randBytes(n)
		setGroup(e, n*8/11, v) // writes the top 11-cs bits of the last group
		h := sha256.Sum256(e)
		if int(h[0])>>(8-cs) == v&(1<<cs-1) {
			return e
		}
	}
	return nil
}

// entropyClasses enumerates the directed entropy classes of DESIGN §5.2 for one size.
func (c *Ctx) entropyClasses(n int, each func(class string, e []byte)) {
	each("zero", make([]byte, n))
	ones := make([]byte, n)
	for i := range ones {
		ones[i] = 0xff
	}
	each("ones", ones)
	for k := 1; k <= 8 && k < n; k++ {
		e := c.randBytes(n)
		for i := 0; i < k; i++ {
			e[i] = 0
		}
		each("leading-zero-bytes", e)
		e2 := c.randBytes(n)
		for i := 0; i < k; i++ {
			e2[n-1-i] = 0
		}
		each("trailing-zero-bytes", e2)
		e3 := c.randBytes(n)
		for i := 0; i < k; i++ {
			e3[i] = 0xff
		}
		each("leading-ff-bytes", e3)
	}
	e := make([]byte, n)
	e[0] = 0
	e[1] = 0xff
	each("zero-then-ff", e)
	for _, bit := range []int{0, 1, 7, 8, 10, 11, 12, n*8 - 12, n*8 - 11, n*8 - 2, n*8 - 1} {
		e := make([]byte, n)
		e[bit/8] = 1 << (7 - bit%8)
		each("single-bit", e)
		f := make([]byte, n)
		for i := range f {
			f[i] = 0xff
		}
		f[bit/8] &^= 1 << (7 - bit%8)
		each("single-zero-bit", f)
	}
	for i := 0; i < 4*c.scale; i++ {
		each("random", c.randBytes(n))
	}
	// entropies that look like text: hex digits (either case), decimal digits, letters, base64 — an
	// implementation that "helpfully" decodes such input loses or merges entropy bits
	for _, alphabet := range []string{"0123456789abcdef", "0123456789ABCDEF", "0123456789", "abcdefghijklmnopqrstuvwxyz",
		"ABCDEFGHIJKLMNOPQRSTUVWXYZabcdefghijklmnopqrstuvwxyz0123456789+/", " ", "0"} {
		e := make([]byte, n)
		for i := range e {
			e[i] = alphabet[c.rng.Intn(len(alphabet))]
		}
		each("text-like", e)
	}
	for i := 0; i < n && i < 32; i += 4 {
		// 000102…, the classic test pattern, as bytes and as its own hex text
		e := make([]byte, n)
		for k := range e {
			e[k] = byte(k + i)
		}
		each("counting-bytes", e)
		each("text-like", []byte(hx(e))[:n])
	}
	// families E, E||00…, E||00…00 across the legal sizes, encoded back to back in both orders: a result
	// remembered under a key that forgets the length is returned for the wrong entropy
	if n == 16 {
		base := c.randBytes(16)
		fam := [][]byte{}
		for _, m := range entSizes {
			f := make([]byte, m)
			copy(f, base)
			fam = append(fam, f)
		}
		for _, f := range fam {
			each("zero-extension-family", f)
		}
		for i := len(fam) - 1; i >= 0; i-- {
			each("zero-extension-family", fam[i])
		}
	}
}

// extremeWordEntropies yields, for language li and size n, entropies whose words are the extreme
// words of the (canonical) list: the longest by bytes and by code points everywhere (the longest
// sentence the language can produce — a buffer bound or length-based shortcut shows only here), a mix
// of the six longest, and the shortest everywhere.  The last word carries the checksum and is whatever
// it must be.
func (c *Ctx) extremeWordEntropies(li, n int, each func(class string, e []byte)) {
	words := c.canonWords(int64(langVals[li]))
	by := func(less func(a, b string) bool) []int {
		idx := make([]int, 2048)
		for i := range idx {
			idx[i] = i
		}
		sort.SliceStable(idx, func(a, b int) bool { return less(words[idx[a]], words[idx[b]]) })
		return idx
	}
	longB := by(func(a, b string) bool { return len(a) > len(b) })
	longR := by(func(a, b string) bool { return len([]rune(a)) > len([]rune(b)) })
	short := by(func(a, b string) bool { return len(a) < len(b) })
	groups := n * 8 / 11 // whole groups inside the entropy; the rest of the bits belong to the last word
	fill := func(pick func(p int) int) []byte {
		e := make([]byte, n)
		for i := range e {
			e[i] = 0xff
		}
		for p := 0; p < groups; p++ {
			setGroup(e, p, pick(p))
		}
		return e
	}
	each("longest-words:bytes", fill(func(int) int { return longB[0] }))
	each("longest-words:runes", fill(func(int) int { return longR[0] }))
	each("longest-words:mix", fill(func(int) int { return longB[c.rng.Intn(6)] }))
	each("shortest-words", fill(func(int) int { return short[0] }))
}

// ---- C01 ---------------------------------------------------------------------------------

func init() { props["C01"] = propC01 }

func propC01(c *Ctx) {
	r := c.rep
	c.focusEntropies(func(li int, e []byte) { c.enc("focus-word", int64(langVals[li]), e) })
	c.officialEncodings()
	r.Rule = "enc ops (NewMnemonicByEntropy) over directed entropy classes for 5 sizes x 10 languages; every value of the first SHA-256 byte per width; (word position, 11-bit index) pairs; compared with Spec.sentence (bit-string BIP39 over the canonical lists, Lean SHA-256) and with the Lean model. Non-trivial = distinct ops whose implementation answer is a mnemonic."
	for li := range langVals {
		l := int64(langVals[li])
		for _, n := range entSizes {
			c.entropyClasses(n, func(class string, e []byte) {
				impl, _ := c.enc(class, l, e)
				if len(r.Samples) < 6 && class == "leading-zero-bytes" {
					r.sample(fmt.Sprintf("enc %s %s -> %s", langNames[li], hx(e), impl))
				}
			})
			c.extremeWordEntropies(li, n, func(class string, e []byte) { c.enc(class, l, e) })
		}
	}
	// every value of the first digest byte, per width
	langsForSweep := []int{2}
	if !c.quick {
		langsForSweep = []int{0, 1, 2, 3, 4, 5, 6, 7, 8, 9}
	}
	for _, n := range entSizes {
		found := map[byte][]byte{}
		for len(found) < 256 {
			e := c.randBytes(n)
			h := sha256.Sum256(e)
			if _, ok := found[h[0]]; !ok {
				found[h[0]] = e
			}
		}
		for v := 0; v < 256; v++ {
			for _, li := range langsForSweep {
				c.enc("first-sha-byte-sweep", int64(langVals[li]), found[byte(v)])
			}
		}
	}
	// (position, index) pairs
	idxStep := 37
	if !c.quick {
		idxStep = 1
	}
	for li := range langVals {
		l := int64(langVals[li])
		for _, n := range entSizes {
			wc := n * 3 / 4
			for p := 0; p < wc-1; p++ {
				if c.quick && (p+li+n)%5 != 0 {
					continue
				}
				for v := (p * 7) % idxStep; v < 2048; v += idxStep {
					e := c.randBytes(n)
					setGroup(e, p, v)
					c.enc("position-index", l, e)
				}
			}
			// last word: index constrained by the checksum
			step := 256
			if !c.quick {
				step = 16
			}
			for v := (li * 3) % step; v < 2048; v += step {
				if e := c.entropyForLast(n, v); e != nil {
					c.enc("last-word-index", l, e)
				}
			}
		}
	}
	// the Lean SHA-256 the theorems are instantiated with (pure functional FIPS 180-4) vs crypto/sha256
	maxN := 200
	if !c.quick {
		maxN = 2000
	}
	for n := 0; n <= maxN; n++ {
		b := c.randBytes(n)
		m, s := c.drv.Ask("sha256 " + hx(b))
		h := sha256.Sum256(b)
		r.count("sha256-cross-check")
		if m != "ok "+hx(h[:]) || s != "ok "+hx(h[:]) {
			r.stale(Violation{Kind: "impl≠model", Class: "sha256-cross-check", Op: "sha256 " + hx(b), Impl: hx(h[:]), Model: m, Spec: s})
		}
	}
	r.Exhaustive = false
}

// ---- C09 (entropy side; the word-count side is in gen_reader.go) --------------------------

func (c *Ctx) c09Entropy() {
	maxLen := 300
	if !c.quick {
		maxLen = 4200
	}
	for n := 0; n <= maxLen; n++ {
		for _, li := range []int{2, 5} {
			impl, _ := c.enc("entropy-length-sweep", int64(langVals[li]), c.randBytes(n))
			ok := n == 16 || n == 20 || n == 24 || n == 28 || n == 32
			if ok != strings.HasPrefix(impl, "ok ") || (!ok && impl != "err entropyLen") {
				c.rep.violate(Violation{Kind: "property", Class: "entropy-length-sweep", Op: fmt.Sprintf("enc %d <%d bytes>", langVals[li], n), Impl: impl,
					Detail: "NewMnemonicByEntropy must succeed iff the length is 16/20/24/28/32 and otherwise return (\"\", ErrEntropyLen)"})
			}
			if ok && impl == "ok _" {
				c.rep.violate(Violation{Kind: "property", Class: "entropy-length-sweep", Op: fmt.Sprintf("enc %d <%d bytes>", langVals[li], n), Impl: impl, Detail: "empty mnemonic on success"})
			}
		}
	}
	// entropies that look like text (hex digits in either case, digits, letters) at EVERY length 0..70: the
	// outcome must not depend on what the bytes look like (a "friendlier" error for callers who pass a hex
	// string is not ErrEntropyLen)
	for n := 0; n <= 70; n++ {
		for k, alphabet := range []string{"0123456789abcdef", "0123456789ABCDEF", "0123456789", "abcdefghijklmnopqrstuvwxyz"} {
			if c.quick && (n+k)%2 != int(c.rep.Seed%2) && n != 40 && n != 48 && n != 56 && n != 64 {
				continue
			}
			e := make([]byte, n)
			for i := range e {
				e[i] = alphabet[c.rng.Intn(len(alphabet))]
			}
			impl, _ := c.enc("text-like-length-sweep", int64(langVals[(n+k)%10]), e)
			ok := n == 16 || n == 20 || n == 24 || n == 28 || n == 32
			if !ok && impl != "err entropyLen" {
				c.rep.violate(Violation{Kind: "property", Class: "text-like-length-sweep", Op: fmt.Sprintf("enc %d %s", langVals[(n+k)%10], hx(e)), Impl: impl,
					Detail: "an entropy of an illegal length must give (\"\", ErrEntropyLen) whatever its bytes look like"})
			}
		}
	}
	// a legal call, then the same bytes with zero bytes appended or trailing zero bytes removed (illegal
	// sizes), in the same language: must still be ("", ErrEntropyLen) — a lookup in a memo keyed without the
	// length that runs before the length check returns the remembered mnemonic instead
	for _, m := range entSizes {
		for _, li := range []int{2, 6} {
			l := int64(langVals[li])
			e := c.randBytes(m)
			c.enc("legal-then-padded", l, e)
			for _, pad := range []int{1, 2, 3, 5, 16} {
				if m+pad <= 36 {
					c.enc("legal-then-padded", l, append(append([]byte{}, e...), make([]byte, pad)...))
				}
			}
			z := make([]byte, m)
			copy(z, e[:m/2]) // the second half is zero
			c.enc("legal-then-truncated", l, z)
			for cut := 1; cut <= m/2; cut += 3 {
				c.enc("legal-then-truncated", l, z[:m-cut])
			}
			c.enc("legal-then-truncated", l, []byte{})
			zero := make([]byte, m)
			c.enc("legal-then-truncated", l, zero)
			c.enc("legal-then-truncated", l, zero[:m-1])
			c.enc("legal-then-truncated", l, nil)
		}
	}
	// nil slice and wrapped-around lengths
	impl := implEnc(int64(langVals[2]), nil)
	c.rep.count("nil-entropy")
	if impl != "err entropyLen" {
		c.rep.violate(Violation{Kind: "property", Class: "nil-entropy", Op: "enc 2 nil", Impl: impl})
	}
	bases := []int{256, 512, 1024, 2048, 4096, 65536, 1 << 17, 1 << 18, 1 << 20, 1 << 24}
	if !c.quick {
		// lengths whose bit count wraps 32 bits (2^29 bytes = 2^32 bits): one large allocation each
		bases = append(bases, 1<<26, 1<<28, 1<<29)
	}
	for _, base := range bases {
		for _, d := range []int{0, 16, 20, 24, 28, 32, 36} {
			if base >= 1<<26 && d != 16 && d != 32 {
				continue
			}
			n := base + d
			impl := implEnc(int64(langVals[2]), make([]byte, n))
			c.rep.count("large-length")
			if impl != "err entropyLen" {
				c.rep.violate(Violation{Kind: "property", Class: "large-length", Op: fmt.Sprintf("enc 2 <%d zero bytes>", n), Impl: impl,
					Detail: "must return (\"\", ErrEntropyLen)"})
			}
		}
	}
}
