package main

import (
	"encoding/json"
	"fmt"
	"os"
	"path/filepath"
	"strings"
)

// runCorpus replays, before anything else, the witnesses of fixed findings and the minimised past
// disagreements kept under corpus/<prop>/*.ops (one op per line).
func runCorpus(c *Ctx, prop string) {
	dir := os.Getenv("VERIF_DIR")
	if dir == "" {
		dir = "/verif"
	}
	var ops []string
	if b, err := os.ReadFile(filepath.Join(dir, "known_findings.json")); err == nil {
		var kf []struct {
			Status     string   `json:"status"`
			Properties []string `json:"properties"`
			Witness    []struct {
				Op string `json:"op"`
			} `json:"witness"`
		}
		if json.Unmarshal(b, &kf) == nil {
			for _, k := range kf {
				rel := false
				for _, p := range k.Properties {
					rel = rel || p == prop
				}
				if !rel || k.Status != "fixed" {
					continue
				}
				for _, w := range k.Witness {
					ops = append(ops, w.Op)
				}
			}
		}
	}
	files, _ := filepath.Glob(filepath.Join(dir, "corpus", prop, "*.ops"))
	for _, f := range files {
		if b, err := os.ReadFile(f); err == nil {
			for _, l := range strings.Split(string(b), "\n") {
				if l = strings.TrimSpace(l); l != "" && !strings.HasPrefix(l, "#") {
					ops = append(ops, l)
				}
			}
		}
	}
	for _, op := range ops {
		f := strings.Fields(op)
		var a, b int64
		switch {
		case len(f) == 3 && f[0] == "enc":
			fmt.Sscan(f[1], &a)
			c.enc("corpus", a, unhx(f[2]))
		case len(f) == 3 && f[0] == "chk":
			fmt.Sscan(f[1], &a)
			c.chk("corpus", a, string(unhx(f[2])))
		case len(f) == 3 && f[0] == "seed":
			c.seed("corpus", string(unhx(f[1])), string(unhx(f[2])))
		case len(f) == 2 && f[0] == "lstr":
			fmt.Sscan(f[1], &a)
			c.lstr("corpus", a)
		case len(f) == 4 && f[0] == "newm":
			fmt.Sscan(f[1], &a)
			fmt.Sscan(f[2], &b)
			c.newm("corpus", a, b, f[3])
		}
	}
}
