// Command harness is the correspondence check: it generates operations for one property, runs
// them on the real implementation (in-process, built against /repo with -tags verif) and on the
// Lean model/spec executable (bip39model), and reports every disagreement.
package main

import (
	"encoding/json"
	"flag"
	"fmt"
	"math/rand"
	"os"
	"sort"
	"time"
)

type Violation struct {
	Kind   string `json:"kind"` // impl≠spec | impl≠model | property
	Class  string `json:"class"`
	Op     string `json:"op"`
	Impl   string `json:"impl"`
	Model  string `json:"model,omitempty"`
	Spec   string `json:"spec,omitempty"`
	Detail string `json:"detail,omitempty"`
}

type Report struct {
	Property    string         `json:"property"`
	Tier        string         `json:"tier"`
	Seed        int64          `json:"seed"`
	Evaluations int            `json:"evaluations"`
	Distinct    int            `json:"distinct_nontrivial"`
	Rule        string         `json:"rule"`
	Classes     map[string]int `json:"classes"`
	Outcomes    map[string]int `json:"outcomes"`
	Samples     []string       `json:"samples"`
	Violations  []Violation    `json:"violations"`
	Stale       []Violation    `json:"model_mismatches"`
	Known       []Violation    `json:"known_findings"`
	Exhaustive  bool           `json:"exhaustive"`
	Notes       []string       `json:"notes"`
	WallS       float64        `json:"wall_s"`

	seen map[string]bool
	cap  int
}

func (r *Report) count(class string) { r.Evaluations++; r.Classes[class]++ }
func (r *Report) outcome(o string)   { r.Outcomes[o]++ }
func (r *Report) nontrivial(key string) {
	if !r.seen[key] {
		r.seen[key] = true
		r.Distinct++
	}
}
func (r *Report) sample(s string) {
	if len(r.Samples) < 12 {
		r.Samples = append(r.Samples, s)
	}
}
func (r *Report) violate(v Violation) {
	if len(r.Violations) < r.cap {
		r.Violations = append(r.Violations, v)
	}
}
func (r *Report) stale(v Violation) {
	if len(r.Stale) < r.cap {
		r.Stale = append(r.Stale, v)
	}
}
func (r *Report) known(v Violation) {
	if len(r.Known) < r.cap {
		r.Known = append(r.Known, v)
	}
}
func (r *Report) note(format string, a ...interface{}) {
	r.Notes = append(r.Notes, fmt.Sprintf(format, a...))
}

type Ctx struct {
	rep       *Report
	drv       *Driver
	rng       *rand.Rand
	askedLstr []int64 // values already handed to Language.String in this run (asked again at the end)
	quick     bool
	scale     int // budget multiplier (escalated search)
	child     string
}

var props = map[string]func(*Ctx){}

func main() {
	prop := flag.String("prop", "", "property id")
	tier := flag.String("tier", "quick", "quick|thorough")
	seed := flag.Int64("seed", 1, "PRNG seed")
	drvPath := flag.String("driver", "/verif/lean/.lake/build/bin/bip39model", "model executable")
	out := flag.String("out", "", "report file (JSON)")
	scale := flag.Int("scale", 1, "budget multiplier")
	replay := flag.String("replay", "", "re-execute one recorded op and print impl/model/spec")
	child := flag.String("child", "", "internal: run a history in this fresh process")
	flag.Parse()

	if *child != "" {
		runChild(*child)
		return
	}
	drv, err := startDriver(*drvPath)
	if err != nil {
		fmt.Fprintln(os.Stderr, "harness: cannot start driver:", err)
		os.Exit(2)
	}
	defer drv.Close()
	if *replay != "" {
		doReplay(drv, *replay)
		return
	}
	f, ok := props[*prop]
	if !ok {
		fmt.Fprintln(os.Stderr, "harness: unknown property", *prop)
		os.Exit(2)
	}
	rep := &Report{Property: *prop, Tier: *tier, Seed: *seed, Classes: map[string]int{}, Outcomes: map[string]int{},
		seen: map[string]bool{}, cap: 50}
	ctx := &Ctx{rep: rep, drv: drv, rng: rand.New(rand.NewSource(*seed)), quick: *tier != "thorough", scale: *scale}
	t0 := time.Now()
	runCorpus(ctx, *prop)
	f(ctx)
	rep.WallS = time.Since(t0).Seconds()
	sort.Strings(rep.Notes)
	b, _ := json.MarshalIndent(rep, "", " ")
	if *out != "" {
		if err := os.WriteFile(*out, b, 0o644); err != nil {
			fmt.Fprintln(os.Stderr, err)
			os.Exit(2)
		}
	} else {
		os.Stdout.Write(b)
	}
	fmt.Printf("harness %s %s seed=%d: %d evaluations, %d distinct non-trivial, %d violations, %d model mismatches, %d known, %.1fs\n",
		*prop, *tier, *seed, rep.Evaluations, rep.Distinct, len(rep.Violations), len(rep.Stale), len(rep.Known), rep.WallS)
}
