package main

import (
	"crypto/sha512"
	"fmt"
	"hash/adler32"
	"hash/crc32"
	"hash/fnv"
	"strings"

	"golang.org/x/crypto/pbkdf2"

	"golang.org/x/text/unicode/norm"
	"golang.org/x/text/width"
)

// seed runs one MnemonicToSeed op and compares it with the specification.
func (c *Ctx) seed(class, m, p string) string {
	op := fmt.Sprintf("seed %s %s", hx([]byte(m)), hx([]byte(p)))
	mo, sp := c.drv.Ask(op)
	ss, sp := field(sp, "ss")
	impl := implSeed(m, p)
	c.rep.count(class)
	c.rep.outcome(outcomeKey(impl))
	c.rep.nontrivial(op)
	if strings.HasPrefix(impl, "ok ") && len(impl) != 3+128 {
		c.rep.violate(Violation{Kind: "property", Class: class, Op: op, Impl: impl, Detail: "seed is not 64 bytes"})
	}
	if impl == sp {
		if impl != mo {
			c.rep.stale(Violation{Kind: "impl≠model", Class: class, Op: op, Impl: impl, Model: mo, Spec: sp})
		}
		return impl
	}
	if ss != "1" && strings.HasPrefix(impl, "ok ") {
		// known finding D4: x/text's NFKD is stream-safe.  It is only *that* deviation if the result is
		// PBKDF2 over x/text's own normal forms; anything else is still a violation.
		pw := hx([]byte(norm.NFKD.String(m)))
		salt := hx([]byte(norm.NFKD.String("mnemonic" + p)))
		res, _ := c.drv.Ask(fmt.Sprintf("pbkdf2 %s %s 2048 64", pw, salt))
		if res == impl {
			if impl != mo {
				// the model runs the executable model of x/text's NFKD (Unicode/XText.lean): it must reproduce D4 exactly
				c.rep.stale(Violation{Kind: "impl≠model", Class: class, Op: op, Impl: impl, Model: mo, Spec: sp, Detail: "non-stream-safe input: the model of x/text's NFKD does not reproduce the implementation's seed"})
			}
			c.rep.Classes["(not stream-safe)"]++
			c.rep.known(Violation{Kind: "known:not-stream-safe", Class: class, Op: op, Impl: impl, Spec: sp,
				Detail: "NFKD form has a run of more than 30 non-starters: x/text inserts U+034F (D4)"})
			return impl
		}
	}
	c.rep.violate(Violation{Kind: "impl≠spec", Class: class, Op: op, Impl: impl, Model: mo, Spec: sp})
	return impl
}

var compatPool = []string{"ﬁ", "㍍", "Å", "ａ", "Ａ", "①", "ｶﾞ", "が", "が", "é", "é", "ệ", "ệ", "ệ", "ą́", "ą́", "ẛ̣",
	"한", "한", "Ω", "Ω", "ǆ", "ﷺ", " ", "　", " ", "½", "²", "𝐀", "𝔘", "\U0001F600", "ß", "ς", "İ", "ı", "ͅ", "̀", "̖", "ְֱ", "ุ่", "𝅘𝅥𝅮"}

func (c *Ctx) randUnicode(maxParts int) string {
	var sb strings.Builder
	for k := c.rng.Intn(maxParts + 1); k > 0; k-- {
		switch c.rng.Intn(6) {
		case 0:
			sb.WriteByte(byte(32 + c.rng.Intn(95)))
		case 1, 2, 3:
			sb.WriteString(compatPool[c.rng.Intn(len(compatPool))])
		case 4:
			sb.WriteRune(rune(0x300 + c.rng.Intn(0x70)))
		case 5:
			sb.WriteRune(rune(0xAC00 + c.rng.Intn(11172)))
		}
	}
	return sb.String()
}

func forms(s string) map[string]string {
	out := map[string]string{"NFC": norm.NFC.String(s), "NFD": norm.NFD.String(s), "NFKC": norm.NFKC.String(s), "NFKD": norm.NFKD.String(s)}
	w := width.Widen.String(norm.NFC.String(s))
	if norm.NFKD.String(w) == out["NFKD"] {
		out["fullwidth"] = w
	}
	return out
}

// ---- C04 -----------------------------------------------------------------------------------

func init() { props["C04"] = propC04; props["C10"] = propC10; props["C11"] = propC11 }

func propC04(c *Ctx) {
	r := c.rep
	r.Rule = "seed ops (MnemonicToSeed, with a freshness probe: the result is overwritten and the call repeated) on: ASCII, every script of the lists, empty arguments, keys beyond the 128-byte HMAC block, compatibility characters, reordering mark sequences, passphrases beginning with marks, non-mnemonic strings, invalid UTF-8, and the 25..35 non-starter boundary; compared with Spec.seed = Lean PBKDF2-HMAC-SHA512(utf8 NFKD m, \"mnemonic\"||utf8 NFKD p, 2048, 64) over the pinned Unicode 15 tables, and with the model. Outside the stream-safe class the result must equal PBKDF2 over x/text's own normal forms (known finding D4). Non-trivial = distinct ops."
	eng := c.specSentence(int64(langVals[2]), c.randBytes(16))
	c.officialSeeds()
	// the pure functional PBKDF2 of the theorems, the fast Lean one and x/crypto's, on the same inputs
	for k, tc := range []struct{ pw, salt, it, n int }{{0, 0, 1, 64}, {3, 8, 2, 64}, {128, 8, 3, 64}, {129, 200, 2, 100}, {64, 16, 2048, 64}, {300, 13, 5, 1}} {
		pw, salt := c.randBytes(tc.pw), c.randBytes(tc.salt)
		m, s := c.drv.Ask(fmt.Sprintf("pbkdf2spec %s %s %d %d", hx(pw), hx(salt), tc.it, tc.n))
		want := "ok " + hx(pbkdf2.Key(pw, salt, tc.it, tc.n, sha512.New))
		r.count("pbkdf2-cross-check")
		if m != want || s != want {
			r.stale(Violation{Kind: "impl≠model", Class: "pbkdf2-cross-check", Op: fmt.Sprintf("pbkdf2spec #%d", k), Impl: want, Model: m, Spec: s})
		}
	}
	c.seed("ascii", eng, "")
	c.seed("ascii", eng, "TREZOR")
	c.seed("empty", "", "")
	c.seed("empty", "", "x")
	c.seed("empty", eng, "")
	for li := range langVals {
		s := c.specSentence(int64(langVals[li]), c.randBytes(entSizes[c.rng.Intn(5)]))
		c.seed("list-script", s, c.randUnicode(4))
		c.seed("list-script:NFC", norm.NFC.String(s), norm.NFC.String(c.randUnicode(4)))
	}
	for _, n := range []int{111, 112, 127, 128, 129, 200, 256, 1000} {
		c.seed("long-key", strings.Repeat("a", n), "p")
		c.seed("long-key", strings.Repeat("é", n/2), strings.Repeat("ｶﾞ", n/6))
		c.seed("long-salt", "m", strings.Repeat("z", n))
	}
	// pairs of different arguments of equal length that collide under the weak 32-bit hashes a cache might be
	// keyed with (CRC-32 IEEE and Castagnoli, Adler-32, FNV-1 and FNV-1a, the 31·h+c string hash, the byte sum):
	// found by birthday search over random lower-case strings; each pair is derived back to back, in both orders,
	// as mnemonic and as passphrase — a result or a key schedule remembered under such a key is served for the
	// wrong argument
	for _, pair := range weakHashCollisions(c) {
		for _, ord := range [][2]string{{pair[0], pair[1]}, {pair[1], pair[0]}} {
			c.seed("weak-hash-collision", ord[0], "p")
			c.seed("weak-hash-collision", ord[1], "p")
			c.seed("weak-hash-collision", "m", ord[0])
			c.seed("weak-hash-collision", "m", ord[1])
		}
	}
	// Hangul in mixed forms: precomposed syllables next to conjoining jamo, compatibility jamo (U+3131…),
	// half-width jamo (U+FFA0…) and circled / parenthesised Hangul — a shortcut that decomposes syllables by
	// arithmetic and copies "jamo" through is right for each form alone and wrong for the mixture
	for _, hs := range []string{"하하ㅋㅋ", "한글ᄒ", "가ﾡ나", "㉠가㈀", "ㅎㅏㄴ글", "a가ㅋb", "각ᆨㄱ", "힣ㆎ", "가\u3164나", "ㄱ", "ﾡ", "㉮"} {
		c.seed("hangul-mixed-forms", hs, "p")
		c.seed("hangul-mixed-forms", "m", hs)
		c.seed("hangul-mixed-forms", norm.NFKD.String(hs), norm.NFC.String(hs))
	}
	// arguments that SHRINK under NFKD: supplementary-plane compatibility letters (4 bytes each, one ASCII letter
	// after normalisation), in lengths around the 128-byte HMAC block on either side of the normalisation — a
	// decision taken on the raw length (pre-hashing "long" keys, buffer sizing) is wrong exactly here
	for _, n := range []int{31, 32, 33, 64, 96, 97, 100, 127, 128, 129, 200} {
		bold := strings.Repeat("\U0001D41A", n)
		c.seed("shrinking-under-nfkd", bold, "p")
		c.seed("shrinking-under-nfkd", "m", bold)
		c.seed("shrinking-under-nfkd", strings.Repeat("\U0001D7D8\U0001D552", n/2), strings.Repeat("\u3392", n/3+1))
	}
	nr := 30 * c.scale
	if !c.quick {
		nr = 1500
	}
	for k := 0; k < nr; k++ {
		c.seed("compat-heavy", c.randUnicode(8), c.randUnicode(8))
	}
	for _, p := range []string{"́abc", "̖́x", "゙か", "ͅ", "̀", "̣̂e"} {
		c.seed("passphrase-starts-with-mark", eng, p)
		c.seed("mnemonic-starts-with-mark", p, eng)
	}
	// consecutive calls whose (password ‖ salt) concatenations coincide although the arguments differ
	// (a memo keyed on the concatenation, or a shared buffer, shows only on such a pair)
	for _, pr := range [][4]string{{"", "mnemonic", "mnemonic", ""}, {eng, "mnemonicTREZOR", eng + "mnemonic", "TREZOR"},
		{"a", "bmnemonicc", "amnemonicb", "c"}, {eng, "x", eng + " ", "x"}, {eng, "", eng, " "}} {
		c.seed("boundary-shift-pair", pr[0], pr[1])
		c.seed("boundary-shift-pair", pr[2], pr[3])
		c.seed("boundary-shift-pair", pr[0], pr[1])
	}
	// same arguments repeatedly, different arguments in between
	for k := 0; k < 3; k++ {
		c.seed("repeat", eng, "TREZOR")
		c.seed("repeat", eng+"x", "TREZOR")
	}
	// arguments made (almost) only of the code points with the largest NFKD expansion, and Han-only
	// arguments containing compatibility ideographs / radicals (which do decompose)
	buildPreimages()
	pick := func(pool []string, k int) string {
		var sb strings.Builder
		for i := 0; i < k; i++ {
			sb.WriteString(pool[c.rng.Intn(len(pool))])
		}
		return sb.String()
	}
	for k := 1; k <= 8; k++ {
		c.seed("high-expansion", eng, pick(highExpansion, k))
		c.seed("high-expansion", pick(highExpansion, k), "p")
		c.seed("high-expansion", eng, strings.Repeat("ﷺ", k))
		c.seed("han-compat-only", eng, pick(hanCompat, k))
		c.seed("han-compat-only", pick(hanCompat, k)+" "+pick(hanCompat, 2), pick(hanCompat, k))
	}
	for _, li := range []int{0, 1} {
		zh := strings.ReplaceAll(c.specSentence(int64(langVals[li]), c.randBytes(32)), "　", " ")
		if v := c.respellByPreimages(zh, 100); v != "" {
			c.seed("han-compat-only", v, pick(hanCompat, 3))
		}
	}
	// a reorder-sensitive cluster slid across every byte offset around typical buffer/window sizes:
	// normalisation done in chunks, or into a fixed buffer, goes wrong exactly at such a cut
	clusters := []string{"éﾞ", "á̖", "ཱཱྀ", "ガ", "ệ", "각"}
	sizes := []int{64, 128, 256}
	span := 3
	if !c.quick {
		sizes = []int{32, 64, 128, 256, 512, 1024, 4096}
		span = 9
	}
	for _, k := range sizes {
		for off := k - span; off <= k+span; off++ {
			cl := clusters[(off+k)%len(clusters)]
			if !c.quick {
				cl = clusters[c.rng.Intn(len(clusters))]
			}
			long := strings.Repeat("a", off) + cl + " tail"
			c.seed("cluster-at-offset:passphrase", eng, long[8:]) // the salt is "mnemonic"+passphrase: 8 bytes earlier
			c.seed("cluster-at-offset:mnemonic", long, "p")
		}
	}
	c.seed("non-mnemonic", "this is not a mnemonic at all", "pw")
	c.seed("non-mnemonic", strings.Repeat("abandon ", 12), "")
	c.seed("non-mnemonic", "zoo", "")
	for k := 0; k < 6; k++ {
		b := c.randBytes(1 + c.rng.Intn(40))
		c.seed("invalid-utf8", string(b), string(c.randBytes(5)))
	}
	c.seed("invalid-utf8", "a\xffb", "\xc0\x80")
	// the stream-safe boundary
	for n := 25; n <= 35; n++ {
		c.seed("nonstarter-run", "x", "a"+strings.Repeat("́", n))
		c.seed("nonstarter-run", "a"+strings.Repeat("́", n)+"̖", "p")
		c.seed("nonstarter-run:jamo", "x", "ᄀ"+strings.Repeat("ᅡ", n))
	}
	// a rune contributing two leading non-starters right at the limit: x/text inserts U+034F after 29
	c.seed("nonstarter-run:multi-lead", "x", "a"+strings.Repeat("́", 29)+"\u0344")
	c.seed("nonstarter-run:multi-lead", "a"+strings.Repeat("́", 28)+"\u0f73\u0f73", "p")
	r.sample(fmt.Sprintf("seed %q \"TREZOR\" -> 64 bytes equal to Spec.seed", eng))
	r.sample("seed \"x\" \"a\"+31×U+0301 -> differs from Spec.seed, equals PBKDF2 over x/text's forms: KNOWN-FINDING D4")
}

// ---- C10 -----------------------------------------------------------------------------------

func (c *Ctx) respell(li int, s string, expectOK bool) {
	l := int64(langVals[li])
	base := implChk(l, s)
	for name, f := range forms(s) {
		for _, sep := range []string{" ", "　"} {
			v := strings.ReplaceAll(strings.ReplaceAll(f, "　", " "), " ", sep)
			if norm.NFKD.String(v) != norm.NFKD.String(s) {
				continue // the transform did not preserve the NFKD form (cannot happen for these transforms; guard)
			}
			impl, _ := c.chk("respell:"+name, l, v)
			if impl != base {
				c.rep.violate(Violation{Kind: "property", Class: "respell:" + name, Op: fmt.Sprintf("chk %d %s vs %s", l, hx([]byte(s)), hx([]byte(v))),
					Impl: impl, Spec: base, Detail: "two strings with the same NFKD form get different verdicts"})
			}
			if expectOK && impl != "ok" {
				c.rep.violate(Violation{Kind: "property", Class: "respell:" + name, Op: fmt.Sprintf("chk %d %s", l, hx([]byte(v))), Impl: impl,
					Detail: "a valid mnemonic is rejected in this spelling"})
			}
		}
	}
}

func propC10(c *Ctx) {
	r := c.rep
	c.focusEntropies(func(li int, e []byte) {
		c.respell(li, strings.ReplaceAll(c.specSentence(int64(langVals[li]), e), "　", " "), true)
	})
	r.Rule = "chk ops on pairs with equal NFKD form: valid sentences containing list words (quick: a seeded slice of the 10x2048 words; thorough: all of them) at every word count, re-spelled NFC, NFD, NFKC, NFKD and full-width (x/text transforms), with U+0020 and with U+3000 between words; invalid sentences and arbitrary Unicode strings paired with their other normal forms; expected: identical verdict and error for every spelling, nil for valid sentences; each compared with the specification's verdict over Lean NFKD (pinned Unicode 15 tables). Non-trivial = distinct ops not rejected by the count gate."
	for li := range langVals {
		l := int64(langVals[li])
		// sentences whose first 23 words are consecutive list indices: 90 of them cover a whole list
		// (thorough: all; quick: a seeded slice), plus shorter sentences at every word count
		c.coverSentences(li, func(s string) { c.respell(li, s, true) })
		for k, n := range entSizes {
			e := c.randBytes(n)
			setGroup(e, k%(n*3/4-1), c.rng.Intn(2048))
			c.respell(li, strings.ReplaceAll(c.specSentence(l, e), "　", " "), true)
		}
		// invalid sentences keep the same verdict too
		s := strings.ReplaceAll(c.specSentence(l, c.randBytes(16)), "　", " ")
		toks := strings.Split(s, " ")
		toks[3], toks[4] = toks[4], toks[3]
		c.respell(li, strings.Join(toks, " "), false)
		c.respell(li, strings.Join(toks[:11], " "), false)
		toks[0] = "é" + toks[0]
		c.respell(li, strings.Join(toks, " "), false)
	}
	// cased and case-less compatibility spellings of ONE letter of a valid sentence: ASCII capitals, full-width
	// and circled capitals, capital Roman numerals, U+0130 (capital I with dot), the Kelvin sign.  None of them
	// has the list word as its NFKD form, so every spelling must be rejected, alike in all normal forms — a
	// validator that folds case before (or instead of) normalising accepts some spellings and not their
	// NFD/NFKD twins
	for li := range langVals {
		l := int64(langVals[li])
		s := strings.ReplaceAll(c.specSentence(l, c.randBytes(entSizes[(li+int(r.Seed))%5])), "　", " ")
		rs := []rune(s)
		var latin []int
		for i, ch := range rs {
			if ch >= 'a' && ch <= 'z' {
				latin = append(latin, i)
			}
		}
		if len(latin) == 0 {
			continue
		}
		for k := 0; k < 6*c.scale; k++ {
			i := latin[c.rng.Intn(len(latin))]
			ch := rs[i]
			vars := []rune{ch - 'a' + 'A', ch - 'a' + 0xFF21, ch - 'a' + 0x24B6}
			switch ch {
			case 'i':
				vars = append(vars, 0x0130, 0x2160)
			case 'k':
				vars = append(vars, 0x212A)
			case 'v':
				vars = append(vars, 0x2164)
			case 'x':
				vars = append(vars, 0x2169)
			case 'l':
				vars = append(vars, 0x216C)
			case 'c':
				vars = append(vars, 0x216D)
			case 'd':
				vars = append(vars, 0x216E)
			case 'm':
				vars = append(vars, 0x216F)
			}
			for _, v := range vars {
				t := append([]rune(nil), rs...)
				t[i] = v
				c.respell(li, string(t), false)
			}
		}
	}
	nr := 40 * c.scale
	if !c.quick {
		nr = 3000
	}
	for k := 0; k < nr; k++ {
		c.respell(c.rng.Intn(10), c.randUnicode(14), false)
	}
	// EVERY code point whose NFKD form is U+0020, as the separator (all of them, one at a time and mixed)
	buildPreimages()
	for li := range langVals {
		l := int64(langVals[li])
		s := strings.ReplaceAll(c.specSentence(l, c.randBytes(entSizes[li%5])), "　", " ")
		for _, sp := range nfkdSpaces {
			if c.quick && li%3 != int(r.Seed%3) && li != 2 {
				continue
			}
			for _, v := range []string{strings.ReplaceAll(s, " ", sp), strings.Replace(s, " ", sp, 1)} {
				impl, _ := c.chk("compat-space", l, v)
				if impl != "ok" {
					r.violate(Violation{Kind: "property", Class: "compat-space", Op: fmt.Sprintf("chk %d %s", l, hx([]byte(v))), Impl: impl,
						Detail: fmt.Sprintf("valid mnemonic with %U between words: NFKD maps it to U+0020", []rune(sp)[0])})
				}
			}
		}
	}
	// reverse decompositions: any substring replaced by a code point whose NFKD form it is (full-width and
	// half-width forms, ligatures, Kangxi radicals and compatibility ideographs, compatibility jamo, …)
	nrev := 12 * c.scale
	if !c.quick {
		nrev = 400
	}
	for li := range langVals {
		l := int64(langVals[li])
		found := 0
		for try := 0; try < nrev*20 && found < nrev; try++ {
			s := strings.ReplaceAll(c.specSentence(l, c.randBytes(entSizes[try%5])), "　", " ")
			v := c.respellByPreimages(s, 20+c.rng.Intn(80))
			if v == "" {
				continue
			}
			found++
			if c.rng.Intn(2) == 0 {
				v = strings.ReplaceAll(v, " ", "　")
			}
			impl, _ := c.chk("reverse-decomposition", l, v)
			if impl != "ok" {
				r.violate(Violation{Kind: "property", Class: "reverse-decomposition", Op: fmt.Sprintf("chk %d %s", l, hx([]byte(v))), Impl: impl,
					Detail: "a valid mnemonic re-spelled with compatibility code points (same NFKD form) is rejected"})
			}
		}
	}
	c.normaliserAssumptions()
	r.sample("chk French <valid sentence, NFC, U+3000 separators> -> ok (same as NFKD with U+0020)")
}

// ---- C11 -----------------------------------------------------------------------------------

func propC11(c *Ctx) {
	r := c.rep
	r.Rule = "MnemonicToSeed on groups of (mnemonic, passphrase) spellings with equal NFKD forms: sentences of list words (quick: a seeded slice; thorough: every list word) in NFC/NFD/NFKC/NFKD/full-width with U+0020 and U+3000, crossed with passphrase spellings from compatibility/combining-heavy text; expected: one seed per group; one member of each group compared with Spec.seed. Pairs outside the stream-safe class are the known finding D4. Non-trivial = distinct (mnemonic, passphrase) spellings."
	group := func(class, m, p string) {
		base := c.seed(class, m, p)
		for fn, fm := range forms(m) {
			for _, sep := range []string{" ", "　"} {
				mv := strings.ReplaceAll(strings.ReplaceAll(fm, "　", " "), " ", sep)
				for pn, pv := range forms(p) {
					if norm.NFKD.String(mv) != norm.NFKD.String(m) || norm.NFKD.String(pv) != norm.NFKD.String(p) {
						continue
					}
					got := implSeed(mv, pv)
					r.count(class + ":pair")
					r.nontrivial(mv + "\x00" + pv)
					if got != base {
						op := fmt.Sprintf("seed %s %s vs seed %s %s", hx([]byte(m)), hx([]byte(p)), hx([]byte(mv)), hx([]byte(pv)))
						// D4 pairs: both normal forms under x/text differ although UAX#15 forms agree
						if norm.NFKD.String(mv) == norm.NFKD.String(m) && !streamSafeGuess(m+p) {
							r.known(Violation{Kind: "known:not-stream-safe", Class: class, Op: op, Impl: got, Spec: base})
							continue
						}
						r.violate(Violation{Kind: "property", Class: class + ":" + fn + "/" + pn, Op: op, Impl: got, Spec: base,
							Detail: "equal NFKD forms, different seeds"})
					}
				}
			}
		}
	}
	c.focusEntropies(func(li int, e []byte) {
		group("focus-word", strings.ReplaceAll(c.specSentence(int64(langVals[li]), e), "　", " "), "pw")
	})
	for li := range langVals {
		c.coverSentences(li, func(s string) { group("list-words", s, c.randUnicode(3)) })
	}
	nr := 10 * c.scale
	if !c.quick {
		nr = 300
	}
	for k := 0; k < nr; k++ {
		group("unicode-heavy", c.randUnicode(6), c.randUnicode(6))
	}
	// compatibility re-spellings (reverse decompositions) of both arguments
	nrev := 10 * c.scale
	if !c.quick {
		nrev = 300
	}
	for k := 0; k < nrev; k++ {
		li := c.rng.Intn(10)
		m := strings.ReplaceAll(c.specSentence(int64(langVals[li]), c.randBytes(entSizes[k%5])), "　", " ")
		p := norm.NFKD.String(c.randUnicode(5) + m[:c.rng.Intn(len(m)/2+1)])
		if !streamSafeGuess(m + p) {
			continue
		}
		base := implSeed(m, p)
		r.count("reverse-decomposition:pair")
		for t := 0; t < 3; t++ {
			mv, pv := c.respellByPreimages(m, 50), c.respellByPreimages(p, 70)
			if mv == "" {
				mv = m
			}
			if pv == "" {
				pv = p
			}
			if norm.NFKD.String(pv) != norm.NFKD.String(p) || norm.NFKD.String(mv) != norm.NFKD.String(m) {
				continue
			}
			got := implSeed(mv, pv)
			r.nontrivial(mv + "\x00" + pv)
			if got != base {
				r.violate(Violation{Kind: "property", Class: "reverse-decomposition", Op: fmt.Sprintf("seed %s %s vs seed %s %s", hx([]byte(m)), hx([]byte(p)), hx([]byte(mv)), hx([]byte(pv))),
					Impl: got, Spec: base, Detail: "equal NFKD forms (compatibility re-spelling), different seeds"})
			}
		}
	}
	buildPreimages()
	for k := 1; k <= 6; k++ {
		var hp, hh strings.Builder
		for i := 0; i < k; i++ {
			hp.WriteString(highExpansion[c.rng.Intn(len(highExpansion))])
			hh.WriteString(hanCompat[c.rng.Intn(len(hanCompat))])
		}
		group("high-expansion", "legal winner thank year wave sausage worth useful legal winner thank yellow", hp.String())
		group("han-compat-only", hh.String(), hh.String())
	}
	// Hangul in mixed forms (precomposed syllables with compatibility, half-width, circled jamo): every normal
	// form of the mixture must give the seed of the mixture
	for _, hs := range []string{"하하ㅋㅋ", "한글ᄒ", "가ﾡ나", "㉠가㈀", "ㅎㅏㄴ글", "a가ㅋb", "각ᆨㄱ"} {
		group("hangul-mixed-forms", hs, hs)
		group("hangul-mixed-forms", "legal winner thank year wave sausage worth useful legal winner thank yellow", hs)
	}
	ja := c.specSentence(int64(langVals[5]), c.randBytes(16))
	a := implSeed(ja, "メートルガバヴァぱばぐゞちぢ十人十色")
	b := implSeed(strings.ReplaceAll(ja, "　", " "), "メートルガバヴァぱばぐゞちぢ十人十色")
	r.count("japanese-separator")
	if a != b {
		r.violate(Violation{Kind: "property", Class: "japanese-separator", Op: "seed <ja sentence U+3000> vs <U+0020>", Impl: a, Spec: b})
	}
	// the D4 pair
	c.seed("nonstarter-run", "x", "a"+strings.Repeat("́", 31)+"̖")
	c.seed("nonstarter-run", "x", "a̖"+strings.Repeat("́", 31))
	r.sample("seeds of {NFC,NFD,NFKC,NFKD,full-width} x {U+0020,U+3000} spellings of one Spanish sentence x 4 passphrase spellings: all equal")
}

// streamSafeGuess: conservative local test used only to classify *pair* mismatches (the driver's
// exact predicate is used for single ops): true when no run of more than 30 marks/jamo can exist.
func streamSafeGuess(s string) bool {
	run, best := 0, 0
	for _, r := range norm.NFKD.String(s) {
		if r == 0x034F {
			return false
		}
		p := norm.NFKD.PropertiesString(string(r))
		if p.CCC() != 0 || !p.BoundaryBefore() {
			run++
			if run > best {
				best = run
			}
		} else {
			run = 0
		}
	}
	return best <= 30
}

// normaliserAssumptions ties the executable model of x/text's normaliser (Unicode/XText.lean, op
// `xnfkd`) to the real norm.NFKD.String: equal output on every string tried, stream-safe or not.
// The two facts of Props/Norm.lean are theorems about that model; they are also observed directly:
// agrees  — on stream-safe input norm.NFKD.String is the Lean NFKD over the pinned tables;
// overflow — otherwise its output contains 28 consecutive K-items.  Also every scalar value alone
// (thorough: all 1 112 064; quick: every 37th plus the dense blocks).
func (c *Ctx) normaliserAssumptions() {
	r := c.rep
	kitem := func(rn rune) bool {
		p := norm.NFKD.PropertiesString(string(rn))
		return p.CCC() != 0 || !p.BoundaryBefore()
	}
	check := func(class, s string) {
		m, sp := c.drv.Ask("xnfkd " + hx([]byte(s)))
		ss, sp := field(sp, "ss")
		got := norm.NFKD.String(s)
		r.count(class)
		// the executable model of x/text's algorithm must reproduce norm.NFKD.String on EVERY string
		if m != "ok "+hx([]byte(got)) {
			r.stale(Violation{Kind: "impl≠model", Class: class, Op: "xnfkd " + hx([]byte(s)), Impl: hx([]byte(got)), Model: m, Spec: sp,
				Detail: "x/text norm.NFKD.String differs from its Lean model Unicode.xnfkd (U+034F insertion included)"})
		}
		if ss == "1" {
			if sp != "ok "+hx([]byte(got)) {
				r.stale(Violation{Kind: "impl≠model", Class: class, Op: "xnfkd " + hx([]byte(s)), Impl: hx([]byte(got)), Model: sp,
					Detail: "fact `agrees`: x/text NFKD differs from UAX#15 NFKD (pinned Unicode 15 tables) on a stream-safe string"})
			}
			return
		}
		r.Classes["(not stream-safe)"]++
		run, best := 0, 0
		for _, rn := range got {
			if kitem(rn) {
				run++
				if run > best {
					best = run
				}
			} else {
				run = 0
			}
		}
		if best < 28 {
			r.stale(Violation{Kind: "impl≠model", Class: class, Op: "xnfkd " + hx([]byte(s)), Impl: hx([]byte(got)), Model: m,
				Detail: fmt.Sprintf("fact `overflow`: x/text output of a non-stream-safe string has no run of 28 K-items (longest %d)", best)})
		}
	}
	step := rune(37)
	if !c.quick {
		step = 1
	}
	var batch []string
	var batchRunes []rune
	flush := func() {
		if len(batch) == 0 {
			return
		}
		ms, _ := c.drv.AskMany(batch)
		for i, rn := range batchRunes {
			r.count("scalar-value")
			if ms[i] != "ok "+hx([]byte(norm.NFKD.String(string(rn)))) {
				r.stale(Violation{Kind: "impl≠model", Class: "scalar-value", Op: batch[i], Impl: hx([]byte(norm.NFKD.String(string(rn)))), Model: ms[i],
					Detail: fmt.Sprintf("NFKD of %U: x/text vs pinned tables", rn)})
			}
		}
		batch, batchRunes = nil, nil
	}
	for rn := rune(0); rn <= 0x10FFFF; rn += step {
		if rn >= 0xD800 && rn <= 0xDFFF {
			continue
		}
		if c.quick && rn > 0x3400 && rn < 0xA000 && rn%370 != 0 {
			continue
		}
		batch = append(batch, "nfkd "+hx([]byte(string(rn))))
		batchRunes = append(batchRunes, rn)
		if len(batch) == 4096 {
			flush()
		}
	}
	if c.quick {
		for _, rg := range [][2]rune{{0xA0, 0x36F}, {0x1E00, 0x2FFF}, {0x3000, 0x33FF}, {0xF900, 0xFFEF}, {0x1D400, 0x1D7FF}, {0x2F800, 0x2FA1D}} {
			for rn := rg[0]; rn <= rg[1]; rn++ {
				batch = append(batch, "nfkd "+hx([]byte(string(rn))))
				batchRunes = append(batchRunes, rn)
			}
		}
	}
	flush()
	n := 150 * c.scale
	if !c.quick {
		n = 20000
	}
	marks := []rune{0x301, 0x316, 0x300, 0x327, 0x323, 0x3099, 0x309A, 0x1161, 0x1175, 0x11A8, 0x11C2, 0x9BE, 0xDCF, 0x5B0, 0x5B1, 0xE38, 0xE48, 0xF71, 0xF72, 0xF74, 0x1D165, 0x1D16E, 0xFF9E}
	for k := 0; k < n; k++ {
		var sb strings.Builder
		for parts := 1 + c.rng.Intn(4); parts > 0; parts-- {
			sb.WriteString(c.randUnicode(2))
			for j := c.rng.Intn(40); j > 0; j-- {
				sb.WriteRune(marks[c.rng.Intn(len(marks))])
			}
		}
		check("random-mark-runs", sb.String())
	}
	for ln := 25; ln <= 36; ln++ {
		for _, mk := range []rune{0x301, 0x1161, 0x3099, 0x11A8} {
			check("boundary-run", "a"+strings.Repeat(string(mk), ln))
			check("boundary-run", "가"+strings.Repeat(string(mk), ln)+"̖")
		}
	}
	// runes whose decomposition begins with 2 or 3 K-items (U+0344, U+0F73, U+0F75, U+0F81, …): the
	// insertion point then comes after 28 or 29 K-items, not 30.  Every such rune, at every offset
	// around the limit, followed by marks that would reorder across the insertion point.
	multi, lead1, trail := multiLeadRunes()
	for _, rn := range multi {
		for ln := 26; ln <= 31; ln++ {
			check("multi-lead-at-limit", "a"+strings.Repeat("́", ln)+string(rn)+"̖b")
			check("multi-lead-at-limit", "가"+strings.Repeat("ᅡ", ln)+string(rn)+string(rn)+"̖́")
		}
	}
	// every rune (thorough; quick: a seeded slice) whose decomposition starts with exactly one K-item
	// or ends with K-items after a starter, right at the limit: exercises nLead / nTrail of every rune
	for i, rn := range append(lead1, trail...) {
		if c.quick && i%40 != int(r.Seed%40) {
			continue
		}
		check("rune-at-limit", "a"+strings.Repeat("́", 29)+string(rn)+"̖́b")
		check("rune-at-limit", string(rn)+strings.Repeat("́", 28)+string(rn)+strings.Repeat("̖", 3))
	}
	// mixed strings drawn from all of the above
	nm := 100 * c.scale
	if !c.quick {
		nm = 20000
	}
	pool := append(append([]rune{}, multi...), marks...)
	for k := 0; k < nm; k++ {
		var sb strings.Builder
		for parts := 1 + c.rng.Intn(3); parts > 0; parts-- {
			sb.WriteString(c.randUnicode(1))
			if c.rng.Intn(3) == 0 {
				sb.WriteRune(trail[c.rng.Intn(len(trail))])
			}
			for j := 20 + c.rng.Intn(25); j > 0; j-- {
				if c.rng.Intn(8) == 0 {
					sb.WriteRune(lead1[c.rng.Intn(len(lead1))])
				} else {
					sb.WriteRune(pool[c.rng.Intn(len(pool))])
				}
			}
		}
		check("random-long-runs", sb.String())
	}
}

var multiLeadCache [3][]rune

// multiLeadRunes classifies every scalar value by x/text's own per-rune NFKD: runes whose
// decomposition begins with two or more K-items; with exactly one; and runes that begin with a
// non-K item but end in K-items (é, Hangul syllables, …).
func multiLeadRunes() (multi, lead1, trail []rune) {
	if multiLeadCache[0] != nil {
		return multiLeadCache[0], multiLeadCache[1], multiLeadCache[2]
	}
	kitem := func(rn rune) bool {
		p := norm.NFKD.PropertiesString(string(rn))
		return p.CCC() != 0 || !p.BoundaryBefore()
	}
	for rn := rune(0); rn <= 0x10FFFF; rn++ {
		if rn >= 0xD800 && rn <= 0xDFFF {
			continue
		}
		d := []rune(norm.NFKD.String(string(rn)))
		lead := 0
		for _, x := range d {
			if !kitem(x) {
				break
			}
			lead++
		}
		switch {
		case lead >= 2:
			multi = append(multi, rn)
		case lead == 1:
			lead1 = append(lead1, rn)
		case len(d) > 1 && kitem(d[len(d)-1]):
			trail = append(trail, rn)
		}
	}
	multiLeadCache = [3][]rune{multi, lead1, trail}
	return
}

// coverSentences yields valid 24-word sentences of language li whose first 23 words are consecutive
// list indices, so that 90 sentences cover every word of the list (thorough); quick takes a seeded
// slice of them.
func (c *Ctx) coverSentences(li int, each func(s string)) {
	l := int64(langVals[li])
	for blk := 0; blk*23 < 2048; blk++ {
		if c.quick && (blk+li*7)%30 != int(c.rep.Seed%30) {
			continue
		}
		e := c.randBytes(32)
		for p := 0; p < 23; p++ {
			setGroup(e, p, (blk*23+p)%2048)
		}
		each(strings.ReplaceAll(c.specSentence(l, e), "　", " "))
	}
}

// weakHashCollisions: for each weak hash, one pair of distinct equal-length strings with the same hash value.
func weakHashCollisions(c *Ctx) [][2]string {
	castagnoli := crc32.MakeTable(crc32.Castagnoli)
	hashes := []func(b []byte) uint32{
		crc32.ChecksumIEEE,
		func(b []byte) uint32 { return crc32.Checksum(b, castagnoli) },
		adler32.Checksum,
		func(b []byte) uint32 { h := fnv.New32(); h.Write(b); return h.Sum32() },
		func(b []byte) uint32 { h := fnv.New32a(); h.Write(b); return h.Sum32() },
		func(b []byte) uint32 {
			var h uint32
			for _, x := range b {
				h = 31*h + uint32(x)
			}
			return h
		},
		func(b []byte) uint32 {
			var h uint32
			for _, x := range b {
				h += uint32(x)
			}
			return h
		},
	}
	out := [][2]string{}
	for _, h := range hashes {
		seen := map[uint32]string{}
		for i := 0; i < 400000; i++ {
			b := make([]byte, 24)
			for k := range b {
				b[k] = byte('a' + c.rng.Intn(26))
			}
			v := h(b)
			if o, ok := seen[v]; ok && o != string(b) {
				out = append(out, [2]string{o, string(b)})
				break
			}
			seen[v] = string(b)
		}
	}
	return out
}
