package main

// Anchors that are independent of both the implementation and the Lean specification: reference
// vectors of the BIP39 document (English, passphrase "TREZOR").  They guard against the
// specification and the implementation being wrong in the same way.  Each is checked twice: the
// implementation must produce it, and so must the specification (the driver's S answer).

import (
	"encoding/hex"
	"fmt"
	"strings"
)

var officialVectors = [][3]string{
	{"00000000000000000000000000000000", "abandon abandon abandon abandon abandon abandon abandon abandon abandon abandon abandon about",
		"c55257c360c07c72029aebc1b53c05ed0362ada38ead3e3e9efa3708e53495531f09a6987599d18264c1e1c92f2cf141630c7a3c4ab7c81b2f001698e7463b04"},
	{"7f7f7f7f7f7f7f7f7f7f7f7f7f7f7f7f", "legal winner thank year wave sausage worth useful legal winner thank yellow",
		"2e8905819b8723fe2c1d161860e5ee1830318dbf49a83bd451cfb8440c28bd6fa457fe1296106559a3c80937a1c1069be3a3a5bd381ee6260e8d9739fce1f607"},
	{"80808080808080808080808080808080", "letter advice cage absurd amount doctor acoustic avoid letter advice cage above",
		"d71de856f81a8acc65e6fc851a38d4d7ec216fd0796d0a6827a3ad6ed5511a30fa280f12eb2e47ed2ac03b5c462a0358d18d69fe4f985ec81778c1b370b652a8"},
	{"ffffffffffffffffffffffffffffffff", "zoo zoo zoo zoo zoo zoo zoo zoo zoo zoo zoo wrong",
		"ac27495480225222079d7be181583751e86f571027b0497b5b5d11218e0a8a13332572917f0f8e5a589620c6f15b11c61dee327651a14c34e18231052e48c069"},
	{"000000000000000000000000000000000000000000000000", strings.Repeat("abandon ", 17) + "agent",
		"035895f2f481b1b0f01fcf8c289c794660b289981a78f8106447707fdd9666ca06da5a9a565181599b79f53b844d8a71dd9f439c52a3d7b3e8a79c906ac845fa"},
	{"0000000000000000000000000000000000000000000000000000000000000000", strings.Repeat("abandon ", 23) + "art",
		"bda85446c68413707090a52022edd26a1c9462295029f2e60cd7c4f2bbd3097170af7a4d73245cafa9c3cca8d561a7c3de6f5d4a10be8ed2a5e608d68f92fcc8"},
	{"ffffffffffffffffffffffffffffffffffffffffffffffffffffffffffffffff", strings.Repeat("zoo ", 23) + "vote",
		"dd48c104698c30cfe2b6142103248622fb7bb0ff692eebb00089b32d22484e1613912f0a5b694407be899ffd31ed3992c456cdf60f5d4564b8ba3f05a69890ad"},
}

// officialEncodings: NewMnemonicByEntropy and the specification on the reference entropies.
func (c *Ctx) officialEncodings() {
	for _, v := range officialVectors {
		e, _ := hex.DecodeString(v[0])
		want := "ok " + hx([]byte(v[1]))
		impl, spec := c.enc("official-vector", int64(langVals[2]), e)
		if impl != want {
			c.rep.violate(Violation{Kind: "property", Class: "official-vector", Op: "enc 2 " + v[0], Impl: impl, Spec: want,
				Detail: "reference vector of the BIP39 document"})
		}
		if spec != want {
			c.rep.stale(Violation{Kind: "impl≠model", Class: "official-vector", Op: "enc 2 " + v[0], Impl: want, Spec: spec,
				Detail: "the Lean specification does not reproduce a reference vector of the BIP39 document"})
		}
	}
}

// officialSeeds: MnemonicToSeed(mnemonic, "TREZOR") and the specification on the reference mnemonics;
// and CheckMnemonic accepts each of them.
func (c *Ctx) officialSeeds() {
	for _, v := range officialVectors {
		want := "ok " + v[2]
		impl := c.seed("official-vector", v[1], "TREZOR")
		if impl != want {
			c.rep.violate(Violation{Kind: "property", Class: "official-vector", Op: fmt.Sprintf("seed %q TREZOR", v[1]), Impl: impl, Spec: want,
				Detail: "reference vector of the BIP39 document"})
		}
	}
}

func (c *Ctx) officialValid() {
	for _, v := range officialVectors {
		impl, _ := c.chk("official-vector", int64(langVals[2]), v[1])
		if impl != "ok" {
			c.rep.violate(Violation{Kind: "property", Class: "official-vector", Op: fmt.Sprintf("chk 2 %q", v[1]), Impl: impl, Spec: "ok",
				Detail: "reference mnemonic of the BIP39 document must validate"})
		}
	}
}
