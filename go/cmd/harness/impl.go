package main

import (
	"encoding/hex"
	"errors"
	"fmt"
	"strings"
	"sync"
	"time"

	"github.com/islishude/bip39"
)

var langNames = []string{"ChineseSimplified", "ChineseTraditional", "English", "French", "Italian", "Japanese", "Korean", "Spanish", "Czech", "Portuguese"}
var langVals = []bip39.Language{bip39.ChineseSimplified, bip39.ChineseTraditional, bip39.English, bip39.French, bip39.Italian,
	bip39.Japanese, bip39.Korean, bip39.Spanish, bip39.Czech, bip39.Portuguese}

func hx(b []byte) string {
	if len(b) == 0 {
		return "_"
	}
	return hex.EncodeToString(b)
}
func unhx(s string) []byte {
	if s == "_" {
		return nil
	}
	b, err := hex.DecodeString(s)
	if err != nil {
		panic(err)
	}
	return b
}

const opTimeout = 90 * time.Second // a real hang is unbounded; a loaded machine must not look like one

// guarded runs f under recover and a watchdog; a hang is reported as "hang".
func guarded(f func() string) (res string) {
	done := make(chan string, 1)
	go func() {
		defer func() {
			if r := recover(); r != nil {
				done <- "panic " + strings.ReplaceAll(fmt.Sprint(r), "\n", " ")
			}
		}()
		done <- f()
	}()
	select {
	case r := <-done:
		return r
	case <-time.After(opTimeout):
		return "hang"
	}
}

func errKind(err error) string {
	switch {
	case err == nil:
		return "ok"
	case errors.Is(err, bip39.ErrWordLen):
		return "err wordLen"
	case errors.Is(err, bip39.ErrEntropyLen):
		return "err entropyLen"
	case errors.Is(err, bip39.ErrChecksumIncorrect):
		return "err checksum"
	}
	return "err other " + hx([]byte(err.Error()))
}

func implEnc(l int64, e []byte) string {
	return guarded(func() string {
		// hand the implementation a slice with spare capacity inside a larger guarded buffer:
		// neither the entropy nor the bytes around it may change
		var buf, in []byte
		if e != nil {
			buf = make([]byte, len(e)+16)
			for i := range buf {
				buf[i] = 0xA5
			}
			copy(buf[8:], e)
			in = buf[8 : 8+len(e)]
		}
		keep := append([]byte(nil), buf...)
		s, err := bip39.NewMnemonicByEntropy(in, bip39.Language(l))
		if string(keep) != string(buf) {
			return "mutated-input " + hx(buf) + " was " + hx(keep)
		}
		if err != nil {
			if s != "" {
				return errKind(err) + " nonempty " + hx([]byte(s))
			}
			return errKind(err)
		}
		// strings are immutable in Go — unless one was conjured from a recycled buffer: the last few mnemonics
		// handed out are kept (the value the call returned, and a private copy taken at once) and re-read here
		keptMu.Lock()
		defer keptMu.Unlock()
		for _, k := range keptMnemonics {
			if k.live != k.copy {
				return "altered-earlier-result " + hx([]byte(k.copy)) + " now reads " + hx([]byte(k.live))
			}
		}
		keptMnemonics = append(keptMnemonics, keptString{live: s, copy: strings.Clone(s)})
		if len(keptMnemonics) > 8 {
			keptMnemonics = keptMnemonics[1:]
		}
		return "ok " + hx([]byte(s))
	})
}

type keptString struct{ live, copy string }

var keptMnemonics []keptString
var keptMu sync.Mutex

func implChk(l int64, s string) string {
	return guarded(func() string {
		err := bip39.CheckMnemonic(s, bip39.Language(l))
		v := bip39.IsMnemonicValid(s, bip39.Language(l))
		if v != (err == nil) {
			return fmt.Sprintf("isvalid-disagrees valid=%v err=%v", v, err)
		}
		return errKind(err)
	})
}

func implSeed(m, p string) string {
	return guarded(func() string {
		a := bip39.MnemonicToSeed(m, p)
		r := "ok " + hx(a)
		// freshness: scribbling on the result must not affect a second call
		for i := range a {
			a[i] ^= 0xff
		}
		b := bip39.MnemonicToSeed(m, p)
		if "ok "+hx(b) != r {
			return "not-fresh " + r + " then " + hx(b)
		}
		return r
	})
}

func implStr(i int64) string {
	return guarded(func() string { return "ok " + hx([]byte(bip39.Language(i).String())) })
}

// expectedUnknownMsg renders the message the model predicts for `err unknown <tok> <pos>`.
func expectedUnknownMsg(modelAns string) (string, bool) {
	f := strings.Fields(modelAns)
	if len(f) != 4 || f[0] != "err" || f[1] != "unknown" {
		return "", false
	}
	return fmt.Sprintf("word `%s` at `%s` not found in mnemonic mapping", string(unhx(f[2])), f[3]), true
}

// sameChk compares an implementation answer for `chk` with a model/spec answer.
func sameChk(impl, other string) bool {
	if impl == other {
		return true
	}
	if msg, ok := expectedUnknownMsg(other); ok {
		return impl == "err other "+hx([]byte(msg))
	}
	return false
}
