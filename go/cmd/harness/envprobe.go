package main

import (
	crand "crypto/rand"
	"fmt"
	"io"
	"os"
	"os/exec"
	"strings"

	"github.com/islishude/bip39"
)

// Environment probes.  The extractor lists the environment variables the package consults
// (VERIF_ENVVARS, from os.Getenv / os.LookupEnv calls in the source; empty on the unchanged tree).
// Behaviour hidden behind such a switch is invisible to every other class, so for each variable and
// a few plausible values the package is run in a fresh child process with the variable set:
//   - C07: the source consulted before any swap must still be crypto/rand.Reader itself, and default
//     mnemonics must be pairwise distinct without constant stretches of entropy;
//   - C13 (and the functional properties through it): a fixed history covering every exported function
//     must answer exactly as the specification says.

func envCandidates() (vars []string, values []string) {
	for _, v := range strings.Split(os.Getenv("VERIF_ENVVARS"), ",") {
		if v != "" && v != "*" {
			vars = append(vars, v)
		}
	}
	return vars, []string{"1", "true", "/dev/zero", "/dev/urandom", "debug", "0"}
}

// runEnvProbeChild: what the package does by default in THIS process' environment.
func runEnvProbeChild() {
	same := defaultSourceSeen && defaultSource == io.Reader(crand.Reader)
	fmt.Printf("source same=%v type=%T\n", same, defaultSource)
	for rep := 0; rep < 3; rep++ {
		for i, n := range wordCounts {
			s, err := bip39.NewMnemonic(int(n), langVals[(i+rep)%10])
			if err != nil {
				fmt.Printf("err %d %s\n", langVals[(i+rep)%10], err)
				continue
			}
			fmt.Printf("m %d %s\n", langVals[(i+rep)%10], hx([]byte(s)))
		}
	}
	fmt.Println("end")
}

func (c *Ctx) envProbesC07() {
	vars, values := envCandidates()
	self, _ := os.Executable()
	for _, v := range vars {
		for _, val := range values {
			class := "environment:" + v
			c.rep.count(class)
			cmd := exec.Command(self, "-child", "envprobe")
			cmd.Env = append(os.Environ(), v+"="+val)
			out, err := cmd.Output()
			op := fmt.Sprintf("process started with %s=%s: default randomness source and NewMnemonic", v, val)
			lines := strings.Split(strings.TrimRight(string(out), "\n"), "\n")
			if err != nil || len(lines) < 2 || lines[len(lines)-1] != "end" {
				c.rep.violate(Violation{Kind: "property", Class: class, Op: op, Impl: fmt.Sprintf("child failed: %v %.200s", err, string(out))})
				continue
			}
			if !strings.HasPrefix(lines[0], "source same=true") {
				c.rep.violate(Violation{Kind: "property", Class: class, Op: op, Impl: lines[0], Spec: "crypto/rand.Reader",
					Detail: "with this environment variable set the default randomness source is not crypto/rand.Reader"})
				continue
			}
			seen := map[string]bool{}
			for _, l := range lines[1 : len(lines)-1] {
				f := strings.Fields(l)
				if f[0] != "m" {
					c.rep.violate(Violation{Kind: "property", Class: class, Op: op, Impl: l, Detail: "NewMnemonic fails under this environment"})
					break
				}
				c.rep.Evaluations++
				if seen[f[2]] {
					c.rep.violate(Violation{Kind: "property", Class: class, Op: op, Impl: f[2], Detail: "repeated default mnemonic under this environment"})
					break
				}
				seen[f[2]] = true
				_, d := c.drv.Ask(fmt.Sprintf("dec %s %s", f[1], f[2]))
				if !strings.HasPrefix(d, "ok ") {
					c.rep.violate(Violation{Kind: "property", Class: class, Op: op, Impl: f[2], Spec: d, Detail: "default output does not decode"})
					break
				}
				e := unhx(d[3:])
				run := 1
				for i := 1; i < len(e); i++ {
					if e[i] == e[i-1] {
						run++
					} else {
						run = 1
					}
					if run >= 8 {
						c.rep.violate(Violation{Kind: "property", Class: class, Op: op, Impl: hx(e),
							Detail: fmt.Sprintf("entropy bytes %d..%d are all %#02x: not drawn from the operating system's CSPRNG", i-7, i, e[i])})
						break
					}
				}
			}
		}
	}
}

// envProbesHistory: the fixed history under each candidate environment (compared with the specification
// like every other history).
func (c *Ctx) envProbesHistory() {
	vars, values := envCandidates()
	if len(vars) == 0 {
		return
	}
	ops := []string{}
	for i := 0; i < 5; i++ {
		l := int64(langVals[(2*i+1)%10])
		e := c.randBytes(entSizes[i])
		ops = append(ops, fmt.Sprintf("enc %d %s", l, hx(e)))
		sent := strings.ReplaceAll(c.specSentence(l, e), "　", " ")
		ops = append(ops, fmt.Sprintf("chk %d %s", l, hx([]byte(sent))), fmt.Sprintf("chk %d %s", l, hx([]byte(sent+" x"))),
			fmt.Sprintf("seed %s %s", hx([]byte(sent)), hx([]byte("pass"))), fmt.Sprintf("newm %d %d %s:-", 12+3*i, l, hx(c.randBytes(16+4*i))))
	}
	ops = append(ops, "lstr 3", "lstr -1", "lstr 10", "enc 2 00", "newm 13 2 .")
	for _, v := range vars {
		for _, val := range values {
			childEnv = []string{v + "=" + val}
			c.runHistory("environment:"+v+"="+val, ops)
		}
	}
	childEnv = nil
}
