package main

import (
	"crypto/sha256"
	"fmt"
	"github.com/islishude/bip39"
	"sort"
	"strings"

	"golang.org/x/text/unicode/norm"
)

func outcomeKey(impl string) string {
	f := strings.Fields(impl)
	if len(f) >= 2 && (f[0] == "err" || f[0] == "panic") {
		return f[0] + " " + f[1]
	}
	if len(f) >= 1 {
		return f[0]
	}
	return impl
}

// chk runs one CheckMnemonic/IsMnemonicValid op.
func (c *Ctx) chk(class string, l int64, s string) (impl string, specOK bool) {
	if !fitsInt(l) {
		return "skipped: the Language value does not fit this build's int", false
	}
	op := fmt.Sprintf("chk %d %s", l, hx([]byte(s)))
	m, sp := c.drv.Ask(op)
	ss, sp := field(sp, "ss")
	ws, sp := field(sp, "ws")
	impl = implChk(l, s)
	c.rep.count(class)
	c.rep.outcome(outcomeKey(impl))
	if impl != "err wordLen" {
		c.rep.nontrivial(op)
	}
	specOK = sp == "ok"
	if impl == "ok" && ws != "1" {
		c.rep.violate(Violation{Kind: "impl≠spec", Class: class, Op: op, Impl: impl, Model: m, Spec: sp + " ws=" + ws,
			Detail: "accepted, but the whitespace-separated tokens of the NFKD form are not a valid BIP39 sentence"})
		return
	}
	if ss != "1" {
		// outside the stream-safe class x/text's NFKD is not UAX#15 NFKD (known finding D4); C10 shows such
		// strings are rejected in every spelling, so the only expectation is rejection.
		c.rep.Classes["(not stream-safe)"]++
		if impl == "ok" {
			c.rep.violate(Violation{Kind: "impl≠spec", Class: class, Op: op, Impl: impl, Model: m, Spec: sp, Detail: "non-stream-safe input accepted"})
		} else if !sameChk(impl, m) {
			// the model runs the executable model of x/text's stream-safe NFKD, so it must give the very
			// same error (kind, token, position) here too
			c.rep.stale(Violation{Kind: "impl≠model", Class: class, Op: op, Impl: impl, Model: m, Spec: sp, Detail: "non-stream-safe input: model (x/text's NFKD modelled) and implementation reject differently"})
		}
		return
	}
	if sp == "reject" {
		if impl == "ok" || strings.HasPrefix(impl, "panic") || impl == "hang" || strings.HasPrefix(impl, "isvalid") {
			c.rep.violate(Violation{Kind: "impl≠spec", Class: class, Op: op, Impl: impl, Model: m, Spec: sp, Detail: "unsupported language"})
		} else if !sameChk(impl, m) {
			c.rep.stale(Violation{Kind: "impl≠model", Class: class, Op: op, Impl: impl, Model: m, Spec: sp})
		}
		return
	}
	if !sameChk(impl, sp) {
		if impl == "ok" && ws == "1" {
			// the U+0020-separated tokens are not a valid sentence but the whitespace-separated ones are
			// (doubled/leading/trailing or exotic white space): C03 allows acceptance; it is only a
			// deviation from the model, not from the specification
			c.rep.stale(Violation{Kind: "impl≠model", Class: class, Op: op, Impl: impl, Model: m, Spec: sp + " ws=1",
				Detail: "accepted a sentence that is valid only when split at arbitrary white space"})
			return
		}
		c.rep.violate(Violation{Kind: "impl≠spec", Class: class, Op: op, Impl: impl, Model: m, Spec: sp})
	} else if !sameChk(impl, m) {
		c.rep.stale(Violation{Kind: "impl≠model", Class: class, Op: op, Impl: impl, Model: m, Spec: sp})
	}
	return
}

// specSentence asks the spec for the sentence of an entropy ("" if the spec has none).
func (c *Ctx) specSentence(l int64, e []byte) string {
	_, s := c.drv.Ask(fmt.Sprintf("enc %d %s", l, hx(e)))
	if !strings.HasPrefix(s, "ok ") {
		return ""
	}
	return string(unhx(s[3:]))
}

var wordCache = map[int64][]string{}

// canonWords returns the canonical list of a supported language (from the spec side of the driver).
func (c *Ctx) canonWords(l int64) []string {
	if w, ok := wordCache[l]; ok {
		return w
	}
	ops := make([]string, 2048)
	for i := range ops {
		ops[i] = fmt.Sprintf("word %d %d", l, i)
	}
	_, ss := c.drv.AskMany(ops)
	w := make([]string, 2048)
	for i, s := range ss {
		if strings.HasPrefix(s, "ok ") {
			w[i] = string(unhx(s[3:]))
		}
	}
	wordCache[l] = w
	return w
}

func sepOf(li int) string {
	if langNames[li] == "Japanese" {
		return "　"
	}
	return " "
}

// ---- C02 -----------------------------------------------------------------------------------

func init() { props["C02"] = propC02 }

func propC02(c *Ctx) {
	r := c.rep
	c.officialValid()
	c.focusEntropies(func(li int, e []byte) {
		l := int64(langVals[li])
		c.chk("focus-word", l, c.specSentence(l, e))
		if own := implEnc(l, e); strings.HasPrefix(own, "ok ") {
			c.chk("focus-word:own-output", l, string(unhx(own[3:])))
		}
	})
	r.Rule = "for entropies of the directed classes (5 sizes x 10 languages, leading-zero/all-zero/all-ones/single-bit/random, every list word at sampled positions) the spec sentence and the implementation's own NewMnemonicByEntropy output are fed to CheckMnemonic and IsMnemonicValid; expected: accepted (Spec.validStrict), identical to the model. Non-trivial = distinct chk ops whose answer is not the word-count rejection."
	for li := range langVals {
		l := int64(langVals[li])
		for _, n := range entSizes {
			c.entropyClasses(n, func(class string, e []byte) {
				s := c.specSentence(l, e)
				impl, ok := c.chk("gen:"+class, l, s)
				if !ok {
					r.note("spec does not accept its own sentence for %s %s", langNames[li], hx(e))
				}
				if len(r.Samples) < 5 && class == "leading-zero-bytes" {
					r.sample(fmt.Sprintf("chk %s %q -> %s", langNames[li], s, impl))
				}
				own := implEnc(l, e)
				if strings.HasPrefix(own, "ok ") && string(unhx(own[3:])) != s {
					c.chk("own-output:"+class, l, string(unhx(own[3:])))
					if implChk(l, string(unhx(own[3:]))) != "ok" {
						r.violate(Violation{Kind: "property", Class: "own-output", Op: fmt.Sprintf("enc %d %s then chk", l, hx(e)), Impl: own,
							Detail: "the implementation rejects a mnemonic it generated"})
					}
				}
				// NFKD-normalised space-joined form (what a wallet stores)
				c.chk("gen-nfkd:"+class, l, norm.NFKD.String(s))
			})
		}
	}
	// the same sentence asked under OTHER languages first (where it is invalid), then under its own, then
	// again under another: an answer remembered under a key that forgets the language is returned for the
	// wrong one.  Also sentences valid under two lists at once (the two Chinese lists share 1275 words).
	for li := range langVals {
		l := int64(langVals[li])
		for _, n := range entSizes {
			s := strings.ReplaceAll(c.specSentence(l, c.randBytes(n)), "　", " ")
			o1 := int64(langVals[(li+1+c.rng.Intn(9))%10])
			o2 := int64(langVals[(li+1+c.rng.Intn(9))%10])
			c.chk("cross-language:other-first", o1, s)
			c.chk("cross-language:own", l, s)
			c.chk("cross-language:other-after", o2, s)
			c.chk("cross-language:own-again", l, s)
			c.chk("cross-language:unsupported", -1, s)
			c.chk("cross-language:own-again", l, s)
		}
	}
	// every word of every list at some position (thorough: all; quick: a slice)
	step := 41
	if !c.quick {
		step = 1
	}
	for li := range langVals {
		l := int64(langVals[li])
		for v := (li * 5) % step; v < 2048; v += step {
			n := entSizes[(v+li)%5]
			p := (v / step) % (n*3/4 - 1)
			e := c.randBytes(n)
			setGroup(e, p, v)
			c.chk("word-at-position", l, c.specSentence(l, e))
		}
		for _, n := range entSizes {
			for k := 0; k < 3; k++ {
				v := c.rng.Intn(2048)
				if e := c.entropyForLast(n, v); e != nil {
					c.chk("word-at-last-position", l, c.specSentence(l, e))
				}
			}
		}
	}
	// sentences made of the longest words of each list (by code points after NFKD), at 21 and 24 words:
	// a length-based shortcut or buffer bound shows here and nowhere in random sampling
	for li := range langVals {
		l := int64(langVals[li])
		words := c.canonWords(l)
		idx := make([]int, 2048)
		for i := range idx {
			idx[i] = i
		}
		sort.SliceStable(idx, func(a, b int) bool { return len([]rune(words[idx[a]])) > len([]rune(words[idx[b]])) })
		for _, n := range []int{28, 32, 16} {
			for rep := 0; rep < 2; rep++ {
				e := make([]byte, n)
				for p := 0; p < n*3/4; p++ {
					setGroup(e, p, idx[c.rng.Intn(6)])
				}
				s := c.specSentence(l, e)
				c.chk("longest-words", l, s)
				c.chk("longest-words-nfc", l, norm.NFC.String(s))
			}
		}
	}
	// trailing first-words (all-zero tail incl. checksum): needs search
	for _, n := range entSizes {
		for try := 0; try < 400000; try++ {
			e := c.randBytes(n)
			for i := n - 3; i < n; i++ {
				e[i] = 0
			}
			if implEnc(int64(langVals[2]), e) == "" {
				break
			}
			s := c.specSentence(int64(langVals[2]), e)
			if strings.HasSuffix(s, " abandon") {
				for li := range langVals {
					c.chk("trailing-index-0-words", int64(langVals[li]), c.specSentence(int64(langVals[li]), e))
				}
				break
			}
		}
	}
}

// ---- C03 / C15 -----------------------------------------------------------------------------

func init() { props["C03"] = propC03; props["C15"] = propC15 }

func (c *Ctx) lastWordSweep(li, n int) {
	l := int64(langVals[li])
	words := c.canonWords(l)
	e := c.randBytes(n)
	if c.rng.Intn(2) == 0 {
		e[0] = 0 // first-byte-zero entropies are where a minimal-bytes validator over-accepts
	}
	toks := strings.Split(c.specSentence(l, e), sepOf(li))
	pre := strings.Join(toks[:len(toks)-1], " ")
	accepted := 0
	for _, w := range words {
		impl, _ := c.chk("last-word-sweep", l, pre+" "+w)
		if impl == "ok" {
			accepted++
		}
	}
	want := 1 << (11 - n/4)
	if accepted != want {
		c.rep.violate(Violation{Kind: "property", Class: "last-word-sweep", Op: fmt.Sprintf("chk %d %s + each of 2048 words", l, hx([]byte(pre))),
			Impl: fmt.Sprintf("%d accepted", accepted), Spec: fmt.Sprintf("%d", want), Detail: "number of accepted final words must be 2^(11-n/3)"})
	}
	c.rep.sample(fmt.Sprintf("last-word sweep %s %d words: %d of 2048 accepted (expected %d)", langNames[li], len(toks), accepted, want))
}

// affixSiblings: list words one of which is a proper suffix or prefix of another ("affair"/"air",
// "espresso"/"esso", "밑바닥"/"바닥").  A validator that compares words by a tail or head match, or that
// re-encodes and compares text instead of bits, over-accepts exactly when such a sibling stands where the
// longer (or shorter) word belongs — most dangerously in the last position when both lie in the same
// checksum block, where everything else about the sentence stays consistent.  For every such pair (all
// same-block pairs, a budget of the others) a VALID sentence ending in one word is built (rejection
// sampling on the checksum) and validated with the other word in its place, at the end and in the middle.
var affixPairs = map[int64][][2]int{}

func (c *Ctx) affixSiblings(li, n int) {
	l := int64(langVals[li])
	words := c.canonWords(l)
	pairs, ok := affixPairs[l]
	if !ok {
		idx := map[string]int{}
		for i, w := range words {
			idx[w] = i
		}
		for i, w := range words {
			rs := []rune(w)
			for k := 1; k < len(rs); k++ {
				if j, ok := idx[string(rs[k:])]; ok {
					pairs = append(pairs, [2]int{i, j})
				}
				if j, ok := idx[string(rs[:k])]; ok {
					pairs = append(pairs, [2]int{i, j})
				}
			}
		}
		affixPairs[l] = pairs
	}
	if len(pairs) == 0 {
		return
	}
	cs := n / 4
	var same, other [][2]int
	for _, p := range pairs {
		if p[0]>>cs == p[1]>>cs {
			same = append(same, p)
		} else {
			other = append(other, p)
		}
	}
	c.rng.Shuffle(len(other), func(i, j int) { other[i], other[j] = other[j], other[i] })
	budget := 4 * c.scale
	if !c.quick {
		budget = 120
	}
	if len(other) > budget {
		other = other[:budget]
	}
	sep := sepOf(li)
	for _, p := range append(same, other...) {
		for dir := 0; dir < 2; dir++ {
			have, put := p[dir], p[1-dir]
			e := c.entropyForLast(n, have)
			if e == nil {
				continue
			}
			toks := strings.Split(c.specSentence(l, e), sep)
			if len(toks) < 12 || toks[len(toks)-1] != words[have] {
				continue
			}
			toks[len(toks)-1] = words[put]
			c.chk("affix-sibling:last-word", l, strings.Join(toks, " "))
			// and in the middle of a valid sentence
			e2 := c.randBytes(n)
			pos := 1 + c.rng.Intn(len(toks)-2)
			setGroup(e2, pos, have)
			t2 := strings.Split(c.specSentence(l, e2), sep)
			if len(t2) == len(toks) && t2[pos] == words[have] {
				t2[pos] = words[put]
				c.chk("affix-sibling:middle-word", l, strings.Join(t2, " "))
			}
		}
	}
}

func (c *Ctx) damageClasses(li, n int) {
	l := int64(langVals[li])
	words := c.canonWords(l)
	e := c.randBytes(n)
	toks := strings.Split(c.specSentence(l, e), sepOf(li))
	join := func(t []string) string { return strings.Join(t, " ") }
	cp := func() []string { return append([]string(nil), toks...) }
	// substitutions at one position
	p := c.rng.Intn(len(toks))
	nsub := 48
	if !c.quick {
		nsub = 2047
	}
	for k := 0; k < nsub; k++ {
		t := cp()
		if c.quick {
			t[p] = words[c.rng.Intn(2048)]
		} else {
			t[p] = words[k]
		}
		c.chk("substitution", l, join(t))
	}
	// transpositions
	for k := 0; k < 6; k++ {
		t := cp()
		i, j := c.rng.Intn(len(t)), c.rng.Intn(len(t))
		t[i], t[j] = t[j], t[i]
		c.chk("transposition", l, join(t))
	}
	// word-count changes
	for d := 1; d <= 12; d++ {
		if d < len(toks) {
			c.chk("count-minus", l, join(toks[:len(toks)-d]))
		}
		t := cp()
		for k := 0; k < d; k++ {
			t = append(t, words[c.rng.Intn(2048)])
		}
		c.chk("count-plus", l, join(t))
	}
	// words of other lists
	for k := 0; k < 6; k++ {
		oli := c.rng.Intn(len(langVals))
		ow := c.canonWords(int64(langVals[oli]))
		t := cp()
		t[c.rng.Intn(len(t))] = ow[c.rng.Intn(2048)]
		c.chk("foreign-word", l, join(t))
		// the whole sentence under another language
		c.chk("other-language", int64(langVals[oli]), join(toks))
	}
	// damaged words
	t := cp()
	t[p] = strings.ToUpper(t[p])
	c.chk("damage-case", l, join(t))
	t = cp()
	t[p] = t[p] + "s"
	c.chk("damage-affix", l, join(t))
	t = cp()
	t[p] = "x" + t[p]
	c.chk("damage-affix", l, join(t))
	t = cp()
	t[p] = ""
	c.chk("empty-token", l, join(t))
	t = cp()
	t[p] = words[0]
	t[len(t)-1] = ""
	c.chk("empty-token", l, join(t))
	// the longest words of the list (by bytes and by code points) with a suffix/prefix/infix added:
	// any clipping or length-keyed shortcut in the membership test shows here
	{
		idx := make([]int, 2048)
		for i := range idx {
			idx[i] = i
		}
		sort.SliceStable(idx, func(a, b int) bool { return len(words[idx[a]]) > len(words[idx[b]]) })
		for k := 0; k < 8; k++ {
			e2 := c.randBytes(n)
			pos := c.rng.Intn(len(toks) - 1)
			setGroup(e2, pos, idx[k])
			t2 := strings.Split(c.specSentence(l, e2), sepOf(li))
			for _, junk := range []string{"x", "!!", "가", "́", "-not-a-word"} {
				t3 := append([]string(nil), t2...)
				t3[pos] = t2[pos] + junk
				c.chk("longest-word+suffix", l, join(t3))
			}
			t3 := append([]string(nil), t2...)
			t3[pos] = "x" + t2[pos]
			c.chk("longest-word+prefix", l, join(t3))
			t3[pos] = t2[pos][:len(t2[pos])/2] + "‍" + t2[pos][len(t2[pos])/2:]
			c.chk("longest-word+infix", l, join(t3))
		}
	}
	// separators
	s := join(toks)
	// tolerance features a validator must NOT have: every token of a VALID sentence shortened to its first
	// 3/4/5 letters (a unique-prefix lookup accepts), upper-cased / title-cased (a case-folding lookup accepts —
	// BIP39 lists are lower case), with punctuation or invisible characters attached that a trimming lookup
	// would drop; one token at a time and all tokens at once
	respell := []func(w string) string{
		func(w string) string { r := []rune(w); return string(r[:min(3, len(r))]) },
		func(w string) string { r := []rune(w); return string(r[:min(4, len(r))]) },
		func(w string) string { r := []rune(w); return string(r[:min(5, len(r))]) },
		func(w string) string { r := []rune(w); return string(r[:len(r)-1]) },
		strings.ToUpper,
		func(w string) string { r := []rune(w); return strings.ToUpper(string(r[:1])) + string(r[1:]) },
		func(w string) string { return w + "." },
		func(w string) string { return w + "," },
		func(w string) string { return "\"" + w + "\"" },
		func(w string) string { return w + "\u200b" },
		func(w string) string { return "\ufeff" + w },
		func(w string) string { return w + "\u00ad" },
		func(w string) string { return w + "s" },
	}
	for ri, f := range respell {
		if c.quick && (ri+li+n/4)%3 != int(c.rep.Seed%3) {
			continue
		}
		one := append([]string(nil), toks...)
		p := c.rng.Intn(len(one))
		one[p] = f(one[p])
		c.chk("tolerance:one-token", l, join(one))
		all := make([]string, len(toks))
		for i, w := range toks {
			all[i] = f(w)
		}
		c.chk("tolerance:all-tokens", l, join(all))
	}
	// invisible characters at the very ends of an otherwise valid sentence (a byte order mark from a text file,
	// zero-width and directional marks from copy and paste): not White_Space, so the token they stick to is unknown
	for _, inv := range []string{"\ufeff", "\u200b", "\u2060", "\u200e", "\u00ad", "\u200d", "\u180e", "\x00"} {
		c.chk("invisible-at-ends", l, inv+s)
		c.chk("invisible-at-ends", l, s+inv)
	}
	c.chk("sep-leading", l, " "+s)
	c.chk("sep-trailing", l, s+" ")
	c.chk("sep-doubled", l, strings.Replace(s, " ", "  ", 1))
	c.chk("sep-tab", l, strings.Replace(s, " ", "\t", 1))
	c.chk("sep-newline", l, s+"\n")
	c.chk("sep-nbsp", l, strings.Replace(s, " ", " ", 1))
	c.chk("sep-ideographic", l, strings.ReplaceAll(s, " ", "　"))
	c.chk("sep-emspace", l, strings.Replace(s, " ", " ", 1))
	c.chk("sep-zwsp", l, strings.Replace(s, " ", "​", 1))
	// drop a first-list word but keep its separator (empty slot must not read as index 0)
	z := make([]byte, n)
	zt := strings.Split(c.specSentence(l, z), sepOf(li))
	c.chk("empty-slot-for-index-0", l, " "+strings.Join(zt[1:], " "))
	c.chk("empty-slot-for-index-0", l, strings.Join(zt[:len(zt)-2], " ")+"  "+zt[len(zt)-1])
	c.chk("all-first-word", l, strings.TrimSpace(strings.Repeat(words[0]+" ", len(toks))))
	c.chk("all-last-word", l, strings.TrimSpace(strings.Repeat(words[2047]+" ", len(toks))))
	// unsupported languages
	for _, ul := range []int64{-1, 10, 11, 100, 10000, -9223372036854775808, 9223372036854775807} {
		c.chk("unsupported-language", ul, join(toks))
	}
	// raw bytes
	for k := 0; k < 8; k++ {
		c.chk("random-bytes", l, string(c.randBytes(c.rng.Intn(200))))
	}
	b := []byte(s)
	b[c.rng.Intn(len(b))] = 0xff
	c.chk("invalid-utf8", l, string(b))
	c.chk("empty", l, "")
}

func propC03(c *Ctx) {
	r := c.rep
	c.focusEntropies(func(li int, e []byte) {
		l := int64(langVals[li])
		c.chk("focus-word", l, c.specSentence(l, e))
		if own := implEnc(l, e); strings.HasPrefix(own, "ok ") {
			c.chk("focus-word:own-output", l, string(unhx(own[3:])))
		}
	})
	r.Rule = "chk ops (CheckMnemonic + IsMnemonicValid): for random and first-byte-zero prefixes ALL 2048 candidate last words (accept count must be 2^(11-n/3), accept set = spec), substitutions, transpositions, +-1..12 words, foreign-list words, damaged words, empty tokens, every separator variant, unsupported languages, raw/invalid bytes; verdict and error kind compared with the specification's classification over the canonical lists and with the model; every accept must satisfy Spec.validWs. Non-trivial = distinct ops not rejected by the count gate."
	combos := [][2]int{}
	for li := range langVals {
		for ni := range entSizes {
			combos = append(combos, [2]int{li, entSizes[ni]})
		}
	}
	c.rng.Shuffle(len(combos), func(i, j int) { combos[i], combos[j] = combos[j], combos[i] })
	nSweep := 5 * c.scale
	if !c.quick {
		nSweep = len(combos)
	}
	// make sure every width is swept even in quick
	seenN := map[int]bool{}
	k := 0
	for _, cb := range combos {
		if k >= nSweep && (c.quick && seenN[cb[1]]) {
			continue
		}
		if k >= nSweep && !c.quick {
			break
		}
		seenN[cb[1]] = true
		c.lastWordSweep(cb[0], cb[1])
		k++
	}
	if !c.quick || c.scale > 1 {
		c.tokenFlood(6000000)
	}
	for li := range langVals {
		for _, n := range entSizes {
			c.affixSiblings(li, n)
			if c.quick && (li+n/4)%5 != int(r.Seed%5) {
				continue
			}
			c.damageClasses(li, n)
		}
	}
}

// separatorVariantDefects: single-defect sentences (one word too many / too few, an unknown token, a
// wrong checksum, none) with compatibility spaces as separators — every code point whose NFKD form is
// U+0020, one at a time; one separator replaced, or all of them.  The outcome must be the one the
// NFKD-normalised sentence gets: a validator that counts or splits before it normalises sees another
// number of tokens (wrong error kind, or an index computed from the wrong count).
func (c *Ctx) separatorVariantDefects(li, n int, toks, words []string) {
	l := int64(langVals[li])
	buildPreimages()
	for si, sp := range nfkdSpaces {
		if c.quick && (si+li+n/4)%7 != int(c.rep.Seed%7) {
			continue
		}
		with := func(t []string, all bool) string {
			if all {
				return strings.Join(t, sp)
			}
			k := 1 + c.rng.Intn(len(t)-1)
			return strings.Join(t[:k], " ") + sp + strings.Join(t[k:], " ")
		}
		for _, all := range []bool{false, true} {
			extra := append(append([]string(nil), toks...), words[c.rng.Intn(2048)])
			c.chk("separator-variant:count-only", l, with(extra, all))
			c.chk("separator-variant:count-only", l, with(toks[:len(toks)-1], all))
			// a legal number of U+0020-separated tokens with surplus words attached by the variant
			c.chk("separator-variant:count-only", l, strings.Join(toks, " ")+sp+words[c.rng.Intn(2048)])
			c.chk("separator-variant:count-only", l, strings.Join(toks, " ")+sp+words[c.rng.Intn(2048)]+sp+words[c.rng.Intn(2048)]+sp+words[c.rng.Intn(2048)])
			u := append([]string(nil), toks...)
			u[c.rng.Intn(len(u))] = "qqzz"
			c.chk("separator-variant:unknown-only", l, with(u, all))
			w := append([]string(nil), toks...)
			w[0], w[len(w)-1] = w[len(w)-1], w[0]
			c.chk("separator-variant:checksum-only", l, with(w, all))
			c.chk("separator-variant:valid", l, with(toks, all))
		}
	}
}

// tokenFlood (search phase and thorough tier only): millions of random short tokens, each as the first token of
// an otherwise plausible 12-word English sentence, straight into CheckMnemonic.  The answer must be the
// unknown-word error naming that token at position 0.  A lookup that compares fingerprints instead of words
// (a 32-bit hash of the token) accepts a random token with probability 2048/2^32 per call, so a few million
// calls turn "no failing input" into a replay; every hit is confirmed through the ordinary chk comparison.
func (c *Ctx) tokenFlood(n int) {
	tail := strings.Repeat(" abandon", 11)
	letters := "abcdefghijklmnopqrstuvwxyz"
	buf := make([]byte, 0, 8)
	hits := 0
	for i := 0; i < n && hits < 3; i++ {
		buf = buf[:0]
		for k, ln := 0, 5+c.rng.Intn(3); k < ln; k++ {
			buf = append(buf, letters[c.rng.Intn(26)])
		}
		tok := string(buf)
		err := bip39.CheckMnemonic(tok+tail, bip39.English)
		if err != nil && strings.Contains(err.Error(), "`"+tok+"` at `0`") {
			continue
		}
		// a list word by chance, or a wrong answer: let the specification decide
		impl, _ := c.chk("random-token-flood", int64(langVals[2]), tok+tail)
		if !strings.HasPrefix(impl, "err other") {
			hits++
		}
	}
	c.rep.Evaluations += n
	c.rep.note("random-token flood: %d random first tokens through CheckMnemonic, %d answers other than the unknown-word error (each compared with the specification)", n, hits)
}

func propC15(c *Ctx) {
	r := c.rep
	r.Rule = "single-defect sentences over all languages and word counts: wrong count only (each count 1..36 of list words), unknown token only (each position, acceptable counts), bad checksum only; errors.Is against the three exported sentinels and the exact message text compared with the model (`err unknown <token> <pos>`) and the specification's classification. Non-trivial = distinct ops."
	for li := range langVals {
		l := int64(langVals[li])
		words := c.canonWords(l)
		for _, n := range entSizes {
			e := c.randBytes(n)
			toks := strings.Split(c.specSentence(l, e), sepOf(li))
			// count defect only: prefixes/extensions of list words
			for cnt := 1; cnt <= 36; cnt++ {
				if c.quick && cnt%3 == 0 && cnt >= 12 && cnt <= 24 {
					continue
				}
				t := []string{}
				for k := 0; k < cnt; k++ {
					t = append(t, words[c.rng.Intn(2048)])
				}
				impl, _ := c.chk("count-only", l, strings.Join(t, " "))
				bad := cnt < 12 || cnt > 24 || cnt%3 != 0
				if bad && impl != "err wordLen" {
					r.violate(Violation{Kind: "property", Class: "count-only", Op: fmt.Sprintf("chk %d <%d list words>", l, cnt), Impl: impl, Detail: "want ErrWordLen"})
				}
			}
			// unknown token only, every position
			for p := range toks {
				if c.quick && (p+li)%4 != 0 {
					continue
				}
				t := append([]string(nil), toks...)
				t[p] = "zz" + t[p] + "q"
				impl, _ := c.chk("unknown-only", l, strings.Join(t, " "))
				if strings.HasPrefix(impl, "err other ") {
					msg := string(unhx(strings.TrimPrefix(impl, "err other ")))
					if !strings.Contains(msg, t[p]) {
						r.violate(Violation{Kind: "property", Class: "unknown-only", Op: fmt.Sprintf("chk %d %s", l, hx([]byte(strings.Join(t, " ")))), Impl: msg,
							Detail: "message must name the unknown token " + t[p]})
					}
				} else {
					r.violate(Violation{Kind: "property", Class: "unknown-only", Op: fmt.Sprintf("chk %d %s", l, hx([]byte(strings.Join(t, " ")))), Impl: impl,
						Detail: "want a non-sentinel error naming the unknown token"})
				}
			}
			// unknown token that is a word of another list (e.g. Traditional in a Simplified sentence)
			for k := 0; k < 3; k++ {
				oli := (li + 1 + c.rng.Intn(9)) % 10
				if langNames[li] == "ChineseSimplified" && k == 0 {
					oli = 1
				}
				if langNames[li] == "ChineseTraditional" && k == 0 {
					oli = 0
				}
				ow := c.canonWords(int64(langVals[oli]))
				inList := map[string]bool{}
				for _, w := range words {
					inList[w] = true
				}
				for try := 0; try < 50; try++ {
					w := ow[c.rng.Intn(2048)]
					if inList[w] {
						continue
					}
					t := append([]string(nil), toks...)
					p := c.rng.Intn(len(t))
					t[p] = w
					impl, _ := c.chk("unknown-only:word-of-another-list", l, strings.Join(t, " "))
					if !strings.HasPrefix(impl, "err other ") || !strings.Contains(string(unhx(strings.TrimPrefix(impl, "err other "))), w) {
						r.violate(Violation{Kind: "property", Class: "unknown-only:word-of-another-list", Op: fmt.Sprintf("chk %d %s", l, hx([]byte(strings.Join(t, " ")))), Impl: impl,
							Detail: "want a non-sentinel error naming the unknown token " + w})
					}
					break
				}
			}
			// odd unknown tokens: percent signs, backticks, invalid UTF-8, very long
			for _, odd := range []string{"%s", "%d%%", "`", "a`b", "\xff", "x\x00y", strings.Repeat("é", 300), strings.Repeat("z", 70000)} {
				t := append([]string(nil), toks...)
				p := c.rng.Intn(len(t))
				t[p] = odd
				impl, _ := c.chk("unknown-only:odd-token", l, strings.Join(t, " "))
				if !strings.HasPrefix(impl, "err other ") {
					r.violate(Violation{Kind: "property", Class: "unknown-only:odd-token", Op: fmt.Sprintf("chk %d <sentence with token %.20q at %d>", l, odd, p), Impl: impl,
						Detail: "want a non-sentinel error naming the unknown token"})
				}
			}
			if n == 16 {
				// a single enormous unknown token (beyond the line protocol: implementation only)
				for _, size := range []int{1 << 20, 3 << 20} {
					t := append([]string(nil), toks...)
					p := c.rng.Intn(len(t))
					t[p] = strings.Repeat("q", size)
					impl := implChk(l, strings.Join(t, " "))
					r.count("unknown-only:huge-token")
					ok := strings.HasPrefix(impl, "err other ")
					if ok {
						msg := string(unhx(strings.TrimPrefix(impl, "err other ")))
						ok = strings.Contains(msg, t[p])
					}
					if !ok {
						r.violate(Violation{Kind: "property", Class: "unknown-only:huge-token", Op: fmt.Sprintf("chk %d <%d-word sentence whose token %d is 'q'×%d>", l, len(t), p, size), Impl: trunc(impl, 200),
							Detail: "acceptable count, one unknown token: want a non-sentinel error naming it"})
					}
				}
			}
			// checksum defect only
			for k := 0; k < 4; k++ {
				t := append([]string(nil), toks...)
				p := c.rng.Intn(len(t))
				w := words[c.rng.Intn(2048)]
				if w == t[p] {
					continue
				}
				t[p] = w
				impl, ok := c.chk("checksum-only", l, strings.Join(t, " "))
				if !ok && impl != "err checksum" {
					r.violate(Violation{Kind: "property", Class: "checksum-only", Op: fmt.Sprintf("chk %d %s", l, hx([]byte(strings.Join(t, " ")))), Impl: impl, Detail: "want ErrChecksumIncorrect"})
				}
			}
			c.separatorVariantDefects(li, n, toks, words)
			impl, _ := c.chk("valid", l, strings.Join(toks, " "))
			if impl != "ok" {
				r.violate(Violation{Kind: "property", Class: "valid", Op: fmt.Sprintf("chk %d %s", l, hx([]byte(strings.Join(toks, " ")))), Impl: impl, Detail: "valid sentence must give nil"})
			}
		}
	}
	if !c.quick || c.scale > 1 {
		c.tokenFlood(6000000)
	}
	if len(r.Samples) == 0 {
		r.sample("chk English '<11 list words>' -> err wordLen; chk English 'zz<word>q ...' -> err other 'word `zz..q` at `p` not found in mnemonic mapping'")
	}
}

// ---- C05 -----------------------------------------------------------------------------------

func init() { props["C05"] = propC05 }

func propC05(c *Ctx) {
	r := c.rep
	r.Rule = "enc then independent decode (Spec.decode: split on the language separator, plain search in the canonical list, concatenate 11-bit groups, drop the checksum bits) must return the entropy; every single-bit flip of sampled entropies must change the mnemonic. Non-trivial = distinct (language, entropy) pairs decoded."
	dec := func(class string, li int, e []byte) string {
		l := int64(langVals[li])
		impl := implEnc(l, e)
		r.count(class)
		if !strings.HasPrefix(impl, "ok ") {
			r.violate(Violation{Kind: "property", Class: class, Op: fmt.Sprintf("enc %d %s", l, hx(e)), Impl: impl, Detail: "valid entropy rejected"})
			return ""
		}
		op := fmt.Sprintf("dec %d %s", l, impl[3:])
		_, s := c.drv.Ask(op)
		r.nontrivial(op)
		if s != "ok "+hx(e) {
			r.violate(Violation{Kind: "impl≠spec", Class: class, Op: fmt.Sprintf("enc %d %s", l, hx(e)), Impl: impl, Spec: "decode = " + s,
				Detail: "standard decoding of the returned mnemonic does not give back the entropy"})
		}
		return impl
	}
	c.focusEntropies(func(li int, e []byte) { dec("focus-word", li, e) })
	for li := range langVals {
		for _, n := range entSizes {
			c.entropyClasses(n, func(class string, e []byte) { dec(class, li, e) })
			c.extremeWordEntropies(li, n, func(class string, e []byte) { dec(class, li, e) })
			// single-bit flips
			e := c.randBytes(n)
			base := dec("flip-base", li, e)
			nflip := 24
			if !c.quick {
				nflip = n * 8
			}
			for k := 0; k < nflip; k++ {
				bit := k
				if c.quick {
					bit = c.rng.Intn(n * 8)
				}
				f := append([]byte(nil), e...)
				f[bit/8] ^= 1 << (7 - bit%8)
				got := dec("single-bit-flip", li, f)
				if got == base && got != "" {
					r.violate(Violation{Kind: "property", Class: "single-bit-flip", Op: fmt.Sprintf("enc %d %s vs %s", langVals[li], hx(e), hx(f)), Impl: got,
						Detail: "two distinct entropies share a mnemonic"})
				}
			}
		}
		// every index at position 0 decodes back (a duplicated word shows here)
		step := 9
		if !c.quick {
			step = 1
		}
		for v := li % step; v < 2048; v += step {
			e := make([]byte, 16)
			setGroup(e, 0, v)
			dec("index-at-position-0", li, e)
		}
	}
	r.sample("enc Korean 000102...0f -> decode(sentence) = 000102...0f")
}

// ---- C08 -----------------------------------------------------------------------------------

func init() { props["C08"] = propC08 }

func propC08(c *Ctx) {
	r := c.rep
	r.Rule = "all 10 languages x 2048 indices, enumerated completely: crafted entropy whose first 11-bit group is i -> first word of NewMnemonicByEntropy must be byte-identical to canonical word i (pinned list), be non-empty, contain no Unicode White_Space and be NFKD-stable (x/text); the sentence is then validated (the word maps back to i, otherwise the checksum fails); plus the model's list() word. Non-trivial = distinct (language, index) pairs observed."
	for li := range langVals {
		l := int64(langVals[li])
		canon := c.canonWords(l)
		seen := map[string]int{}
		for v := 0; v < 2048; v++ {
			e := make([]byte, 16)
			c.rng.Read(e[2:])
			setGroup(e, 0, v)
			impl := implEnc(l, e)
			r.count("index-sweep")
			op := fmt.Sprintf("enc %d %s", l, hx(e))
			if !strings.HasPrefix(impl, "ok ") {
				r.violate(Violation{Kind: "property", Class: "index-sweep", Op: op, Impl: impl})
				continue
			}
			r.nontrivial(fmt.Sprintf("%d/%d", li, v))
			w := strings.Split(string(unhx(impl[3:])), sepOf(li))[0]
			bad := ""
			switch {
			case w != canon[v]:
				bad = fmt.Sprintf("word %d is %q, canonical is %q", v, w, canon[v])
			case w == "":
				bad = "empty word"
			case norm.NFKD.String(w) != w:
				bad = "word is not NFKD-stable"
			case strings.ContainsAny(w, " \t\n\v\f\r\u0085                 　"):
				bad = "word contains white space"
			}
			if j, dup := seen[w]; dup {
				bad = fmt.Sprintf("word %d duplicates word %d", v, j)
			}
			seen[w] = v
			if bad != "" {
				r.violate(Violation{Kind: "impl≠spec", Class: "index-sweep", Op: op, Impl: impl, Spec: "canonical word " + hx([]byte(canon[v])), Detail: bad})
			}
			// validation maps the word back to the same index
			if got := implChk(l, string(unhx(impl[3:]))); got != "ok" {
				r.violate(Violation{Kind: "property", Class: "index-sweep", Op: fmt.Sprintf("chk %d %s", l, impl[3:]), Impl: got,
					Detail: fmt.Sprintf("validation does not map word %d back to index %d", v, v)})
			}
		}
		// the longest sentences the language can produce (every group the longest word by bytes / by code
		// points, a mix of the six longest): what index i emits there must validate, i.e. map back to i — a
		// length bound derived from another spelling of the words, or from another language, cuts exactly these
		for _, n := range []int{24, 28, 32} {
			c.extremeWordEntropies(li, n, func(class string, e []byte) {
				impl := implEnc(l, e)
				r.count("extreme-words:" + class)
				if !strings.HasPrefix(impl, "ok ") {
					return
				}
				if got := implChk(l, string(unhx(impl[3:]))); got != "ok" {
					r.violate(Violation{Kind: "property", Class: "extreme-words:" + class, Op: fmt.Sprintf("chk %d %s", l, impl[3:]), Impl: got,
						Detail: "the sentence NewMnemonicByEntropy emits for " + hx(e) + " (the longest words of the list) is not accepted: validation does not map these words back to their indices"})
				}
			})
		}
		// the tables after REJECTED validations whose unknown token is a typo of a list word (a suffix, a
		// changed last letter, a prefix): an error path that builds suggestions in place, or caches near
		// misses, must not disturb what index i emits — the start of the table is swept again
		for k := 0; k < 12; k++ {
			w := canon[c.rng.Intn(2048)]
			rs := []rune(w)
			typo := w + "x"
			switch k % 3 {
			case 1:
				typo = string(rs[:len(rs)-1]) + "q"
			case 2:
				typo = "x" + w
			}
			e := make([]byte, 16)
			c.rng.Read(e)
			toks := strings.Split(c.specSentence(l, e), sepOf(li))
			toks[c.rng.Intn(len(toks))] = typo
			implChk(l, strings.Join(toks, " "))
			r.count("after-typo:rejected-validation")
		}
		for v := 0; v < 2048; v++ {
			if v >= 96 && v%37 != 0 {
				continue
			}
			e := make([]byte, 16)
			c.rng.Read(e[2:])
			setGroup(e, 0, v)
			impl := implEnc(l, e)
			r.count("after-typo:index-sweep")
			w := ""
			if strings.HasPrefix(impl, "ok ") {
				w = strings.Split(string(unhx(impl[3:])), sepOf(li))[0]
			}
			if w != canon[v] {
				r.violate(Violation{Kind: "impl≠spec", Class: "after-typo:index-sweep", Op: fmt.Sprintf("after rejected validations with typos of list words: enc %d %s", l, hx(e)), Impl: impl,
					Spec: "canonical word " + hx([]byte(canon[v])), Detail: fmt.Sprintf("word %d is %q, canonical is %q", v, w, canon[v])})
				break
			}
		}
		// model list() agrees with the canonical list on a sample (all in thorough)
		step := 64
		if !c.quick {
			step = 1
		}
		ops := []string{}
		for v := 0; v < 2048; v += step {
			ops = append(ops, fmt.Sprintf("word %d %d", l, v))
		}
		ms, ss := c.drv.AskMany(ops)
		for i := range ops {
			r.count("model-list")
			if ms[i] != ss[i] {
				r.stale(Violation{Kind: "impl≠model", Class: "model-list", Op: ops[i], Model: ms[i], Spec: ss[i]})
			}
		}
	}
	// an anchor that does not come from this repository: the published SHA-256 of english.txt
	{
		h := sha256.Sum256([]byte(strings.Join(c.canonWords(int64(langVals[2])), "\n") + "\n"))
		r.count("english-digest")
		if hx(h[:]) != "2f5eed53a4727b4bf8880d8f3f199efc90e58503646d9ff8eff3a2ed3b24dbda" {
			r.violate(Violation{Kind: "property", Class: "english-digest", Op: "sha256(english list, one word per line)", Impl: hx(h[:]),
				Spec: "2f5eed53a4727b4bf8880d8f3f199efc90e58503646d9ff8eff3a2ed3b24dbda", Detail: "the pinned canonical English list is not the published BIP39 english.txt"})
		}
		for li := range langVals {
			hh := sha256.Sum256([]byte(strings.Join(c.canonWords(int64(langVals[li])), "\n") + "\n"))
			r.note("sha256 of the canonical %s list (one word per line, LF-terminated): %s", langNames[li], hx(hh[:]))
		}
	}
	r.Exhaustive = true
	r.sample("enc Spanish <group0=1203> -> first word 'músculo' (NFKD: 6d 75 cc 81 ...) == canonical[1203]; chk -> ok")
}
