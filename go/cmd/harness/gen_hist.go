package main

import (
	"bufio"
	"bytes"
	"fmt"
	"os"
	"os/exec"
	"strings"

	"github.com/islishude/bip39"
)

// execOp runs one protocol op on the implementation.
func execOp(op string) string {
	f := strings.Fields(op)
	var a, b int64
	switch f[0] {
	case "enc":
		fmt.Sscan(f[1], &a)
		return implEnc(a, unhx(f[2]))
	case "chk":
		fmt.Sscan(f[1], &a)
		return implChk(a, string(unhx(f[2])))
	case "seed":
		return implSeed(string(unhx(f[1])), string(unhx(f[2])))
	case "lstr":
		fmt.Sscan(f[1], &a)
		return implStr(a)
	case "newm":
		fmt.Sscan(f[1], &a)
		fmt.Sscan(f[2], &b)
		return implNewm(a, b, f[3])
	case "newapi":
		fmt.Sscan(f[1], &a)
		return execNewAPI(int(a))
	}
	return "bad-op"
}

// runHistoryChild: a fresh process executing a history read from stdin, one answer per line.  At
// the end every earlier seed result is re-checked against a copy taken when it was returned.
func runHistoryChild(kind string) {
	if kind == "conc" {
		runConcChild()
		return
	}
	if kind == "envprobe" {
		runEnvProbeChild()
		return
	}
	sc := bufio.NewScanner(os.Stdin)
	sc.Buffer(make([]byte, 1<<20), 1<<24)
	w := bufio.NewWriter(os.Stdout)
	defer w.Flush()
	type kept struct{ live, copy []byte }
	var seeds []kept
	for sc.Scan() {
		op := sc.Text()
		if strings.HasPrefix(op, "seed ") {
			f := strings.Fields(op)
			s := bip39.MnemonicToSeed(string(unhx(f[1])), string(unhx(f[2])))
			seeds = append(seeds, kept{s, append([]byte(nil), s...)})
			fmt.Fprintln(w, "ok "+hx(s))
			continue
		}
		fmt.Fprintln(w, execOp(op))
	}
	altered := 0
	for _, k := range seeds {
		if !bytes.Equal(k.live, k.copy) {
			altered++
		}
	}
	fmt.Fprintf(w, "end altered-earlier-results=%d\n", altered)
}

// childEnv: extra environment ("NAME=value") for the child processes (the environment probes of envprobe.go)
var childEnv []string

// childAnswers runs a history in a fresh process and returns one answer per op (nil on failure).
func childAnswers(ops []string) []string {
	self, _ := os.Executable()
	cmd := exec.Command(self, "-child", "hist")
	cmd.Env = append(os.Environ(), childEnv...)
	cmd.Stdin = strings.NewReader(strings.Join(ops, "\n") + "\n")
	out, err := cmd.Output()
	lines := strings.Split(strings.TrimRight(string(out), "\n"), "\n")
	if err != nil || len(lines) != len(ops)+1 {
		return nil
	}
	return lines[:len(ops)]
}

// shrinkHistory: the last op of `ops` answers `bad` instead of its history-free answer; drop
// earlier ops one at a time (to a fixed point) while that stays so.
func shrinkHistory(ops []string, bad string) []string {
	cur := append([]string(nil), ops...)
	for changed, rounds := true, 0; changed && rounds < 4; rounds++ {
		changed = false
		for j := 0; j < len(cur)-1; {
			cand := append(append([]string(nil), cur[:j]...), cur[j+1:]...)
			if a := childAnswers(cand); a != nil && a[len(a)-1] == bad {
				cur, changed = cand, true
			} else {
				j++
			}
			if len(cur) > 60 && j > 40 {
				break
			}
		}
	}
	return cur
}

func (c *Ctx) runHistory(class string, ops []string) {
	self, _ := os.Executable()
	cmd := exec.Command(self, "-child", "hist")
	cmd.Env = append(os.Environ(), childEnv...)
	cmd.Stdin = strings.NewReader(strings.Join(ops, "\n") + "\n")
	var errb bytes.Buffer
	cmd.Stderr = &errb
	out, err := cmd.Output()
	lines := strings.Split(strings.TrimRight(string(out), "\n"), "\n")
	c.rep.count(class)
	hist := strings.Join(ops, " ; ")
	if len(hist) > 1500 {
		hist = hist[:1500] + " …"
	}
	if err != nil || len(lines) != len(ops)+1 {
		c.rep.violate(Violation{Kind: "property", Class: class, Op: "history: " + hist, Impl: fmt.Sprintf("child failed: %v %s", err, errb.String()[:min(300, errb.Len())])})
		return
	}
	if lines[len(ops)] != "end altered-earlier-results=0" {
		c.rep.violate(Violation{Kind: "property", Class: class, Op: "history: " + hist, Impl: lines[len(ops)], Detail: "a result returned earlier was altered by a later call"})
	}
	for i, op := range ops {
		if strings.HasPrefix(op, "newapi ") {
			// a call of a new entry point: only "returns normally" is demanded of it
			c.rep.Evaluations++
			if lines[i] != "called" {
				c.rep.violate(Violation{Kind: "property", Class: class, Op: "history: " + hist, Impl: lines[i], Detail: "a new exported function panics or hangs"})
			}
			continue
		}
		m, s := c.drv.Ask(op)
		impl := lines[i]
		c.rep.Evaluations++
		c.rep.nontrivial(fmt.Sprintf("%s@%d/%s", op, i, class))
		var same func(a, b string) bool = sameAns
		specAns := s
		switch strings.Fields(op)[0] {
		case "chk":
			ss, rest := field(s, "ss")
			_, rest = field(rest, "ws")
			if ss != "1" {
				continue
			}
			specAns = rest
			same = sameChk
			if specAns == "reject" {
				if impl == "ok" {
					min := shrinkHistory(ops[:i+1], impl)
					c.rep.violate(Violation{Kind: "impl≠spec", Class: class, Op: fmt.Sprintf("in a fresh process, after %d earlier call(s) [shrunk from %d]: %s  ||  then: %s", len(min)-1, i, strings.Join(min[:len(min)-1], " ; "), op), Impl: impl, Spec: specAns,
						Detail: "unsupported language accepted after this history"})
					return
				}
				continue
			}
		case "seed":
			ss, rest := field(s, "ss")
			if ss != "1" {
				continue
			}
			specAns = rest
		case "newm":
			if strings.HasPrefix(s, "ok ") {
				specAns = s
				same = func(a, b string) bool { return strings.HasPrefix(a, b+" reads=") }
			} else if s == "err io" {
				same = func(a, b string) bool { return strings.HasPrefix(a, "err io:") }
			}
		}
		if specAns != "-" && !same(impl, specAns) {
			min := shrinkHistory(ops[:i+1], impl)
			c.rep.violate(Violation{Kind: "impl≠spec", Class: class, Op: fmt.Sprintf("in a fresh process, after %d earlier call(s) [shrunk from %d]: %s  ||  then: %s", len(min)-1, i, strings.Join(min[:len(min)-1], " ; "), op), Impl: impl, Model: m, Spec: specAns,
				Detail: "the result differs from the history-free reference"})
			return
		} else if strings.Fields(op)[0] != "newm" && !same(impl, m) && !sameChk(impl, m) {
			c.rep.stale(Violation{Kind: "impl≠model", Class: class, Op: op, Impl: impl, Model: m, Spec: s})
		}
	}
}

func init() { props["C13"] = propC13 }

func (c *Ctx) randomOp(valid map[int]string) string {
	li := c.rng.Intn(10)
	l := int64(langVals[li])
	switch c.rng.Intn(12) {
	case 0, 1:
		return fmt.Sprintf("enc %d %s", l, hx(c.randBytes(entSizes[c.rng.Intn(5)])))
	case 2:
		return fmt.Sprintf("enc %d %s", l, hx(c.randBytes(c.rng.Intn(40))))
	case 3, 4, 5:
		return fmt.Sprintf("chk %d %s", l, hx([]byte(valid[li])))
	case 6:
		// wrong language / unsupported value on a valid sentence
		ul := []int64{-1, 10, 100, 10000, int64(langVals[c.rng.Intn(10)])}[c.rng.Intn(5)]
		return fmt.Sprintf("chk %d %s", ul, hx([]byte(valid[c.rng.Intn(10)])))
	case 7:
		return fmt.Sprintf("chk %d %s", l, hx([]byte(valid[li]+" x")))
	case 8:
		switch c.rng.Intn(4) {
		case 0:
			return fmt.Sprintf("seed %s %s", hx([]byte(valid[li])), hx([]byte("mnemonicTREZOR")))
		case 1:
			return fmt.Sprintf("seed %s %s", hx([]byte(valid[li]+"mnemonic")), hx([]byte("TREZOR")))
		}
		return fmt.Sprintf("seed %s %s", hx([]byte(valid[li])), hx([]byte(c.randUnicode(2))))
	case 9:
		return fmt.Sprintf("lstr %d", c.rng.Intn(14)-2)
	case 10:
		n := []int64{12, 15, 18, 21, 24, 13, 0}[c.rng.Intn(7)]
		return fmt.Sprintf("newm %d %d %s", n, l, hx(c.randBytes(40))+":-")
	default:
		return fmt.Sprintf("newm %d %d %s", 12, l, hx(c.randBytes(5))+":eof")
	}
}

func propC13(c *Ctx) {
	r := c.rep
	r.Rule = "call histories executed in FRESH PROCESSES (one child process per history), every answer compared with the history-free reference (the specification / the model from its initial state): every ordered pair of first-validated languages incl. unsupported values (a lookup table built under the wrong guard shows here), and random histories of 1..200 calls mixing all six exported functions, all languages, failures and unsupported values; entropy slices are passed with spare capacity inside a guarded buffer and must come back unchanged; earlier seed results are re-checked at the end of each history. Non-trivial = distinct (op, position, class) evaluated."
	valid := map[int]string{}
	for li := range langVals {
		valid[li] = strings.ReplaceAll(c.specSentence(int64(langVals[li]), c.randBytes(16)), "　", " ")
	}
	c.goMapPrimitives()  // the map/sync.Once vocabulary of the translated Language.mapping vs real Go
	c.envProbesHistory() // the package under every environment variable its source consults (none on the unchanged tree)
	c.newAPIProbes()     // the old API after a call of each NEW exported function (none on the unchanged tree)
	vals := []int64{}
	sent := []string{}
	for li := range langVals {
		vals = append(vals, int64(langVals[li]))
		sent = append(sent, valid[li])
	}
	// unsupported values, validated with an English sentence (English is list()'s fallback)
	for _, u := range []int64{-1, 10, 100} {
		vals = append(vals, u)
		sent = append(sent, valid[2])
	}
	for i := range vals {
		for j := range vals {
			if c.quick && i >= 10 && j >= 10 {
				continue
			}
			ops := []string{
				fmt.Sprintf("chk %d %s", vals[i], hx([]byte(sent[i]))),
				fmt.Sprintf("chk %d %s", vals[j], hx([]byte(sent[j]))),
				fmt.Sprintf("chk %d %s", vals[i], hx([]byte(sent[j]))),
				fmt.Sprintf("chk %d %s", vals[j], hx([]byte(sent[i]))),
				fmt.Sprintf("enc %d %s", vals[j], hx(c.randBytes(16))),
			}
			c.runHistory("ordered-pair-of-first-used-languages", ops)
		}
	}
	nh := 25 * c.scale
	if !c.quick {
		nh = 400
	}
	for k := 0; k < nh; k++ {
		n := 1 + c.rng.Intn(40)
		if k%5 == 0 {
			n = 100 + c.rng.Intn(100)
		}
		ops := make([]string, n)
		for i := range ops {
			ops[i] = c.randomOp(valid)
		}
		c.runHistory("random-history", ops)
	}
	// churn: one (mnemonic, passphrase) pair, then more distinct pairs than any small cache holds, then the
	// first pair again (and a few of the others): a bounded memo whose eviction leaves a stale index entry
	// answers the repeat with another pair's seed.  The same for validations and encodings.
	churn := 1
	if !c.quick {
		churn = 4
	}
	for k := 0; k < churn; k++ {
		span := []int{140, 70, 300, 520}[k%4]
		ops := []string{}
		first := fmt.Sprintf("seed %s %s", hx([]byte(valid[2])), hx([]byte("first")))
		ops = append(ops, first)
		for i := 0; i < span; i++ {
			ops = append(ops, fmt.Sprintf("seed %s %s", hx([]byte(fmt.Sprintf("m%d", i))), hx([]byte{byte('a' + i%26)})))
		}
		ops = append(ops, first, ops[1], ops[span/2], ops[span])
		c.runHistory("churn:seeds", ops)
		ops = ops[:0]
		e0 := c.randBytes(16)
		ops = append(ops, fmt.Sprintf("enc 2 %s", hx(e0)), fmt.Sprintf("chk 2 %s", hx([]byte(valid[2]))))
		for i := 0; i < span; i++ {
			e := c.randBytes(entSizes[i%5])
			l := int64(langVals[i%10])
			ops = append(ops, fmt.Sprintf("enc %d %s", l, hx(e)))
			if i%3 == 0 {
				ops = append(ops, fmt.Sprintf("chk %d %s", l, hx([]byte(strings.ReplaceAll(c.specSentence(l, e), "　", " ")))))
			}
		}
		ops = append(ops, fmt.Sprintf("enc 2 %s", hx(e0)), fmt.Sprintf("chk 2 %s", hx([]byte(valid[2]))), ops[2], ops[3])
		c.runHistory("churn:encodings-and-validations", ops)
	}
	r.sample("fresh process: chk Korean <valid ko> ; chk -1 <valid en> ; chk Korean <valid en> ; chk -1 <valid ko> ; enc -1 <16 bytes> -> each equals the fresh-state reference")
}
