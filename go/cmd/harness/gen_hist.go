package main

func runHistoryChild(spec string) {}
