package main

// The vocabulary the translator emits (lean/Bip39V/Model/GoSem.lean) against the real Go
// operations: 64-bit int/uint arithmetic with wrap-around, truncated division and its panic,
// shifts, conversions, the math/big methods, FillBytes, string/byte slicing, make, and the counting
// loop.  This is what ties the trusted "meaning of Go" to Go itself, including the corners that the
// package's own paths never reach behind the size gates (overflow, huge shift counts, negative
// big.Int operands).

import (
	"fmt"
	"math"
	"math/big"
	"strings"
	"sync"
)

func recoverStr(f func() string) (out string) {
	defer func() {
		if r := recover(); r != nil {
			msg := fmt.Sprint(r)
			switch {
			case strings.Contains(msg, "divide by zero"), strings.Contains(msg, "division by zero"):
				out = "panic divByZero"
			case strings.Contains(msg, "slice bounds out of range"):
				out = "panic sliceOutOfRange"
			case strings.Contains(msg, "index out of range"):
				out = "panic indexOutOfRange"
			case strings.Contains(msg, "len out of range"):
				out = "panic makeNegative"
			case strings.Contains(msg, "too small"):
				out = "panic fillBytesOverflow"
			default:
				out = "panic " + msg
			}
		}
	}()
	return f()
}

func (c *Ctx) goPrimitives() {
	r := c.rep
	edge := []int64{0, 1, -1, 2, -2, 3, 7, 8, 9, 11, 12, 24, 31, 32, 33, 62, 63, 64, 65, 127, 128, 255, 256, 2047, 2048, 65535, 65536,
		1 << 31, 1<<31 - 1, -(1 << 31), 1 << 32, 1<<32 + 1, 1 << 62, 1<<62 + 1, math.MaxInt64, math.MaxInt64 - 1, math.MinInt64, math.MinInt64 + 1}
	n := 300
	if !c.quick {
		n = 6000
	}
	pick := func() int64 {
		switch c.rng.Intn(4) {
		case 0:
			return edge[c.rng.Intn(len(edge))]
		case 1:
			return int64(c.rng.Intn(4096)) - 2048
		case 2:
			return int64(c.rng.Uint64())
		default:
			return int64(c.rng.Uint64() >> uint(c.rng.Intn(64)))
		}
	}
	ask := func(op string, want string) {
		m, _ := c.drv.Ask("prim " + op)
		r.count("go-primitive:" + strings.Fields(op)[0])
		r.nontrivial("prim " + op)
		if m != want {
			r.stale(Violation{Kind: "impl≠model", Class: "go-primitive", Op: "prim " + op, Impl: want, Model: m,
				Detail: "the meaning GoSem.lean gives to a Go operation differs from the Go operation"})
		}
	}
	okI := func(v int64) string { return fmt.Sprintf("ok %d", v) }
	okU := func(v uint64) string { return fmt.Sprintf("ok %d", v) }
	for k := 0; k < n; k++ {
		a, b := pick(), pick()
		if k < len(edge)*len(edge) {
			a, b = edge[k/len(edge)], edge[k%len(edge)]
		}
		ua, ub := uint64(a), uint64(b)
		ask(fmt.Sprintf("addI %d %d", a, b), okI(a+b))
		ask(fmt.Sprintf("subI %d %d", a, b), okI(a-b))
		ask(fmt.Sprintf("mulI %d %d", a, b), okI(a*b))
		ask(fmt.Sprintf("addU %d %d", ua, ub), okU(ua+ub))
		ask(fmt.Sprintf("subU %d %d", ua, ub), okU(ua-ub))
		ask(fmt.Sprintf("mulU %d %d", ua, ub), okU(ua*ub))
		ask(fmt.Sprintf("divI %d %d", a, b), recoverStr(func() string { return okI(a / b) }))
		ask(fmt.Sprintf("remI %d %d", a, b), recoverStr(func() string { return okI(a % b) }))
		ask(fmt.Sprintf("divU %d %d", ua, ub), recoverStr(func() string { return okU(ua / ub) }))
		ask(fmt.Sprintf("remU %d %d", ua, ub), recoverStr(func() string { return okU(ua % ub) }))
		if b != 0 {
			ask(fmt.Sprintf("divIc %d %d", a, b), okI(a/b))
			ask(fmt.Sprintf("remIc %d %d", a, b), okI(a%b))
		}
		ask(fmt.Sprintf("shlI %d %d", a, ub), okI(a<<ub))
		ask(fmt.Sprintf("shlU %d %d", ua, ub), okU(ua<<ub))
		ask(fmt.Sprintf("shlI %d %d", a, ub%80), okI(a<<(ub%80)))
		ask(fmt.Sprintf("shlU %d %d", ua, ub%80), okU(ua<<(ub%80)))
		ask(fmt.Sprintf("toUint %d", a), okU(uint64(a)))
		ask(fmt.Sprintf("toInt %d", ua), okI(int64(ua)))
		ask(fmt.Sprintf("wrapI %d", a), okI(a))
		// math/big, on operands wider than 64 bits and of either sign
		x := new(big.Int).Mul(big.NewInt(a), big.NewInt(pick()))
		y := new(big.Int).Add(new(big.Int).Lsh(big.NewInt(b), uint(c.rng.Intn(70))), big.NewInt(pick()))
		if k%3 == 0 {
			x, y = big.NewInt(a), big.NewInt(b)
		}
		ask(fmt.Sprintf("bigAnd %s %s", x, y), "ok "+new(big.Int).And(x, y).String())
		ask(fmt.Sprintf("bigAdd %s %s", x, y), "ok "+new(big.Int).Add(x, y).String())
		ask(fmt.Sprintf("bigCmp %s %s", x, y), fmt.Sprintf("ok %d", x.Cmp(y)))
		ask(fmt.Sprintf("bigQuo %s %s", x, y), recoverStr(func() string { return "ok " + new(big.Int).Quo(x, y).String() }))
		sh := uint(c.rng.Intn(300))
		ask(fmt.Sprintf("bigLsh %s %d", x, sh), "ok "+new(big.Int).Lsh(x, sh).String())
		ask(fmt.Sprintf("bigInt64 %s", x), okI(x.Int64()))
		ask(fmt.Sprintf("bigInt64 %s", y), okI(y.Int64()))
		width := c.rng.Intn(40)
		ask(fmt.Sprintf("bigFillBytes %s %d", x, width), recoverStr(func() string {
			out := x.FillBytes(make([]byte, width))
			return strings.TrimSpace("ok " + hx(out))
		}))
		bs := c.randBytes(c.rng.Intn(40))
		ask("bigSetBytes "+hx(bs), "ok "+new(big.Int).SetBytes(bs).String())
		// slices and strings
		s := c.randUnicode(4)
		if k%5 == 0 {
			s = string(c.randBytes(c.rng.Intn(12))) // arbitrary, mostly invalid UTF-8
		}
		ask("lenStr "+hx([]byte(s)), fmt.Sprintf("ok %d", len(s)))
		lo, hi := c.rng.Intn(len(s)+3)-1, c.rng.Intn(len(s)+3)-1
		ask(fmt.Sprintf("sliceStr %s %d %d", hx([]byte(s)), lo, hi), recoverStr(func() string { return strings.TrimSpace("ok " + hx([]byte(s[lo:hi]))) }))
		ask(fmt.Sprintf("sliceBytes %s %d %d", hx(bs), lo, hi), recoverStr(func() string { return strings.TrimSpace("ok " + hx(bs[lo:hi])) }))
		mk := c.rng.Intn(70) - 6
		ask(fmt.Sprintf("makeBytes %d", mk), recoverStr(func() string { return fmt.Sprintf("ok %d", len(make([]byte, mk))) }))
		fh, fl := int64(c.rng.Intn(30)-5), int64(c.rng.Intn(6)-3)
		ask(fmt.Sprintf("forDown %d %d", fh, fl), recoverStr(func() string {
			var seen []string
			for i := fh; i >= fl; i-- {
				seen = append(seen, fmt.Sprint(i))
			}
			return strings.TrimSpace("ok " + strings.Join(seen, " "))
		}))
	}
	r.note("Go primitives (GoSem.lean vs the Go operations): %d operand pairs over int/uint arithmetic, shifts, conversions, math/big, FillBytes, slicing, make, counting loop", n)
}

// goMapPrimitives compares the concrete-state vocabulary of the translated Language.mapping
// (lean/Bip39V/Model/GoMap.lean: make, assignment to an entry of a possibly nil map, lookup with
// last-write-wins, nil test, sync.Once.Do in sequential use) with real Go maps and sync.Once on
// random scripts.
func (c *Ctx) goMapPrimitives() {
	r := c.rep
	n := 200
	if !c.quick {
		n = 5000
	}
	keys := []string{"", "a", "ab", "abandon", "é", "é", "\xff", "\xc3", "가", "的", "a b", "zoo"}
	for k := 0; k < n; k++ {
		var maps [3]map[string]int64
		var onces [3]sync.Once
		var toks, outs []string
		inner := func(closure bool) (string, func()) {
			v := c.rng.Intn(3)
			key := keys[c.rng.Intn(len(keys))]
			switch x := c.rng.Intn(10); {
			case x < 2:
				return fmt.Sprintf("M%d", v), func() { maps[v] = make(map[string]int64, 4) }
			case x < 7 || closure:
				val := int64(c.rng.Intn(5000)) - 100
				return fmt.Sprintf("A%d:%s:%d", v, hx([]byte(key)), val), func() { maps[v][key] = val }
			case x < 9:
				return fmt.Sprintf("G%d:%s", v, hx([]byte(key))), func() {
					if val, ok := maps[v][key]; ok {
						outs = append(outs, fmt.Sprint(val))
					} else {
						outs = append(outs, "none")
					}
				}
			default:
				return fmt.Sprintf("N%d", v), func() {
					if maps[v] == nil {
						outs = append(outs, "nil")
					} else {
						outs = append(outs, "nonnil")
					}
				}
			}
		}
		var steps []func()
		for j := 2 + c.rng.Intn(14); j > 0; j-- {
			if c.rng.Intn(4) == 0 {
				cell := c.rng.Intn(3)
				var its []string
				var fs []func()
				for q := c.rng.Intn(4); q > 0; q-- {
					t, f := inner(true)
					its = append(its, t)
					fs = append(fs, f)
				}
				toks = append(toks, fmt.Sprintf("O%d(%s)", cell, strings.Join(its, ";")))
				steps = append(steps, func() {
					onces[cell].Do(func() {
						for _, f := range fs {
							f()
						}
					})
				})
				continue
			}
			t, f := inner(false)
			toks = append(toks, t)
			steps = append(steps, f)
		}
		want := func() (out string) {
			defer func() {
				if rec := recover(); rec != nil {
					if strings.Contains(fmt.Sprint(rec), "assignment to entry in nil map") {
						out = "panic nilMapWrite"
					} else {
						out = "panic " + fmt.Sprint(rec)
					}
				}
			}()
			for _, f := range steps {
				f()
			}
			return strings.TrimSpace("ok " + strings.Join(outs, " "))
		}()
		op := "primmap " + strings.Join(toks, " ")
		m, _ := c.drv.Ask(op)
		r.count("go-primitive:map+once")
		r.nontrivial(op)
		if m != want {
			r.stale(Violation{Kind: "impl≠model", Class: "go-primitive", Op: op, Impl: want, Model: m,
				Detail: "the meaning GoMap.lean gives to map/sync.Once operations differs from Go"})
		}
	}
	r.note("Go map and sync.Once primitives (GoMap.lean vs real maps and Once): %d random scripts", n)
}
