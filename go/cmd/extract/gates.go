package main

import (
	"fmt"
	"go/ast"
	"go/token"
	"strings"
)

// The three size gates are *translated*, not pinned: the condition of the rejecting `if` is turned
// into a Lean `Int → Bool` (Go `int` as `Int`; `/` and `%` truncate: `Int.tdiv`, `Int.tmod`), so a
// rewrite of the condition that keeps its meaning is re-proved instead of reported.  Supported:
// integer literals, the gate variable (a parameter of integer type, `len(param)`, or a local
// defined as one of these), `+ - * / %`, comparisons, `&& || !`, parentheses.  64-bit wrap-around of
// `+ - *` is not modelled: their presence is recorded and the theorems demand its absence.
type gateSpec struct {
	fn      string // declaration key
	name    string // Lean name
	errName string // identifier the rejecting branch must return
}

var gateSpecs = []gateSpec{
	{"func:NewMnemonicByEntropy", "entGate", "ErrEntropyLen"},
	{"func:NewMnemonic", "wordGate", "ErrWordLen"},
	{"func:CheckMnemonic", "wcGate", "ErrWordLen"},
}

// gateConsts: package-level `const name [int] = <integer literal>` of the root package (set by main).
var gateConsts = map[string]string{}

func collectGateConsts(files map[string]*ast.File) {
	ct := newConstTable(files)
	for name := range ct.exprs {
		if ct.typ[name] != "untyped" && ct.typ[name] != "int" {
			continue
		}
		if v, ok := ct.lookup(name); ok {
			gateConsts[name] = v.String()
		}
	}
}

type gateResult struct {
	lean     string
	arith    bool
	problem  string
	cond     ast.Expr
	position string
}

// gateVarKinds: which identifiers denote the gated quantity.
func findGate(fd *ast.FuncDecl, errName string) (*ast.IfStmt, map[string]bool, string) {
	vars := map[string]bool{}
	// integer parameters
	for _, f := range fd.Type.Params.List {
		if id, ok := f.Type.(*ast.Ident); ok && id.Name == "int" {
			for _, n := range f.Names {
				vars[n.Name] = true
			}
		}
	}
	isLen := func(e ast.Expr) bool {
		c, ok := e.(*ast.CallExpr)
		if !ok || len(c.Args) != 1 {
			return false
		}
		id, ok := c.Fun.(*ast.Ident)
		return ok && id.Name == "len"
	}
	for _, st := range fd.Body.List {
		switch x := st.(type) {
		case *ast.AssignStmt:
			if x.Tok == token.DEFINE && len(x.Lhs) == 1 && len(x.Rhs) == 1 {
				if id, ok := x.Lhs[0].(*ast.Ident); ok && isLen(x.Rhs[0]) {
					// only the *last* length taken before the gate is the gated one
					for k := range vars {
						delete(vars, k)
					}
					vars[id.Name] = true
				}
			}
		case *ast.IfStmt:
			if x.Init != nil || x.Else != nil || len(x.Body.List) != 1 {
				continue
			}
			rs, ok := x.Body.List[0].(*ast.ReturnStmt)
			if !ok || len(rs.Results) == 0 {
				continue
			}
			if id, ok := rs.Results[len(rs.Results)-1].(*ast.Ident); ok && id.Name == errName {
				return x, vars, ""
			}
		}
	}
	return nil, nil, "no `if … { return …, " + errName + " }` statement found"
}

func translateGate(e ast.Expr, vars map[string]bool, res *gateResult) string {
	switch x := e.(type) {
	case *ast.ParenExpr:
		return "(" + translateGate(x.X, vars, res) + ")"
	case *ast.BasicLit:
		if x.Kind == token.INT {
			if v, ok := intLit(Lit{Kind: "INT", Val: x.Value}); ok {
				return "(" + v.String() + " : Int)"
			}
		}
	case *ast.Ident:
		if vars[x.Name] {
			return "n"
		}
		// a package-level integer constant given by a literal (a magic number that was given a name)
		if v, ok := gateConsts[x.Name]; ok {
			return "(" + v + " : Int)"
		}
	case *ast.CallExpr:
		if id, ok := x.Fun.(*ast.Ident); ok && id.Name == "len" && len(x.Args) == 1 {
			return "n"
		}
		// int(e), int64(e) of an int expression: the same value (these appear when a helper was inlined)
		if id, ok := x.Fun.(*ast.Ident); ok && (id.Name == "int" || id.Name == "int64") && len(x.Args) == 1 {
			return translateGate(x.Args[0], vars, res)
		}
	case *ast.UnaryExpr:
		switch x.Op {
		case token.NOT:
			return "(!" + translateGate(x.X, vars, res) + ")"
		case token.SUB:
			res.arith = true
			return "(-" + translateGate(x.X, vars, res) + ")"
		}
	case *ast.BinaryExpr:
		a, b := translateGate(x.X, vars, res), translateGate(x.Y, vars, res)
		switch x.Op {
		case token.LOR:
			return "(" + a + " || " + b + ")"
		case token.LAND:
			return "(" + a + " && " + b + ")"
		case token.LSS:
			return "decide (" + a + " < " + b + ")"
		case token.LEQ:
			return "decide (" + a + " ≤ " + b + ")"
		case token.GTR:
			return "decide (" + a + " > " + b + ")"
		case token.GEQ:
			return "decide (" + a + " ≥ " + b + ")"
		case token.EQL:
			return "decide (" + a + " = " + b + ")"
		case token.NEQ:
			return "decide (" + a + " ≠ " + b + ")"
		case token.REM:
			return "(Int.tmod " + a + " " + b + ")"
		case token.QUO:
			return "(Int.tdiv " + a + " " + b + ")"
		case token.ADD:
			res.arith = true
			return "(" + a + " + " + b + ")"
		case token.SUB:
			res.arith = true
			return "(" + a + " - " + b + ")"
		case token.MUL:
			res.arith = true
			return "(" + a + " * " + b + ")"
		}
	}
	if res.problem == "" {
		res.problem = fmt.Sprintf("untranslatable sub-expression %T", e)
	}
	return "false"
}

// gatesLean renders Gen/Gates.lean and records, per function, the `if` condition that the skeleton
// must treat as a hole.
func gatesLean(f *Facts, funcs map[string]*ast.FuncDecl, holes map[ast.Node]bool) string {
	var sb strings.Builder
	sb.WriteString("-- GENERATED by go/cmd/extract: the size gates, translated from the conditions in the source — do not edit\nnamespace Bip39V.Gen.Gates\n")
	for _, g := range gateSpecs {
		fd := funcs[g.fn]
		res := gateResult{}
		if fd == nil || fd.Body == nil {
			res.problem = "function not found"
		} else {
			ifs, vars, prob := findGate(fd, g.errName)
			if prob != "" {
				res.problem = prob
			} else {
				res.lean = translateGate(ifs.Cond, vars, &res)
				holes[ifs.Cond] = true
			}
		}
		if res.problem != "" {
			f.Problems = append(f.Problems, "gate of "+g.fn+": "+res.problem)
			res.lean = "true"
		}
		fmt.Fprintf(&sb, "/-- gate of %s -/\ndef %s (n : Int) : Bool := %s\n", g.fn, g.name, res.lean)
		fmt.Fprintf(&sb, "/-- it uses + - * (64-bit wrap-around not modelled) -/\ndef %sUsesArith : Bool := %v\n", g.name, res.arith)
		fmt.Fprintf(&sb, "def %sTranslated : Bool := %v\n", g.name, res.problem == "")
	}
	sb.WriteString("end Bip39V.Gen.Gates\n")
	return sb.String()
}
