// Command extract regenerates the Lean facts (lean/Bip39V/Gen/*.lean) and
// facts.json from the working tree of the repository under verification.
//
// It is purely syntactic (go/parser + go/ast).  For every top-level declaration
// of the package it computes a position-independent *skeleton* (the AST with
// every basic literal replaced by a numbered hole) and the list of literals
// that fill the holes.  Skeletons are compared with the pinned ones in
// expected/skeleton.json; literals, word tables and the structure of lang.go
// are emitted as Lean definitions, so that every theorem is re-checked against
// what the source says now.
package main

import (
	"encoding/json"
	"flag"
	"fmt"
	"go/ast"
	"go/build"
	"go/parser"
	"go/token"
	"math/big"
	"os"
	"path/filepath"
	"sort"
	"strconv"
	"strings"
	"unicode/utf8"
)

// ---------------------------------------------------------------------------
// literals and skeletons

type Lit struct {
	Kind string   `json:"kind"` // INT STRING CHAR FLOAT IMAG LIST
	Val  string   `json:"val,omitempty"`
	List []string `json:"list,omitempty"` // for LIST: raw source text of each element
	Keys []string `json:"keys,omitempty"` // for LIST of key:value pairs
	Pos  string   `json:"pos"`
}

type Decl struct {
	Key  string `json:"key"`
	File string `json:"file"`
	Line int    `json:"line"`
	Skel string `json:"skel"`
	Lits []Lit  `json:"lits"`
}

type skel struct {
	fset   *token.FileSet
	rel    string
	sb     strings.Builder
	lits   []Lit
	holes  map[ast.Node]bool // sub-trees that are translated elsewhere (gate conditions)
	locals map[string]bool   // identifiers declared inside the declaration (params, :=, var, range)
	rename map[string]string // local identifier -> canonical name, by first occurrence
	noRen  map[*ast.Ident]bool
}

// collectLocals finds the identifiers a function declares itself; they are α-renamed in the
// skeleton so that renaming a local variable is not a change.  Selector fields and struct keys are
// never renamed.
func (s *skel) collectLocals(n ast.Node) {
	s.locals, s.rename, s.noRen = map[string]bool{}, map[string]string{}, map[*ast.Ident]bool{}
	fd, ok := n.(*ast.FuncDecl)
	if !ok {
		return
	}
	addFields := func(fl *ast.FieldList) {
		if fl == nil {
			return
		}
		for _, f := range fl.List {
			for _, nm := range f.Names {
				if nm.Name != "_" {
					s.locals[nm.Name] = true
				}
			}
		}
	}
	addFields(fd.Recv)
	addFields(fd.Type.Params)
	addFields(fd.Type.Results)
	ast.Inspect(fd, func(m ast.Node) bool {
		switch x := m.(type) {
		case *ast.AssignStmt:
			if x.Tok == token.DEFINE {
				for _, l := range x.Lhs {
					if id, ok := l.(*ast.Ident); ok && id.Name != "_" {
						s.locals[id.Name] = true
					}
				}
			}
		case *ast.RangeStmt:
			if x.Tok == token.DEFINE {
				for _, e := range []ast.Expr{x.Key, x.Value} {
					if id, ok := e.(*ast.Ident); ok && id.Name != "_" {
						s.locals[id.Name] = true
					}
				}
			}
		case *ast.ValueSpec:
			for _, nm := range x.Names {
				if nm.Name != "_" {
					s.locals[nm.Name] = true
				}
			}
		case *ast.FuncLit:
			addFields(x.Type.Params)
			addFields(x.Type.Results)
		case *ast.SelectorExpr:
			s.noRen[x.Sel] = true
		case *ast.KeyValueExpr:
			if id, ok := x.Key.(*ast.Ident); ok {
				s.noRen[id] = true
			}
		case *ast.LabeledStmt:
			s.noRen[x.Label] = true
		case *ast.BranchStmt:
			if x.Label != nil {
				s.noRen[x.Label] = true
			}
		}
		return true
	})
	// the function's own name is not a local
	s.noRen[fd.Name] = true
}

func (s *skel) ident(id *ast.Ident) string {
	if s.locals == nil || !s.locals[id.Name] || s.noRen[id] {
		return id.Name
	}
	if r, ok := s.rename[id.Name]; ok {
		return r
	}
	r := fmt.Sprintf("$%d", len(s.rename)+1)
	s.rename[id.Name] = r
	return r
}

func allBasic(elts []ast.Expr) (bool, bool) {
	if len(elts) == 0 {
		return false, false
	}
	kv := false
	for i, e := range elts {
		switch x := e.(type) {
		case *ast.BasicLit:
			if kv {
				return false, false
			}
		case *ast.KeyValueExpr:
			if i > 0 && !kv {
				return false, false
			}
			kv = true
			if _, ok := x.Key.(*ast.BasicLit); !ok {
				return false, false
			}
			if _, ok := x.Value.(*ast.BasicLit); !ok {
				return false, false
			}
		default:
			return false, false
		}
	}
	return true, kv
}

func (s *skel) pos(p token.Pos) string {
	q := s.fset.Position(p)
	return fmt.Sprintf("%s:%d:%d", s.rel, q.Line, q.Column)
}

func (s *skel) walk(n ast.Node) {
	ast.Inspect(n, func(n ast.Node) bool {
		if n == nil {
			s.sb.WriteString(")")
			return true
		}
		if s.holes[n] {
			s.sb.WriteString("(§gate")
			// the closing parenthesis is written by the nil callback only when we descend; we do not
			s.sb.WriteString(")")
			return false
		}
		switch x := n.(type) {
		case *ast.Comment, *ast.CommentGroup:
			return false
		case *ast.BasicLit:
			fmt.Fprintf(&s.sb, "(§%d", len(s.lits))
			s.lits = append(s.lits, Lit{Kind: x.Kind.String(), Val: x.Value, Pos: s.pos(x.Pos())})
			return true
		case *ast.CompositeLit:
			if ok, kv := allBasic(x.Elts); ok {
				s.sb.WriteString("(CompositeLit")
				if x.Type != nil {
					s.walk(x.Type)
				}
				l := Lit{Kind: "LIST", Pos: s.pos(x.Pos())}
				for _, e := range x.Elts {
					if kv {
						p := e.(*ast.KeyValueExpr)
						l.Keys = append(l.Keys, p.Key.(*ast.BasicLit).Value)
						l.List = append(l.List, p.Value.(*ast.BasicLit).Value)
					} else {
						l.List = append(l.List, e.(*ast.BasicLit).Value)
					}
				}
				fmt.Fprintf(&s.sb, "(§%d)", len(s.lits))
				s.lits = append(s.lits, l)
				s.sb.WriteString(")")
				return false
			}
		}
		name := fmt.Sprintf("%T", n)
		name = strings.TrimPrefix(name, "*ast.")
		s.sb.WriteString("(" + name)
		switch x := n.(type) {
		case *ast.Ident:
			s.sb.WriteString(" " + s.ident(x))
		case *ast.BinaryExpr:
			s.sb.WriteString(" " + x.Op.String())
		case *ast.UnaryExpr:
			s.sb.WriteString(" " + x.Op.String())
		case *ast.AssignStmt:
			s.sb.WriteString(" " + x.Tok.String())
		case *ast.IncDecStmt:
			s.sb.WriteString(" " + x.Tok.String())
		case *ast.BranchStmt:
			s.sb.WriteString(" " + x.Tok.String())
		case *ast.RangeStmt:
			s.sb.WriteString(" " + x.Tok.String())
		case *ast.GenDecl:
			s.sb.WriteString(" " + x.Tok.String())
		case *ast.ChanType:
			fmt.Fprintf(&s.sb, " %d", x.Dir)
		case *ast.Ellipsis:
			s.sb.WriteString(" ...")
		case *ast.CallExpr:
			if x.Ellipsis.IsValid() {
				s.sb.WriteString(" ...")
			}
		case *ast.SliceExpr:
			if x.Slice3 {
				s.sb.WriteString(" 3")
			}
		case *ast.StarExpr, *ast.DeferStmt, *ast.GoStmt:
		case *ast.CaseClause:
			if x.List == nil {
				s.sb.WriteString(" default")
			}
		case *ast.FieldList:
			// distinguishes f(a, b int) from f(a int, b int) only cosmetically; keep
		}
		return true
	})
}

var gateHoles = map[ast.Node]bool{}
var gatesText string

func skeletonOf(fset *token.FileSet, rel string, n ast.Node) (string, []Lit) {
	s := &skel{fset: fset, rel: rel, holes: gateHoles}
	s.collectLocals(n)
	s.walk(n)
	return s.sb.String(), s.lits
}

func recvName(fd *ast.FuncDecl) string {
	if fd.Recv == nil || len(fd.Recv.List) == 0 {
		return ""
	}
	t := fd.Recv.List[0].Type
	if st, ok := t.(*ast.StarExpr); ok {
		t = st.X
	}
	if id, ok := t.(*ast.Ident); ok {
		return id.Name
	}
	return "?"
}

// declsOfFile splits a file into keyed declarations.
func declsOfFile(fset *token.FileSet, rel string, f *ast.File) []Decl {
	var out []Decl
	add := func(key string, n ast.Node) {
		sk, lits := skeletonOf(fset, rel, n)
		out = append(out, Decl{Key: key, File: rel, Line: fset.Position(n.Pos()).Line, Skel: sk, Lits: lits})
	}
	for _, d := range f.Decls {
		switch x := d.(type) {
		case *ast.FuncDecl:
			key := "func:" + x.Name.Name
			if r := recvName(x); r != "" {
				key = "method:" + r + "." + x.Name.Name
			}
			add(key, x)
		case *ast.GenDecl:
			for i, sp := range x.Specs {
				switch y := sp.(type) {
				case *ast.ImportSpec:
					alias := ""
					if y.Name != nil {
						alias = y.Name.Name + "="
					}
					// import paths are kept verbatim: they are part of the identity of the declaration
					out = append(out, Decl{Key: "import:" + rel + ":" + alias + y.Path.Value, File: rel,
						Line: fset.Position(y.Pos()).Line, Skel: "(import " + alias + y.Path.Value + ")"})
				case *ast.ValueSpec:
					names := []string{}
					for _, n := range y.Names {
						names = append(names, n.Name)
					}
					key := strings.ToLower(x.Tok.String()) + ":" + strings.Join(names, ",")
					if x.Tok == token.CONST {
						// iota-dependent: keep the position inside the block in the key
						key = fmt.Sprintf("const:%s#%d", strings.Join(names, ","), i)
					}
					add(key, y)
				case *ast.TypeSpec:
					add("type:"+y.Name.Name, y)
				}
			}
		}
	}
	return out
}

// ---------------------------------------------------------------------------
// Go literal evaluation

func intLit(l Lit) (*big.Int, bool) {
	if l.Kind != "INT" {
		return nil, false
	}
	v, ok := new(big.Int).SetString(strings.ReplaceAll(l.Val, "_", ""), 0)
	return v, ok
}

// items of a Go string: Unicode scalar values, or 0x110000+b for a byte that is not
// part of a valid UTF-8 sequence.
func items(s string) []int {
	var out []int
	for i := 0; i < len(s); {
		r, n := utf8.DecodeRuneInString(s[i:])
		if r == utf8.RuneError && n <= 1 {
			out = append(out, 0x110000+int(s[i]))
			i++
			continue
		}
		out = append(out, int(r))
		i += n
	}
	return out
}

func strLit(raw string) (string, bool) {
	s, err := strconv.Unquote(raw)
	return s, err == nil
}

func pack(it []int) *big.Int {
	n := big.NewInt(1)
	for _, c := range it {
		n.Lsh(n, 21)
		n.Add(n, big.NewInt(int64(c)))
	}
	return n
}

func leanItems(it []int) string {
	parts := make([]string, len(it))
	for i, c := range it {
		parts[i] = strconv.Itoa(c)
	}
	return "[" + strings.Join(parts, ", ") + "]"
}

func commentSafe(s string) string {
	s = strings.ReplaceAll(s, "\n", "\\n")
	s = strings.ReplaceAll(s, "\r", "\\r")
	s = strings.ReplaceAll(s, "-/", "- /")
	return s
}

// ---------------------------------------------------------------------------
// word tables

type node struct {
	l, r *node
	k    *big.Int
	v    int
}

func buildTree(ks []*big.Int, vs []int) *node {
	if len(ks) == 0 {
		return nil
	}
	m := len(ks) / 2
	return &node{l: buildTree(ks[:m], vs[:m]), r: buildTree(ks[m+1:], vs[m+1:]), k: ks[m], v: vs[m]}
}

func (n *node) lean(sb *strings.Builder) {
	if n == nil {
		sb.WriteString(".L")
		return
	}
	sb.WriteString("(.N ")
	n.l.lean(sb)
	fmt.Fprintf(sb, " %s %d ", n.k.String(), n.v)
	n.r.lean(sb)
	sb.WriteString(")")
}

func wordsLean(ns, name string, words []string, withTree bool, src string) string {
	var sb strings.Builder
	sb.WriteString("-- GENERATED by go/cmd/extract from " + src + " — do not edit\n")
	sb.WriteString("import Bip39V.Basic.Tree\nset_option maxRecDepth 1000000\nnamespace " + ns + "\n")
	fmt.Fprintf(&sb, "def %s : Array Nat := #[", name)
	packed := make([]*big.Int, len(words))
	for i, w := range words {
		packed[i] = pack(items(w))
		if i > 0 {
			sb.WriteString(",")
		}
		fmt.Fprintf(&sb, "\n  %s /- %d %s -/", packed[i].String(), i, commentSafe(w))
	}
	sb.WriteString("\n]\n")
	if withTree {
		idx := make([]int, len(words))
		for i := range idx {
			idx[i] = i
		}
		sort.SliceStable(idx, func(a, b int) bool { return packed[idx[a]].Cmp(packed[idx[b]]) < 0 })
		ks := make([]*big.Int, len(idx))
		for i, j := range idx {
			ks[i] = packed[j]
		}
		fmt.Fprintf(&sb, "def %sTree : T :=\n  ", name)
		buildTree(ks, idx).lean(&sb)
		sb.WriteString("\n")
	}
	sb.WriteString("end " + ns + "\n")
	return sb.String()
}

// ---------------------------------------------------------------------------
// lang.go structure

type ListArm struct {
	Consts []string `json:"consts"` // case labels (identifiers)
	Table  string   `json:"table"`  // wordlist variable
}
type MapArm struct {
	Consts []string `json:"consts"`
	Once   string   `json:"once"`
	WVar   string   `json:"wvar"`  // variable assigned (make + index-assign) inside the Do closure
	Table  string   `json:"table"` // wordlist variable ranged over
	RVar   string   `json:"rvar"`  // variable returned after Do
	Cap    string   `json:"cap"`
}
type LangFacts struct {
	Consts      [][2]string `json:"consts"` // name, value
	ConstType   string      `json:"const_type"`
	ListArms    []ListArm   `json:"list_arms"`
	ListDefault string      `json:"list_default"`
	MapArms     []MapArm    `json:"map_arms"`
	MapDefault  string      `json:"map_default"` // "nil"
	OnceVars    []string    `json:"once_vars"`
	MapVars     []string    `json:"map_vars"`
	Problems    []string    `json:"problems"`
}

func selName(e ast.Expr, pkg string) (string, bool) {
	se, ok := e.(*ast.SelectorExpr)
	if !ok {
		return "", false
	}
	id, ok := se.X.(*ast.Ident)
	if !ok || id.Name != pkg {
		return "", false
	}
	return se.Sel.Name, true
}

func identName(e ast.Expr) (string, bool) {
	id, ok := e.(*ast.Ident)
	if !ok {
		return "", false
	}
	return id.Name, true
}

func extractLang(f *ast.File, lf *LangFacts) {
	bad := func(format string, a ...interface{}) { lf.Problems = append(lf.Problems, fmt.Sprintf(format, a...)) }
	for _, d := range f.Decls {
		switch x := d.(type) {
		case *ast.GenDecl:
			if x.Tok == token.CONST {
				// expect: first spec `Name Type = iota`, the rest bare names
				isLang := false
				for i, sp := range x.Specs {
					vs := sp.(*ast.ValueSpec)
					if i == 0 {
						if t, ok := identName(vs.Type); ok && len(vs.Values) == 1 {
							if v, ok := identName(vs.Values[0]); ok && v == "iota" && t == "Language" {
								isLang = true
								lf.ConstType = t
							}
						}
						if !isLang {
							break
						}
					} else if vs.Type != nil || len(vs.Values) != 0 {
						bad("const block: spec %d is not a bare iota continuation", i)
					}
					if len(vs.Names) != 1 {
						bad("const block: spec %d declares several names", i)
					}
					for _, n := range vs.Names {
						lf.Consts = append(lf.Consts, [2]string{n.Name, strconv.Itoa(i)})
					}
				}
			}
			if x.Tok == token.VAR {
				for _, sp := range x.Specs {
					vs := sp.(*ast.ValueSpec)
					if len(vs.Values) != 0 {
						continue
					}
					if n, ok := selName(vs.Type, "sync"); ok && n == "Once" {
						for _, nm := range vs.Names {
							lf.OnceVars = append(lf.OnceVars, nm.Name)
						}
					}
					if mt, ok := vs.Type.(*ast.MapType); ok {
						k, _ := identName(mt.Key)
						v, _ := identName(mt.Value)
						if k == "string" && v == "int64" {
							for _, nm := range vs.Names {
								lf.MapVars = append(lf.MapVars, nm.Name)
							}
						}
					}
				}
			}
		case *ast.FuncDecl:
			if recvName(x) != "Language" || x.Body == nil {
				continue
			}
			recv := ""
			if len(x.Recv.List[0].Names) == 1 {
				recv = x.Recv.List[0].Names[0].Name
			}
			switch x.Name.Name {
			case "list":
				extractList(x, recv, lf, bad)
			case "mapping":
				extractMapping(x, recv, lf, bad)
			}
		}
	}
	if lf.ConstType == "" {
		bad("no `Language = iota` const block found")
	}
}

func caseNames(cc *ast.CaseClause, bad func(string, ...interface{})) []string {
	var out []string
	for _, e := range cc.List {
		if n, ok := identName(e); ok {
			out = append(out, n)
		} else {
			bad("case label is not an identifier")
		}
	}
	return out
}

func extractList(fd *ast.FuncDecl, recv string, lf *LangFacts, bad func(string, ...interface{})) {
	if len(fd.Body.List) != 1 {
		bad("list(): body is not a single switch")
		return
	}
	sw, ok := fd.Body.List[0].(*ast.SwitchStmt)
	if !ok || sw.Init != nil {
		bad("list(): body is not a single switch")
		return
	}
	if t, ok := identName(sw.Tag); !ok || t != recv {
		bad("list(): switch tag is not the receiver")
		return
	}
	for _, st := range sw.Body.List {
		cc := st.(*ast.CaseClause)
		if len(cc.Body) != 1 {
			bad("list(): case body is not a single return")
			continue
		}
		rs, ok := cc.Body[0].(*ast.ReturnStmt)
		if !ok || len(rs.Results) != 1 {
			bad("list(): case body is not a single return")
			continue
		}
		tbl, ok := selName(rs.Results[0], "wordlist")
		if !ok {
			bad("list(): returned value is not wordlist.X")
			continue
		}
		if cc.List == nil {
			lf.ListDefault = tbl
		} else {
			lf.ListArms = append(lf.ListArms, ListArm{Consts: caseNames(cc, bad), Table: tbl})
		}
	}
	if lf.ListDefault == "" {
		bad("list(): no default arm")
	}
}

func extractMapping(fd *ast.FuncDecl, recv string, lf *LangFacts, bad func(string, ...interface{})) {
	// switch on the receiver, then `return nil` — either as the statement after the switch or as the
	// switch's default clause
	if len(fd.Body.List) != 2 && len(fd.Body.List) != 1 {
		bad("mapping(): body is not switch + return")
		return
	}
	sw, ok := fd.Body.List[0].(*ast.SwitchStmt)
	if !ok || sw.Init != nil {
		bad("mapping(): first statement is not a switch")
		return
	}
	if t, ok := identName(sw.Tag); !ok || t != recv {
		bad("mapping(): switch tag is not the receiver")
		return
	}
	isReturnNil := func(st ast.Stmt) bool {
		rs, ok := st.(*ast.ReturnStmt)
		if !ok || len(rs.Results) != 1 {
			return false
		}
		n, ok := identName(rs.Results[0])
		return ok && n == "nil"
	}
	var defClause *ast.CaseClause
	for _, st := range sw.Body.List {
		if cc := st.(*ast.CaseClause); cc.List == nil {
			defClause = cc
		}
	}
	switch {
	case len(fd.Body.List) == 2 && defClause == nil && isReturnNil(fd.Body.List[1]):
		lf.MapDefault = "nil"
	case len(fd.Body.List) == 1 && defClause != nil && len(defClause.Body) == 1 && isReturnNil(defClause.Body[0]):
		lf.MapDefault = "nil"
	default:
		bad("mapping(): fall-through result is not nil")
	}
	for _, st := range sw.Body.List {
		cc := st.(*ast.CaseClause)
		if cc.List == nil {
			continue // the default clause was handled above
		}
		arm := MapArm{Consts: caseNames(cc, bad)}
		okArm := func() bool {
			if len(cc.Body) != 2 {
				return false
			}
			es, ok := cc.Body[0].(*ast.ExprStmt)
			if !ok {
				return false
			}
			call, ok := es.X.(*ast.CallExpr)
			if !ok || len(call.Args) != 1 {
				return false
			}
			se, ok := call.Fun.(*ast.SelectorExpr)
			if !ok || se.Sel.Name != "Do" {
				return false
			}
			if arm.Once, ok = identName(se.X); !ok {
				return false
			}
			fl, ok := call.Args[0].(*ast.FuncLit)
			if !ok || len(fl.Body.List) != 2 {
				return false
			}
			// m = make(map[string]int64, N)
			as, ok := fl.Body.List[0].(*ast.AssignStmt)
			if !ok || as.Tok != token.ASSIGN || len(as.Lhs) != 1 || len(as.Rhs) != 1 {
				return false
			}
			if arm.WVar, ok = identName(as.Lhs[0]); !ok {
				return false
			}
			mk, ok := as.Rhs[0].(*ast.CallExpr)
			if !ok || len(mk.Args) < 1 {
				return false
			}
			if n, ok := identName(mk.Fun); !ok || n != "make" {
				return false
			}
			if _, ok := mk.Args[0].(*ast.MapType); !ok {
				return false
			}
			if len(mk.Args) == 2 {
				if bl, ok := mk.Args[1].(*ast.BasicLit); ok {
					arm.Cap = bl.Value
				}
			}
			// for idx, word := range wordlist.X { m[word] = int64(idx) }
			rg, ok := fl.Body.List[1].(*ast.RangeStmt)
			if !ok || rg.Tok != token.DEFINE || rg.Key == nil || rg.Value == nil || len(rg.Body.List) != 1 {
				return false
			}
			kn, _ := identName(rg.Key)
			vn, _ := identName(rg.Value)
			if arm.Table, ok = selName(rg.X, "wordlist"); !ok {
				return false
			}
			ia, ok := rg.Body.List[0].(*ast.AssignStmt)
			if !ok || ia.Tok != token.ASSIGN || len(ia.Lhs) != 1 || len(ia.Rhs) != 1 {
				return false
			}
			ix, ok := ia.Lhs[0].(*ast.IndexExpr)
			if !ok {
				return false
			}
			if n, ok := identName(ix.X); !ok || n != arm.WVar {
				return false
			}
			if n, ok := identName(ix.Index); !ok || n != vn {
				return false
			}
			cv, ok := ia.Rhs[0].(*ast.CallExpr)
			if !ok || len(cv.Args) != 1 {
				return false
			}
			if n, ok := identName(cv.Fun); !ok || n != "int64" {
				return false
			}
			if n, ok := identName(cv.Args[0]); !ok || n != kn {
				return false
			}
			// return m
			r2, ok := cc.Body[1].(*ast.ReturnStmt)
			if !ok || len(r2.Results) != 1 {
				return false
			}
			if arm.RVar, ok = identName(r2.Results[0]); !ok {
				return false
			}
			return true
		}()
		if !okArm {
			bad("mapping(): arm %v is not the once-guarded lazy build shape", arm.Consts)
			continue
		}
		lf.MapArms = append(lf.MapArms, arm)
	}
}

// ---------------------------------------------------------------------------
// references to package state from places other than the recognised ones

// identUses returns, for every non-test, default-build file of the package, where each given
// identifier is mentioned, keyed by declaration.
func identUses(decls map[string]ast.Node, names map[string]bool) map[string][]string {
	out := map[string][]string{}
	for key, n := range decls {
		ast.Inspect(n, func(m ast.Node) bool {
			if id, ok := m.(*ast.Ident); ok && names[id.Name] {
				out[id.Name] = append(out[id.Name], key)
			}
			return true
		})
	}
	for k := range out {
		sort.Strings(out[k])
		out[k] = uniq(out[k])
	}
	return out
}

func uniq(s []string) []string {
	var out []string
	for i, x := range s {
		if i == 0 || x != s[i-1] {
			out = append(out, x)
		}
	}
	return out
}

// ---------------------------------------------------------------------------
// main

type Facts struct {
	Repo        string              `json:"repo"`
	Decls       map[string]Decl     `json:"decls"`
	Files       []string            `json:"files"`
	VerifFiles  []string            `json:"verif_only_files"`
	Lang        LangFacts           `json:"lang"`
	Wordlists   map[string]int      `json:"wordlists"` // variable -> number of words
	WordlistSrc map[string]string   `json:"wordlist_src"`
	Uses        map[string][]string `json:"uses"`
	Status      map[string]string   `json:"status"` // decl key -> ok | changed | missing | new
	Problems    []string            `json:"problems"`
	Translated  map[string]string   `json:"translated"` // function -> "" (translated) | reason it was refused
	GenWritten  []string            `json:"gen_written"`
	Inlined     []string            `json:"inlined"` // call sites of pure scalar helpers replaced by the helper's body (inline.go)
	API         []APIFunc           `json:"api"` // exported functions and methods of the root package (name, receiver, parameter types, number of results)
	EnvVars     []string            `json:"env_vars"` // names the root package passes to os.Getenv / os.LookupEnv ("*": os.Environ is called)
	LibPins     map[string]string   `json:"lib_pins"` // library function the model transcribes -> hash of its source
}

func writeIfChanged(path, content string) (bool, error) {
	old, err := os.ReadFile(path)
	if err == nil && string(old) == content {
		return false, nil
	}
	if err := os.MkdirAll(filepath.Dir(path), 0o755); err != nil {
		return false, err
	}
	return true, os.WriteFile(path, []byte(content), 0o644)
}

func parseDir(fset *token.FileSet, dir, relPrefix string, tags []string) (files map[string]*ast.File, order []string, err error) {
	ctx := build.Default
	ctx.BuildTags = tags
	ents, err := os.ReadDir(dir)
	if err != nil {
		return nil, nil, err
	}
	files = map[string]*ast.File{}
	for _, e := range ents {
		nm := e.Name()
		if e.IsDir() || !strings.HasSuffix(nm, ".go") || strings.HasSuffix(nm, "_test.go") {
			continue
		}
		ok, err := ctx.MatchFile(dir, nm)
		if err != nil || !ok {
			continue
		}
		f, err := parser.ParseFile(fset, filepath.Join(dir, nm), nil, parser.SkipObjectResolution)
		if err != nil {
			return nil, nil, fmt.Errorf("%s: %v", nm, err)
		}
		rel := relPrefix + nm
		files[rel] = f
		order = append(order, rel)
	}
	sort.Strings(order)
	return files, order, nil
}

// the exported API (and, through calls, fromEntropy); lang.go's two methods are read structurally
var translationRoots = []string{"Language.list", "NewMnemonicByEntropy", "NewMnemonic", "MnemonicToSeed", "CheckMnemonic", "IsMnemonicValid", "Language.String"}

func main() {
	repo := flag.String("repo", "/repo", "repository root")
	out := flag.String("out", "/verif/lean/Bip39V/Gen", "directory for generated Lean files")
	factsPath := flag.String("facts", "/verif/lean/facts.json", "facts.json output")
	expected := flag.String("expected", "/verif/expected/skeleton.json", "pinned skeletons")
	writeExpected := flag.Bool("write-expected", false, "(re)write the pinned skeletons from the current tree")
	canonical := flag.String("canonical", "", "if set: write pinned canonical word tables to this directory and exit")
	flag.Parse()
	expectedPathV = *expected

	facts := Facts{Repo: *repo, Decls: map[string]Decl{}, Wordlists: map[string]int{}, WordlistSrc: map[string]string{},
		Status: map[string]string{}, Uses: map[string][]string{}}
	fset := token.NewFileSet()
	problem := func(format string, a ...interface{}) {
		facts.Problems = append(facts.Problems, fmt.Sprintf(format, a...))
	}

	// --- the three packages
	type pk struct{ dir, prefix string }
	pkgs := []pk{{*repo, ""}, {filepath.Join(*repo, "internal/wordlist"), "internal/wordlist/"}, {filepath.Join(*repo, "update-wordlist"), "update-wordlist/"}}
	allFiles := map[string]*ast.File{}
	declNodes := map[string]ast.Node{}
	for _, p := range pkgs {
		files, order, err := parseDir(fset, p.dir, p.prefix, nil)
		if err != nil {
			problem("parse %s: %v", p.dir, err)
			continue
		}
		vfiles, vorder, _ := parseDir(fset, p.dir, p.prefix, []string{"verif"})
		for _, v := range vorder {
			if _, ok := files[v]; !ok {
				facts.VerifFiles = append(facts.VerifFiles, v)
			}
		}
		// the reverse: a file of the normal build that the harness build (-tags verif) would NOT contain
		// means the harness exercises other code than the one shipped
		for _, v := range order {
			if _, ok := vfiles[v]; !ok {
				problem("%s is part of the normal build but excluded under the verif tag: the harness would not run it", v)
			}
		}
		if p.prefix == "" {
			// calls of pure scalar helpers (`func validEntLen(n int) bool { return … }`) are replaced by their
			// bodies before anything else looks at the functions (inline.go)
			facts.Inlined = append(normaliseLibraryCalls(files), normaliseMoreLibraryCalls(files)...)
			facts.Inlined = append(facts.Inlined, inlinePureHelpers(files)...)
			facts.Inlined = append(facts.Inlined, foldErrNilTests(files)...)
			facts.Inlined = append(facts.Inlined, normaliseLoops(files)...)
			facts.Inlined = append(facts.Inlined, normaliseStatements(files)...)
			facts.Inlined = append(facts.Inlined, inlineStringConsts(files)...)
			collectGateConsts(files)
			// the gate conditions are translated; they become holes of the skeletons computed below
			funcs := map[string]*ast.FuncDecl{}
			for _, rel := range order {
				for _, d := range files[rel].Decls {
					if fd, ok := d.(*ast.FuncDecl); ok && fd.Recv == nil {
						funcs["func:"+fd.Name.Name] = fd
					}
				}
			}
			gatesText = gatesLean(&facts, funcs, gateHoles)
		}
		for _, rel := range order {
			allFiles[rel] = files[rel]
			facts.Files = append(facts.Files, rel)
			for _, d := range declsOfFile(fset, rel, files[rel]) {
				key := d.Key
				if p.prefix != "" {
					key = p.prefix + d.Key
					d.Key = key
				}
				if _, dup := facts.Decls[key]; dup {
					key = key + "@" + rel
					d.Key = key
				}
				facts.Decls[key] = d
			}
			// keep nodes of the root package for the uses table
			if p.prefix == "" {
				for _, d := range files[rel].Decls {
					switch x := d.(type) {
					case *ast.FuncDecl:
						k := "func:" + x.Name.Name
						if r := recvName(x); r != "" {
							k = "method:" + r + "." + x.Name.Name
						}
						declNodes[k] = x
					case *ast.GenDecl:
						for _, sp := range x.Specs {
							if vs, ok := sp.(*ast.ValueSpec); ok && len(vs.Values) > 0 {
								nm := []string{}
								for _, n := range vs.Names {
									nm = append(nm, n.Name)
								}
								// only the initialiser expressions count as uses
								for i, v := range vs.Values {
									declNodes[fmt.Sprintf("%s:%s#init%d", strings.ToLower(x.Tok.String()), strings.Join(nm, ","), i)] = v
								}
							}
						}
					}
				}
			}
		}
	}

	// --- word tables
	words := map[string][]string{}
	for rel, f := range allFiles {
		if !strings.HasPrefix(rel, "internal/wordlist/") {
			continue
		}
		for _, d := range f.Decls {
			gd, ok := d.(*ast.GenDecl)
			if !ok || gd.Tok != token.VAR {
				continue
			}
			for _, sp := range gd.Specs {
				vs := sp.(*ast.ValueSpec)
				if len(vs.Names) != 1 || len(vs.Values) != 1 {
					problem("%s: wordlist variable declaration has an unexpected shape", rel)
					continue
				}
				name := vs.Names[0].Name
				cl, ok := vs.Values[0].(*ast.CompositeLit)
				if !ok {
					problem("%s: %s is not a composite literal", rel, name)
					continue
				}
				at, ok := cl.Type.(*ast.ArrayType)
				if !ok || at.Len != nil {
					problem("%s: %s is not a []string literal", rel, name)
					continue
				}
				if n, ok := identName(at.Elt); !ok || n != "string" {
					problem("%s: %s is not a []string literal", rel, name)
					continue
				}
				var ws []string
				good := true
				for _, e := range cl.Elts {
					bl, ok := e.(*ast.BasicLit)
					if !ok || bl.Kind != token.STRING {
						good = false
						break
					}
					s, ok := strLit(bl.Value)
					if !ok {
						good = false
						break
					}
					ws = append(ws, s)
				}
				if !good {
					problem("%s: %s has an element that is not a string literal", rel, name)
					continue
				}
				words[name] = ws
				facts.Wordlists[name] = len(ws)
				facts.WordlistSrc[name] = rel
			}
		}
	}

	if *canonical != "" {
		names := []string{}
		for n := range words {
			names = append(names, n)
		}
		sort.Strings(names)
		for _, n := range names {
			c := wordsLean("Bip39V.Canonical", n, words[n], false, facts.WordlistSrc[n]+" (pinned snapshot)")
			c = strings.Replace(c, "-- GENERATED by go/cmd/extract", "-- PINNED reference copy, written once by go/cmd/extract -canonical", 1)
			if _, err := writeIfChanged(filepath.Join(*canonical, n+".lean"), c); err != nil {
				fmt.Fprintln(os.Stderr, err)
				os.Exit(2)
			}
		}
		return
	}

	// --- lang.go
	if f, ok := allFiles["lang.go"]; ok {
		extractLang(f, &facts.Lang)
	} else {
		facts.Lang.Problems = append(facts.Lang.Problems, "lang.go not found")
	}

	// --- who mentions the package state
	tracked := map[string]bool{"cryptoRander": true, "last11BitsMask": true, "first11BitsMask": true,
		"ErrWordLen": true, "ErrEntropyLen": true, "ErrChecksumIncorrect": true, "_Language_name": true, "_Language_index": true,
		"wordlist": true, "Reader": true}
	for _, v := range facts.Lang.OnceVars {
		tracked[v] = true
	}
	for _, v := range facts.Lang.MapVars {
		tracked[v] = true
	}
	facts.Uses = identUses(declNodes, tracked)

	// --- compare skeletons
	if *writeExpected {
		exp := map[string]string{}
		for k, d := range facts.Decls {
			exp[k] = d.Skel
		}
		b, _ := json.MarshalIndent(exp, "", " ")
		if err := os.WriteFile(*expected, b, 0o644); err != nil {
			fmt.Fprintln(os.Stderr, err)
			os.Exit(2)
		}
		pl := map[string][]Lit{}
		for k := range roles {
			pl[k] = facts.Decls[k].Lits
		}
		b, _ = json.MarshalIndent(pl, "", " ")
		if err := os.WriteFile(filepath.Join(filepath.Dir(*expected), "lits.json"), b, 0o644); err != nil {
			fmt.Fprintln(os.Stderr, err)
			os.Exit(2)
		}
	}
	exp := map[string]string{}
	if b, err := os.ReadFile(*expected); err == nil {
		_ = json.Unmarshal(b, &exp)
	} else {
		problem("no pinned skeletons: %v", err)
	}
	for k, d := range facts.Decls {
		if e, ok := exp[k]; !ok {
			facts.Status[k] = "new"
		} else if e != d.Skel {
			facts.Status[k] = "changed"
		} else {
			facts.Status[k] = "ok"
		}
	}
	for k := range exp {
		if _, ok := facts.Decls[k]; !ok {
			facts.Status[k] = "missing"
		}
	}

	// --- Lean output
	gen := map[string]string{}
	names := []string{}
	for n := range words {
		names = append(names, n)
	}
	sort.Strings(names)
	for _, n := range names {
		gen["Words/"+n+".lean"] = wordsLean("Bip39V.Gen.Words", n, words[n], true, facts.WordlistSrc[n])
	}
	gen["Lang.lean"] = langLean(&facts, names)
	facts.EnvVars = envVarsRead(allFiles)
	facts.API = apiOf(allFiles)
	gen["Source.lean"] = sourceLean(&facts, allFiles)
	gen["Gates.lean"] = gatesText
	gen["Consts.lean"] = constsLean(&facts)
	// --- the function bodies, translated
	{
		rootFiles := map[string]*ast.File{}
		for rel, f := range allFiles {
			if !strings.Contains(rel, "/") {
				rootFiles[rel] = f
			}
		}
		lc := []string{}
		for _, c := range facts.Lang.Consts {
			lc = append(lc, c[0])
		}
		tr := newTranslator(fset, rootFiles, lc, &facts.Problems)
		tr.gateCond = gateHoles
		for n := range words {
			tr.tables[n] = true
		}
		code, status := tr.codeLean(translationRoots)
		facts.Translated = status
		for rel, c := range code {
			gen[rel] = c
		}
		// Language.mapping: its own translator (concrete package state: once cells and map variables)
		mtext, mwhy := mappingLean(fset, rootFiles, &facts.Lang, tr.tables)
		gen["Code/Language_mapping.lean"] = mtext
		facts.Translated["Language.mapping"] = mwhy
	}
	for rel, c := range gen {
		ch, err := writeIfChanged(filepath.Join(*out, rel), c)
		if err != nil {
			fmt.Fprintln(os.Stderr, err)
			os.Exit(2)
		}
		if ch {
			facts.GenWritten = append(facts.GenWritten, rel)
		}
	}
	if ents, err := os.ReadDir(filepath.Join(*out, "Code")); err == nil {
		for _, e := range ents {
			if _, ok := gen["Code/"+e.Name()]; !ok {
				os.Remove(filepath.Join(*out, "Code", e.Name()))
			}
		}
	}
	// remove stale generated word tables
	if ents, err := os.ReadDir(filepath.Join(*out, "Words")); err == nil {
		for _, e := range ents {
			if _, ok := gen["Words/"+e.Name()]; !ok {
				os.Remove(filepath.Join(*out, "Words", e.Name()))
			}
		}
	}
	sort.Strings(facts.GenWritten)
	facts.LibPins = libPins(*repo)
	b, _ := json.MarshalIndent(facts, "", " ")
	if err := os.WriteFile(*factsPath, b, 0o644); err != nil {
		fmt.Fprintln(os.Stderr, err)
		os.Exit(2)
	}
	nbad := 0
	for _, s := range facts.Status {
		if s != "ok" {
			nbad++
		}
	}
	fmt.Printf("extract: %d declarations, %d not matching the pinned skeletons, %d word tables, %d problems, %d gen files rewritten\n",
		len(facts.Decls), nbad, len(words), len(facts.Problems)+len(facts.Lang.Problems), len(facts.GenWritten))
}
