package main

import (
	"fmt"
	"go/ast"
	"go/token"
	"sort"
)

// Inlining of pure scalar helpers.
//
// A maintainer who tidies the size checks typically extracts a helper such as
//
//	func validEntLen(n int) bool { return n >= 16 && n <= 32 && n%4 == 0 }
//
// and calls it from the exported function.  Neither the gate translator (gates.go) nor the
// refinement proofs can look through a call, so before anything else is computed this pass replaces
// every call of such a helper by its body, with the parameters replaced by the arguments.  This is
// done on the AST, once, so that the gate translator, the skeletons and the body translator all see
// the same (inlined) function.  It is semantics-preserving under the conditions checked here:
//
//   - the callee is a plain function of the root package (no receiver, no type parameters) whose body
//     is exactly `return <expr>`, with one result of a scalar type and parameters of scalar types;
//   - <expr> is built from the parameters, literals, package-level constants, conversions between the
//     scalar types, `len`, unary and binary operators, parentheses and calls of other such helpers;
//   - every argument at the call site is pure and cannot panic (identifiers, literals, `len(x)`,
//     conversions, `+ - *`, comparisons, `&& || !`, `/` and `%` by a non-zero literal), so evaluating
//     it once, several times or never, and in any order, makes no difference;
//   - no identifier that is free in the callee's body is declared inside the calling function (no
//     capture), and the callee is not (mutually) recursive (depth limit).
//
// Arguments and result are wrapped in explicit conversions to the declared parameter/result type, so
// that untyped constants obtain the type they would have had as argument or result.  Anything else is
// left as a call (the body translator then translates the callee as a function of its own, or
// refuses).  A helper with a wrong body is inlined just the same — the refinement and gate theorems
// are then about the wrong expression and fail.

var scalarTypes = map[string]bool{"int": true, "uint": true, "int64": true, "bool": true, "Language": true}

type helper struct {
	fd     *ast.FuncDecl
	params []string // names
	ptypes []string
	rtype  string
	body   ast.Expr
	free   map[string]bool // identifiers free in the body (not parameters)
}

func scalarTypeName(e ast.Expr) string {
	if id, ok := e.(*ast.Ident); ok && scalarTypes[id.Name] {
		return id.Name
	}
	return ""
}

// helperOf: fd as an inlinable helper, or nil.
func helperOf(fd *ast.FuncDecl) *helper {
	if fd.Recv != nil || fd.Body == nil || fd.Type.TypeParams != nil || len(fd.Body.List) != 1 {
		return nil
	}
	rs, ok := fd.Body.List[0].(*ast.ReturnStmt)
	if !ok || len(rs.Results) != 1 || fd.Type.Results == nil || len(fd.Type.Results.List) != 1 || len(fd.Type.Results.List[0].Names) != 0 {
		return nil
	}
	h := &helper{fd: fd, body: rs.Results[0], free: map[string]bool{}}
	h.rtype = scalarTypeName(fd.Type.Results.List[0].Type)
	if id, ok := fd.Type.Results.List[0].Type.(*ast.Ident); ok && id.Name == "string" {
		h.rtype = "string"
	}
	if h.rtype == "" {
		return nil
	}
	for _, fl := range fd.Type.Params.List {
		tn := scalarTypeName(fl.Type)
		if tn == "" || len(fl.Names) == 0 {
			return nil
		}
		for _, n := range fl.Names {
			if n.Name == "_" {
				return nil
			}
			h.params = append(h.params, n.Name)
			h.ptypes = append(h.ptypes, tn)
		}
	}
	isParam := map[string]bool{}
	for _, p := range h.params {
		isParam[p] = true
	}
	okBody := true
	var walk func(e ast.Expr)
	walk = func(e ast.Expr) {
		switch x := e.(type) {
		case *ast.ParenExpr:
			walk(x.X)
		case *ast.BasicLit:
			if x.Kind != token.INT && x.Kind != token.CHAR && x.Kind != token.STRING {
				okBody = false
			}
		case *ast.Ident:
			if !isParam[x.Name] {
				h.free[x.Name] = true
			}
		case *ast.UnaryExpr:
			if x.Op != token.NOT && x.Op != token.SUB && x.Op != token.ADD && x.Op != token.XOR {
				okBody = false
			}
			walk(x.X)
		case *ast.BinaryExpr:
			walk(x.X)
			walk(x.Y)
		case *ast.CallExpr:
			if x.Ellipsis != token.NoPos {
				okBody = false
				return
			}
			switch fn := x.Fun.(type) {
			case *ast.Ident:
				if !scalarTypes[fn.Name] && fn.Name != "len" {
					h.free[fn.Name] = true
				}
			case *ast.SelectorExpr:
				// pkg.Func(args) (or a method of a parameter): the qualifier is an identifier
				q, ok := fn.X.(*ast.Ident)
				if !ok {
					okBody = false
					return
				}
				if !isParam[q.Name] {
					h.free[q.Name] = true
				}
			default:
				okBody = false
				return
			}
			for _, a := range x.Args {
				walk(a)
			}
		default:
			okBody = false
		}
	}
	walk(h.body)
	if !okBody {
		return nil
	}
	return h
}

// pureArg: the expression has no side effect and cannot panic.
func pureArg(e ast.Expr) bool {
	switch x := e.(type) {
	case *ast.ParenExpr:
		return pureArg(x.X)
	case *ast.BasicLit:
		return x.Kind == token.INT || x.Kind == token.CHAR
	case *ast.Ident:
		return true
	case *ast.UnaryExpr:
		return (x.Op == token.NOT || x.Op == token.SUB || x.Op == token.ADD) && pureArg(x.X)
	case *ast.BinaryExpr:
		switch x.Op {
		case token.ADD, token.SUB, token.MUL, token.LSS, token.LEQ, token.GTR, token.GEQ, token.EQL, token.NEQ, token.LAND, token.LOR:
			return pureArg(x.X) && pureArg(x.Y)
		case token.QUO, token.REM:
			if bl, ok := x.Y.(*ast.BasicLit); ok && bl.Kind == token.INT {
				if v, ok := intLit(Lit{Kind: "INT", Val: bl.Value}); ok && v.Sign() != 0 {
					return pureArg(x.X)
				}
			}
		}
		return false
	case *ast.CallExpr:
		id, ok := x.Fun.(*ast.Ident)
		if !ok || len(x.Args) != 1 {
			return false
		}
		if id.Name == "len" {
			_, isId := x.Args[0].(*ast.Ident)
			return isId
		}
		return scalarTypes[id.Name] && id.Name != "bool" && pureArg(x.Args[0])
	}
	return false
}

func conv(t string, e ast.Expr) ast.Expr {
	if t == "bool" || t == "string" {
		return &ast.ParenExpr{X: e}
	}
	return &ast.CallExpr{Fun: ast.NewIdent(t), Args: []ast.Expr{e}}
}

// substExpr: a deep copy of e with the parameters replaced.
func substExpr(e ast.Expr, env map[string]ast.Expr) ast.Expr {
	switch x := e.(type) {
	case *ast.ParenExpr:
		return &ast.ParenExpr{X: substExpr(x.X, env)}
	case *ast.BasicLit:
		return &ast.BasicLit{Kind: x.Kind, Value: x.Value, ValuePos: x.ValuePos}
	case *ast.Ident:
		if r, ok := env[x.Name]; ok {
			return r
		}
		return &ast.Ident{Name: x.Name, NamePos: x.NamePos}
	case *ast.UnaryExpr:
		return &ast.UnaryExpr{Op: x.Op, X: substExpr(x.X, env), OpPos: x.OpPos}
	case *ast.BinaryExpr:
		return &ast.BinaryExpr{Op: x.Op, X: substExpr(x.X, env), Y: substExpr(x.Y, env), OpPos: x.OpPos}
	case *ast.CallExpr:
		args := []ast.Expr{}
		for _, a := range x.Args {
			args = append(args, substExpr(a, env))
		}
		fun := x.Fun
		if se, ok := fun.(*ast.SelectorExpr); ok {
			fun = &ast.SelectorExpr{X: substExpr(se.X, env), Sel: se.Sel}
		}
		return &ast.CallExpr{Fun: fun, Args: args, Lparen: x.Lparen, Rparen: x.Rparen}
	}
	return e
}

// declaredIn: every identifier the function declares (parameters, receivers, results, :=, var, range,
// labels are irrelevant).
func declaredIn(fd *ast.FuncDecl) map[string]bool {
	out := map[string]bool{}
	fields := func(fl *ast.FieldList) {
		if fl == nil {
			return
		}
		for _, f := range fl.List {
			for _, n := range f.Names {
				out[n.Name] = true
			}
		}
	}
	fields(fd.Recv)
	fields(fd.Type.Params)
	fields(fd.Type.Results)
	if fd.Body == nil {
		return out
	}
	ast.Inspect(fd.Body, func(n ast.Node) bool {
		switch x := n.(type) {
		case *ast.AssignStmt:
			if x.Tok == token.DEFINE {
				for _, l := range x.Lhs {
					if id, ok := l.(*ast.Ident); ok {
						out[id.Name] = true
					}
				}
			}
		case *ast.ValueSpec:
			for _, n := range x.Names {
				out[n.Name] = true
			}
		case *ast.TypeSpec:
			out[x.Name.Name] = true
		case *ast.RangeStmt:
			if x.Tok == token.DEFINE {
				for _, l := range []ast.Expr{x.Key, x.Value} {
					if id, ok := l.(*ast.Ident); ok {
						out[id.Name] = true
					}
				}
			}
		case *ast.FuncLit:
			fields(x.Type.Params)
			fields(x.Type.Results)
		}
		return true
	})
	return out
}

// inlinePureHelpers rewrites the function bodies of the root package in place and returns a note per
// inlined call site ("caller <- callee").
func inlinePureHelpers(files map[string]*ast.File) []string {
	helpers := map[string]*helper{}
	funcsByName := map[string]int{}
	for _, f := range files {
		for _, d := range f.Decls {
			if fd, ok := d.(*ast.FuncDecl); ok && fd.Recv == nil {
				funcsByName[fd.Name.Name]++
				if h := helperOf(fd); h != nil {
					helpers[fd.Name.Name] = h
				}
			}
		}
	}
	for n, c := range funcsByName {
		if c > 1 {
			delete(helpers, n)
		}
	}
	if len(helpers) == 0 {
		return nil
	}
	notes := map[string]bool{}
	for _, f := range files {
		for _, d := range f.Decls {
			fd, ok := d.(*ast.FuncDecl)
			if !ok || fd.Body == nil {
				continue
			}
			if _, isHelper := helpers[fd.Name.Name]; isHelper && fd.Recv == nil {
				continue // helpers are expanded where they are used
			}
			declared := declaredIn(fd)
			var rewrite func(e ast.Expr, depth int) ast.Expr
			rewrite = func(e ast.Expr, depth int) ast.Expr {
				c, ok := e.(*ast.CallExpr)
				if !ok {
					return e
				}
				id, ok := c.Fun.(*ast.Ident)
				if !ok || declared[id.Name] {
					return e
				}
				h := helpers[id.Name]
				if h == nil || len(c.Args) != len(h.params) || c.Ellipsis != token.NoPos || depth > 8 {
					return e
				}
				for name := range h.free {
					if declared[name] {
						return e
					}
				}
				env := map[string]ast.Expr{}
				for i, a := range c.Args {
					if !pureArg(a) {
						return e
					}
					env[h.params[i]] = conv(h.ptypes[i], a)
				}
				notes[fd.Name.Name+" <- "+id.Name] = true
				body := substExpr(h.body, env)
				// helpers called by the helper
				body = mapExpr(body, func(x ast.Expr) ast.Expr { return rewrite(x, depth+1) })
				return conv(h.rtype, body)
			}
			rewriteStmts(fd.Body, func(x ast.Expr) ast.Expr { return mapExpr(x, func(y ast.Expr) ast.Expr { return rewrite(y, 0) }) })
		}
	}
	out := []string{}
	for n := range notes {
		out = append(out, n)
	}
	sort.Strings(out)
	return out
}

// mapExpr applies f bottom-up to every sub-expression of the scalar forms (and to call arguments and
// operands of the other forms the package uses).
func mapExpr(e ast.Expr, f func(ast.Expr) ast.Expr) ast.Expr {
	switch x := e.(type) {
	case *ast.ParenExpr:
		x.X = mapExpr(x.X, f)
	case *ast.UnaryExpr:
		x.X = mapExpr(x.X, f)
	case *ast.BinaryExpr:
		x.X = mapExpr(x.X, f)
		x.Y = mapExpr(x.Y, f)
	case *ast.CallExpr:
		for i := range x.Args {
			x.Args[i] = mapExpr(x.Args[i], f)
		}
		if se, ok := x.Fun.(*ast.SelectorExpr); ok {
			se.X = mapExpr(se.X, f)
		}
	case *ast.IndexExpr:
		x.X = mapExpr(x.X, f)
		x.Index = mapExpr(x.Index, f)
	case *ast.SliceExpr:
		x.X = mapExpr(x.X, f)
		if x.Low != nil {
			x.Low = mapExpr(x.Low, f)
		}
		if x.High != nil {
			x.High = mapExpr(x.High, f)
		}
		if x.Max != nil {
			x.Max = mapExpr(x.Max, f)
		}
	case *ast.SelectorExpr:
		x.X = mapExpr(x.X, f)
	case *ast.StarExpr:
		x.X = mapExpr(x.X, f)
	}
	return f(e)
}

// rewriteStmts applies f to every expression position of the statements of a block (closures excluded:
// the body translator refuses them anyway).
func rewriteStmts(b *ast.BlockStmt, f func(ast.Expr) ast.Expr) {
	var stmt func(s ast.Stmt)
	exprs := func(es []ast.Expr) {
		for i := range es {
			es[i] = f(es[i])
		}
	}
	stmt = func(s ast.Stmt) {
		switch x := s.(type) {
		case *ast.BlockStmt:
			for _, t := range x.List {
				stmt(t)
			}
		case *ast.ExprStmt:
			x.X = f(x.X)
		case *ast.AssignStmt:
			exprs(x.Lhs)
			exprs(x.Rhs)
		case *ast.ReturnStmt:
			exprs(x.Results)
		case *ast.IfStmt:
			if x.Init != nil {
				stmt(x.Init)
			}
			x.Cond = f(x.Cond)
			stmt(x.Body)
			if x.Else != nil {
				stmt(x.Else)
			}
		case *ast.ForStmt:
			if x.Init != nil {
				stmt(x.Init)
			}
			if x.Cond != nil {
				x.Cond = f(x.Cond)
			}
			if x.Post != nil {
				stmt(x.Post)
			}
			stmt(x.Body)
		case *ast.RangeStmt:
			x.X = f(x.X)
			stmt(x.Body)
		case *ast.SwitchStmt:
			if x.Init != nil {
				stmt(x.Init)
			}
			if x.Tag != nil {
				x.Tag = f(x.Tag)
			}
			stmt(x.Body)
		case *ast.CaseClause:
			exprs(x.List)
			for _, t := range x.Body {
				stmt(t)
			}
		case *ast.DeclStmt:
			if gd, ok := x.Decl.(*ast.GenDecl); ok {
				for _, sp := range gd.Specs {
					if vs, ok := sp.(*ast.ValueSpec); ok {
						exprs(vs.Values)
					}
				}
			}
		case *ast.IncDecStmt:
			x.X = f(x.X)
		}
	}
	stmt(b)
}

// normaliseLibraryCalls rewrites, in place, library calls that are by definition another call the
// translator knows:
//
//	io.ReadAtLeast(r, buf, len(buf))  ==>  io.ReadFull(r, buf)
//
// (`func ReadFull(r Reader, buf []byte) (n int, err error) { return ReadAtLeast(r, buf, len(buf)) }` —
// the source of both is pinned by hash in expected/libpins.json).  Returns a note per rewritten site.
func normaliseLibraryCalls(files map[string]*ast.File) []string {
	notes := []string{}
	for rel, f := range files {
		ioName := ""
		for _, im := range f.Imports {
			if im.Path.Value == `"io"` {
				ioName = "io"
				if im.Name != nil {
					ioName = im.Name.Name
				}
			}
		}
		if ioName == "" || ioName == "_" || ioName == "." {
			continue
		}
		ast.Inspect(f, func(n ast.Node) bool {
			c, ok := n.(*ast.CallExpr)
			if !ok || len(c.Args) != 3 {
				return true
			}
			se, ok := c.Fun.(*ast.SelectorExpr)
			if !ok || se.Sel.Name != "ReadAtLeast" {
				return true
			}
			if x, ok := se.X.(*ast.Ident); !ok || x.Name != ioName {
				return true
			}
			buf, ok := c.Args[1].(*ast.Ident)
			if !ok {
				return true
			}
			l, ok := c.Args[2].(*ast.CallExpr)
			if !ok || len(l.Args) != 1 {
				return true
			}
			if id, ok := l.Fun.(*ast.Ident); !ok || id.Name != "len" {
				return true
			}
			if b2, ok := l.Args[0].(*ast.Ident); !ok || b2.Name != buf.Name {
				return true
			}
			c.Fun = &ast.SelectorExpr{X: se.X, Sel: &ast.Ident{Name: "ReadFull", NamePos: se.Sel.NamePos}}
			c.Args = c.Args[:2]
			notes = append(notes, rel+": io.ReadAtLeast(r, "+buf.Name+", len("+buf.Name+")) read as io.ReadFull(r, "+buf.Name+")")
			return true
		})
	}
	sort.Strings(notes)
	return notes
}

// normaliseMoreLibraryCalls: two more calls that are, by their definition in the standard library (pinned
// by hash), another call the translator knows:
//
//	strconv.Itoa(i)              ==>  strconv.FormatInt(int64(i), 10)
//	strings.SplitN(s, sep, -1)   ==>  strings.Split(s, sep)
func normaliseMoreLibraryCalls(files map[string]*ast.File) []string {
	notes := []string{}
	for rel, f := range files {
		local := map[string]string{}
		for _, im := range f.Imports {
			p := im.Path.Value
			if p != `"strconv"` && p != `"strings"` {
				continue
			}
			n := p[1 : len(p)-1]
			if im.Name != nil {
				n = im.Name.Name
			}
			local[n] = p[1 : len(p)-1]
		}
		// x[:hi] is x[0:hi]
		ast.Inspect(f, func(n ast.Node) bool {
			if sl, ok := n.(*ast.SliceExpr); ok && sl.Low == nil && sl.High != nil && !sl.Slice3 {
				sl.Low = &ast.BasicLit{Kind: token.INT, Value: "0", ValuePos: sl.Lbrack}
			}
			return true
		})
		ast.Inspect(f, func(n ast.Node) bool {
			c, ok := n.(*ast.CallExpr)
			if !ok {
				return true
			}
			se, ok := c.Fun.(*ast.SelectorExpr)
			if !ok {
				return true
			}
			q, ok := se.X.(*ast.Ident)
			if !ok {
				return true
			}
			switch local[q.Name] + "." + se.Sel.Name {
			case "strconv.Itoa":
				if len(c.Args) == 1 {
					c.Fun = &ast.SelectorExpr{X: se.X, Sel: &ast.Ident{Name: "FormatInt", NamePos: se.Sel.NamePos}}
					c.Args = []ast.Expr{&ast.CallExpr{Fun: ast.NewIdent("int64"), Args: []ast.Expr{c.Args[0]}}, &ast.BasicLit{Kind: token.INT, Value: "10"}}
					notes = append(notes, rel+": strconv.Itoa(i) read as strconv.FormatInt(int64(i), 10)")
				}
			case "strings.SplitN":
				if len(c.Args) == 3 {
					if u, ok := c.Args[2].(*ast.UnaryExpr); ok && u.Op == token.SUB {
						if bl, ok := u.X.(*ast.BasicLit); ok && bl.Kind == token.INT && bl.Value == "1" {
							c.Fun = &ast.SelectorExpr{X: se.X, Sel: &ast.Ident{Name: "Split", NamePos: se.Sel.NamePos}}
							c.Args = c.Args[:2]
							notes = append(notes, rel+": strings.SplitN(s, sep, -1) read as strings.Split(s, sep)")
						}
					}
				}
			}
			return true
		})
	}
	sort.Strings(notes)
	return notes
}

// normaliseLoops rewrites, in place, two loop spellings into the ones the translator knows:
//
//	for i := a; i > c; i--          ==>  for i := a; i >= c+1; i--        (c an integer constant below MaxInt64)
//	for i := range xs { x := xs[i]; … }                                     ==>  for i, x := range xs { … }
//	for i := 0; i < len(xs); i++ { x := xs[i]; … }                          ==>  for i, x := range xs { … }
//
// the last two only if xs is an identifier and the body assigns neither i nor xs (nor an element of xs,
// nor takes their address): then `len(xs)` is the same on every test, i runs through 0..len(xs)-1 and
// xs[i], read first thing in the body, is the element a range loop hands out.
func normaliseLoops(files map[string]*ast.File) []string {
	ct := newConstTable(files)
	notes := []string{}
	isIdent := func(e ast.Expr, name string) bool { id, ok := e.(*ast.Ident); return ok && id.Name == name }
	// does the block assign (or take the address of) the named variable or one of its elements?
	touches := func(b *ast.BlockStmt, names ...string) bool {
		bad := false
		root := func(e ast.Expr) string {
			for {
				switch y := e.(type) {
				case *ast.IndexExpr:
					e = y.X
					continue
				case *ast.ParenExpr:
					e = y.X
					continue
				case *ast.SliceExpr:
					e = y.X
					continue
				}
				break
			}
			if id, ok := e.(*ast.Ident); ok {
				return id.Name
			}
			return ""
		}
		hit := func(e ast.Expr) {
			r := root(e)
			for _, n := range names {
				if r == n {
					bad = true
				}
			}
		}
		ast.Inspect(b, func(n ast.Node) bool {
			switch x := n.(type) {
			case *ast.AssignStmt:
				for _, l := range x.Lhs {
					hit(l)
				}
			case *ast.IncDecStmt:
				hit(x.X)
			case *ast.UnaryExpr:
				if x.Op == token.AND {
					hit(x.X)
				}
			case *ast.RangeStmt:
				if x.Tok == token.ASSIGN {
					if x.Key != nil {
						hit(x.Key)
					}
					if x.Value != nil {
						hit(x.Value)
					}
				}
			case *ast.CallExpr:
				// append(xs, …), copy(xs, …) and any call that is handed xs could change it or its elements
				for _, a := range x.Args {
					if id, ok := a.(*ast.Ident); ok {
						for _, n := range names[1:] {
							if id.Name == n {
								if f, ok := x.Fun.(*ast.Ident); !ok || f.Name != "len" {
									bad = true
								}
							}
						}
					}
				}
			}
			return true
		})
		return bad
	}
	// the body starts with `x := xs[i]`
	firstElem := func(b *ast.BlockStmt, xs, i string) (string, bool) {
		if len(b.List) == 0 {
			return "", false
		}
		as, ok := b.List[0].(*ast.AssignStmt)
		if !ok || as.Tok != token.DEFINE || len(as.Lhs) != 1 || len(as.Rhs) != 1 {
			return "", false
		}
		x, ok := as.Lhs[0].(*ast.Ident)
		ix, ok2 := as.Rhs[0].(*ast.IndexExpr)
		if !ok || !ok2 || x.Name == "_" || !isIdent(ix.X, xs) || !isIdent(ix.Index, i) {
			return "", false
		}
		return x.Name, true
	}
	for rel, f := range files {
		for _, d := range f.Decls {
			fd, ok := d.(*ast.FuncDecl)
			if !ok || fd.Body == nil {
				continue
			}
			var walk func(b *ast.BlockStmt)
			walk = func(b *ast.BlockStmt) {
				for k, st := range b.List {
					switch x := st.(type) {
					case *ast.ForStmt:
						walk(x.Body)
						if c, ok := x.Cond.(*ast.BinaryExpr); ok && c.Op == token.GTR {
							if v, ok := ct.eval(c.Y); ok && v.IsInt64() && v.Int64() < 1<<62 {
								if post, ok := x.Post.(*ast.IncDecStmt); ok && post.Tok == token.DEC {
									n := v.Int64() + 1
									var lit ast.Expr = &ast.BasicLit{Kind: token.INT, Value: fmt.Sprint(n)}
									if n < 0 {
										lit = &ast.UnaryExpr{Op: token.SUB, X: &ast.BasicLit{Kind: token.INT, Value: fmt.Sprint(-n)}}
									}
									c.Op, c.Y = token.GEQ, lit
									notes = append(notes, rel+": "+fd.Name.Name+": loop test `i > c` read as `i >= c+1`")
								}
							}
						}
						// for i := 0; i < len(xs); i++ { x := xs[i]; … }
						init, ok1 := x.Init.(*ast.AssignStmt)
						cond, ok2 := x.Cond.(*ast.BinaryExpr)
						post, ok3 := x.Post.(*ast.IncDecStmt)
						if ok1 && ok2 && ok3 && init.Tok == token.DEFINE && len(init.Lhs) == 1 && len(init.Rhs) == 1 && cond.Op == token.LSS && post.Tok == token.INC {
							i, okI := init.Lhs[0].(*ast.Ident)
							zero, okZ := init.Rhs[0].(*ast.BasicLit)
							ln, okL := cond.Y.(*ast.CallExpr)
							if okI && okZ && okL && zero.Value == "0" && isIdent(cond.X, i.Name) && isIdent(post.X, i.Name) && len(ln.Args) == 1 {
								if fn, ok := ln.Fun.(*ast.Ident); ok && fn.Name == "len" {
									if xs, ok := ln.Args[0].(*ast.Ident); ok {
										if elem, ok := firstElem(x.Body, xs.Name, i.Name); ok && !touches(&ast.BlockStmt{List: x.Body.List[1:]}, i.Name, xs.Name) {
											b.List[k] = &ast.RangeStmt{For: x.For, Key: ast.NewIdent(i.Name), Value: ast.NewIdent(elem), Tok: token.DEFINE,
												X: ast.NewIdent(xs.Name), Body: &ast.BlockStmt{Lbrace: x.Body.Lbrace, List: x.Body.List[1:], Rbrace: x.Body.Rbrace}}
											notes = append(notes, rel+": "+fd.Name.Name+": index loop over "+xs.Name+" read as a range loop")
										}
									}
								}
							}
						}
					case *ast.RangeStmt:
						walk(x.Body)
						if x.Tok == token.DEFINE && x.Key != nil && x.Value == nil {
							i, okI := x.Key.(*ast.Ident)
							xs, okX := x.X.(*ast.Ident)
							if okI && okX && i.Name != "_" {
								if elem, ok := firstElem(x.Body, xs.Name, i.Name); ok && !touches(&ast.BlockStmt{List: x.Body.List[1:]}, i.Name, xs.Name) {
									x.Value = ast.NewIdent(elem)
									x.Body.List = x.Body.List[1:]
									notes = append(notes, rel+": "+fd.Name.Name+": `for i := range "+xs.Name+" { x := "+xs.Name+"[i]` read as `for i, x := range "+xs.Name+"`")
								}
							}
						}
					case *ast.IfStmt:
						walk(x.Body)
						if e, ok := x.Else.(*ast.BlockStmt); ok {
							walk(e)
						}
					case *ast.BlockStmt:
						walk(x)
					}
				}
			}
			walk(fd.Body)
		}
	}
	sort.Strings(notes)
	return notes
}

// normaliseStatements rewrites, in place, two statement spellings:
//
//	x = x.M(args)   ==>  x.M(args)      for the math/big methods that return their receiver (z.Add(…) returns z)
//	var x = e       ==>  x := e         (inside functions)
//
// The first is only meaningful when x is a *big.Int; for any other type the translator refuses the method.
func normaliseStatements(files map[string]*ast.File) []string {
	returnsReceiver := map[string]bool{"Add": true, "Sub": true, "Mul": true, "Quo": true, "Rem": true, "Div": true, "Mod": true,
		"And": true, "Or": true, "Xor": true, "AndNot": true, "Not": true, "Neg": true, "Abs": true, "Lsh": true, "Rsh": true,
		"Set": true, "SetInt64": true, "SetUint64": true, "SetBytes": true, "SetBit": true, "Exp": true}
	notes := []string{}
	for rel, f := range files {
		for _, d := range f.Decls {
			fd, ok := d.(*ast.FuncDecl)
			if !ok || fd.Body == nil {
				continue
			}
			var walk func(b *ast.BlockStmt)
			walk = func(b *ast.BlockStmt) {
				for k, st := range b.List {
					switch x := st.(type) {
					case *ast.AssignStmt:
						if x.Tok == token.ASSIGN && len(x.Lhs) == 1 && len(x.Rhs) == 1 {
							id, ok1 := x.Lhs[0].(*ast.Ident)
							call, ok2 := x.Rhs[0].(*ast.CallExpr)
							if ok1 && ok2 {
								if se, ok := call.Fun.(*ast.SelectorExpr); ok && returnsReceiver[se.Sel.Name] {
									if r, ok := se.X.(*ast.Ident); ok && r.Name == id.Name {
										b.List[k] = &ast.ExprStmt{X: call}
										notes = append(notes, rel+": "+fd.Name.Name+": `"+id.Name+" = "+id.Name+"."+se.Sel.Name+"(…)` read as `"+id.Name+"."+se.Sel.Name+"(…)`")
									}
								}
							}
						}
					case *ast.DeclStmt:
						if gd, ok := x.Decl.(*ast.GenDecl); ok && gd.Tok == token.VAR && len(gd.Specs) == 1 {
							if vs, ok := gd.Specs[0].(*ast.ValueSpec); ok && vs.Type == nil && len(vs.Names) == 1 && len(vs.Values) == 1 && vs.Names[0].Name != "_" {
								b.List[k] = &ast.AssignStmt{Lhs: []ast.Expr{vs.Names[0]}, TokPos: vs.Names[0].End(), Tok: token.DEFINE, Rhs: []ast.Expr{vs.Values[0]}}
								notes = append(notes, rel+": "+fd.Name.Name+": `var "+vs.Names[0].Name+" = e` read as `"+vs.Names[0].Name+" := e`")
							}
						}
					case *ast.ForStmt:
						walk(x.Body)
					case *ast.RangeStmt:
						walk(x.Body)
					case *ast.IfStmt:
						walk(x.Body)
						if e, ok := x.Else.(*ast.BlockStmt); ok {
							walk(e)
						}
					case *ast.BlockStmt:
						walk(x)
					}
				}
			}
			walk(fd.Body)
		}
	}
	sort.Strings(notes)
	return notes
}

// foldErrNilTests rewrites, in place,
//
//	err := f(args)
//	return err == nil        (or `err != nil`, `nil == err`, `nil != err`)
//
// at the end of a function body into `return f(args) == nil`: the variable is defined by the call,
// used exactly once, immediately, as an operand of the comparison with nil, so nothing is evaluated
// in a different order or a different number of times.
func foldErrNilTests(files map[string]*ast.File) []string {
	notes := []string{}
	for rel, f := range files {
		for _, d := range f.Decls {
			fd, ok := d.(*ast.FuncDecl)
			if !ok || fd.Body == nil || len(fd.Body.List) < 2 {
				continue
			}
			n := len(fd.Body.List)
			as, ok := fd.Body.List[n-2].(*ast.AssignStmt)
			rs, ok2 := fd.Body.List[n-1].(*ast.ReturnStmt)
			if !ok || !ok2 || as.Tok != token.DEFINE || len(as.Lhs) != 1 || len(as.Rhs) != 1 || len(rs.Results) != 1 {
				continue
			}
			v, ok := as.Lhs[0].(*ast.Ident)
			call, ok2 := as.Rhs[0].(*ast.CallExpr)
			be, ok3 := rs.Results[0].(*ast.BinaryExpr)
			if !ok || !ok2 || !ok3 || v.Name == "_" || (be.Op != token.EQL && be.Op != token.NEQ) {
				continue
			}
			isV := func(e ast.Expr) bool { id, ok := e.(*ast.Ident); return ok && id.Name == v.Name }
			isNil := func(e ast.Expr) bool { id, ok := e.(*ast.Ident); return ok && id.Name == "nil" }
			switch {
			case isV(be.X) && isNil(be.Y):
				be.X = call
			case isNil(be.X) && isV(be.Y):
				be.Y = call
			default:
				continue
			}
			fd.Body.List = append(fd.Body.List[:n-2], rs)
			notes = append(notes, rel+": "+fd.Name.Name+": `"+v.Name+" := call; return "+v.Name+" ==/!= nil` read as one return statement")
		}
	}
	sort.Strings(notes)
	return notes
}

// inlineStringConsts replaces, in the function bodies of the root package, every use of a package-level
// string constant that is declared by a literal (`const wordSeparator = "\x20"`) by that literal: a
// named literal is the literal.  Functions that declare an identifier of the same name are left alone.
func inlineStringConsts(files map[string]*ast.File) []string {
	lits := map[string]*ast.BasicLit{}
	count := map[string]int{}
	for _, f := range files {
		for _, d := range f.Decls {
			gd, ok := d.(*ast.GenDecl)
			if !ok || (gd.Tok != token.CONST && gd.Tok != token.VAR) {
				continue
			}
			for _, sp := range gd.Specs {
				vs, ok := sp.(*ast.ValueSpec)
				if !ok {
					continue
				}
				for _, n := range vs.Names {
					count[n.Name]++
				}
				if gd.Tok != token.CONST || len(vs.Names) != 1 || len(vs.Values) != 1 {
					continue
				}
				if vs.Type != nil {
					if id, ok := vs.Type.(*ast.Ident); !ok || id.Name != "string" {
						continue
					}
				}
				if bl, ok := vs.Values[0].(*ast.BasicLit); ok && bl.Kind == token.STRING {
					lits[vs.Names[0].Name] = bl
				}
			}
		}
	}
	for n := range lits {
		if count[n] != 1 || n == "_Language_name" {
			delete(lits, n) // _Language_name is a table the translator emits as a definition of its own
		}
	}
	if len(lits) == 0 {
		return nil
	}
	notes := map[string]bool{}
	for _, f := range files {
		for _, d := range f.Decls {
			// initialisers of package-level variables (`ErrWordLen = errors.New(msgWordLen)`)
			if gd, ok := d.(*ast.GenDecl); ok && gd.Tok == token.VAR {
				for _, sp := range gd.Specs {
					vs, ok := sp.(*ast.ValueSpec)
					if !ok {
						continue
					}
					for i := range vs.Values {
						vs.Values[i] = mapExpr(vs.Values[i], func(y ast.Expr) ast.Expr {
							if id, ok := y.(*ast.Ident); ok {
								if bl, ok := lits[id.Name]; ok {
									notes["package-level initialiser: string constant "+id.Name+" read as its literal"] = true
									return &ast.BasicLit{Kind: token.STRING, Value: bl.Value, ValuePos: id.NamePos}
								}
							}
							return y
						})
					}
				}
				continue
			}
			fd, ok := d.(*ast.FuncDecl)
			if !ok || fd.Body == nil {
				continue
			}
			declared := declaredIn(fd)
			rewriteStmts(fd.Body, func(x ast.Expr) ast.Expr {
				return mapExpr(x, func(y ast.Expr) ast.Expr {
					id, ok := y.(*ast.Ident)
					if !ok || declared[id.Name] {
						return y
					}
					if bl, ok := lits[id.Name]; ok {
						notes[fd.Name.Name+": string constant "+id.Name+" read as its literal"] = true
						return &ast.BasicLit{Kind: token.STRING, Value: bl.Value, ValuePos: id.NamePos}
					}
					return y
				})
			})
		}
	}
	out := []string{}
	for n := range notes {
		out = append(out, n)
	}
	sort.Strings(out)
	return out
}

var _ = fmt.Sprintf
