package main

// Pins of the library functions that the Lean model *transcribes* rather than translates:
// io.ReadAtLeast/ReadFull (Model/Reader.lean), sync.Once.Do (Model/GoMap.lean, Lemmas/Conc*.lean),
// strings.Split/Join (Basic/Str.lean), x/crypto's pbkdf2.Key (Crypto/*), and the functions of
// golang.org/x/text/unicode/norm that Unicode/XText.lean models.  The extractor hashes the source text
// of each declaration in the toolchain / module cache the implementation is built with; the check
// compares the hashes with expected/libpins.json.  A different toolchain or module version whose
// functions differ is then reported instead of being silently assumed to behave as modelled.

import (
	"bytes"
	"crypto/sha256"
	"encoding/hex"
	"go/ast"
	"go/parser"
	"go/printer"
	"go/token"
	"os"
	"os/exec"
	"path/filepath"
	"regexp"
	"strings"
)

type libPin struct {
	key  string // e.g. "io.ReadAtLeast"
	root string // "GOROOT" or a module path
	dir  string // directory below the root
	file string
	decl string // Func or Recv.Func
}

var libPinList = []libPin{
	{"io.ReadAtLeast", "GOROOT", "src/io", "io.go", "ReadAtLeast"},
	{"io.ReadFull", "GOROOT", "src/io", "io.go", "ReadFull"},
	{"sync.Once.Do", "GOROOT", "src/sync", "once.go", "Once.Do"},
	{"sync.Once.doSlow", "GOROOT", "src/sync", "once.go", "Once.doSlow"},
	{"strings.Split", "GOROOT", "src/strings", "strings.go", "Split"},
	{"strings.genSplit", "GOROOT", "src/strings", "strings.go", "genSplit"},
	{"strings.Join", "GOROOT", "src/strings", "strings.go", "Join"},
	{"strings.SplitN", "GOROOT", "src/strings", "strings.go", "SplitN"}, // SplitN(s, sep, -1) is read as Split(s, sep) (inline.go)
	{"strconv.Itoa", "GOROOT", "src/strconv", "itoa.go", "Itoa"},
	{"sha256.Sum256", "GOROOT", "src/crypto/sha256", "sha256.go", "Sum256"}, // Sum256(b) is read as New/Write/Sum (translate.go)        // Itoa(i) is read as FormatInt(int64(i), 10) (inline.go)
	{"pbkdf2.Key", "golang.org/x/crypto", "pbkdf2", "pbkdf2.go", "Key"},
	{"norm.Form.String", "golang.org/x/text", "unicode/norm", "normalize.go", "Form.String"},
	{"norm.doAppendInner", "golang.org/x/text", "unicode/norm", "normalize.go", "doAppendInner"},
	{"norm.appendQuick", "golang.org/x/text", "unicode/norm", "normalize.go", "appendQuick"},
	{"norm.decomposeSegment", "golang.org/x/text", "unicode/norm", "normalize.go", "decomposeSegment"},
	{"norm.formInfo.quickSpan", "golang.org/x/text", "unicode/norm", "normalize.go", "formInfo.quickSpan"},
	{"norm.streamSafe.next", "golang.org/x/text", "unicode/norm", "composition.go", "streamSafe.next"},
	{"norm.reorderBuffer.insertOrdered", "golang.org/x/text", "unicode/norm", "composition.go", "reorderBuffer.insertOrdered"},
	{"norm.reorderBuffer.insertDecomposed", "golang.org/x/text", "unicode/norm", "composition.go", "reorderBuffer.insertDecomposed"},
	{"norm.reorderBuffer.insertCGJ", "golang.org/x/text", "unicode/norm", "composition.go", "reorderBuffer.insertCGJ"},
	{"norm.reorderBuffer.insertFlush", "golang.org/x/text", "unicode/norm", "composition.go", "reorderBuffer.insertFlush"},
}

func goEnv(name string) string {
	out, err := exec.Command("go", "env", name).Output()
	if err != nil {
		return ""
	}
	return strings.TrimSpace(string(out))
}

// moduleVersions reads the require lines of go.mod.
func moduleVersions(repo string) map[string]string {
	out := map[string]string{}
	b, err := os.ReadFile(filepath.Join(repo, "go.mod"))
	if err != nil {
		return out
	}
	re := regexp.MustCompile(`(?m)^\s*(?:require\s+)?([a-z0-9./_-]+)\s+(v[0-9][^\s]*)`)
	for _, m := range re.FindAllStringSubmatch(string(b), -1) {
		out[m[1]] = m[2]
	}
	return out
}

func declHash(path, decl string) string {
	fset := token.NewFileSet()
	f, err := parser.ParseFile(fset, path, nil, 0) // comments dropped
	if err != nil {
		return "unreadable"
	}
	for _, d := range f.Decls {
		fd, ok := d.(*ast.FuncDecl)
		if !ok {
			continue
		}
		name := fd.Name.Name
		if r := recvName(fd); r != "" {
			name = r + "." + name
		}
		if name != decl {
			continue
		}
		var buf bytes.Buffer
		if err := printer.Fprint(&buf, fset, fd); err != nil {
			return "unprintable"
		}
		h := sha256.Sum256(buf.Bytes())
		return hex.EncodeToString(h[:])
	}
	return "missing"
}

// libPins returns key -> hash of the declaration's source ("missing"/"unreadable" if not found).
func libPins(repo string) map[string]string {
	goroot, modcache := goEnv("GOROOT"), goEnv("GOMODCACHE")
	vers := moduleVersions(repo)
	out := map[string]string{}
	for _, p := range libPinList {
		var dir string
		if p.root == "GOROOT" {
			dir = filepath.Join(goroot, p.dir)
		} else {
			dir = filepath.Join(modcache, p.root+"@"+vers[p.root], p.dir)
		}
		out[p.key] = declHash(filepath.Join(dir, p.file), p.decl)
	}
	return out
}
