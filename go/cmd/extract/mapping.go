package main

// Translator for Language.mapping (lang.go): the method that owns the package's only mutable state —
// the sync.Once cells and the lazily built word->index maps.  It is translated statement by
// statement into the concrete-state vocabulary of lean/Bip39V/Model/GoMap.lean (`Go.MC`: once cells
// as flags, map variables as association lists), so that `refine_Language_mapping` can prove that the
// abstract state machine the other translated functions call (`Go.langMapping` / `Model.mapping`,
// read structurally from the same source) is a correct abstraction of what the source does.
//
// Accepted grammar (everything else is refused, and the refusal is reported as a broken tie):
//
//	func (R Language) mapping() map[string]int64 { S* }
//	S ::= switch R { case C1, C2: S* … [default: S*] }   every clause ends in return; cases are Language constants
//	    | ONCE.Do(func() { T* })                          ONCE a package-level sync.Once variable
//	    | return MAPVAR | return nil                      MAPVAR a package-level map[string]int64 variable
//	T ::= MAPVAR = make(map[string]int64 [, int literal])
//	    | for I, W := range wordlist.X { MAPVAR[W] = int64(I) }

import (
	"fmt"
	"go/ast"
	"go/token"
	"strings"
)

type mapTr struct {
	fset   *token.FileSet
	recv   string
	consts map[string]bool
	onces  map[string]bool
	maps   map[string]bool
	tables map[string]bool
	ints   *constTable // integer constants of the package
	lines  []string
}

type mapTrErr struct{ msg string }

func (m *mapTr) bad(n ast.Node, format string, a ...interface{}) {
	pos := m.fset.Position(n.Pos())
	panic(mapTrErr{fmt.Sprintf("%s:%d: %s", pos.Filename[strings.LastIndex(pos.Filename, "/")+1:], pos.Line, fmt.Sprintf(format, a...))})
}

func (m *mapTr) add(indent int, s string) { m.lines = append(m.lines, strings.Repeat("  ", indent)+s) }

// stmts translates a statement list that must end in return on every path.
func (m *mapTr) stmts(list []ast.Stmt, ind int) {
	if len(list) == 0 {
		panic(mapTrErr{"a path through mapping() does not end in return"})
	}
	for i, st := range list {
		last := i == len(list)-1
		switch x := st.(type) {
		case *ast.ReturnStmt:
			if !last {
				m.bad(x, "statements after return")
			}
			if len(x.Results) != 1 {
				m.bad(x, "return with %d results", len(x.Results))
			}
			id, ok := x.Results[0].(*ast.Ident)
			if !ok {
				m.bad(x, "return of something that is not a variable or nil")
			}
			switch {
			case id.Name == "nil":
				m.add(ind, "Go.pureC none")
			case m.maps[id.Name]:
				m.add(ind, "Go.getMapVar Gen.map_"+id.Name)
			default:
				m.bad(x, "return of %s, which is not a package-level map variable", id.Name)
			}
			return
		case *ast.SwitchStmt:
			if x.Init != nil || x.Tag == nil {
				m.bad(x, "switch with init or without tag")
			}
			if id, ok := x.Tag.(*ast.Ident); !ok || id.Name != m.recv {
				m.bad(x, "switch tag is not the receiver")
			}
			var def *ast.CaseClause
			for _, c := range x.Body.List {
				cc := c.(*ast.CaseClause)
				if cc.List == nil {
					def = cc
					continue
				}
				conds := []string{}
				for _, e := range cc.List {
					id, ok := e.(*ast.Ident)
					if !ok || !m.consts[id.Name] {
						m.bad(e, "case label that is not a Language constant")
					}
					conds = append(conds, fmt.Sprintf("decide (%s = Gen.v%s)", leanId(m.recv), id.Name))
				}
				m.add(ind, "if ("+strings.Join(conds, " || ")+") then (")
				m.stmts(cc.Body, ind+1)
				m.add(ind, ") else")
			}
			if def != nil {
				if !last {
					m.bad(x, "statements after a switch with a default clause")
				}
				m.stmts(def.Body, ind)
				return
			}
			if last {
				m.bad(x, "switch without default at the end of a path")
			}
		case *ast.ExprStmt:
			call, ok := x.X.(*ast.CallExpr)
			if !ok {
				m.bad(x, "expression statement")
			}
			se, ok := call.Fun.(*ast.SelectorExpr)
			if !ok || se.Sel.Name != "Do" || len(call.Args) != 1 {
				m.bad(x, "call that is not ONCE.Do(func(){…})")
			}
			o, ok := se.X.(*ast.Ident)
			if !ok || !m.onces[o.Name] {
				m.bad(x, "Do on something that is not a package-level sync.Once variable")
			}
			fl, ok := call.Args[0].(*ast.FuncLit)
			if !ok || len(fl.Type.Params.List) != 0 || fl.Type.Results != nil {
				m.bad(x, "argument of Do is not a func() literal")
			}
			m.add(ind, "Go.bindC (Go.onceDo Gen.once_"+o.Name+" (")
			m.closure(fl.Body.List, ind+2)
			m.add(ind, ")) fun _ =>")
			if last {
				m.bad(x, "path ends without return")
			}
		default:
			m.bad(st, "statement of kind %T", st)
		}
	}
}

// closure translates the body of a Do closure.
func (m *mapTr) closure(list []ast.Stmt, ind int) {
	for _, st := range list {
		switch x := st.(type) {
		case *ast.AssignStmt:
			if x.Tok != token.ASSIGN || len(x.Lhs) != 1 || len(x.Rhs) != 1 {
				m.bad(x, "assignment shape")
			}
			v, ok := x.Lhs[0].(*ast.Ident)
			if !ok || !m.maps[v.Name] {
				m.bad(x, "assignment to something that is not a package-level map variable")
			}
			mk, ok := x.Rhs[0].(*ast.CallExpr)
			if !ok {
				m.bad(x, "map variable assigned something that is not make(…)")
			}
			if f, ok := mk.Fun.(*ast.Ident); !ok || f.Name != "make" || len(mk.Args) < 1 || len(mk.Args) > 2 {
				m.bad(x, "map variable assigned something that is not make(…)")
			}
			mt, ok := mk.Args[0].(*ast.MapType)
			if !ok {
				m.bad(x, "make of a non-map")
			}
			if k, ok := mt.Key.(*ast.Ident); !ok || k.Name != "string" {
				m.bad(x, "map key type")
			}
			if e, ok := mt.Value.(*ast.Ident); !ok || e.Name != "int64" {
				m.bad(x, "map element type")
			}
			if len(mk.Args) == 2 {
				// the capacity hint has no observable effect provided it is a non-negative constant
				// (a literal, or an integer constant expression over named constants: consteval.go)
				if v, ok := m.ints.eval(mk.Args[1]); !ok || v.Sign() < 0 || !v.IsInt64() {
					m.bad(x, "map capacity hint that is not a non-negative integer constant")
				}
			}
			m.add(ind, "Go.bindC (Go.setMapVar Gen.map_"+v.Name+" Go.makeMap) fun _ =>")
		case *ast.RangeStmt:
			if x.Tok != token.DEFINE || x.Key == nil || x.Value == nil {
				m.bad(x, "range shape")
			}
			kn, ok1 := x.Key.(*ast.Ident)
			vn, ok2 := x.Value.(*ast.Ident)
			if !ok1 || !ok2 || kn.Name == "_" || vn.Name == "_" || kn.Name == vn.Name {
				m.bad(x, "range variables")
			}
			tbl, ok := selName(x.X, "wordlist")
			if !ok || !m.tables[tbl] {
				m.bad(x, "range over something that is not a wordlist table")
			}
			if len(x.Body.List) != 1 {
				m.bad(x, "range body is not one statement")
			}
			ia, ok := x.Body.List[0].(*ast.AssignStmt)
			if !ok || ia.Tok != token.ASSIGN || len(ia.Lhs) != 1 || len(ia.Rhs) != 1 {
				m.bad(x, "range body is not MAP[word] = int64(idx)")
			}
			ix, ok := ia.Lhs[0].(*ast.IndexExpr)
			if !ok {
				m.bad(ia, "range body is not MAP[word] = int64(idx)")
			}
			mv, ok := ix.X.(*ast.Ident)
			if !ok || !m.maps[mv.Name] {
				m.bad(ia, "index-assignment to something that is not a package-level map variable")
			}
			if id, ok := ix.Index.(*ast.Ident); !ok || id.Name != vn.Name {
				m.bad(ia, "map key is not the range value variable")
			}
			cv, ok := ia.Rhs[0].(*ast.CallExpr)
			if !ok || len(cv.Args) != 1 {
				m.bad(ia, "stored value is not int64(idx)")
			}
			if f, ok := cv.Fun.(*ast.Ident); !ok || f.Name != "int64" {
				m.bad(ia, "stored value is not int64(idx)")
			}
			if id, ok := cv.Args[0].(*ast.Ident); !ok || id.Name != kn.Name {
				m.bad(ia, "stored value is not int64(idx)")
			}
			m.add(ind, fmt.Sprintf("Go.bindC (Go.forRangeC (Model.words Gen.t%s) fun %s %s =>", tbl, leanId(kn.Name), leanId(vn.Name)))
			m.add(ind+2, fmt.Sprintf("Go.mapAssign Gen.map_%s %s (Go.toInt %s)) fun _ =>", mv.Name, leanId(vn.Name), leanId(kn.Name)))
		default:
			m.bad(st, "statement of kind %T inside a Do closure", st)
		}
	}
	m.add(ind, "Go.pureC ()")
}

// prog renders the (already validated) statement list as a value of Go.Prog (Model/GoMap.lean): the
// same method as a deep-embedded program, which Lemmas/ConcCode.lean gives an interleaving semantics.
func (m *mapTr) prog(list []ast.Stmt) string {
	switch x := list[0].(type) {
	case *ast.ReturnStmt:
		id := x.Results[0].(*ast.Ident)
		if id.Name == "nil" {
			return "Go.Prog.retNil"
		}
		return "(Go.Prog.retVar Gen.map_" + id.Name + ")"
	case *ast.SwitchStmt:
		var sb strings.Builder
		var def *ast.CaseClause
		closes := 0
		for _, c := range x.Body.List {
			cc := c.(*ast.CaseClause)
			if cc.List == nil {
				def = cc
				continue
			}
			conds := []string{}
			for _, e := range cc.List {
				conds = append(conds, fmt.Sprintf("decide (%s = Gen.v%s)", leanId(m.recv), e.(*ast.Ident).Name))
			}
			sb.WriteString("(if (" + strings.Join(conds, " || ") + ") then " + m.prog(cc.Body) + " else\n    ")
			closes++
		}
		if def != nil {
			sb.WriteString(m.prog(def.Body))
		} else {
			sb.WriteString(m.prog(list[1:]))
		}
		sb.WriteString(strings.Repeat(")", closes))
		return sb.String()
	case *ast.ExprStmt:
		call := x.X.(*ast.CallExpr)
		o := call.Fun.(*ast.SelectorExpr).X.(*ast.Ident).Name
		fl := call.Args[0].(*ast.FuncLit)
		var body []string
		for _, st := range fl.Body.List {
			switch y := st.(type) {
			case *ast.AssignStmt:
				body = append(body, "Go.CStmt.makeMap Gen.map_"+y.Lhs[0].(*ast.Ident).Name)
			case *ast.RangeStmt:
				tbl, _ := selName(y.X, "wordlist")
				mv := y.Body.List[0].(*ast.AssignStmt).Lhs[0].(*ast.IndexExpr).X.(*ast.Ident).Name
				body = append(body, "Go.CStmt.fill Gen.map_"+mv+" Gen.t"+tbl)
			}
		}
		return "(Go.Prog.onceDo Gen.once_" + o + " [" + strings.Join(body, ", ") + "] " + m.prog(list[1:]) + ")"
	}
	panic(mapTrErr{"prog: unexpected statement"})
}

// mappingLean returns the content of Gen/Code/Language_mapping.lean and "" or the reason for refusal.
func mappingLean(fset *token.FileSet, files map[string]*ast.File, lf *LangFacts, tables map[string]bool) (text string, why string) {
	var fd *ast.FuncDecl
	file := ""
	for rel, f := range files {
		for _, d := range f.Decls {
			if x, ok := d.(*ast.FuncDecl); ok && x.Name.Name == "mapping" && recvName(x) == "Language" {
				fd, file = x, rel
			}
		}
	}
	header := "-- GENERATED by go/cmd/extract (mapping.go) from " + file + " — do not edit\nimport Bip39V.Model.GoMap\nimport Bip39V.Gen.Lang\nset_option linter.unusedVariables false\nnamespace Bip39V.Gen.Code\nopen Bip39V\n\n"
	refuse := func(w string) (string, string) {
		return header + "-- NOT TRANSLATED: " + commentSafe(w) + "\n-- (no definition is emitted; every theorem about `Language_mapping` fails to build)\n\nend Bip39V.Gen.Code\n", w
	}
	if fd == nil || fd.Body == nil {
		return refuse("method Language.mapping not found")
	}
	m := &mapTr{fset: fset, consts: map[string]bool{}, onces: map[string]bool{}, maps: map[string]bool{}, tables: tables, ints: newConstTable(files)}
	for _, c := range lf.Consts {
		m.consts[c[0]] = true
	}
	for _, o := range lf.OnceVars {
		m.onces[o] = true
	}
	for _, v := range lf.MapVars {
		m.maps[v] = true
	}
	if fd.Recv == nil || len(fd.Recv.List) != 1 || len(fd.Recv.List[0].Names) != 1 {
		return refuse("receiver shape")
	}
	if _, ptr := fd.Recv.List[0].Type.(*ast.StarExpr); ptr {
		return refuse("pointer receiver")
	}
	m.recv = fd.Recv.List[0].Names[0].Name
	if len(fd.Type.Params.List) != 0 || fd.Type.Results == nil || len(fd.Type.Results.List) != 1 {
		return refuse("signature is not func() map[string]int64")
	}
	if mt, ok := fd.Type.Results.List[0].Type.(*ast.MapType); !ok || typeName(mt.Key) != "string" || typeName(mt.Value) != "int64" {
		return refuse("result type is not map[string]int64")
	}
	func() {
		defer func() {
			if r := recover(); r != nil {
				if e, ok := r.(mapTrErr); ok {
					why = e.msg
					return
				}
				panic(r)
			}
		}()
		m.stmts(fd.Body.List, 1)
	}()
	if why != "" {
		return refuse(why)
	}
	var sb strings.Builder
	sb.WriteString(header)
	fmt.Fprintf(&sb, "/-- Language.mapping (%s:%d) -/\n", file, fset.Position(fd.Pos()).Line)
	fmt.Fprintf(&sb, "def Language_mapping (%s : Int) : Go.MC Go.MapVal :=\n", leanId(m.recv))
	sb.WriteString(strings.Join(m.lines, "\n"))
	fmt.Fprintf(&sb, "\n\n/-- the same method as a program (deep embedding) for the interleaving semantics of C12 -/\ndef Language_mapping_prog (%s : Int) : Go.Prog :=\n  %s\n", leanId(m.recv), m.prog(fd.Body.List))
	sb.WriteString("\nend Bip39V.Gen.Code\n")
	return sb.String(), ""
}
