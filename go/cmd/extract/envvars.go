package main

import (
	"go/ast"
	"go/token"
	"sort"
	"strconv"
	"strings"
)

// envVarsRead: the environment variables the root package and internal/wordlist consult (first argument of
// os.Getenv / os.LookupEnv / syscall.Getenv given as a string literal or a package-level string constant;
// "*" if the environment is read in a way that does not name a variable).  Behaviour that depends on the
// environment is outside every theorem; the harness re-runs the package in child processes with each of
// these variables set, so that a configuration switch hidden behind one becomes a concrete replay.
func envVarsRead(files map[string]*ast.File) []string {
	set := map[string]bool{}
	for rel, f := range files {
		if strings.HasPrefix(rel, "update-wordlist/") {
			continue
		}
		consts := map[string]string{}
		for _, d := range f.Decls {
			if gd, ok := d.(*ast.GenDecl); ok && gd.Tok == token.CONST {
				for _, sp := range gd.Specs {
					if vs, ok := sp.(*ast.ValueSpec); ok && len(vs.Names) == 1 && len(vs.Values) == 1 {
						if bl, ok := vs.Values[0].(*ast.BasicLit); ok && bl.Kind == token.STRING {
							if v, err := strconv.Unquote(bl.Value); err == nil {
								consts[vs.Names[0].Name] = v
							}
						}
					}
				}
			}
		}
		ast.Inspect(f, func(n ast.Node) bool {
			c, ok := n.(*ast.CallExpr)
			if !ok {
				return true
			}
			se, ok := c.Fun.(*ast.SelectorExpr)
			if !ok {
				return true
			}
			switch se.Sel.Name {
			case "Getenv", "LookupEnv":
				if len(c.Args) >= 1 {
					switch a := c.Args[0].(type) {
					case *ast.BasicLit:
						if v, err := strconv.Unquote(a.Value); err == nil && a.Kind == token.STRING {
							set[v] = true
							return true
						}
					case *ast.Ident:
						if v, ok := consts[a.Name]; ok {
							set[v] = true
							return true
						}
					}
					set["*"] = true
				}
			case "Environ", "ExpandEnv", "Expand":
				set["*"] = true
			}
			return true
		})
	}
	out := []string{}
	for v := range set {
		out = append(out, v)
	}
	sort.Strings(out)
	return out
}

// APIFunc: an exported function or method of the root package.  The check hands the ones that are NEW
// (not in the pinned declaration list) to the harness, which calls them before a fixed history: a new
// entry point that disturbs state shared with the old ones (a table sorted in place, a cache primed
// wrongly) is otherwise unreachable for every input class.
type APIFunc struct {
	Key     string   `json:"key"`  // func:Name or method:Recv.Name (as in the declaration table)
	Name    string   `json:"name"`
	Recv    string   `json:"recv"` // "" or the receiver's type name (value receiver) or "*T"
	Params  []string `json:"params"`
	Results int      `json:"results"`
}

func apiOf(files map[string]*ast.File) []APIFunc {
	out := []APIFunc{}
	for rel, f := range files {
		if strings.Contains(rel, "/") {
			continue
		}
		for _, d := range f.Decls {
			fd, ok := d.(*ast.FuncDecl)
			if !ok || !ast.IsExported(fd.Name.Name) || fd.Type.TypeParams != nil {
				continue
			}
			a := APIFunc{Name: fd.Name.Name, Key: "func:" + fd.Name.Name, Params: []string{}}
			if fd.Recv != nil && len(fd.Recv.List) == 1 {
				a.Recv = typeName(fd.Recv.List[0].Type)
				a.Key = "method:" + strings.TrimPrefix(a.Recv, "*") + "." + fd.Name.Name
			}
			for _, fl := range fd.Type.Params.List {
				n := len(fl.Names)
				if n == 0 {
					n = 1
				}
				t := typeName(fl.Type)
				if _, variadic := fl.Type.(*ast.Ellipsis); variadic {
					t = "..."
				}
				for i := 0; i < n; i++ {
					a.Params = append(a.Params, t)
				}
			}
			if fd.Type.Results != nil {
				for _, fl := range fd.Type.Results.List {
					n := len(fl.Names)
					if n == 0 {
						n = 1
					}
					a.Results += n
				}
			}
			out = append(out, a)
		}
	}
	sort.Slice(out, func(i, j int) bool { return out[i].Key < out[j].Key })
	return out
}
