package main

import (
	"go/ast"
	"go/token"
	"math/big"
)

// Integer constant expressions.  `const wordIndexMask = 1<<wordIndexBits - 1` is a magic number that was
// given a name and a derivation; Go evaluates untyped integer constant expressions exactly (arbitrary
// precision), and a typed constant that does not fit its type does not compile, so the exact value is
// the value.  Supported: integer and rune literals, other constants of this table, parentheses,
// unary + - ^, binary + - * / % << >> & | ^ &^ (division truncates toward zero, as for Go integers).
// Anything else (iota, conversions, floats, strings, function calls) is not a constant of this table.

// the integer types a constant of this table may have
var constTypes = map[string]bool{"int": true, "int64": true, "uint": true, "Language": true}

type constTable struct {
	arrLen map[string]int // package-level `var x = [...]T{…}` / `[N]T{…}`: len(x) is a constant
	exprs  map[string]ast.Expr
	typ    map[string]string // "untyped", "int", "int64", "uint"
	val    map[string]*big.Int
	busy   map[string]bool
}

func newConstTable(files map[string]*ast.File) *constTable {
	ct := &constTable{arrLen: map[string]int{}, exprs: map[string]ast.Expr{}, typ: map[string]string{}, val: map[string]*big.Int{}, busy: map[string]bool{}}
	dup := map[string]int{}
	for _, f := range files {
		for _, d := range f.Decls {
			gd, ok := d.(*ast.GenDecl)
			if ok && gd.Tok == token.VAR {
				for _, sp := range gd.Specs {
					vs, ok := sp.(*ast.ValueSpec)
					if !ok || len(vs.Names) != 1 || len(vs.Values) != 1 || vs.Type != nil {
						continue
					}
					if cl, ok := vs.Values[0].(*ast.CompositeLit); ok {
						if at, ok := cl.Type.(*ast.ArrayType); ok && at.Len != nil {
							keyed := false
							for _, e := range cl.Elts {
								if _, kv := e.(*ast.KeyValueExpr); kv {
									keyed = true
								}
							}
							if _, ell := at.Len.(*ast.Ellipsis); ell && !keyed {
								dup[vs.Names[0].Name]++
								ct.arrLen[vs.Names[0].Name] = len(cl.Elts)
							}
						}
					}
				}
			}
			if !ok || gd.Tok != token.CONST {
				continue
			}
			for _, sp := range gd.Specs {
				vs, ok := sp.(*ast.ValueSpec)
				if !ok || len(vs.Names) != 1 || len(vs.Values) != 1 {
					continue
				}
				typ := "untyped"
				if vs.Type != nil {
					id, ok := vs.Type.(*ast.Ident)
					if !ok || !constTypes[id.Name] {
						continue
					}
					typ = id.Name
				} else if c, ok := vs.Values[0].(*ast.CallExpr); ok && len(c.Args) == 1 {
					// const n = T(expr): a typed constant
					if id, ok := c.Fun.(*ast.Ident); ok && constTypes[id.Name] {
						typ = id.Name
					}
				}
				name := vs.Names[0].Name
				dup[name]++
				ct.exprs[name] = vs.Values[0]
				ct.typ[name] = typ
			}
		}
	}
	for n, c := range dup {
		if c > 1 {
			delete(ct.exprs, n)
			delete(ct.arrLen, n)
		}
	}
	return ct
}

// value of a named constant of the table
func (ct *constTable) lookup(name string) (*big.Int, bool) {
	if v, ok := ct.val[name]; ok {
		return v, v != nil
	}
	e, ok := ct.exprs[name]
	if !ok || ct.busy[name] {
		return nil, false
	}
	ct.busy[name] = true
	v, ok := ct.eval(e)
	ct.busy[name] = false
	if ok {
		// a typed constant has to fit its type (otherwise the package does not compile)
		switch ct.typ[name] {
		case "int", "int64", "Language":
			if !v.IsInt64() {
				ok = false
			}
		case "uint":
			if !v.IsUint64() {
				ok = false
			}
		}
	}
	if !ok {
		ct.val[name] = nil
		return nil, false
	}
	ct.val[name] = v
	return v, true
}

func (ct *constTable) eval(e ast.Expr) (*big.Int, bool) {
	switch x := e.(type) {
	case *ast.ParenExpr:
		return ct.eval(x.X)
	case *ast.BasicLit:
		if x.Kind == token.INT {
			return intLit(Lit{Kind: "INT", Val: x.Value})
		}
	case *ast.Ident:
		return ct.lookup(x.Name)
	case *ast.CallExpr:
		if id, ok := x.Fun.(*ast.Ident); ok && len(x.Args) == 1 && x.Ellipsis == token.NoPos {
			// T(constant): the same value (it must fit T, or the package does not compile)
			if constTypes[id.Name] {
				v, ok := ct.eval(x.Args[0])
				if !ok {
					return nil, false
				}
				if (id.Name == "uint" && !v.IsUint64()) || (id.Name != "uint" && !v.IsInt64()) {
					return nil, false
				}
				return v, true
			}
			// len(array variable)
			if id.Name == "len" {
				if a, ok := x.Args[0].(*ast.Ident); ok {
					if n, ok := ct.arrLen[a.Name]; ok {
						return big.NewInt(int64(n)), true
					}
				}
			}
		}
	case *ast.UnaryExpr:
		v, ok := ct.eval(x.X)
		if !ok {
			return nil, false
		}
		switch x.Op {
		case token.ADD:
			return v, true
		case token.SUB:
			return new(big.Int).Neg(v), true
		case token.XOR:
			return new(big.Int).Not(v), true
		}
	case *ast.BinaryExpr:
		a, ok := ct.eval(x.X)
		if !ok {
			return nil, false
		}
		b, ok := ct.eval(x.Y)
		if !ok {
			return nil, false
		}
		r := new(big.Int)
		switch x.Op {
		case token.ADD:
			return r.Add(a, b), true
		case token.SUB:
			return r.Sub(a, b), true
		case token.MUL:
			return r.Mul(a, b), true
		case token.QUO:
			if b.Sign() == 0 {
				return nil, false
			}
			return r.Quo(a, b), true
		case token.REM:
			if b.Sign() == 0 {
				return nil, false
			}
			return r.Rem(a, b), true
		case token.SHL:
			if b.Sign() < 0 || b.Cmp(big.NewInt(512)) > 0 {
				return nil, false
			}
			return r.Lsh(a, uint(b.Int64())), true
		case token.SHR:
			if b.Sign() < 0 || b.Cmp(big.NewInt(512)) > 0 {
				return nil, false
			}
			return r.Rsh(a, uint(b.Int64())), true
		case token.AND:
			return r.And(a, b), true
		case token.OR:
			return r.Or(a, b), true
		case token.XOR:
			return r.Xor(a, b), true
		case token.AND_NOT:
			return r.AndNot(a, b), true
		}
	}
	return nil, false
}
