package main

// Translator: the bodies of the package's functions (everything except lang.go, which is read
// structurally) are turned into Lean definitions over the vocabulary of lean/Bip39V/Model/GoSem.lean
// and written to Gen/Code/<Func>.lean.  The refinement theorems (Props/Refine/*.lean) then prove that
// this regenerated code computes what the hand-written model computes, for every input.
//
// (~1850 lines.)  The translator is deliberately strict: it knows the static type of every expression it accepts
// (a dozen types), the exact set of library calls the package makes, and it REFUSES everything else
// (the function is then reported as untranslatable and no definition is emitted, which breaks the
// refinement obligations of every property that depends on it).  In particular it refuses:
//   - any construct that could make two variables refer to the same *big.Int, hash or mutable slice
//     (so that a pointer can be modelled by its value);
//   - assignment to a parameter's elements, to package-level variables, or through pointers;
//   - shadowing, goto/labels, closures, defer, go, select, switch, general for loops;
//   - short-circuit operands that can panic; shifts by signed counts; bit operations on machine ints.
// Evaluation order (receiver, then arguments, left to right; operands left to right) is kept by
// emitting the possibly-panicking sub-expressions as a sequence of binds.

import (
	"fmt"
	"go/ast"
	"go/token"
	"math/big"
	"sort"
	"strconv"
	"strings"
	"unicode/utf8"
)

type trErr struct{ msg string }

type tval struct {
	pre    []string // bind/let lines to emit before the term is used
	term   string
	typ    string   // int int64 uint uint8 Language bool string []byte []string *big.Int hash map error untyped unit [N]uint8
	cst    *big.Int // value, for untyped integer constants
	fresh  bool     // *big.Int / hash / slice value that no variable refers to
	rebind string   // variable that holds the object this value denotes (for method chains)
}

type global struct {
	typ  string
	lean string // definition text (right-hand side), "" if not emitted (errors, language constants)
	term string // how a use is rendered
}

type funcSig struct {
	name    string // Go name, or Type.Method
	lean    string
	params  []string // types
	results []string
	fd      *ast.FuncDecl
	file    string
}

type translator struct {
	fset     *token.FileSet
	files    map[string]*ast.File // root package, default build
	globals  map[string]global
	funcs    map[string]*funcSig // by Go name ("fromEntropy", "Language.String")
	langCons map[string]bool
	tables   map[string]bool // variables of internal/wordlist
	strConsts map[string]*string // package-level string constants given by a literal
	gateCond map[ast.Node]bool
	assigned map[string]string // package-level identifier -> where it is assigned / mutated outside its declaration
	done     map[string]string // function -> "" (ok) or reason
	out      map[string]string // function -> Lean text of the definition
	deps     map[string][]string
	writes   map[string][][2]string // function -> (target, origin) of every statement that writes through a slice
	slicePar map[string][]string    // function -> its parameters of slice type
}

type fnTr struct {
	t       *translator
	sig     *funcSig
	imports map[string]string // local package name -> import path
	vars    map[string]string // variable -> type
	origin  map[string]string // variable -> param | make | local
	noAlias map[string]bool   // make-created variables that have been mutated: may not be aliased
	order   map[string]int    // variable -> rank of its declaration (loop state is listed in this order, so renaming is harmless)
	gates   []string          // definitions of the size-gate conditions of this function
	writes  [][2]string       // (target, origin) of the statements that write through a slice
	tmp     int
	deps    map[string]bool
}

func (f *fnTr) bad(n ast.Node, format string, a ...interface{}) {
	pos := ""
	if n != nil {
		p := f.t.fset.Position(n.Pos())
		pos = fmt.Sprintf(" (%s:%d)", f.sig.file, p.Line)
	}
	panic(trErr{fmt.Sprintf(format, a...) + pos})
}

var leanKeywords = map[string]bool{"end": true, "at": true, "from": true, "fun": true, "open": true, "prefix": true, "local": true,
	"in": true, "do": true, "then": true, "else": true, "if": true, "let": true, "have": true, "show": true, "with": true, "match": true,
	"where": true, "namespace": true, "section": true, "def": true, "theorem": true, "instance": true, "structure": true, "class": true,
	"by": true, "calc": true, "Type": true, "Prop": true, "Sort": true, "import": true, "export": true, "universe": true, "variable": true,
	"mutual": true, "infix": true, "notation": true, "macro": true, "syntax": true, "deriving": true, "extends": true, "for": true,
	"return": true, "break": true, "continue": true, "mut": true, "unless": true, "try": true, "catch": true, "finally": true,
	"private": true, "protected": true, "partial": true, "unsafe": true, "noncomputable": true, "abbrev": true, "inductive": true,
	"example": true, "axiom": true, "opaque": true, "attribute": true, "set_option": true, "nomatch": true, "nofun": true, "suffices": true,
	"obtain": true, "rfl": true, "W": true, "Go": true, "Gen": true, "Model": true}

func leanId(s string) string {
	if leanKeywords[s] || strings.HasPrefix(s, "_") {
		return "«" + s + "»"
	}
	for _, r := range s {
		if !(r == '_' || r >= '0' && r <= '9' || r >= 'a' && r <= 'z' || r >= 'A' && r <= 'Z') {
			return "«" + s + "»"
		}
	}
	return s
}

func isIntType(t string) bool {
	return t == "int" || t == "int64" || t == "uint" || t == "uint8" || t == "Language"
}
func signed(t string) bool { return t == "int" || t == "int64" || t == "Language" }

func leanType(t string) string {
	switch t {
	case "int", "int64", "uint", "uint8", "Language", "*big.Int":
		return "Int"
	case "bool":
		return "Bool"
	case "string":
		return "Str"
	case "[]byte", "hash", "[32]byte":
		return "Bytes"
	case "[]string":
		return "List Str"
	case "map":
		return "Option Nat"
	case "unit", "error":
		return "Unit"
	}
	return "Unit"
}

func typeName(e ast.Expr) string {
	switch x := e.(type) {
	case *ast.Ident:
		return x.Name
	case *ast.ArrayType:
		if x.Len == nil {
			return "[]" + typeName(x.Elt)
		}
	case *ast.StarExpr:
		return "*" + typeName(x.X)
	case *ast.SelectorExpr:
		return typeName(x.X) + "." + x.Sel.Name
	case *ast.MapType:
		return "map[" + typeName(x.Key) + "]" + typeName(x.Value)
	}
	return "?"
}

func normType(s string) string {
	switch s {
	case "int", "int64", "uint", "uint8", "bool", "string", "[]byte", "[]string", "error", "Language", "*big.Int":
		return s
	case "byte":
		return "uint8"
	case "map[string]int64":
		return "map"
	}
	return ""
}

// ---------------------------------------------------------------------------------------------

func (f *fnTr) fresh() string {
	f.tmp++
	return fmt.Sprintf("t%d", f.tmp)
}

func (f *fnTr) pkgOf(e ast.Expr) (string, bool) {
	id, ok := e.(*ast.Ident)
	if !ok {
		return "", false
	}
	if _, isVar := f.vars[id.Name]; isVar {
		return "", false
	}
	p, ok := f.imports[id.Name]
	return p, ok
}

func (f *fnTr) selCall(c *ast.CallExpr) (pkg, name string, ok bool) {
	se, ok := c.Fun.(*ast.SelectorExpr)
	if !ok {
		return "", "", false
	}
	p, ok := f.pkgOf(se.X)
	if !ok {
		return "", "", false
	}
	return p, se.Sel.Name, true
}

func intLeanLit(v *big.Int) string { return "(" + v.String() + " : Int)" }

// convConst gives an untyped constant the type t (range-checked, as the compiler does).
func (f *fnTr) convConst(n ast.Node, v tval, t string) tval {
	if v.typ != "untyped" {
		return v
	}
	lo, hi := new(big.Int), new(big.Int)
	switch t {
	case "int", "int64", "Language":
		lo.Lsh(big.NewInt(1), 63).Neg(lo)
		hi.Lsh(big.NewInt(1), 63).Sub(hi, big.NewInt(1))
	case "uint":
		hi.Lsh(big.NewInt(1), 64).Sub(hi, big.NewInt(1))
	case "uint8":
		hi.SetInt64(255)
	default:
		f.bad(n, "constant used as %s", t)
	}
	if v.cst.Cmp(lo) < 0 || v.cst.Cmp(hi) > 0 {
		f.bad(n, "constant %s overflows %s", v.cst, t)
	}
	return tval{pre: v.pre, term: intLeanLit(v.cst), typ: t, cst: v.cst}
}

func opSuffix(t string) string {
	if signed(t) {
		return "I"
	}
	return "U"
}

func (f *fnTr) strLitItems(n ast.Node, raw string) string {
	s, ok := strLit(raw)
	if !ok {
		f.bad(n, "string literal %s", raw)
	}
	return leanItems(items(s))
}

// expr translates an expression; want is the type an untyped constant operand of a non-constant
// shift would take from its context ("" = none).
func (f *fnTr) expr(e ast.Expr, want string) tval {
	switch x := e.(type) {
	case *ast.ParenExpr:
		return f.expr(x.X, want)
	case *ast.BasicLit:
		switch x.Kind {
		case token.INT:
			v, ok := intLit(Lit{Kind: "INT", Val: x.Value})
			if !ok {
				f.bad(x, "integer literal %s", x.Value)
			}
			return tval{term: intLeanLit(v), typ: "untyped", cst: v}
		case token.STRING:
			return tval{term: f.strLitItems(x, x.Value), typ: "string"}
		}
		f.bad(x, "literal of kind %s", x.Kind)
	case *ast.Ident:
		return f.ident(x)
	case *ast.UnaryExpr:
		if x.Op == token.NOT {
			a := f.expr(x.X, "")
			if a.typ != "bool" {
				f.bad(x, "! on %s", a.typ)
			}
			return tval{pre: a.pre, term: "(!" + a.term + ")", typ: "bool"}
		}
		if x.Op == token.SUB {
			a := f.expr(x.X, want)
			if a.typ == "untyped" {
				return tval{term: intLeanLit(new(big.Int).Neg(a.cst)), typ: "untyped", cst: new(big.Int).Neg(a.cst)}
			}
		}
		f.bad(x, "unary %s", x.Op)
	case *ast.BinaryExpr:
		return f.binary(x, want)
	case *ast.CallExpr:
		return f.call(x, want)
	case *ast.SelectorExpr:
		// wordlist.X: one of the ten tables of internal/wordlist (Gen/Lang.lean numbers them)
		if p, ok := f.pkgOf(x.X); ok && strings.HasSuffix(p, "/internal/wordlist") {
			if !f.t.tables[x.Sel.Name] {
				f.bad(x, "wordlist.%s is not one of the word tables", x.Sel.Name)
			}
			return tval{term: "(Model.words Gen.t" + x.Sel.Name + ")", typ: "[]string"}
		}
		f.bad(x, "selector %s", x.Sel.Name)
	case *ast.IndexExpr:
		a := f.expr(x.X, "")
		i := f.expr(x.Index, "")
		if i.typ == "untyped" {
			i = f.convConst(x.Index, i, "int")
		}
		if !isIntType(i.typ) {
			f.bad(x, "index of type %s", i.typ)
		}
		pre := append(append([]string{}, a.pre...), i.pre...)
		t := f.fresh()
		switch {
		case a.typ == "[]string":
			pre = append(pre, fmt.Sprintf("Go.bind (Go.indexStrs %s %s) fun %s =>", a.term, i.term, t))
			return tval{pre: pre, term: t, typ: "string"}
		case strings.HasSuffix(a.typ, "]uint8") && strings.HasPrefix(a.typ, "["):
			pre = append(pre, fmt.Sprintf("Go.bind (Go.indexInts %s %s) fun %s =>", a.term, i.term, t))
			return tval{pre: pre, term: t, typ: "uint8"}
		}
		f.bad(x, "indexing a %s", a.typ)
	case *ast.SliceExpr:
		if x.Slice3 || x.Low == nil || x.High == nil {
			f.bad(x, "slice expression without both bounds")
		}
		a := f.expr(x.X, "")
		if id, ok := x.X.(*ast.Ident); ok && f.origin[id.Name] == "make" {
			f.bad(x, "slice of the mutable local %s (would alias it)", id.Name)
		}
		lo, hi := f.expr(x.Low, ""), f.expr(x.High, "")
		if lo.typ == "untyped" {
			lo = f.convConst(x.Low, lo, "int")
		}
		if hi.typ == "untyped" {
			hi = f.convConst(x.High, hi, "int")
		}
		if !isIntType(lo.typ) || !isIntType(hi.typ) {
			f.bad(x, "slice bounds of type %s, %s", lo.typ, hi.typ)
		}
		pre := append(append(append([]string{}, a.pre...), lo.pre...), hi.pre...)
		t := f.fresh()
		switch a.typ {
		case "[]byte", "[32]byte":
			pre = append(pre, fmt.Sprintf("Go.bind (Go.sliceBytes %s %s %s) fun %s =>", a.term, lo.term, hi.term, t))
			return tval{pre: pre, term: t, typ: "[]byte"}
		case "string":
			pre = append(pre, fmt.Sprintf("Go.bind (Go.sliceStr %s %s %s) fun %s =>", a.term, lo.term, hi.term, t))
			return tval{pre: pre, term: t, typ: "string"}
		}
		f.bad(x, "slicing a %s", a.typ)
	}
	f.bad(e, "expression %T", e)
	return tval{}
}

func validStringLit(e ast.Expr) bool {
	for {
		p, ok := e.(*ast.ParenExpr)
		if !ok {
			break
		}
		e = p.X
	}
	bl, ok := e.(*ast.BasicLit)
	if !ok || bl.Kind != token.STRING {
		return false
	}
	s, err := strconv.Unquote(bl.Value)
	return err == nil && utf8.ValidString(s)
}

func (f *fnTr) ident(x *ast.Ident) tval {
	if t, ok := f.vars[x.Name]; ok {
		return tval{term: leanId(x.Name), typ: t, rebind: x.Name}
	}
	switch x.Name {
	case "nil":
		return tval{term: "nil", typ: "nil"}
	case "true", "false":
		return tval{term: x.Name, typ: "bool"}
	}
	if g, ok := f.t.globals[x.Name]; ok {
		if where, mut := f.t.assigned[x.Name]; mut {
			f.bad(x, "package-level %s is assigned or mutated in %s", x.Name, where)
		}
		if strings.HasPrefix(g.typ, "const:") {
			v, _ := new(big.Int).SetString(g.term, 10)
			c := tval{term: intLeanLit(v), typ: "untyped", cst: v}
			if t := strings.TrimPrefix(g.typ, "const:"); t != "untyped" {
				return f.convConst(x, c, t)
			}
			return c
		}
		return tval{term: g.term, typ: g.typ}
	}
	f.bad(x, "identifier %s", x.Name)
	return tval{}
}

func (f *fnTr) binary(x *ast.BinaryExpr, want string) tval {
	switch x.Op {
	case token.LAND, token.LOR:
		a, b := f.expr(x.X, ""), f.expr(x.Y, "")
		if a.typ != "bool" || b.typ != "bool" {
			f.bad(x, "%s on %s, %s", x.Op, a.typ, b.typ)
		}
		if len(b.pre) > 0 {
			f.bad(x, "right operand of %s can panic (short-circuit evaluation not modelled)", x.Op)
		}
		op := "&&"
		if x.Op == token.LOR {
			op = "||"
		}
		return tval{pre: a.pre, term: "(" + a.term + " " + op + " " + b.term + ")", typ: "bool"}
	case token.EQL, token.NEQ, token.LSS, token.LEQ, token.GTR, token.GEQ:
		a, b := f.expr(x.X, ""), f.expr(x.Y, "")
		// `call() == nil` on an error-returning package function
		if b.typ == "nil" && a.typ == "errcall" && (x.Op == token.EQL || x.Op == token.NEQ) {
			t := f.fresh()
			pre := append(append([]string{}, a.pre...), fmt.Sprintf("Go.bind (Go.errIsNil %s) fun %s =>", a.term, t))
			if x.Op == token.NEQ {
				return tval{pre: pre, term: "(!" + t + ")", typ: "bool"}
			}
			return tval{pre: pre, term: t, typ: "bool"}
		}
		if a.typ == "untyped" && b.typ == "untyped" {
			f.bad(x, "comparison of two constants")
		}
		if a.typ == "untyped" {
			a = f.convConst(x.X, a, b.typ)
		}
		if b.typ == "untyped" {
			b = f.convConst(x.Y, b, a.typ)
		}
		if a.typ != b.typ || !(isIntType(a.typ)) {
			f.bad(x, "comparison of %s and %s", a.typ, b.typ)
		}
		op := map[token.Token]string{token.EQL: "=", token.NEQ: "≠", token.LSS: "<", token.LEQ: "≤", token.GTR: ">", token.GEQ: "≥"}[x.Op]
		return tval{pre: append(append([]string{}, a.pre...), b.pre...), term: "decide (" + a.term + " " + op + " " + b.term + ")", typ: "bool"}
	case token.SHL:
		a := f.expr(x.X, want)
		b := f.expr(x.Y, "")
		if a.typ == "untyped" && b.typ == "untyped" {
			if b.cst.Sign() < 0 || b.cst.BitLen() > 10 {
				f.bad(x, "constant shift count %s", b.cst)
			}
			v := new(big.Int).Lsh(a.cst, uint(b.cst.Int64()))
			return tval{term: intLeanLit(v), typ: "untyped", cst: v}
		}
		if a.typ == "untyped" {
			// non-constant shift: the constant takes the type the context gives it
			t := want
			if t == "" {
				t = "int"
			}
			a = f.convConst(x.X, a, t)
		}
		if b.typ == "untyped" {
			if b.cst.Sign() < 0 {
				f.bad(x, "negative shift count")
			}
			b = f.convConst(x.Y, b, "uint")
		}
		if b.typ != "uint" && b.typ != "uint8" {
			f.bad(x, "shift count of type %s (a signed count can panic; not modelled)", b.typ)
		}
		if a.typ == "uint8" || !isIntType(a.typ) {
			f.bad(x, "shift of a %s", a.typ)
		}
		return tval{pre: append(append([]string{}, a.pre...), b.pre...), term: "(Go.shl" + opSuffix(a.typ) + " " + a.term + " " + b.term + ")", typ: a.typ}
	case token.ADD, token.SUB, token.MUL, token.QUO, token.REM:
		a, b := f.expr(x.X, want), f.expr(x.Y, want)
		if a.typ == "string" && b.typ == "string" && x.Op == token.ADD {
			// a string is modelled as a list of items (scalar values / stray bytes); concatenation is list
			// append only if no UTF-8 sequence can form across the seam: one side must be a valid literal
			if !validStringLit(x.X) && !validStringLit(x.Y) {
				f.bad(x, "concatenation of two non-literal strings (bytes could combine across the seam)")
			}
			return tval{pre: append(append([]string{}, a.pre...), b.pre...), term: "(" + a.term + " ++ " + b.term + ")", typ: "string"}
		}
		if a.typ == "untyped" && b.typ == "untyped" {
			v := new(big.Int)
			switch x.Op {
			case token.ADD:
				v.Add(a.cst, b.cst)
			case token.SUB:
				v.Sub(a.cst, b.cst)
			case token.MUL:
				v.Mul(a.cst, b.cst)
			case token.QUO:
				if b.cst.Sign() == 0 {
					f.bad(x, "constant division by zero")
				}
				v.Quo(a.cst, b.cst)
			case token.REM:
				if b.cst.Sign() == 0 {
					f.bad(x, "constant division by zero")
				}
				v.Rem(a.cst, b.cst)
			}
			return tval{term: intLeanLit(v), typ: "untyped", cst: v}
		}
		bConst := b.cst
		if a.typ == "untyped" {
			a = f.convConst(x.X, a, b.typ)
		}
		if b.typ == "untyped" {
			b = f.convConst(x.Y, b, a.typ)
		}
		if a.typ != b.typ || !isIntType(a.typ) || a.typ == "uint8" {
			f.bad(x, "%s on %s and %s", x.Op, a.typ, b.typ)
		}
		pre := append(append([]string{}, a.pre...), b.pre...)
		sfx := opSuffix(a.typ)
		switch x.Op {
		case token.ADD:
			return tval{pre: pre, term: "(Go.add" + sfx + " " + a.term + " " + b.term + ")", typ: a.typ}
		case token.SUB:
			return tval{pre: pre, term: "(Go.sub" + sfx + " " + a.term + " " + b.term + ")", typ: a.typ}
		case token.MUL:
			return tval{pre: pre, term: "(Go.mul" + sfx + " " + a.term + " " + b.term + ")", typ: a.typ}
		}
		name := "div"
		if x.Op == token.REM {
			name = "rem"
		}
		if bConst != nil && bConst.Sign() != 0 {
			return tval{pre: pre, term: "(Go." + name + sfx + "c " + a.term + " " + b.term + ")", typ: a.typ}
		}
		t := f.fresh()
		pre = append(pre, fmt.Sprintf("Go.bind (Go.%s%s %s %s) fun %s =>", name, sfx, a.term, b.term, t))
		return tval{pre: pre, term: t, typ: a.typ}
	}
	f.bad(x, "operator %s", x.Op)
	return tval{}
}

// args translates call arguments left to right.
func (f *fnTr) args(c *ast.CallExpr, wants []string) ([]string, []tval) {
	var pre []string
	var out []tval
	for i, a := range c.Args {
		w := ""
		if i < len(wants) {
			w = wants[i]
		}
		v := f.expr(a, w)
		if v.typ == "untyped" && w != "" {
			v = f.convConst(a, v, w)
		}
		if w != "" && v.typ != w && !(w == "int64" && v.typ == "int64") {
			f.bad(a, "argument %d has type %s, expected %s", i+1, v.typ, w)
		}
		pre = append(pre, v.pre...)
		out = append(out, v)
	}
	return pre, out
}

func (f *fnTr) need(c *ast.CallExpr, n int) {
	if len(c.Args) != n || c.Ellipsis.IsValid() {
		f.bad(c, "call with %d arguments", len(c.Args))
	}
}

func (f *fnTr) call(c *ast.CallExpr, want string) tval {
	// conversions and builtins
	if id, ok := c.Fun.(*ast.Ident); ok {
		if _, isVar := f.vars[id.Name]; !isVar {
			switch id.Name {
			case "len":
				f.need(c, 1)
				a := f.expr(c.Args[0], "")
				switch {
				case a.typ == "[]byte":
					return tval{pre: a.pre, term: "(Go.lenBytes " + a.term + ")", typ: "int"}
				case a.typ == "[]string":
					return tval{pre: a.pre, term: "(Go.lenStrs " + a.term + ")", typ: "int"}
				case a.typ == "string":
					return tval{pre: a.pre, term: "(Go.lenStr " + a.term + ")", typ: "int"}
				case strings.HasSuffix(a.typ, "]uint8"):
					return tval{pre: a.pre, term: "(Go.lenInts " + a.term + ")", typ: "int"}
				}
				f.bad(c, "len of %s", a.typ)
			case "uint", "int", "int64", "Language":
				f.need(c, 1)
				a := f.expr(c.Args[0], id.Name)
				if a.typ == "untyped" {
					return f.convConst(c, a, id.Name)
				}
				if !isIntType(a.typ) {
					f.bad(c, "conversion of %s to %s", a.typ, id.Name)
				}
				switch {
				case signed(id.Name) && signed(a.typ), id.Name == "uint" && a.typ == "uint":
					return tval{pre: a.pre, term: a.term, typ: id.Name} // same representation
				case id.Name == "uint" && a.typ == "uint8", signed(id.Name) && a.typ == "uint8":
					return tval{pre: a.pre, term: a.term, typ: id.Name} // widening, value kept
				case id.Name == "uint":
					return tval{pre: a.pre, term: "(Go.toUint " + a.term + ")", typ: "uint"}
				default:
					return tval{pre: a.pre, term: "(Go.toInt " + a.term + ")", typ: id.Name}
				}
			case "make":
				if len(c.Args) != 2 {
					f.bad(c, "make with %d arguments", len(c.Args))
				}
				tn := normType(typeName(c.Args[0]))
				n := f.expr(c.Args[1], "int")
				if n.typ == "untyped" {
					n = f.convConst(c, n, "int")
				}
				if n.typ != "int" {
					f.bad(c, "make length of type %s", n.typ)
				}
				t := f.fresh()
				switch tn {
				case "[]byte":
					return tval{pre: append(n.pre, fmt.Sprintf("Go.bind (Go.makeBytes %s) fun %s =>", n.term, t)), term: t, typ: "[]byte", fresh: true}
				case "[]string":
					return tval{pre: append(n.pre, fmt.Sprintf("Go.bind (Go.makeStrs %s) fun %s =>", n.term, t)), term: t, typ: "[]string", fresh: true}
				}
				f.bad(c, "make of %s", typeName(c.Args[0]))
			case "new":
				f.need(c, 1)
				if typeName(c.Args[0]) == "big.Int" {
					if p, ok := f.imports["big"]; ok && p == "math/big" {
						return tval{term: "Go.bigZero", typ: "*big.Int", fresh: true}
					}
				}
				f.bad(c, "new(%s)", typeName(c.Args[0]))
			default:
				return f.pkgCall(c, id.Name)
			}
		}
	}
	// []byte(s)
	if at, ok := c.Fun.(*ast.ArrayType); ok && at.Len == nil && typeName(at.Elt) == "byte" {
		f.need(c, 1)
		a := f.expr(c.Args[0], "")
		if a.typ != "string" {
			f.bad(c, "[]byte(%s)", a.typ)
		}
		return tval{pre: a.pre, term: "(utf8 " + a.term + ")", typ: "[]byte", fresh: true}
	}
	// package-qualified calls
	if pkg, name, ok := f.selCall(c); ok {
		return f.libCall(c, pkg, name, want)
	}
	se, ok := c.Fun.(*ast.SelectorExpr)
	if !ok {
		f.bad(c, "call of %T", c.Fun)
	}
	// norm.NFKD.String(s)
	if inner, ok := se.X.(*ast.SelectorExpr); ok {
		if p, ok := f.pkgOf(inner.X); ok && p == "golang.org/x/text/unicode/norm" && inner.Sel.Name == "NFKD" && se.Sel.Name == "String" {
			f.need(c, 1)
			pre, a := f.args(c, []string{"string"})
			return tval{pre: pre, term: "(W.X " + a[0].term + ")", typ: "string"}
		}
	}
	return f.method(c, se, want)
}

// pkgCall: a call of another function of the package.
func (f *fnTr) pkgCall(c *ast.CallExpr, name string) tval {
	sig, ok := f.t.funcs[name]
	if !ok {
		f.bad(c, "call of unknown function %s", name)
	}
	if why := f.t.translate(name); why != "" {
		f.bad(c, "callee %s is not translatable: %s", name, why)
	}
	f.deps[name] = true
	f.need(c, len(sig.params))
	pre, a := f.args(c, sig.params)
	terms := []string{}
	for _, v := range a {
		terms = append(terms, v.term)
	}
	app := "(" + sig.lean + " W " + strings.Join(terms, " ") + ")"
	if len(sig.results) == 1 && sig.results[0] == "error" {
		return tval{pre: pre, term: app, typ: "errcall"}
	}
	t := f.fresh()
	pre = append(pre, fmt.Sprintf("Go.bind %s fun %s =>", app, t))
	rt := sig.results[0]
	return tval{pre: pre, term: t, typ: rt, fresh: true}
}

func (f *fnTr) libCall(c *ast.CallExpr, pkg, name, want string) tval {
	switch pkg + "." + name {
	case "math/big.NewInt":
		f.need(c, 1)
		pre, a := f.args(c, []string{"int64"})
		return tval{pre: pre, term: "(Go.bigNewInt " + a[0].term + ")", typ: "*big.Int", fresh: true}
	case "crypto/sha256.New":
		f.need(c, 0)
		return tval{term: "Go.sha256New", typ: "hash", fresh: true}
	case "crypto/sha256.Sum256":
		// sha256.Sum256(b) = the digest of b, as a [32]byte VALUE (a copy): what New/Write/Sum(nil) yields.
		// The only thing the translation lets one do with it is slice it (`sum[0:1]`).
		f.need(c, 1)
		pre, a := f.args(c, []string{"[]byte"})
		return tval{pre: pre, term: "(Go.hashSum W (Go.hashWrite Go.sha256New " + a[0].term + ") [])", typ: "[32]byte", fresh: true}
	case "strings.Split":
		f.need(c, 2)
		pre, a := f.args(c, []string{"string", "string"})
		var s string
		if bl, ok := c.Args[1].(*ast.BasicLit); ok {
			s, _ = strLit(bl.Value)
		} else if id, ok := c.Args[1].(*ast.Ident); ok && f.vars[id.Name] == "" && f.t.strConsts[id.Name] != nil {
			// a package-level string constant (a literal that was given a name)
			s = *f.t.strConsts[id.Name]
		} else {
			f.bad(c, "strings.Split with a separator that is not a literal")
		}
		it := items(s)
		if len(it) != 1 {
			f.bad(c, "strings.Split with a separator of %d items", len(it))
		}
		return tval{pre: pre, term: fmt.Sprintf("(splitOn %d %s)", it[0], a[0].term), typ: "[]string", fresh: true}
	case "strings.Join":
		f.need(c, 2)
		pre, a := f.args(c, []string{"[]string", "string"})
		return tval{pre: pre, term: "(joinWith " + a[1].term + " " + a[0].term + ")", typ: "string"}
	case "strconv.FormatInt":
		f.need(c, 2)
		pre, a := f.args(c, []string{"int64", "int"})
		if a[1].cst == nil || a[1].cst.Cmp(big.NewInt(10)) != 0 {
			f.bad(c, "strconv.FormatInt with a base other than the constant 10")
		}
		return tval{pre: pre, term: "(Model.formatInt " + a[0].term + ")", typ: "string"}
	case "golang.org/x/crypto/pbkdf2.Key":
		f.need(c, 5)
		pre, a := f.args(&ast.CallExpr{Fun: c.Fun, Args: c.Args[:4]}, []string{"[]byte", "[]byte", "int", "int"})
		if p, n, ok := f.selCall(&ast.CallExpr{Fun: c.Args[4]}); !ok || p != "crypto/sha512" || n != "New" {
			f.bad(c, "pbkdf2.Key with a hash other than sha512.New")
		}
		if a[2].cst == nil || a[3].cst == nil || a[2].cst.Sign() < 0 || a[3].cst.Sign() < 0 {
			f.bad(c, "pbkdf2.Key with non-constant iteration count or key length")
		}
		return tval{pre: pre, term: fmt.Sprintf("(W.PB %s %s %s %s)", a[0].term, a[1].term, a[2].cst, a[3].cst), typ: "[]byte", fresh: true}
	case "fmt.Errorf":
		if len(c.Args) != 3 {
			f.bad(c, "fmt.Errorf with %d arguments", len(c.Args))
		}
		bl, ok := c.Args[0].(*ast.BasicLit)
		if !ok || bl.Kind != token.STRING {
			f.bad(c, "fmt.Errorf with a format that is not a literal")
		}
		pre, a := f.args(c, []string{"string", "string", "int"})
		return tval{pre: pre, term: fmt.Sprintf("(Go.errorfSD %s %s %s)", a[0].term, a[1].term, a[2].term), typ: "errval"}
	}
	f.bad(c, "call of %s.%s", pkg, name)
	return tval{}
}

// method: calls on *big.Int and hash.Hash values and on Language receivers.
func (f *fnTr) method(c *ast.CallExpr, se *ast.SelectorExpr, want string) tval {
	recv := f.expr(se.X, "")
	m := se.Sel.Name
	switch recv.typ {
	case "Language":
		switch m {
		case "list":
			f.need(c, 0)
			if why := f.t.translate("Language.list"); why != "" {
				f.bad(c, "callee Language.list is not translatable: %s", why)
			}
			f.deps["Language.list"] = true
			t := f.fresh()
			return tval{pre: append(recv.pre, fmt.Sprintf("Go.bind (%s W %s) fun %s =>", f.t.funcs["Language.list"].lean, recv.term, t)), term: t, typ: "[]string"}
		case "mapping":
			f.need(c, 0)
			t := f.fresh()
			return tval{pre: append(recv.pre, fmt.Sprintf("Go.bind (Go.langMapping %s) fun %s =>", recv.term, t)), term: t, typ: "map"}
		}
	case "hash":
		switch m {
		case "Write":
			f.need(c, 1)
			pre, a := f.args(c, []string{"[]byte"})
			if recv.rebind == "" {
				f.bad(c, "Write on a hash that is not a variable")
			}
			pre = append(append(recv.pre, pre...), fmt.Sprintf("let %s := Go.hashWrite %s %s;", leanId(recv.rebind), recv.term, a[0].term))
			return tval{pre: pre, term: "()", typ: "writeresult"}
		case "Sum":
			f.need(c, 1)
			arg := "[]"
			var pre []string
			if id, ok := c.Args[0].(*ast.Ident); !ok || id.Name != "nil" {
				p, a := f.args(c, []string{"[]byte"})
				pre, arg = p, a[0].term
				// Sum(b) appends to b: it may write into the spare capacity of b's backing array
				if id, ok := c.Args[0].(*ast.Ident); ok {
					f.writes = append(f.writes, [2]string{id.Name + " (appended to by Sum)", f.origin[id.Name]})
				} else if !a[0].fresh {
					f.writes = append(f.writes, [2]string{"an expression (appended to by Sum)", "unknown"})
				}
			}
			return tval{pre: append(recv.pre, pre...), term: "(Go.hashSum W " + recv.term + " " + arg + ")", typ: "[]byte", fresh: true}
		}
	case "*big.Int":
		// reading methods
		switch m {
		case "Int64":
			f.need(c, 0)
			return tval{pre: recv.pre, term: "(Go.bigInt64 " + recv.term + ")", typ: "int64"}
		case "Cmp":
			f.need(c, 1)
			pre, a := f.args(c, []string{"*big.Int"})
			return tval{pre: append(recv.pre, pre...), term: "(Go.bigCmp " + recv.term + " " + a[0].term + ")", typ: "int"}
		case "FillBytes":
			f.need(c, 1)
			pre, a := f.args(c, []string{"[]byte"})
			if !a[0].fresh {
				f.bad(c, "FillBytes into a slice that a variable refers to")
			}
			t := f.fresh()
			f.writes = append(f.writes, [2]string{"the argument of FillBytes", "fresh"})
			pre = append(append(recv.pre, pre...), fmt.Sprintf("Go.bind (Go.bigFillBytes %s %s) fun %s =>", recv.term, a[0].term, t))
			return tval{pre: pre, term: t, typ: "[]byte", fresh: true}
		}
		// writing methods: z.Op(args) sets z and returns z
		if recv.rebind == "" && !recv.fresh {
			f.bad(c, "method %s on a big.Int that is neither a local variable nor freshly allocated", m)
		}
		var pre []string
		var val string
		monadic := false
		switch m {
		case "SetBytes":
			f.need(c, 1)
			p, a := f.args(c, []string{"[]byte"})
			pre, val = p, "Go.bigSetBytes "+a[0].term
		case "Quo":
			f.need(c, 2)
			p, a := f.args(c, []string{"*big.Int", "*big.Int"})
			pre, val, monadic = p, "Go.bigQuo "+a[0].term+" "+a[1].term, true
		case "Add", "And":
			f.need(c, 2)
			p, a := f.args(c, []string{"*big.Int", "*big.Int"})
			pre, val = p, "Go.big"+m+" "+a[0].term+" "+a[1].term
		case "Lsh":
			f.need(c, 2)
			p, a := f.args(c, []string{"*big.Int", "uint"})
			pre, val = p, "Go.bigLsh "+a[0].term+" "+a[1].term
		default:
			f.bad(c, "big.Int method %s", m)
		}
		pre = append(append([]string{}, recv.pre...), pre...)
		target := ""
		if recv.rebind != "" {
			target = leanId(recv.rebind)
		} else {
			target = f.fresh()
		}
		if monadic {
			pre = append(pre, fmt.Sprintf("Go.bind (%s) fun %s =>", val, target))
		} else {
			pre = append(pre, fmt.Sprintf("let %s := %s;", target, val))
		}
		return tval{pre: pre, term: target, typ: "*big.Int", fresh: recv.rebind == "", rebind: recv.rebind}
	}
	f.bad(c, "method %s on %s", m, recv.typ)
	return tval{}
}

// ---------------------------------------------------------------------------------------------
// statements

type emitter struct {
	lines  []string
	indent int
}

func (e *emitter) add(ls ...string) {
	for _, l := range ls {
		e.lines = append(e.lines, strings.Repeat("  ", e.indent)+l)
	}
}

func (f *fnTr) declare(n ast.Node, name, typ, origin string) {
	if name == "_" {
		return
	}
	if _, dup := f.vars[name]; dup {
		f.bad(n, "redeclaration or shadowing of %s", name)
	}
	if _, g := f.t.globals[name]; g {
		f.bad(n, "local %s shadows a package-level identifier", name)
	}
	if _, g := f.t.funcs[name]; g {
		f.bad(n, "local %s shadows a function", name)
	}
	if _, g := f.imports[name]; g {
		f.bad(n, "local %s shadows an import", name)
	}
	f.vars[name] = typ
	f.origin[name] = origin
	if _, seen := f.order[name]; !seen {
		f.order[name] = len(f.order)
	}
}

// bindValue emits `name := v` for a declaration or assignment, enforcing the no-alias rules.
func (f *fnTr) bindValue(n ast.Node, em *emitter, name string, v tval, define bool) {
	switch v.typ {
	case "*big.Int", "hash":
		if !v.fresh {
			f.bad(n, "%s would alias another %s", name, v.typ)
		}
	case "[]byte", "[]string":
		// an alias of a slice is harmless as long as neither side is ever mutated
		if v.rebind != "" && f.origin[v.rebind] == "make" {
			f.bad(n, "%s would alias the mutable slice %s", name, v.rebind)
		}
	case "int", "int64", "uint", "uint8", "Language", "bool", "string", "map":
	case "[32]byte":
		// an array is a value: the variable holds a copy; it is never mutated (element assignment is refused)
	default:
		f.bad(n, "assignment of a %s", v.typ)
	}
	em.add(v.pre...)
	if define {
		origin := "local"
		if (v.typ == "[]byte" || v.typ == "[]string") && v.fresh && strings.HasPrefix(lastOf(v.pre), "Go.bind (Go.make") {
			origin = "make"
		}
		f.declare(n, name, v.typ, origin)
	} else {
		t, ok := f.vars[name]
		if !ok {
			f.bad(n, "assignment to %s, which is not a local variable", name)
		}
		if t != v.typ {
			f.bad(n, "assignment of %s to %s %s", v.typ, t, name)
		}
		if f.origin[name] == "make" {
			f.bad(n, "reassignment of the mutable slice %s", name)
		}
	}
	if name == "_" {
		return
	}
	if v.term == leanId(name) {
		return
	}
	// the value is a temporary introduced by the last emitted line: give that binder the variable's name
	if n := len(em.lines); n > 0 && len(v.pre) > 0 && isTemp(v.term) {
		last := em.lines[n-1]
		if strings.HasSuffix(last, " fun "+v.term+" =>") {
			em.lines[n-1] = strings.TrimSuffix(last, " fun "+v.term+" =>") + " fun " + leanId(name) + " =>"
			return
		}
		if i := strings.Index(last, "let "+v.term+" := "); i >= 0 && strings.TrimSpace(last[:i]) == "" {
			em.lines[n-1] = last[:i] + "let " + leanId(name) + " := " + last[i+len("let "+v.term+" := "):]
			return
		}
	}
	em.add(fmt.Sprintf("let %s := %s;", leanId(name), v.term))
}

func isTemp(s string) bool {
	if len(s) < 2 || s[0] != 't' {
		return false
	}
	for _, r := range s[1:] {
		if r < '0' || r > '9' {
			return false
		}
	}
	return true
}

func lastOf(s []string) string {
	if len(s) == 0 {
		return ""
	}
	return s[len(s)-1]
}

// assignedIn: outer variables a block assigns (for loop state).
func (f *fnTr) assignedIn(b *ast.BlockStmt) []string {
	set := map[string]bool{}
	declared := map[string]bool{}
	ast.Inspect(b, func(n ast.Node) bool {
		switch x := n.(type) {
		case *ast.AssignStmt:
			for _, l := range x.Lhs {
				switch y := l.(type) {
				case *ast.Ident:
					if x.Tok == token.DEFINE {
						declared[y.Name] = true
					} else {
						set[y.Name] = true
					}
				case *ast.IndexExpr:
					if id, ok := y.X.(*ast.Ident); ok {
						set[id.Name] = true
					}
				}
			}
		case *ast.IncDecStmt:
			if id, ok := x.X.(*ast.Ident); ok {
				set[id.Name] = true
			}
		case *ast.CallExpr:
			// z.Op(...) on a big.Int or hash variable mutates it
			if se, ok := x.Fun.(*ast.SelectorExpr); ok {
				root := se.X
				for {
					if c2, ok := root.(*ast.CallExpr); ok {
						if s2, ok := c2.Fun.(*ast.SelectorExpr); ok {
							root = s2.X
							continue
						}
					}
					break
				}
				if id, ok := root.(*ast.Ident); ok {
					if t := f.vars[id.Name]; t == "*big.Int" || t == "hash" {
						set[id.Name] = true
					}
				}
			}
			// io.ReadFull(r, buf) fills buf
			if p, n2, ok := f.selCall(x); ok && p == "io" && n2 == "ReadFull" && len(x.Args) == 2 {
				if id, ok := x.Args[1].(*ast.Ident); ok {
					set[id.Name] = true
				}
			}
		case *ast.ValueSpec:
			for _, nm := range x.Names {
				declared[nm.Name] = true
			}
		case *ast.RangeStmt:
			for _, e := range []ast.Expr{x.Key, x.Value} {
				if id, ok := e.(*ast.Ident); ok {
					declared[id.Name] = true
				}
			}
		}
		return true
	})
	var out []string
	for k := range set {
		if _, outer := f.vars[k]; outer && !declared[k] {
			out = append(out, k)
		}
	}
	sort.Slice(out, func(i, j int) bool { return f.order[out[i]] < f.order[out[j]] })
	return out
}

func tuple(names []string) string {
	if len(names) == 0 {
		return "()"
	}
	ids := []string{}
	for _, n := range names {
		ids = append(ids, leanId(n))
	}
	if len(ids) == 1 {
		return ids[0]
	}
	return "(" + strings.Join(ids, ", ") + ")"
}

// retTerm renders a return statement as a complete term (lines).
func (f *fnTr) ret(rs *ast.ReturnStmt, em *emitter) {
	res := f.sig.results
	exprs := rs.Results
	if len(exprs) != len(res) {
		f.bad(rs, "return with %d values", len(exprs))
	}
	if len(res) > 0 && res[len(res)-1] == "error" {
		last := exprs[len(exprs)-1]
		if id, ok := last.(*ast.Ident); ok && id.Name == "nil" {
			if len(res) == 1 {
				em.add("Go.pure ()")
				return
			}
			v := f.expr(exprs[0], res[0])
			if v.typ == "untyped" {
				v = f.convConst(exprs[0], v, res[0])
			}
			if v.typ != res[0] {
				f.bad(rs, "return of %s, expected %s", v.typ, res[0])
			}
			em.add(v.pre...)
			em.add("Go.pure " + v.term)
			return
		}
		// an error is returned: the other results must be zero values
		for i := 0; i+1 < len(exprs); i++ {
			bl, ok := exprs[i].(*ast.BasicLit)
			if !ok || bl.Kind != token.STRING || bl.Value != `""` {
				f.bad(rs, "return of a non-zero value together with an error")
			}
		}
		switch x := last.(type) {
		case *ast.Ident:
			g, ok := f.t.globals[x.Name]
			if ok && g.typ == "error" {
				if where, mut := f.t.assigned[x.Name]; mut {
					f.bad(x, "package-level %s is assigned in %s", x.Name, where)
				}
				em.add("Go.fail " + g.term)
				return
			}
		case *ast.CallExpr:
			v := f.expr(x, "")
			if v.typ == "errval" {
				em.add(v.pre...)
				em.add(v.term)
				return
			}
		}
		f.bad(rs, "returned error is neither nil, a package-level error value nor fmt.Errorf")
	}
	if len(res) != 1 {
		f.bad(rs, "return of %d values", len(res))
	}
	v := f.expr(exprs[0], res[0])
	if v.typ == "untyped" {
		v = f.convConst(exprs[0], v, res[0])
	}
	if v.typ != res[0] {
		f.bad(rs, "return of %s, expected %s", v.typ, res[0])
	}
	em.add(v.pre...)
	em.add("Go.pure " + v.term)
}

// block translates statements; returns true if the block ends in a return on every path.
func (f *fnTr) block(stmts []ast.Stmt, em *emitter, inLoop bool) bool {
	skip := false
	for i, st := range stmts {
		if skip {
			skip = false
			continue
		}
		// `_, err := io.ReadFull(cryptoRander, buf)` followed by `if err != nil { return "", err }`: the
		// same idiom as the if-with-initialiser form, provided err is not mentioned afterwards
		if as, ok := st.(*ast.AssignStmt); ok && i+1 < len(stmts) && as.Tok == token.DEFINE && len(as.Lhs) == 2 && len(as.Rhs) == 1 {
			if c, ok := as.Rhs[0].(*ast.CallExpr); ok {
				if p, n, ok := f.selCall(c); ok && p == "io" && n == "ReadFull" {
					if nx, ok := stmts[i+1].(*ast.IfStmt); ok && nx.Init == nil && nx.Else == nil {
						if e, ok := as.Lhs[1].(*ast.Ident); ok && e.Name != "_" {
							for _, later := range stmts[i+2:] {
								ast.Inspect(later, func(n ast.Node) bool {
									if id, ok := n.(*ast.Ident); ok && id.Name == e.Name {
										f.bad(id, "the error of io.ReadFull is used after its check")
									}
									return true
								})
							}
							merged := *nx
							merged.Init = as
							if f.ifStmt(&merged, em, inLoop) {
								f.bad(nx, "unexpected shape of the io.ReadFull check")
							}
							skip = true
							continue
						}
					}
				}
			}
		}
		switch x := st.(type) {
		case *ast.ReturnStmt:
			if i != len(stmts)-1 {
				f.bad(x, "statements after return")
			}
			if inLoop {
				// inside a loop only an error may be returned (it ends the function through the monad)
				last := x.Results[len(x.Results)-1]
				if id, ok := last.(*ast.Ident); ok && id.Name == "nil" {
					f.bad(x, "return of a value from inside a loop")
				}
				if len(f.sig.results) == 0 || f.sig.results[len(f.sig.results)-1] != "error" {
					f.bad(x, "return from inside a loop")
				}
			}
			f.ret(x, em)
			return true
		case *ast.AssignStmt:
			f.assign(x, em)
		case *ast.DeclStmt:
			gd, ok := x.Decl.(*ast.GenDecl)
			if !ok || gd.Tok != token.VAR || len(gd.Specs) != 1 {
				f.bad(x, "declaration statement")
			}
			vs := gd.Specs[0].(*ast.ValueSpec)
			if len(vs.Names) != 1 || len(vs.Values) != 1 || vs.Type == nil {
				f.bad(x, "var declaration without type or initialiser")
			}
			t := normType(typeName(vs.Type))
			if !isIntType(t) {
				f.bad(x, "var declaration of type %s", typeName(vs.Type))
			}
			v := f.expr(vs.Values[0], t)
			if v.typ == "untyped" {
				v = f.convConst(x, v, t)
			}
			if v.typ != t {
				f.bad(x, "initialiser of type %s for a %s", v.typ, t)
			}
			f.bindValue(x, em, vs.Names[0].Name, v, true)
		case *ast.ExprStmt:
			c, ok := x.X.(*ast.CallExpr)
			if !ok {
				f.bad(x, "expression statement")
			}
			v := f.expr(c, "")
			if v.typ != "*big.Int" && v.typ != "writeresult" {
				f.bad(x, "call statement of type %s", v.typ)
			}
			if v.typ == "*big.Int" && v.rebind == "" {
				f.bad(x, "call statement on a temporary")
			}
			em.add(v.pre...)
		case *ast.IfStmt:
			if f.ifStmt(x, em, inLoop) {
				if i != len(stmts)-1 {
					f.bad(x, "statements after an if/else that always returns")
				}
				return true
			}
		case *ast.SwitchStmt:
			if f.switchStmt(x, em, inLoop) {
				if i != len(stmts)-1 {
					f.bad(x, "statements after a switch that always returns")
				}
				return true
			}
		case *ast.ForStmt:
			f.forStmt(x, em)
		case *ast.RangeStmt:
			f.rangeStmt(x, em)
		default:
			f.bad(st, "statement %T", st)
		}
	}
	return false
}

func (f *fnTr) assign(x *ast.AssignStmt, em *emitter) {
	define := x.Tok == token.DEFINE
	if x.Tok != token.DEFINE && x.Tok != token.ASSIGN {
		f.bad(x, "assignment operator %s", x.Tok)
	}
	// v, ok := m[k]
	if len(x.Lhs) == 2 && len(x.Rhs) == 1 {
		if ie, ok := x.Rhs[0].(*ast.IndexExpr); ok && define {
			m := f.expr(ie.X, "")
			k := f.expr(ie.Index, "")
			if m.typ != "map" || k.typ != "string" {
				f.bad(x, "comma-ok index of %s by %s", m.typ, k.typ)
			}
			a, aok := x.Lhs[0].(*ast.Ident)
			b, bok := x.Lhs[1].(*ast.Ident)
			if !aok || !bok || a.Name == "_" || b.Name == "_" {
				f.bad(x, "comma-ok assignment to something other than two new variables")
			}
			em.add(m.pre...)
			em.add(k.pre...)
			f.declare(x, a.Name, "int64", "local")
			f.declare(x, b.Name, "bool", "local")
			em.add(fmt.Sprintf("let (%s, %s) := Go.mapLookup2 %s %s;", leanId(a.Name), leanId(b.Name), m.term, k.term))
			return
		}
		// _, _ = hash.Write(b)
		if c, ok := x.Rhs[0].(*ast.CallExpr); ok && !define {
			a, aok := x.Lhs[0].(*ast.Ident)
			b, bok := x.Lhs[1].(*ast.Ident)
			if aok && bok && a.Name == "_" && b.Name == "_" {
				v := f.expr(c, "")
				if v.typ == "writeresult" {
					em.add(v.pre...)
					return
				}
			}
		}
		f.bad(x, "two-value assignment")
	}
	if len(x.Lhs) == len(x.Rhs) && len(x.Lhs) > 1 {
		// a, b = x, y  /  a, b := x, y: all right-hand sides are evaluated before any assignment; accepted
		// for pure expressions of value types only
		var ls, rs []string
		var types []string
		for i := range x.Lhs {
			id, ok := x.Lhs[i].(*ast.Ident)
			if !ok || id.Name == "_" {
				f.bad(x, "parallel assignment to something other than variables")
			}
			want := ""
			if !define {
				want = f.vars[id.Name]
			}
			v := f.expr(x.Rhs[i], want)
			if v.typ == "untyped" {
				if want == "" {
					want = "int"
				}
				v = f.convConst(x, v, want)
			}
			if !(isIntType(v.typ) || v.typ == "string" || v.typ == "bool") {
				f.bad(x, "parallel assignment of a value of type %s", v.typ)
			}
			em.add(v.pre...) // operands that can panic are evaluated left to right, before any assignment
			if define {
				if _, exists := f.vars[id.Name]; exists {
					f.bad(x, "parallel := that re-assigns an existing variable")
				}
			}
			if !define && f.vars[id.Name] != v.typ {
				f.bad(x, "parallel assignment of a %s to a %s", v.typ, f.vars[id.Name])
			}
			ls = append(ls, id.Name)
			rs = append(rs, v.term)
			types = append(types, v.typ)
		}
		for i, n := range ls {
			if define {
				f.declare(x, n, types[i], "local")
			} else if _, ok := f.vars[n]; !ok || f.origin[n] == "param-slice" {
				f.bad(x, "parallel assignment to an undeclared variable")
			}
		}
		em.add("let " + tuple(ls) + " := (" + strings.Join(rs, ", ") + ");")
		return
	}
	if len(x.Lhs) != 1 || len(x.Rhs) != 1 {
		f.bad(x, "parallel assignment")
	}
	switch l := x.Lhs[0].(type) {
	case *ast.Ident:
		want := ""
		if !define {
			want = f.vars[l.Name]
		}
		v := f.expr(x.Rhs[0], want)
		if v.typ == "untyped" {
			if want == "" {
				want = "int"
			}
			v = f.convConst(x, v, want)
		}
		if l.Name == "_" {
			f.bad(x, "assignment to _")
		}
		f.bindValue(x, em, l.Name, v, define)
	case *ast.IndexExpr:
		if define {
			f.bad(x, ":= on an element")
		}
		id, ok := l.X.(*ast.Ident)
		if !ok || f.vars[id.Name] != "[]string" || f.origin[id.Name] != "make" {
			f.bad(x, "element assignment to something other than a local []string made in this function")
		}
		i := f.expr(l.Index, "")
		if i.typ == "untyped" {
			i = f.convConst(x, i, "int")
		}
		if !signed(i.typ) {
			f.bad(x, "element index of type %s", i.typ)
		}
		v := f.expr(x.Rhs[0], "")
		if v.typ != "string" {
			f.bad(x, "element of type %s", v.typ)
		}
		em.add(i.pre...)
		em.add(v.pre...)
		f.writes = append(f.writes, [2]string{id.Name, f.origin[id.Name]})
		em.add(fmt.Sprintf("Go.bind (Go.setStrs %s %s %s) fun %s =>", leanId(id.Name), i.term, v.term, leanId(id.Name)))
	default:
		f.bad(x, "assignment to %T", x.Lhs[0])
	}
}

// ifStmt returns true if the statement returns on every path (if … { …return } else { …return }).
func (f *fnTr) ifStmt(x *ast.IfStmt, em *emitter, inLoop bool) bool {
	if x.Else != nil && x.Init != nil {
		f.bad(x, "if with both an init statement and an else branch")
	}
	// if _, err := io.ReadFull(cryptoRander, buf); err != nil { return "", err }
	if x.Init != nil {
		as, ok := x.Init.(*ast.AssignStmt)
		if ok && as.Tok == token.DEFINE && len(as.Lhs) == 2 && len(as.Rhs) == 1 {
			if c, ok := as.Rhs[0].(*ast.CallExpr); ok {
				if p, n, ok := f.selCall(c); ok && p == "io" && n == "ReadFull" && len(c.Args) == 2 {
					a, aok := as.Lhs[0].(*ast.Ident)
					e, eok := as.Lhs[1].(*ast.Ident)
					src, sok := c.Args[0].(*ast.Ident)
					buf, bok := c.Args[1].(*ast.Ident)
					cond, cok := x.Cond.(*ast.BinaryExpr)
					if aok && eok && sok && bok && cok && a.Name == "_" && e.Name != "_" && src.Name == "cryptoRander" &&
						f.vars[buf.Name] == "[]byte" && f.origin[buf.Name] == "make" && cond.Op == token.NEQ {
						l, lok := cond.X.(*ast.Ident)
						r, rok := cond.Y.(*ast.Ident)
						if lok && rok && l.Name == e.Name && r.Name == "nil" && len(x.Body.List) == 1 {
							if rs, ok := x.Body.List[0].(*ast.ReturnStmt); ok && len(rs.Results) == 2 && len(f.sig.results) == 2 {
								z, zok := rs.Results[0].(*ast.BasicLit)
								ee, eeok := rs.Results[1].(*ast.Ident)
								if zok && eeok && z.Value == `""` && ee.Name == e.Name {
									if _, g := f.t.globals["cryptoRander"]; !g {
										f.bad(x, "cryptoRander is not the package-level source variable")
									}
									if where, mut := f.t.assigned["cryptoRander"]; mut {
										f.bad(x, "the source variable cryptoRander is assigned in %s", where)
									}
									f.writes = append(f.writes, [2]string{buf.Name, f.origin[buf.Name]})
									em.add(fmt.Sprintf("Go.bind (Go.readFull %s) fun %s =>", leanId(buf.Name), leanId(buf.Name)))
									return false
								}
							}
						}
					}
				}
			}
		}
		f.bad(x, "if with an init statement other than the io.ReadFull(cryptoRander, buf) idiom")
	}
	c := f.expr(x.Cond, "")
	if c.typ != "bool" {
		f.bad(x, "condition of type %s", c.typ)
	}
	em.add(c.pre...)
	if f.t.gateCond[x.Cond] && len(c.pre) == 0 {
		// the size gate: its condition becomes a definition of its own (a function of the locals it
		// mentions), so that the refinement proof can treat it by the shape-independent gate script
		var ps, as []string
		seen := map[string]bool{}
		ast.Inspect(x.Cond, func(n ast.Node) bool {
			if id, ok := n.(*ast.Ident); ok {
				if t, isVar := f.vars[id.Name]; isVar && !seen[id.Name] {
					seen[id.Name] = true
					ps = append(ps, fmt.Sprintf("(%s : %s)", leanId(id.Name), leanType(t)))
					as = append(as, leanId(id.Name))
				}
			}
			return true
		})
		name := f.sig.lean + "_gate"
		f.gates = append(f.gates, fmt.Sprintf("/-- the rejecting condition of the size gate of %s -/\ndef %s %s : Bool :=\n  %s\n", f.sig.name, name, strings.Join(ps, " "), c.term))
		c.term = "(" + name + " " + strings.Join(as, " ") + ")"
	}
	if f.condAssign(x, c, em) {
		return false
	}
	sub := &emitter{indent: em.indent + 1}
	saved := map[string]string{}
	for k, v := range f.vars {
		saved[k] = v
	}
	if !f.block(x.Body.List, sub, inLoop) {
		f.bad(x, "if whose body does not end in return")
	}
	for k := range f.vars {
		if _, ok := saved[k]; !ok {
			delete(f.vars, k)
			delete(f.origin, k)
		}
	}
	em.add("if " + c.term + " then (")
	em.lines = append(em.lines, sub.lines...)
	em.add(") else")
	if x.Else == nil {
		return false
	}
	// else branch: a block (or an else-if chain) that also returns on every path
	switch e := x.Else.(type) {
	case *ast.BlockStmt:
		sub2 := &emitter{indent: em.indent}
		saved2 := map[string]string{}
		for k, v := range f.vars {
			saved2[k] = v
		}
		if !f.block(e.List, sub2, inLoop) {
			f.bad(x, "else branch that does not end in return")
		}
		for k := range f.vars {
			if _, ok := saved2[k]; !ok {
				delete(f.vars, k)
				delete(f.origin, k)
			}
		}
		em.lines = append(em.lines, sub2.lines...)
		return true
	case *ast.IfStmt:
		if !f.ifStmt(e, em, inLoop) {
			f.bad(x, "else-if chain that does not return on every path")
		}
		return true
	}
	f.bad(x, "else branch")
	return false
}

// condAssign handles `if c { x = e; … } [else { x = e'; … }]` whose branches consist only of plain
// assignments of pure expressions to already declared local variables of value types: the assigned
// variables are rebound to a conditional tuple.  Returns false if the statement has another shape.
func (f *fnTr) condAssign(x *ast.IfStmt, c tval, em *emitter) bool {
	branches := [][]ast.Stmt{x.Body.List}
	if x.Else != nil {
		eb, ok := x.Else.(*ast.BlockStmt)
		if !ok {
			return false
		}
		branches = append(branches, eb.List)
	}
	valueType := func(t string) bool {
		return isIntType(t) || t == "string" || t == "bool"
	}
	var names []string
	seen := map[string]bool{}
	for _, b := range branches {
		if len(b) == 0 {
			return false
		}
		for _, st := range b {
			as, ok := st.(*ast.AssignStmt)
			if !ok || as.Tok != token.ASSIGN || len(as.Lhs) != 1 || len(as.Rhs) != 1 {
				return false
			}
			id, ok := as.Lhs[0].(*ast.Ident)
			if !ok || id.Name == "_" {
				return false
			}
			t, declared := f.vars[id.Name]
			if !declared || !valueType(t) {
				return false
			}
			if !seen[id.Name] {
				seen[id.Name] = true
				names = append(names, id.Name)
			}
		}
	}
	render := func(b []ast.Stmt) []string {
		sub := &emitter{indent: em.indent + 1}
		for _, st := range b {
			f.assign(st.(*ast.AssignStmt), sub)
		}
		for _, l := range sub.lines {
			if !strings.HasPrefix(strings.TrimSpace(l), "let ") {
				f.bad(x, "conditional assignment of an expression that can panic")
			}
		}
		sub.add(tuple(names))
		return sub.lines
	}
	thenLines := render(x.Body.List)
	var elseLines []string
	if len(branches) == 2 {
		elseLines = render(branches[1])
	} else {
		elseLines = []string{strings.Repeat("  ", em.indent+1) + tuple(names)}
	}
	em.add("let " + tuple(names) + " := if " + c.term + " then (")
	em.lines = append(em.lines, thenLines...)
	em.add(") else (")
	em.lines = append(em.lines, elseLines...)
	em.add(");")
	return true
}

// switch tag { case c1, c2: …return…  default: …return… }: an integer tag, constant cases, every clause
// ends in return, no fallthrough.  Cases are tried in source order; default (wherever it stands) last.
// Returns true if the switch returns on every path (it has a default clause).
func (f *fnTr) switchStmt(x *ast.SwitchStmt, em *emitter, inLoop bool) bool {
	if x.Init != nil || x.Tag == nil {
		f.bad(x, "switch with an init statement or without a tag")
	}
	tag := f.expr(x.Tag, "")
	if !isIntType(tag.typ) {
		f.bad(x, "switch on a %s", tag.typ)
	}
	if _, isIdent := x.Tag.(*ast.Ident); !isIdent {
		f.bad(x, "switch tag that is not a variable")
	}
	em.add(tag.pre...)
	var def *ast.CaseClause
	for _, st := range x.Body.List {
		cc, ok := st.(*ast.CaseClause)
		if !ok {
			f.bad(st, "switch body")
		}
		if cc.List == nil {
			def = cc
			continue
		}
		conds := []string{}
		for _, e := range cc.List {
			v := f.expr(e, tag.typ)
			if v.typ == "untyped" {
				v = f.convConst(e, v, tag.typ)
			}
			if v.typ != tag.typ || len(v.pre) > 0 {
				f.bad(e, "case of type %s in a switch on %s", v.typ, tag.typ)
			}
			if _, isConst := f.t.globals[strings.TrimPrefix(v.term, "Gen.v")]; v.cst == nil && !(isConst && strings.HasPrefix(v.term, "Gen.v")) {
				f.bad(e, "case that is not a constant")
			}
			conds = append(conds, "decide ("+tag.term+" = "+v.term+")")
		}
		f.clause(cc, em, inLoop, "if ("+strings.Join(conds, " || ")+") then (")
	}
	if def == nil {
		return false
	}
	sub := &emitter{indent: em.indent}
	saved := map[string]string{}
	for k, v := range f.vars {
		saved[k] = v
	}
	if !f.block(def.Body, sub, inLoop) {
		f.bad(def, "default clause that does not end in return")
	}
	for k := range f.vars {
		if _, ok := saved[k]; !ok {
			delete(f.vars, k)
			delete(f.origin, k)
		}
	}
	em.lines = append(em.lines, sub.lines...)
	return true
}

func (f *fnTr) clause(cc *ast.CaseClause, em *emitter, inLoop bool, header string) {
	for _, st := range cc.Body {
		if bs, ok := st.(*ast.BranchStmt); ok {
			f.bad(bs, "%s in a switch", bs.Tok)
		}
	}
	sub := &emitter{indent: em.indent + 1}
	saved := map[string]string{}
	for k, v := range f.vars {
		saved[k] = v
	}
	if !f.block(cc.Body, sub, inLoop) {
		f.bad(cc, "case clause that does not end in return")
	}
	for k := range f.vars {
		if _, ok := saved[k]; !ok {
			delete(f.vars, k)
			delete(f.origin, k)
		}
	}
	em.add(header)
	em.lines = append(em.lines, sub.lines...)
	em.add(") else")
}

func (f *fnTr) loopBody(body *ast.BlockStmt, em *emitter, state []string, header string, after string) {
	em.add(header)
	sub := &emitter{indent: em.indent + 2}
	saved := map[string]string{}
	for k, v := range f.vars {
		saved[k] = v
	}
	if f.block(body.List, sub, true) {
		f.bad(body, "loop body that always returns")
	}
	for k := range f.vars {
		if _, ok := saved[k]; !ok {
			delete(f.vars, k)
			delete(f.origin, k)
		}
	}
	sub.add("Go.pure " + tuple(state))
	em.lines = append(em.lines, sub.lines...)
	em.add(after)
}

func hasBranch(b *ast.BlockStmt) bool {
	found := false
	ast.Inspect(b, func(n ast.Node) bool {
		switch n.(type) {
		case *ast.BranchStmt, *ast.LabeledStmt, *ast.FuncLit, *ast.GoStmt, *ast.DeferStmt, *ast.SelectStmt, *ast.SwitchStmt, *ast.TypeSwitchStmt:
			found = true
		}
		return true
	})
	return found
}

// for i := A; i >= B; i-- { … }   (B a constant above the minimum int, so that i-- cannot wrap)
func (f *fnTr) forStmt(x *ast.ForStmt, em *emitter) {
	init, ok := x.Init.(*ast.AssignStmt)
	cond, ok2 := x.Cond.(*ast.BinaryExpr)
	post, ok3 := x.Post.(*ast.IncDecStmt)
	if !ok || !ok2 || !ok3 || init.Tok != token.DEFINE || len(init.Lhs) != 1 || len(init.Rhs) != 1 {
		f.bad(x, "for loop that is not `for i := a; i >= b; i--`")
	}
	iv, ok := init.Lhs[0].(*ast.Ident)
	cv, ok2 := cond.X.(*ast.Ident)
	pv, ok3 := post.X.(*ast.Ident)
	if !ok || !ok2 || !ok3 || iv.Name != cv.Name || iv.Name != pv.Name || cond.Op != token.GEQ || post.Tok != token.DEC {
		f.bad(x, "for loop that is not `for i := a; i >= b; i--`")
	}
	if hasBranch(x.Body) {
		f.bad(x, "break/continue/goto/closure/switch inside a loop")
	}
	hi := f.expr(init.Rhs[0], "int")
	if hi.typ == "untyped" {
		hi = f.convConst(x, hi, "int")
	}
	lo := f.expr(cond.Y, "int")
	if lo.typ != "untyped" || lo.cst.Cmp(new(big.Int).Neg(new(big.Int).Lsh(big.NewInt(1), 62))) < 0 {
		f.bad(x, "loop bound that is not a constant")
	}
	lo = f.convConst(x, lo, "int")
	if hi.typ != "int" {
		f.bad(x, "loop variable of type %s", hi.typ)
	}
	em.add(hi.pre...)
	state := f.assignedIn(x.Body)
	for _, s := range state {
		if s == iv.Name {
			f.bad(x, "loop body assigns the loop variable")
		}
	}
	f.declare(x, iv.Name, "int", "local")
	header := fmt.Sprintf("Go.bind (Go.forDown %s %s %s fun %s %s =>", hi.term, lo.term, tuple(state), leanId(iv.Name), tuple(state))
	f.loopBody(x.Body, em, state, header, ") fun "+tuple(state)+" =>")
	delete(f.vars, iv.Name)
	delete(f.origin, iv.Name)
}

func (f *fnTr) rangeStmt(x *ast.RangeStmt, em *emitter) {
	if x.Tok != token.DEFINE {
		f.bad(x, "range with =")
	}
	k, ok := x.Key.(*ast.Ident)
	v, ok2 := x.Value.(*ast.Ident)
	if !ok || !ok2 || k.Name == "_" || v.Name == "_" {
		f.bad(x, "range without both index and value variables")
	}
	if hasBranch(x.Body) {
		f.bad(x, "break/continue/goto/closure/switch inside a loop")
	}
	l := f.expr(x.X, "")
	if l.typ != "[]string" {
		f.bad(x, "range over %s", l.typ)
	}
	em.add(l.pre...)
	state := f.assignedIn(x.Body)
	if id, ok := x.X.(*ast.Ident); ok {
		for _, s := range state {
			if s == id.Name {
				f.bad(x, "loop body modifies the slice it ranges over")
			}
		}
	}
	f.declare(x, k.Name, "int", "local")
	f.declare(x, v.Name, "string", "local")
	for _, s := range state {
		if s == k.Name || s == v.Name {
			f.bad(x, "loop body assigns a range variable")
		}
	}
	header := fmt.Sprintf("Go.bind (Go.forRange %s %s fun %s %s %s =>", l.term, tuple(state), leanId(k.Name), leanId(v.Name), tuple(state))
	f.loopBody(x.Body, em, state, header, ") fun "+tuple(state)+" =>")
	for _, n := range []string{k.Name, v.Name} {
		delete(f.vars, n)
		delete(f.origin, n)
	}
}

// ---------------------------------------------------------------------------------------------

func (t *translator) translate(name string) (why string) {
	if r, ok := t.done[name]; ok {
		return r
	}
	t.done[name] = "recursive call" // until finished
	sig := t.funcs[name]
	f := &fnTr{t: t, sig: sig, imports: map[string]string{}, vars: map[string]string{}, origin: map[string]string{},
		noAlias: map[string]bool{}, deps: map[string]bool{}, order: map[string]int{}}
	defer func() {
		if r := recover(); r != nil {
			if e, ok := r.(trErr); ok {
				why = e.msg
				t.done[name] = why
				return
			}
			panic(r)
		}
	}()
	file := t.files[sig.file]
	for _, im := range file.Imports {
		p, _ := strconv.Unquote(im.Path.Value)
		local := p[strings.LastIndex(p, "/")+1:]
		if im.Name != nil {
			local = im.Name.Name
		}
		f.imports[local] = p
	}
	fd := sig.fd
	if fd.Body == nil {
		f.bad(fd, "function without body")
	}
	if fd.Type.TypeParams != nil {
		f.bad(fd, "generic function")
	}
	var params []string
	addParam := func(fl *ast.Field) {
		tn := normType(typeName(fl.Type))
		if tn == "" || tn == "error" || tn == "*big.Int" {
			f.bad(fl, "parameter of type %s", typeName(fl.Type))
		}
		if len(fl.Names) == 0 {
			f.bad(fl, "unnamed parameter")
		}
		for _, n := range fl.Names {
			f.declare(fl, n.Name, tn, "param")
			params = append(params, fmt.Sprintf("(%s : %s)", leanId(n.Name), leanType(tn)))
		}
	}
	if fd.Recv != nil {
		for _, fl := range fd.Recv.List {
			addParam(fl)
		}
	}
	for _, fl := range fd.Type.Params.List {
		addParam(fl)
	}
	if fd.Type.Results != nil {
		for _, fl := range fd.Type.Results.List {
			if len(fl.Names) > 0 {
				f.bad(fl, "named results")
			}
		}
	}
	em := &emitter{indent: 1}
	if !f.block(fd.Body.List, em, false) {
		f.bad(fd, "function body that does not end in return")
	}
	rt := "Unit"
	if len(sig.results) > 0 && sig.results[0] != "error" {
		rt = leanType(sig.results[0])
	}
	var sb strings.Builder
	for _, g := range f.gates {
		sb.WriteString(g + "\n")
	}
	fmt.Fprintf(&sb, "/-- %s (%s:%d) -/\n", name, sig.file, t.fset.Position(fd.Pos()).Line)
	if strings.Contains(rt, " ") {
		rt = "(" + rt + ")"
	}
	fmt.Fprintf(&sb, "def %s (W : Go.World) %s : Go.M %s :=\n", sig.lean, strings.Join(params, " "), rt)
	sb.WriteString(strings.Join(em.lines, "\n"))
	sb.WriteString("\n")
	t.out[name] = sb.String()
	deps := []string{}
	for d := range f.deps {
		deps = append(deps, d)
	}
	sort.Strings(deps)
	t.deps[name] = deps
	t.writes[name] = f.writes
	for v, o := range f.origin {
		if o == "param" && (f.vars[v] == "[]byte" || f.vars[v] == "[]string") {
			t.slicePar[name] = append(t.slicePar[name], v)
		}
	}
	sort.Strings(t.slicePar[name])
	t.done[name] = ""
	return ""
}

// newTranslator collects the package-level facts the function translation needs.
func newTranslator(fset *token.FileSet, files map[string]*ast.File, langConsts []string, problems *[]string) *translator {
	t := &translator{tables: map[string]bool{}, strConsts: map[string]*string{},fset: fset, files: files, globals: map[string]global{}, funcs: map[string]*funcSig{}, langCons: map[string]bool{},
		assigned: map[string]string{}, done: map[string]string{}, out: map[string]string{}, deps: map[string][]string{},
		writes: map[string][][2]string{}, slicePar: map[string][]string{}}
	for _, c := range langConsts {
		t.langCons[c] = true
		t.globals[c] = global{typ: "Language", term: "Gen.v" + c}
	}
	names := []string{}
	for rel := range files {
		names = append(names, rel)
	}
	sort.Strings(names)
	consts := newConstTable(files)
	errNames := map[string]string{"ErrWordLen": "Err.wordLen", "ErrEntropyLen": "Err.entropyLen", "ErrChecksumIncorrect": "Err.checksum"}
	for _, rel := range names {
		file := files[rel]
		imports := map[string]string{}
		for _, im := range file.Imports {
			p, _ := strconv.Unquote(im.Path.Value)
			local := p[strings.LastIndex(p, "/")+1:]
			if im.Name != nil {
				local = im.Name.Name
			}
			imports[local] = p
		}
		for _, d := range file.Decls {
			switch x := d.(type) {
			case *ast.FuncDecl:
				name := x.Name.Name
				lean := leanId(name)
				if r := recvName(x); r != "" {
					name = r + "." + name
					lean = leanId(r + "_" + x.Name.Name)
				}
				sig := &funcSig{name: name, lean: lean, fd: x, file: rel}
				for _, fl := range x.Type.Params.List {
					n := len(fl.Names)
					if n == 0 {
						n = 1
					}
					for i := 0; i < n; i++ {
						sig.params = append(sig.params, normType(typeName(fl.Type)))
					}
				}
				if x.Type.Results != nil {
					for _, fl := range x.Type.Results.List {
						sig.results = append(sig.results, normType(typeName(fl.Type)))
					}
				}
				t.funcs[name] = sig
			case *ast.GenDecl:
				if x.Tok != token.VAR && x.Tok != token.CONST {
					continue
				}
				for _, sp := range x.Specs {
					vs, ok := sp.(*ast.ValueSpec)
					if !ok || len(vs.Names) != 1 || len(vs.Values) != 1 {
						continue
					}
					name := vs.Names[0].Name
					if t.langCons[name] {
						continue
					}
					switch v := vs.Values[0].(type) {
					case *ast.CallExpr:
						se, ok := v.Fun.(*ast.SelectorExpr)
						if !ok {
							// const n = Language(len(_Language_index) - 1): a typed integer constant
							if x.Tok == token.CONST {
								if n, ok := consts.lookup(name); ok {
									t.globals[name] = global{typ: "const:" + consts.typ[name], term: n.String()}
								}
							}
							continue
						}
						pid, ok := se.X.(*ast.Ident)
						if !ok {
							continue
						}
						switch imports[pid.Name] + "." + se.Sel.Name {
						case "math/big.NewInt":
							if len(v.Args) == 1 && x.Tok == token.VAR {
								// the argument is an integer literal or an integer constant expression (consteval.go)
								if n, ok := consts.eval(v.Args[0]); ok && n.IsInt64() {
									t.globals[name] = global{typ: "*big.Int", lean: "Go.bigNewInt " + intLeanLit(n), term: leanId(name)}
								}
							}
						case "errors.New":
							if e, ok := errNames[name]; ok {
								t.globals[name] = global{typ: "error", term: e}
							}
						}
					case *ast.BasicLit:
						if v.Kind == token.STRING && x.Tok == token.CONST {
							if s, ok := strLit(v.Value); ok {
								t.globals[name] = global{typ: "string", lean: leanItems(items(s)), term: leanId(name)}
								sv := s
								t.strConsts[name] = &sv
							}
						}
						// const name = 11   /   const name int = 11   (named magic numbers)
						if v.Kind == token.INT && x.Tok == token.CONST {
							if n, ok := intLit(Lit{Kind: "INT", Val: v.Value}); ok {
								typ := "untyped"
								if vs.Type != nil {
									typ = normType(typeName(vs.Type))
								}
								if typ == "untyped" || typ == "int" || typ == "int64" || typ == "uint" {
									t.globals[name] = global{typ: "const:" + typ, term: n.String()}
								}
							}
						}
					case *ast.BinaryExpr, *ast.ParenExpr, *ast.UnaryExpr, *ast.Ident:
						// const name = 1<<wordIndexBits - 1   (a named magic number with its derivation)
						if x.Tok == token.CONST {
							if n, ok := consts.lookup(name); ok {
								t.globals[name] = global{typ: "const:" + consts.typ[name], term: n.String()}
							}
						}
					case *ast.CompositeLit:
						at, ok := v.Type.(*ast.ArrayType)
						if !ok || at.Len == nil || typeName(at.Elt) != "uint8" || x.Tok != token.VAR {
							continue
						}
						parts := []string{}
						good := true
						for _, e := range v.Elts {
							bl, ok := e.(*ast.BasicLit)
							if !ok || bl.Kind != token.INT {
								good = false
								break
							}
							n, ok := intLit(Lit{Kind: "INT", Val: bl.Value})
							if !ok || n.Sign() < 0 || n.Cmp(big.NewInt(255)) > 0 {
								good = false
								break
							}
							parts = append(parts, n.String())
						}
						if good {
							t.globals[name] = global{typ: fmt.Sprintf("[%d]uint8", len(parts)), lean: "[" + strings.Join(parts, ", ") + "]", term: leanId(name)}
						}
					case *ast.SelectorExpr:
						// cryptoRander = rand.Reader: only its identity matters (Gen/Source.lean)
						if name == "cryptoRander" {
							t.globals[name] = global{typ: "reader", term: "cryptoRander"}
						}
					}
				}
			}
		}
	}
	// assignments to, and mutation of, package-level identifiers anywhere in the package
	for _, rel := range names {
		for _, d := range files[rel].Decls {
			fd, ok := d.(*ast.FuncDecl)
			if !ok || fd.Body == nil {
				continue
			}
			where := rel + ":" + fd.Name.Name
			locals := map[string]bool{}
			ast.Inspect(fd, func(n ast.Node) bool {
				switch x := n.(type) {
				case *ast.Field:
					for _, nm := range x.Names {
						locals[nm.Name] = true
					}
				case *ast.AssignStmt:
					if x.Tok == token.DEFINE {
						for _, l := range x.Lhs {
							if id, ok := l.(*ast.Ident); ok {
								locals[id.Name] = true
							}
						}
					}
				case *ast.ValueSpec:
					for _, nm := range x.Names {
						locals[nm.Name] = true
					}
				case *ast.RangeStmt:
					for _, e := range []ast.Expr{x.Key, x.Value} {
						if id, ok := e.(*ast.Ident); ok && x.Tok == token.DEFINE {
							locals[id.Name] = true
						}
					}
				}
				return true
			})
			mark := func(e ast.Expr) {
				for {
					switch y := e.(type) {
					case *ast.IndexExpr:
						e = y.X
						continue
					case *ast.StarExpr:
						e = y.X
						continue
					case *ast.ParenExpr:
						e = y.X
						continue
					}
					break
				}
				if id, ok := e.(*ast.Ident); ok && !locals[id.Name] {
					if _, g := t.globals[id.Name]; g {
						t.assigned[id.Name] = where
					}
				}
			}
			ast.Inspect(fd.Body, func(n ast.Node) bool {
				switch x := n.(type) {
				case *ast.AssignStmt:
					if x.Tok != token.DEFINE {
						for _, l := range x.Lhs {
							mark(l)
						}
					}
				case *ast.IncDecStmt:
					mark(x.X)
				case *ast.UnaryExpr:
					if x.Op == token.AND {
						mark(x.X)
					}
				}
				return true
			})
		}
	}
	// a package-level *big.Int may only ever be READ: every mention outside its declaration must be a
	// plain argument of one of the big.Int methods below (which never modify their arguments)
	readOnlyArg := map[string]bool{"And": true, "Quo": true, "Add": true, "Cmp": true, "Sub": true, "Mul": true, "Rem": true, "Or": true, "Xor": true, "Set": true}
	for _, rel := range names {
		for _, d := range files[rel].Decls {
			fd, ok := d.(*ast.FuncDecl)
			if !ok || fd.Body == nil {
				continue
			}
			where := rel + ":" + fd.Name.Name
			okUse := map[*ast.Ident]bool{}
			ast.Inspect(fd.Body, func(n ast.Node) bool {
				if c, ok := n.(*ast.CallExpr); ok {
					if se, ok := c.Fun.(*ast.SelectorExpr); ok && readOnlyArg[se.Sel.Name] {
						for _, a := range c.Args {
							if id, ok := a.(*ast.Ident); ok {
								okUse[id] = true
							}
						}
					}
				}
				return true
			})
			shadow := map[string]bool{}
			ast.Inspect(fd, func(n ast.Node) bool {
				switch x := n.(type) {
				case *ast.Field:
					for _, nm := range x.Names {
						shadow[nm.Name] = true
					}
				case *ast.AssignStmt:
					if x.Tok == token.DEFINE {
						for _, l := range x.Lhs {
							if id, ok := l.(*ast.Ident); ok {
								shadow[id.Name] = true
							}
						}
					}
				}
				return true
			})
			ast.Inspect(fd.Body, func(n ast.Node) bool {
				if id, ok := n.(*ast.Ident); ok && !okUse[id] && !shadow[id.Name] {
					if g, isG := t.globals[id.Name]; isG && g.typ == "*big.Int" {
						t.assigned[id.Name] = where + " (used other than as a read-only argument)"
					}
				}
				return true
			})
		}
	}
	_ = problems
	return t
}

// codeLean renders Gen/Code/*.lean for the given roots (and what they call).  Returns file name ->
// content, and root -> "" | reason.
func (t *translator) codeLean(roots []string) (map[string]string, map[string]string) {
	status := map[string]string{}
	for _, r := range roots {
		if _, ok := t.funcs[r]; !ok {
			status[r] = "function not found"
			continue
		}
		status[r] = t.translate(r)
	}
	for n, why := range t.done {
		status[n] = why
	}
	gen := map[string]string{}
	// globals
	var sb strings.Builder
	sb.WriteString("-- GENERATED by go/cmd/extract (translate.go): package-level values used by the translated functions — do not edit\n")
	sb.WriteString("import Bip39V.Model.GoSem\nnamespace Bip39V.Gen.Code\nopen Bip39V\n\n")
	gn := []string{}
	for n, g := range t.globals {
		if g.lean != "" {
			gn = append(gn, n)
		}
	}
	sort.Strings(gn)
	for _, n := range gn {
		g := t.globals[n]
		ty := "Int"
		switch {
		case g.typ == "string":
			ty = "Str"
		case strings.HasSuffix(g.typ, "]uint8"):
			ty = "List Int"
		}
		mut := ""
		if w, ok := t.assigned[n]; ok {
			mut = "  -- ASSIGNED in " + w + ": no translated function may use it"
		}
		fmt.Fprintf(&sb, "def %s : %s := %s%s\n", leanId(n), ty, g.lean, mut)
	}
	sb.WriteString("\nend Bip39V.Gen.Code\n")
	gen["Code/Globals.lean"] = sb.String()
	all := []string{}
	for n := range t.funcs {
		all = append(all, n)
	}
	sort.Strings(all)
	for _, n := range all {
		why, tried := t.done[n]
		if !tried {
			continue
		}
		sig := t.funcs[n]
		fileName := "Code/" + strings.ReplaceAll(n, ".", "_") + ".lean"
		var fb strings.Builder
		fmt.Fprintf(&fb, "-- GENERATED by go/cmd/extract (translate.go) from %s — do not edit\n", sig.file)
		fb.WriteString("import Bip39V.Gen.Code.Globals\nimport Bip39V.Gen.Lang\n")
		if why == "" {
			for _, d := range t.deps[n] {
				fmt.Fprintf(&fb, "import Bip39V.Gen.Code.%s\n", strings.ReplaceAll(d, ".", "_"))
			}
		}
		fb.WriteString("set_option linter.unusedVariables false\nnamespace Bip39V.Gen.Code\nopen Bip39V\n\n")
		if why == "" {
			fb.WriteString(t.out[n])
		} else {
			fmt.Fprintf(&fb, "-- NOT TRANSLATED: %s\n-- (no definition is emitted; every theorem about `%s` fails to build)\n", commentSafe(why), sig.lean)
		}
		fb.WriteString("\nend Bip39V.Gen.Code\n")
		gen[fileName] = fb.String()
	}
	// every write through a slice in the translated functions, and their slice parameters (C13: the
	// caller's slices are never written)
	{
		var wb strings.Builder
		wb.WriteString("-- GENERATED by go/cmd/extract (translate.go): the statements of the translated functions that write through a slice — do not edit\n")
		wb.WriteString("namespace Bip39V.Gen.Code\n\n")
		wb.WriteString("/-- (function, target, origin of the target): `make` = a buffer the function allocated itself with make,\n`fresh` = a value no variable refers to (`make(…)` written in place as an argument), anything else = not its own -/\n")
		wb.WriteString("def sliceWrites : List (String × String × String) := [")
		first := true
		for _, n := range all {
			if why, tried := t.done[n]; !tried || why != "" {
				continue
			}
			for _, w := range t.writes[n] {
				if !first {
					wb.WriteString(", ")
				}
				first = false
				fmt.Fprintf(&wb, "(%q, %q, %q)", n, w[0], w[1])
			}
		}
		wb.WriteString("]\n\n/-- (function, parameter): the parameters of slice type -/\ndef sliceParams : List (String × String) := [")
		first = true
		for _, n := range all {
			if why, tried := t.done[n]; !tried || why != "" {
				continue
			}
			for _, v := range t.slicePar[n] {
				if !first {
					wb.WriteString(", ")
				}
				first = false
				fmt.Fprintf(&wb, "(%q, %q)", n, v)
			}
		}
		wb.WriteString("]\n\nend Bip39V.Gen.Code\n")
		gen["Code/Writes.lean"] = wb.String()
	}
	return gen, status
}
