// Command unitables writes the pinned Unicode tables (lean/Bip39V/Unicode/Tables.lean) from the
// tables of golang.org/x/text/unicode/norm itself (Unicode 15.0.0 at v0.14.0): the full
// compatibility decomposition of every non-Hangul code point, the canonical combining classes,
// and the starters that x/text treats as combining backwards (for the stream-safe condition).
// Run once; the output is committed and cross-checked against python's unicodedata by
// tools/unicheck.py.
package main

import (
	"fmt"
	"math/big"
	"os"
	"sort"
	"strings"

	"golang.org/x/text/unicode/norm"
)

type kv struct {
	k int
	v *big.Int
}

func tree(sb *strings.Builder, xs []kv) {
	if len(xs) == 0 {
		sb.WriteString(".L")
		return
	}
	m := len(xs) / 2
	sb.WriteString("(.N ")
	tree(sb, xs[:m])
	fmt.Fprintf(sb, " %d %s ", xs[m].k, xs[m].v.String())
	tree(sb, xs[m+1:])
	sb.WriteString(")")
}

func main() {
	out := "/verif/lean/Bip39V/Unicode/Tables.lean"
	if len(os.Args) > 1 {
		out = os.Args[1]
	}
	var dec, ccc []kv
	var back []int
	for r := rune(0); r <= 0x10FFFF; r++ {
		if r >= 0xD800 && r <= 0xDFFF {
			continue
		}
		s := string(r)
		p := norm.NFKD.PropertiesString(s)
		if c := p.CCC(); c != 0 {
			ccc = append(ccc, kv{int(r), big.NewInt(int64(c))})
		}
		if r >= 0xAC00 && r <= 0xD7A3 {
			continue // Hangul syllables: algorithmic
		}
		d := norm.NFKD.String(s)
		if d != s {
			n := big.NewInt(1)
			for _, c := range d {
				n.Lsh(n, 21)
				n.Add(n, big.NewInt(int64(c)))
			}
			dec = append(dec, kv{int(r), n})
		} else if p.CCC() == 0 && !p.BoundaryBefore() {
			back = append(back, int(r))
		}
	}
	sort.Slice(dec, func(i, j int) bool { return dec[i].k < dec[j].k })
	var sb strings.Builder
	sb.WriteString("-- PINNED: written once by go/cmd/unitables from golang.org/x/text v0.14.0 (Unicode " + norm.Version + ") — do not edit\n")
	sb.WriteString("import Bip39V.Basic.Tree\nset_option maxRecDepth 1000000\nnamespace Bip39V.Unicode\n")
	fmt.Fprintf(&sb, "/-- full compatibility decomposition (packed items) of the %d non-Hangul code points that have one -/\ndef decompTree : T :=\n  ", len(dec))
	tree(&sb, dec)
	fmt.Fprintf(&sb, "\n/-- canonical combining class of the %d code points where it is not 0 -/\ndef cccTree : T :=\n  ", len(ccc))
	tree(&sb, ccc)
	fmt.Fprintf(&sb, "\n/-- the %d starters with identity decomposition that x/text does not treat as a boundary (they combine backwards) -/\ndef backwardStarters : List Nat := [", len(back))
	for i, b := range back {
		if i > 0 {
			sb.WriteString(", ")
		}
		fmt.Fprintf(&sb, "%d", b)
	}
	sb.WriteString("]\nend Bip39V.Unicode\n")
	if err := os.WriteFile(out, []byte(sb.String()), 0o644); err != nil {
		panic(err)
	}
	fmt.Printf("unitables: %d decompositions, %d ccc, %d backward starters (Unicode %s)\n", len(dec), len(ccc), len(back), norm.Version)
}
